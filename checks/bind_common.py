"""Shared machinery of the native Rust-binding checks C05, C06, C07 (harness/bind-native).

Pipeline (see harness/bind-native/README.md):
  worlds (tools/witgen.py, seeded) --emitter (real generator in-process, hook H3)--> batch crate
  --cargo build--> batch binary (line server, ledger allocator)  <--python-->  m_host (Lean spec host)
"""
import os, sys, json, subprocess, hashlib, random, time, shutil
from vlib import VERIF, REPO, BUILD, HARNESS, LEAN, sh

sys.path.insert(0, os.path.join(VERIF, "tools"))
import witgen, abivals

BIND = os.path.join(BUILD, "bind")
BIND_TARGET = os.path.join(BUILD, "bind-target")
P = 8  # native pointer width

OWN = ["owning", "borrowing", "dup"]


def config_str(own="owning", std=0, merge=0, map="btree", raw=0):
    return f"own={own},std={std},merge={merge},map={map},raw={raw}"


def random_config(rng):
    return config_str(rng.choice(OWN), rng.randint(0, 1), rng.randint(0, 1), rng.choice(["btree", "hash"]), rng.randint(0, 1))


# ---------------------------------------------------------------------------------- terms

def parse(s):
    return abivals.parse(s)


def show(t):
    if isinstance(t, str):
        return t
    return "(" + " ".join(show(x) for x in t) + ")"


def canon(v, t):
    """canonical form of value tree v of type tree t: strings as (s …) even when the Rust side printed a
    byte list (raw_strings), maps as key-sorted last-wins entry lists"""
    if isinstance(t, str):
        if t == "string" and v[0] == "l":
            return ["s"] + [x[1] for x in v[1:]]
        return v
    k = t[0]
    if k == "list" or k == "flist":
        return ["l"] + [canon(x, t[1]) for x in v[1:]]
    if k == "map":
        d = {}
        for e in v[1:]:
            kk = canon(e[1], t[1])
            d[show(kk)] = ["r", kk, canon(e[2], t[2])]
        return ["l"] + [d[x] for x in sorted(d)]
    if k in ("record", "tuple"):
        return ["r"] + [canon(x, ft) for x, ft in zip(v[1:], t[1:])]
    if k == "variant":
        i = int(v[1])
        return v if len(v) == 2 else ["var", v[1], canon(v[2], t[1 + i])]
    if k == "option":
        return v if len(v) == 2 else ["var", v[1], canon(v[2], t[1])]
    if k == "result":
        i = int(v[1])
        return v if len(v) == 2 else ["var", v[1], canon(v[2], t[1 + i])]
    return v


def canon_str(term, ty):
    return show(canon(parse(term), parse(ty)))


# ---------------------------------------------------------------------------------- processes

class Proc:
    def __init__(self, cmd, env=None):
        self.cmd, self.env = cmd, env
        self.start()

    def start(self):
        e = dict(os.environ)
        if self.env: e.update(self.env)
        self.p = subprocess.Popen(self.cmd, stdin=subprocess.PIPE, stdout=subprocess.PIPE, stderr=subprocess.DEVNULL,
                                  text=True, bufsize=1, env=e)

    def send(self, line):
        try:
            self.p.stdin.write(line + "\n")
            self.p.stdin.flush()
        except BrokenPipeError:
            pass

    def recv(self):
        l = self.p.stdout.readline()
        if l == "":
            return None
        return l.rstrip("\n")

    def rq(self, line):
        self.send(line)
        return self.recv()

    def close(self):
        try:
            self.p.stdin.close()
            self.p.wait(timeout=5)
        except Exception:
            self.p.kill()


class Crash(Exception):
    pass


# ---------------------------------------------------------------------------------- batch build

def worlds_spec(items):
    """items: list of (config string, wit text) -> spec text"""
    return "".join(f"{k} {cfg} {wit.encode().hex()}\n" for k, (cfg, wit) in enumerate(items))


class Batch:
    """one emitted + compiled batch crate"""

    def __init__(self, c, name, items):
        self.c, self.name, self.items = c, name, items
        self.dir = os.path.join(BIND, name)
        self.manifest, self.status = [], {}
        self.binary = None
        self.build_s = 0.0
        self.compile_errors = ""

    def emit(self, emitter):
        os.makedirs(self.dir, exist_ok=True)
        spec = worlds_spec(self.items)
        sp = os.path.join(self.dir, "spec.txt")
        old = open(sp).read() if os.path.exists(sp) else None
        if old != spec:
            open(sp, "w").write(spec)
        rc, out = sh([emitter, "emit", self.dir, sp], timeout=600, env={"VERIF_REPO": REPO, "VERIF_ROOT": VERIF})
        if rc != 0:
            self.c.broken.append((f"bind-native emit {self.name}", out[-2000:]))
            return False
        self.manifest = [json.loads(l) for l in open(os.path.join(self.dir, "manifest.jsonl")) if l.strip()]
        for m in self.manifest:
            if m["dir"] == "item":
                self.status[m["item"]] = m
        return True

    def build(self):
        t0 = time.time()
        mut = os.environ.get("VERIF_BIND_MUTATE")
        if mut:
            # test facility (README "checking the checks"): a sed script applied to the generated bindings
            # before compilation = a property-breaking edit of the generator's output, without touching /repo
            for f in sorted(os.listdir(os.path.join(self.dir, "src"))):
                if f.startswith("w") and f.endswith(".rs"):
                    sh(["sed", "-i", "-E", mut, os.path.join(self.dir, "src", f)])
        env = {"CARGO_TARGET_DIR": BIND_TARGET, "RUSTFLAGS": ""}
        os.makedirs(BIND_TARGET, exist_ok=True)
        import fcntl
        # the target directory (and its `debug/bn-batch`) is shared by all batches of all checks: build AND copy
        # the binary out while holding our own lock (cargo's lock is released when cargo exits)
        with open(os.path.join(BUILD, "bind-target.lock"), "w") as lk:
            fcntl.flock(lk, fcntl.LOCK_EX)
            rc, out = 1, ""
            for attempt in (1, 2):
                try:
                    rc, out = sh(["cargo", "build", "--offline", "--quiet"], cwd=self.dir, timeout=3000, env=env)
                    break
                except subprocess.TimeoutExpired:
                    rc, out = 1, "cargo build of the batch crate timed out"
                    self.c.notes.append(f"batch {self.name}: cargo build timed out (attempt {attempt})")
            self.build_s = time.time() - t0
            if rc != 0:
                self.compile_errors = out
                return False
            src = os.path.join(BIND_TARGET, "debug", "bn-batch")
            dst = os.path.join(self.dir, "bn-batch")
            shutil.copy2(src, dst)
        self.binary = dst
        return True

    def failing_items(self):
        """indices of items whose module shows up in rustc's error locations"""
        import re
        bad = set()
        for m in re.finditer(r"--> src/w(\d+)\.rs", self.compile_errors):
            bad.add(int(m.group(1)))
        return bad

    def funcs(self, direction):
        return [m for m in self.manifest if m["dir"] == direction]


def build_batches(c, name, items, emitter, max_retries=3):
    """emit + build; items whose generated Rust does not compile are dropped (recorded) and the
    batch is rebuilt.  Returns (batch or None, dropped: {idx: first error line})"""
    dropped = {}
    live = list(items)
    index_map = list(range(len(items)))
    for attempt in range(max_retries + 1):
        b = Batch(c, name, live)
        if not b.emit(emitter):
            return None, dropped
        if b.build():
            b.index_map = index_map
            return b, dropped
        bad = b.failing_items()
        if not bad:
            c.broken.append((f"bind-native build {name}", b.compile_errors[-3000:]))
            return None, dropped
        import re
        for k in bad:
            # the first error whose primary span lies in this item: message + the span rustc prints
            m = re.search(r"(error[^\n]*\n\s*--> src/w%d\.rs[^\n]*\n(?:[^\n]*\n){0,8})" % k, b.compile_errors)
            dropped[index_map[k]] = (m.group(1) if m else "error")[:900]
        live = [it for k, it in enumerate(live) if k not in bad]
        index_map = [i for k, i in enumerate(index_map) if k not in bad]
    c.broken.append((f"bind-native build {name}", "still failing after dropping items: " + b.compile_errors[-2000:]))
    return None, dropped


# ---------------------------------------------------------------------------------- host images

def parse_image(ans):
    """m_host `ok indirect= flat= ptrs= blocks= slots=` -> dict"""
    if not ans.startswith("ok "):
        raise ValueError("host: " + ans)
    d = {}
    for kv in ans[3:].split(" "):
        k, v = kv.split("=", 1)
        d[k] = v
    flat = [] if d["flat"] == "-" else [int(x) for x in d["flat"].split(",")]
    ptrs = [] if d["ptrs"] == "-" else [c == "1" for c in d["ptrs"]]
    blocks = []
    if d["blocks"] != "-":
        for b in d["blocks"].split(";"):
            a, s, al, h = b.split(":")
            blocks.append({"addr": int(a), "size": int(s), "align": int(al), "bytes": bytearray() if h == "-" else bytearray.fromhex(h)})
    slots = [] if d["slots"] == "-" else [int(x) for x in d["slots"].split(",")]
    return {"indirect": d["indirect"] == "1", "flat": flat, "ptrs": ptrs, "blocks": blocks, "slots": slots}


def target_of(im, ptr, length):
    """relocation target of a model pointer: block index, or dangling"""
    if length == 0:
        for b in im["blocks"]:
            if b["addr"] == ptr and b["size"] == 0:
                return "d%d" % max(1, b["align"])
        return "d1"
    for k, b in enumerate(im["blocks"]):
        if b["addr"] == ptr and b["size"] > 0:
            return "b%d" % k
    raise ValueError(f"pointer {ptr} (len {length}) does not point to a block of the image")


def hostmem_request(im, root_at=None):
    """HOSTMEM request for an image; zero-sized blocks are not allocated.  Returns (request, kept indices)"""
    relocs = {k: [] for k in range(len(im["blocks"]))}
    for s in im["slots"]:
        for k, b in enumerate(im["blocks"]):
            if b["size"] > 0 and b["addr"] <= s and s + 2 * P <= b["addr"] + b["size"]:
                off = s - b["addr"]
                ptr = int.from_bytes(b["bytes"][off:off + P], "little")
                ln = int.from_bytes(b["bytes"][off + P:off + 2 * P], "little")
                relocs[k].append((off, target_of(im, ptr, ln)))
                break
        else:
            raise ValueError(f"slot {s} is in no block")
    kept = [k for k, b in enumerate(im["blocks"]) if b["size"] > 0]
    renum = {k: i for i, k in enumerate(kept)}
    specs = []
    for k in kept:
        b = im["blocks"][k]
        rs = "/".join(f"{o}:{('b%d' % renum[int(t[1:])]) if t[0] == 'b' else t}" for o, t in relocs[k])
        at = str(root_at) if (root_at is not None and k == 0) else ""
        specs.append(f"{b['size']},{b['align']},{bytes(b['bytes']).hex()},{rs},{at}")
    return "HOSTMEM|" + ";".join(specs), kept


def place_image(native, im, root_at=None):
    """allocate/write the image in the guest process; returns (flat bits relocated, host blocks [(addr,size,align)])"""
    req, kept = hostmem_request(im, root_at)
    addrs = []
    if kept:
        ans = native.rq(req)
        if ans is None: raise Crash("HOSTMEM")
        if not ans.startswith("ok|"): raise ValueError("native: " + ans)
        addrs = [int(x) for x in ans.split("|")[1].split(",")]
    amap = {k: a for k, a in zip(kept, addrs)}
    flat = list(im["flat"])
    for i, isptr in enumerate(im["ptrs"]):
        if isptr:
            ln = flat[i + 1] if i + 1 < len(flat) and not im["indirect"] else 1
            if im["indirect"]:
                flat[i] = amap[0]
            else:
                t = target_of(im, flat[i], ln)
                flat[i] = amap[int(t[1:])] if t[0] == "b" else int(t[1:])
    hostblocks = [(amap[k], im["blocks"][k]["size"], im["blocks"][k]["align"]) for k in kept
                  if not (root_at is not None and k == 0)]
    return flat, hostblocks


# ---------------------------------------------------------------------------------- reports

def parse_report(fields):
    """fields after `ret|bits|`: obs= allocs= frees= errs= notes="""
    d = {}
    for f in fields:
        k, _, v = f.partition("=")
        d[k] = v
    obs = {}
    for o in [x for x in d.get("obs", "").split(";") if x]:
        k, _, t = o.partition("=")
        obs.setdefault(k, []).append(t)
    allocs = []
    for a in [x for x in d.get("allocs", "").split(",") if x]:
        ad, s, al, tag, live, idx = a.split(":")
        allocs.append({"addr": int(ad), "size": int(s), "align": int(al), "tag": tag, "live": live == "1", "idx": int(idx)})
    frees = []
    for a in [x for x in d.get("frees", "").split(",") if x]:
        ad, s, al, tag, by, old, idx = a.split(":")
        frees.append({"addr": int(ad), "size": int(s), "align": int(al), "tag": tag, "by": by, "old": old == "1", "idx": int(idx)})
    errs = [x for x in d.get("errs", "").split(",") if x]
    notes = [x for x in d.get("notes", "").split(";") if x]
    return {"obs": obs, "allocs": allocs, "frees": frees, "errs": errs, "notes": notes}


def read_mem(native, regions):
    ans = native.rq("READ|" + ";".join(f"{a},{n}" for a, n in regions))
    if ans is None: raise Crash("READ")
    f = ans.split("|")
    hexes = f[1].split(";") if f[1] else []
    lives = f[2].split(";") if len(f) > 2 and f[2] else []
    return hexes, [x == "1" for x in lives]


def lift_loop(native, host, request_prefix, max_rounds=12):
    """`liftargs|…`/`liftresult|…` with the need-more-memory protocol.
    Returns (value term | None for trap, blocks [(addr,size,align)], dump {addr: hex}, liveness {(addr,len): bool})"""
    dump, live = {}, {}
    for _ in range(max_rounds):
        ds = ";".join(f"{a}:{h}" for a, h in dump.items() if h) or "-"
        ans = host.rq(request_prefix + "|" + ds)
        if ans is None: raise Crash("m_host died")
        if ans.startswith("need "):
            regs = [tuple(int(x) for x in r.split(",")) for r in ans[5:].split(";")]
            hexes, lives = read_mem(native, regs)
            for (a, n), h, lv in zip(regs, hexes, lives):
                if h == "unreadable":
                    return None, [], dump, live
                dump[a] = h
                live[(a, n)] = lv
            continue
        if ans == "trap":
            return None, [], dump, live
        if ans.startswith("ok "):
            val, _, bl = ans[3:].partition("|blocks=")
            blocks = [] if bl in ("-", "") else [tuple(int(x) for x in b.split(":")) for b in bl.split(",")]
            return val, blocks, dump, live
        raise ValueError("m_host: " + ans)
    raise ValueError("lift did not converge")


# ---------------------------------------------------------------------------------- one call

class Runner:
    """drives one batch binary against the Lean host; records per-call outcomes"""

    def __init__(self, native_path, host_path):
        self.native = Proc([native_path])
        self.host = Proc([host_path])
        self.import_handler = None   # for intrinsic events (C07)
        self.event_handler = None    # for EVENT lines (C07)

    def close(self):
        self.native.send("QUIT")
        self.native.close()
        self.host.close()

    def restart_native(self):
        try:
            self.native.p.kill()
        except Exception:
            pass
        self.native.start()

    flags_mode = "zext"

    def rust_observe(self, ty, val):
        """model of the code (RustProfile.rustObserve): the value Rust code observes when the host sends val"""
        ans = self.host.rq(f"rustobserve|{self.flags_mode}|{ty}|{val}")
        if ans is None: raise Crash("m_host died")
        return ans[3:] if ans.startswith("ok ") else None

    def export_call(self, m, vals, ret):
        """m: manifest entry (dir=export).  vals: list of value terms, ret: value term or None.
        Returns dict with everything observed."""
        out = {"key": m["key"], "kind": "export", "vals": vals, "ret": ret}
        host, native = self.host, self.native
        ans = host.rq(f"args|{P}|{m['func']}|(r{''.join(' ' + v for v in vals)})")
        if ans is None: raise Crash("m_host died")
        im = parse_image(ans)
        out["host_indirect"] = im["indirect"]
        out["model_observed"] = self.rust_observe(params_ty(m), vals_term(vals))
        out["ledger_model"] = host.rq(f"ledger|{P}|{m['func']}|{vals_term(vals)}|{ret if ret is not None else '_'}")
        r = native.rq(f"SCRIPT|{m['key']}|{ret if ret is not None else '(r)'}")
        if r is None: raise Crash("SCRIPT")
        flat, hostblocks = place_image(native, im)
        out["hostblocks"] = hostblocks
        out["flat_args"] = flat
        native.send(f"CALL|{m['key']}|{','.join(str(x) for x in flat)}")
        ans = self.await_final(out)
        f = ans.split("|")
        if f[0] != "ret":
            out["error"] = ans
            return out
        out["ret_bits"] = f[1]
        rep = parse_report(f[2:])
        out["call_report"] = rep
        obs = rep["obs"].get(m["key"], [])
        out["observed"] = obs[0] if len(obs) == 1 else None
        out["observed_count"] = len(obs)
        if m["result"] is not None:
            bits = f[1]
            val, blocks, dump, live = lift_loop(native, host, f"liftresult|{P}|{m['result']}|{bits}")
            out["lifted"] = val
            out["result_blocks"] = blocks
            out["result_dump"] = dump
            out["result_live"] = live
        if m.get("post"):
            # model of the code: what the generated post-return frees, from the memory the guest produced
            if m["result"] is not None and out.get("lifted") is not None:
                ds = ";".join(f"{a}:{h}" for a, h in out["result_dump"].items() if h) or "-"
                out["postfrees_model"] = host.rq(f"postfrees|{P}|{m['func']}|{f[1]}|{ds}")
            native.send(f"POST|{m['key']}|{f[1]}")
            ans = self.await_final(out)
            pf = ans.split("|")
            if pf[0] != "ret":
                out["error"] = ans
                return out
            out["post_report"] = parse_report(pf[2:])
        return out

    def await_final(self, out):
        """read lines until the final answer; IMPORT events are dispatched to the handler"""
        while True:
            l = self.native.recv()
            if l is None: raise Crash("native died")
            if l.startswith("EVENT|"):
                # guest-side observation that keeps its place among the import events (payload created/taken/dropped)
                if self.event_handler is not None:
                    self.event_handler(l[6:], out)
                else:
                    out.setdefault("events", []).append(l[6:])
                continue
            if l.startswith("IMPORT|"):
                _, key, bits = l.split("|")
                bits = [int(x) for x in bits.split(",")] if bits else []
                self.on_import(key, bits, out)
                continue
            return l

    def on_import(self, key, bits, out):
        h = out.get("import_handler") or self.import_handler
        if h is None:
            out.setdefault("unexpected_imports", []).append(key)
            self.native.send("RETURN|0")
            return
        h(key, bits, out)

    def import_call(self, m, vals, ret, before_return=None, keep=False):
        """m: manifest entry (dir=import): drive the generated safe wrapper with `vals`; the host
        (this process + m_host) lifts the arguments, and answers with `ret`."""
        out = {"key": m["key"], "kind": "import", "vals": vals, "ret": ret}
        host, native = self.host, self.native

        def handler(key, bits, out):
            if key != m["key"]:
                if self.import_handler is not None:
                    self.import_handler(key, bits, out)
                else:
                    out.setdefault("unexpected_imports", []).append(key)
                    native.send("RETURN|0")
                return
            out["import_bits"] = bits
            out["import_events"] = out.get("import_events", 0) + 1
            argbits = bits[:-1] if m["retptr"] else bits
            val, blocks, dump, live = lift_loop(native, host, f"liftargs|{P}|{m['func']}|{','.join(str(b) for b in argbits) or '-'}")
            out["lifted_args"] = val
            out["arg_blocks"] = blocks
            out["arg_live"] = live
            retbits = 0
            if m["result"] is not None:
                ans = host.rq(f"result|{P}|{m['result']}|{ret}")
                if ans is None: raise Crash("m_host died")
                im = parse_image(ans)
                out["host_indirect"] = im["indirect"]
                if im["indirect"]:
                    retptr = bits[-1]
                    flat, hostblocks = place_image(native, im, root_at=retptr)
                else:
                    flat, hostblocks = place_image(native, im)
                    retbits = flat[0] if flat else 0
                out["hostblocks"] = hostblocks
            if before_return is not None:
                before_return(out)
            native.send(f"RETURN|{retbits}")

        out["import_handler"] = handler
        if m["result"] is not None:
            out["model_returned"] = self.rust_observe(m["result"], ret)
        out["ledger_model"] = host.rq(f"ledger-import|{P}|{m['func']}|{vals_term(vals)}|{ret if ret is not None else '_'}")
        native.send(f"DRIVE|{m['key']}|(r{''.join(' ' + v for v in vals)})" + ("|keep" if keep else ""))
        ans = self.await_final(out)
        del out["import_handler"]
        f = ans.split("|")
        if f[0] != "ret":
            out["error"] = ans
            return out
        out["returned"] = f[1]
        if " #" in f[1]:
            out["returned"], _, st = f[1].rpartition(" #")
            out["stash"] = int(st)
        elif f[1].startswith("#"):
            out["returned"], out["stash"] = "", int(f[1][1:])
        out["call_report"] = parse_report(f[2:])
        return out


# ---------------------------------------------------------------------------------- world generation

# features of tools/witgen.py usable here: no async, no future/stream (their Rust types need the async
# runtime), error-context likewise.
BASE_FEATURES = {"map", "flist", "bigflags"}


NUMERIC = ["u8", "s8", "u16", "s16", "u32", "s32", "u64", "s64", "f32", "f64"]


WIDTHS = ["u8", "s8", "u16", "s16", "u32", "s32", "u64", "s64", "f32", "f64"]


def mixed_tuple(rng):
    """tuple of 3-4 numeric fields of different widths (the shapes whose Rust layout differs from the canonical one)"""
    n = rng.choice([3, 3, 4])
    while True:
        fs = [rng.choice(WIDTHS) for _ in range(n)]
        if len({f[1:] for f in fs}) >= 2: break
    return "tuple<" + ", ".join(fs) + ">"


def canon_boundary_elem(rng, g, resource=False):
    """element type on the boundary of the canonical-list rule (`is_list_canonical`): all-bits-valid shapes with and
    without a tuple / handle *somewhere inside* (record field, nested record, fixed-length list, alias)"""
    k = rng.choice(["rec-tuple", "flist-tuple", "alias-tuple", "nested-rec-tuple", "rec-plain", "flist-plain",
                    "nested-rec-plain", "tuple", "rec-flist-tuple"] + (["rec-handle"] if resource else []))
    g.count("canon-boundary:" + k)
    def rec(fields):
        name = g.fresh("r")
        g.defs.append((name, f"record {name} {{ " + ", ".join(f"f{i}: {t}" for i, t in enumerate(fields)) + " }"))
        return name
    num = lambda: rng.choice(WIDTHS)
    if k == "rec-tuple": return rec([num(), mixed_tuple(rng)])
    if k == "flist-tuple": return f"list<{mixed_tuple(rng)}, {rng.choice([1, 2, 3])}>"
    if k == "alias-tuple":
        name = g.fresh("t")
        g.defs.append((name, f"type {name} = {mixed_tuple(rng)}"))
        if rng.random() < 0.5:
            n2 = g.fresh("t")
            g.defs.append((n2, f"type {n2} = {name}"))
            return n2
        return name
    if k == "nested-rec-tuple": return rec([num(), rec([mixed_tuple(rng), num()])])
    if k == "rec-flist-tuple": return rec([f"list<{mixed_tuple(rng)}, 2>", num()])
    if k == "rec-plain": return rec([num(), num(), num()])
    if k == "flist-plain": return f"list<{num()}, {rng.choice([1, 2, 3, 5])}>"
    if k == "nested-rec-plain": return rec([num(), rec([num(), f"list<{num()}, 2>"]), num()])
    if k == "rec-handle": return rec([num(), "res"])
    return mixed_tuple(rng)


def gen_iface(rng, name, nfuncs, features, max_depth, max_params, imported, no_string_results, stats):
    """one interface.  Restrictions that keep the generated *Rust* compilable (each is a recorded
    finding of its own, see known_findings.jsonl C05 / README):
      * (none for imported interfaces any more: fixed-length lists of non-`Copy` elements as import
        parameters were repaired in /repo 83d25d5),
      * no_string_results: no string below a result (was needed for raw_strings worlds before /repo
        6e4603d; kept as an option, unused)."""
    g = witgen.Gen(rng, max_depth=max_depth, features=set(features))
    funcs = []
    for i in range(nfuncs):
        r = rng.random()
        if r < 0.15: np = 0
        elif r < 0.75: np = rng.randint(1, max(1, min(3, max_params)))
        else: np = rng.randint(1, max_params)
        params = []
        for j in range(np):
            t = g.ty(rng.choice([0, 1, 2]), True)
            if rng.random() < 0.15:
                t = f"list<{canon_boundary_elem(rng, g, 'resource' in features and not imported)}>"
                if rng.random() < 0.2: t = f"option<{t}>"
            params.append(f"p{j}: {t}")
        res = ""
        if rng.random() < 0.8:
            if no_string_results:
                sp, sk = witgen.PRIMS, witgen.KEYS
                witgen.PRIMS = [x for x in sp if x != "string"]
                witgen.KEYS = [x for x in sk if x != "string"]
                try:
                    res = f" -> {g.ty(rng.choice([0, 1]), False)}"
                finally:
                    witgen.PRIMS, witgen.KEYS = sp, sk
            else:
                res = f" -> {g.ty(rng.choice([0, 1]), False)}"
            if rng.random() < 0.15:
                res = f" -> list<{canon_boundary_elem(rng, g)}>"
        funcs.append(f"  f{i}: func({', '.join(params)}){res};")
    for k2, v in g.stats.items():
        stats[k2] = stats.get(k2, 0) + v
    lines = [f"interface {name} {{"]
    for _, d in g.defs:
        lines.append("  " + d + (";" if d.startswith("type") else ""))
    lines += funcs + ["}"]
    return "\n".join(lines)


def gen_world_text(rng, k, features, config="", nfuncs=4, max_depth=3, max_params=5):
    """package `t:w<k>` with world `w`.  Shapes: {import i, export j} | {import i, export i}."""
    raw = False   # raw_strings no longer restricts result types (/repo 6e4603d repaired the owned-string lowering)
    stats = {}
    same = rng.random() < 0.4
    parts = [f"package t:w{k};"]
    if same:
        parts.append(gen_iface(rng, "i", nfuncs, features, max_depth, max_params, True, False, stats))
        parts.append("world w { import i; export i; }")
        stats["shape:same-interface"] = 1
    else:
        parts.append(gen_iface(rng, "i", nfuncs, features, max_depth, max_params, True, False, stats))
        parts.append(gen_iface(rng, "j", nfuncs, features, max_depth, max_params, False, raw, stats))
        parts.append("world w { import i; export j; }")
        stats["shape:two-interfaces"] = 1
    return "\n".join(parts) + "\n", stats


def gen_val(rng, t, depth=0, edge=False, handle=None):
    """value term of type tree t: tools/abivals.py for scalars, own structure choices for containers
    (occasional large / empty lists, unique and duplicate map keys); `handle(kind)` supplies handles"""
    if isinstance(t, str):
        if handle is not None and (t in ("own", "borrow") or t.startswith("own@") or t.startswith("borrow@")):
            return handle(t)
        return abivals.gen(rng, t, depth, edge)
    k = t[0]
    d = depth + 1
    sub = lambda x: gen_val(rng, x, d, edge, handle)
    if k == "list":
        if depth == 0 and rng.random() < 0.04 and isinstance(t[1], str):
            n = rng.choice([200, 1000])
        else:
            n = rng.choice([0, 1, 2, 3, 17]) if depth < 2 else rng.choice([0, 1, 2])
        return "(l" + "".join(" " + sub(t[1]) for _ in range(n)) + ")"
    if k == "flist":
        return "(l" + "".join(" " + sub(t[1]) for _ in range(int(t[2]))) + ")"
    if k == "map":
        n = rng.choice([0, 1, 2, 4, 9]) if depth < 2 else rng.choice([0, 1, 2])
        keys = [sub(t[1]) for _ in range(n)]
        if handle is not None:
            # values that carry handles: a key occurs once (an overwritten entry would drop its handles while
            # the value is being built, which is the builder's business, not the bindings')
            keys = list(dict.fromkeys(keys))
        return "(l" + "".join(f" (r {kk} {sub(t[2])})" for kk in keys) + ")"
    if k in ("record", "tuple"):
        return "(r" + "".join(" " + sub(f) for f in t[1:]) + ")"
    if k == "variant":
        cs = t[1:]
        i = rng.choice([0, len(cs) - 1, rng.randrange(len(cs))])
        return f"(var {i})" if cs[i] == "_" else f"(var {i} {sub(cs[i])})"
    if k == "option":
        return "(var 0)" if rng.random() < 0.35 else f"(var 1 {sub(t[1])})"
    if k == "result":
        i = rng.randint(0, 1)
        cc = t[1 + i]
        return f"(var {i})" if cc == "_" else f"(var {i} {sub(cc)})"
    return abivals.gen(rng, t, depth, edge)


def gen_vals(rng, m, handle=None):
    edge = rng.random() < 0.2
    params = [gen_val(rng, parse(p), 0, edge, handle) for p in m["params"]]
    ret = gen_val(rng, parse(m["result"]), 0, edge, handle) if m["result"] is not None else None
    return params, ret


# ---------------------------------------------------------------------------------- monitors

def params_ty(m):
    return "(tuple" + "".join(" " + p for p in m["params"]) + ")"


def vals_term(vals):
    return "(r" + "".join(" " + v for v in vals) + ")"


def diff_leaves(a, b, t, path=""):
    """[(path, type tree, sent subtree, got subtree)] for the maximal differing positions"""
    if a == b:
        return []
    if isinstance(t, str) or a is None or b is None or isinstance(a, str) or isinstance(b, str) or a[0] != b[0] or len(a) != len(b):
        return [(path, t, a, b)]
    k = t[0]
    if k in ("list", "flist"):
        return [d for i, (x, y) in enumerate(zip(a[1:], b[1:])) for d in diff_leaves(x, y, t[1], f"{path}[{i}]")]
    if k == "map":
        return [d for i, (x, y) in enumerate(zip(a[1:], b[1:]))
                for d in diff_leaves(x[1], y[1], t[1], f"{path}[{i}].k") + diff_leaves(x[2], y[2], t[2], f"{path}[{i}].v")]
    if k in ("record", "tuple"):
        return [d for i, (x, y, ft) in enumerate(zip(a[1:], b[1:], t[1:])) for d in diff_leaves(x, y, ft, f"{path}.{i}")]
    if k in ("variant", "option", "result"):
        if a[1] != b[1]:
            return [(path, t, a, b)]
        i = int(a[1])
        ct = t[1] if k == "option" else t[1 + i]
        return diff_leaves(a[2], b[2], ct, f"{path}#{i}")
    return [(path, t, a, b)]


def flags_signext(bits):
    """what `(word as i32 as uN) << 32*i` OR-ed together yields: every word whose bit 31 is set sets all higher flags"""
    out = list(bits)
    for w in range(len(bits) // 32 + 1):
        top = 32 * w + 31
        if top < len(bits) and bits[top] == "1":
            for j in range(top + 1, len(bits)): out[j] = "1"
    return "".join(out)


def diff_class(sent, got, ty):
    """refine a value mismatch into a stable class key"""
    if got is None:
        return None
    leaves = diff_leaves(parse(sent), parse(got), parse(ty))
    if leaves and all((not isinstance(t, str)) and t[0] == "flags" and int(t[1]) > 32 and a[0] == "fl" and b[0] == "fl"
                      and len(a) > 1 and len(b) > 1 and flags_signext(a[1]) == b[1] for _, t, a, b in leaves):
        return "flags-lift-sign-extends-word"
    return None


def value_findings(m, o):
    """C05 monitor on one call outcome: list of (class, what, detail)"""
    out = []
    if "error" in o:
        return [("call-failed", f"{o['kind']} call did not complete: {o['error'][:200]}", {})]
    pt = params_ty(m)
    sent = canon_str(vals_term(o["vals"]), pt)
    if o["kind"] == "export":
        if o.get("observed_count") != 1:
            out.append(("export-user-function-call-count", f"user function behind the export ran {o.get('observed_count')} times", {}))
        elif canon_str(o["observed"], pt) != sent:
            got = canon_str(o["observed"], pt)
            out.append((diff_class(sent, got, pt) or "value-changed:export-args", "arguments sent by the host arrived changed in the Rust implementation",
                        {"sent": sent, "observed": got}))
        if m["result"] is not None:
            want = canon_str(o["ret"], m["result"])
            if o.get("lifted") is None:
                out.append(("value-changed:export-result", "the host traps lifting the export's result", {"returned": want}))
            elif canon_str(o["lifted"], m["result"]) != want:
                out.append(("value-changed:export-result", "result returned by the Rust implementation arrived changed at the host",
                            {"returned": want, "lifted": canon_str(o["lifted"], m["result"])}))
    else:
        if o.get("import_events", 0) != 1:
            out.append(("import-call-count", f"import symbol called {o.get('import_events', 0)} times for one wrapper call", {}))
            return out
        if o.get("lifted_args") is None:
            out.append(("value-changed:import-args", "the host traps lifting the arguments lowered by the guest", {"sent": sent}))
        elif canon_str(o["lifted_args"], pt) != sent:
            out.append(("value-changed:import-args", "arguments passed by Rust code arrived changed at the host",
                        {"sent": sent, "lifted": canon_str(o["lifted_args"], pt)}))
        if m["result"] is not None:
            want = canon_str(o["ret"], m["result"])
            got = canon_str(o["returned"], m["result"]) if o.get("returned") else None
            if got != want:
                out.append((diff_class(want, got, m["result"]) or "value-changed:import-result", "result sent by the host arrived changed in Rust code",
                            {"sent": want, "observed": got}))
    if o.get("unexpected_imports"):
        out.append(("unexpected-import-call", "the guest called imports the scenario does not expect", {"imports": o["unexpected_imports"]}))
    return out


def value_corr(m, o):
    """(impl, model) canonical strings of what each side of the boundary saw"""
    if "error" in o:
        return "error: " + o["error"][:100], "completes"
    pt = params_ty(m)
    cs = lambda v, t: canon_str(v, t) if v else "none"
    rt = m["result"]
    if o["kind"] == "export":
        impl = f"args:{cs(o.get('observed'), pt)} result:{cs(o.get('lifted'), rt) if rt else '-'}"
        model = f"args:{cs(o.get('model_observed'), pt)} result:{cs(o['ret'], rt) if rt else '-'}"
    else:
        impl = f"args:{cs(o.get('lifted_args'), pt)} result:{cs(o.get('returned'), rt) if rt else '-'}"
        model = f"args:{cs(vals_term(o['vals']), pt)} result:{cs(o.get('model_returned'), rt) if rt else '-'}"
    return impl, model


def ledger_counts(o):
    """(impl, model) of the per-class event counts of an export call, or None when not comparable
    (maps: the number of internal nodes of BTreeMap/HashMap is not modelled)"""
    lm = o.get("ledger_model") or ""
    if not lm.startswith("ok ") or "call_report" not in o:
        return None
    kv = dict(x.split("=") for x in lm[3:].split(" "))
    if kv["hasmap"] == "1":
        return None
    rep, post = o["call_report"], o.get("post_report")
    live_g = [(a["addr"], a["size"], a["align"]) for a in rep["allocs"] if a["tag"] == "G" and a["live"]]
    freed_post = [(f["addr"], f["size"], f["align"]) for f in post["frees"]] if post else []
    impl = {"galloc": sum(1 for a in rep["allocs"] if a["tag"] == "G"),
            "hostfree": sum(1 for f in rep["frees"] if f["tag"] == "H"),
            "gfree": sum(1 for f in rep["frees"] if f["tag"] == "G"),
            "postfree": len(freed_post),
            "leak": len([b for b in live_g if b not in freed_post])}
    model = {k: int(kv[k]) for k in impl}
    return impl, model


def ledger_counts_import(o):
    """(impl, model) of the per-class event counts of an import call, counted from the moment the driver has built
    the arguments (`mark:args-built`): Cleanup temporaries + collections built by lifting; or None (maps / no mark)"""
    lm = o.get("ledger_model") or ""
    if not lm.startswith("ok ") or "call_report" not in o:
        return None
    kv = dict(x.split("=") for x in lm[3:].split(" "))
    if kv["hasmap"] == "1":
        return None
    rep = o["call_report"]
    marks = [n for n in rep["notes"] if n.startswith("mark:args-built:")]
    if len(marks) != 1:
        return None
    base = int(marks[0].split(":")[2])
    impl = {"galloc": sum(1 for a in rep["allocs"] if a["tag"] == "G" and a["idx"] >= base),
            "hostfree": sum(1 for f in rep["frees"] if f["tag"] == "H"),
            "gfree": sum(1 for f in rep["frees"] if f["tag"] == "G" and f["idx"] >= base)}
    return impl, {k: int(kv[k]) for k in impl}


def nz(blocks):
    return sorted((a, s, al) for a, s, al in blocks if s > 0)


def triples(s):
    return [] if s in ("-", "") else [tuple(int(x) for x in b.split(":")) for b in s.split(",")]


def ledger_findings(m, o):
    """C06 monitors on one call outcome.  Returns (findings [(class, what, detail)], corr) where corr is
    the model-vs-implementation comparison of the post-return frees: (impl, model) or None"""
    out, corr = [], None
    if "error" in o:
        return [("call-failed", f"{o['kind']} call did not complete: {o['error'][:200]}", {})], None
    rep = o["call_report"]
    errs = list(rep["errs"]) + list((o.get("post_report") or {}).get("errs", []))
    for e in errs:
        kind = e.split(":")[0]
        out.append((f"allocator:{kind}", f"{o['kind']} call: {kind} ({e})", {"error": e}))
    host = nz(o.get("hostblocks", []))
    freed_h = sorted((f["addr"], f["size"], f["align"]) for f in rep["frees"] if f["tag"] == "H")
    if o["kind"] == "export":
        if freed_h != host:
            missing = [b for b in host if b not in freed_h]
            out.append(("host-buffer-not-released" if missing else "host-buffer-released-twice",
                        "buffers the host allocated for the arguments are not freed exactly once by the time the user function has dropped its arguments",
                        {"host_blocks": host, "freed": freed_h}))
        live_g = sorted((a["addr"], a["size"], a["align"]) for a in rep["allocs"] if a["tag"] == "G" and a["live"])
        want = nz(o.get("result_blocks", []))
        if live_g != want:
            out.append(("result-buffers-differ-from-lowering",
                        "guest blocks live after the export returned are not exactly the buffers reachable from the lowered result",
                        {"live": live_g, "reachable_from_result": want}))
        post = o.get("post_report")
        freed_post = sorted((f["addr"], f["size"], f["align"]) for f in post["frees"]) if post else []
        if post is not None and o.get("postfrees_model"):
            pm = o["postfrees_model"]
            if pm.startswith("ok "):
                kv = dict(x.split("=", 1) for x in pm[3:].split(" "))
                corr = (freed_post, nz(triples(kv["freed"])))
                spec, skip = nz(triples(kv["spec"])), nz(triples(kv["skipflist"]))
            else:
                corr = (freed_post, pm)
                spec = skip = None
        else:
            spec = skip = None
        leaked = [b for b in live_g if b not in freed_post]
        if post is not None:
            leaked += [(a["addr"], a["size"], a["align"]) for a in post["allocs"] if a["tag"] == "G" and a["live"]]
        if leaked:
            below_flist = spec is not None and sorted(leaked) == sorted(b for b in spec if b not in skip)
            cls = "dealloc-flist-leak" if below_flist else ("export-result-leak" if post is not None else "export-result-leak-no-post-return")
            out.append((cls, "blocks allocated for the export's result are still live after cabi_post_* (leak)",
                        {"leaked": leaked, "post_return_exists": post is not None}))
        extra = [b for b in freed_post if b not in live_g]
        if extra:
            out.append(("post-return-frees-foreign-block", "cabi_post_* freed blocks that the lowering of the result did not allocate", {"blocks": extra}))
    else:
        if freed_h != host:
            missing = [b for b in host if b not in freed_h]
            out.append(("host-buffer-not-released" if missing else "host-buffer-released-twice",
                        "buffers the host allocated for the import's result are not freed exactly once by the time the caller dropped the result",
                        {"host_blocks": host, "freed": freed_h}))
        live_g = sorted((a["addr"], a["size"], a["align"]) for a in rep["allocs"] if a["tag"] == "G" and a["live"])
        if live_g:
            out.append(("import-call-leak", "guest blocks allocated during an import call are still live after the caller dropped arguments and result", {"live": live_g}))
        dead = [r for r, lv in list(o.get("arg_live", {}).items()) if not lv and r[1] > 0 and (r[0], ) and any(r[0] == b[0] for b in o.get("arg_blocks", []))]
        if dead:
            out.append(("import-arg-outside-live-allocation", "a buffer passed to the import is not inside a live allocation while the import runs", {"regions": dead}))
    return out, corr




# ---------------------------------------------------------------------------------- check skeleton

def load_corpus(path):
    """corpus file: entries start with a line `== <config> [# comment]`, followed by WIT text whose
    package is `t:wX` (X replaced by the item index)"""
    items = []
    if not os.path.exists(path):
        return items
    cur = None
    for line in open(path):
        if line.startswith("== "):
            cfg = line[3:].split("#")[0].strip()
            cur = [cfg, []]
            items.append(cur)
        elif cur is not None and not line.startswith("#"):
            cur[1].append(line)
    return [(cfg, "".join(ls)) for cfg, ls in items]


def make_items(rng, n, features, corpus, replay_item=None):
    raw = []
    if replay_item: raw.append(replay_item)
    raw += corpus
    stats = {}
    for _ in range(n):
        cfg = random_config(rng)
        text, st = gen_world_text(rng, "X", features, cfg)
        for k, v in st.items(): stats[k] = stats.get(k, 0) + v
        raw.append((cfg, text))
    items = [(cfg, text.replace("t:wX", f"t:w{k}")) for k, (cfg, text) in enumerate(raw)]
    return items, stats


def prune_batches(pid, keep=24):
    """remove the oldest batch directories OF THIS PROPERTY (other checks' directories are theirs)"""
    if not os.path.isdir(BIND): return
    ds = sorted((os.path.getmtime(os.path.join(BIND, d)), d) for d in os.listdir(BIND) if d.startswith(f"b-{pid}-"))
    for _, d in ds[:-keep]:
        shutil.rmtree(os.path.join(BIND, d), ignore_errors=True)


def prepare(c):
    emitter = c.cargo_build("bind-native")
    host = c.model_exe("m_host")
    return emitter, host


def iter_batches(c, items, emitter, dropped, batch_size=20):
    """generator form of build_all: each batch is built right before it is used (bounded disk use)"""
    for b0 in range(0, len(items), batch_size):
        chunk = items[b0:b0 + batch_size]
        name = f"b-{c.pid}-" + hashlib.sha1((worlds_spec(chunk) + os.environ.get("VERIF_BIND_MUTATE", "")).encode()).hexdigest()[:12]
        batch, dr = build_batches(c, name, chunk, emitter)
        for k, e in dr.items(): dropped[b0 + k] = e
        if batch is not None:
            yield batch, [b0 + k for k in batch.index_map]
        prune_batches(c.pid)


def build_all(c, items, emitter, batch_size=20):
    """split into batches, build each (dropping items whose Rust does not compile).
    Returns [(batch, global index map)], dropped {global idx: error}"""
    out, dropped = [], {}
    for b0 in range(0, len(items), batch_size):
        chunk = items[b0:b0 + batch_size]
        # item indices inside a batch are local; the package names keep the global index
        name = f"b-{c.pid}-" + hashlib.sha1((worlds_spec(chunk) + os.environ.get("VERIF_BIND_MUTATE", "")).encode()).hexdigest()[:12]
        batch, dr = build_batches(c, name, chunk, emitter)
        for k, e in dr.items(): dropped[b0 + k] = e
        if batch is not None:
            out.append((batch, [b0 + k for k in batch.index_map]))
    prune_batches(c.pid)
    return out, dropped


def flags_lift_rendering(batch):
    """mini-translator for the one instruction rendering the value model depends on: how FlagsLift casts
    each i32 word (`x as u32 as u64` = zext, `x as u64` = sext).  Returns zext | sext | None (no flags with
    more than 32 members in this batch) | "?" (template not recognised = broken correspondence)"""
    import re
    seen = set()
    for f in sorted(os.listdir(os.path.join(batch.dir, "src"))):
        if not (f.startswith("w") and f.endswith(".rs")): continue
        text = open(os.path.join(batch.dir, "src", f)).read()
        for m in re.finditer(r"from_bits_retain\(\(\(([^()]*?) as (u64|u128)\) << \d+\) as _\)", text):
            seen.add("zext" if m.group(1).rstrip().endswith(" as u32") else "sext")
    if not seen: return None
    return seen.pop() if len(seen) == 1 else "?"


def classify_compile_error(err):
    """stable class keys of the known ways generated Rust fails to compile.  A known class needs BOTH the rustc
    message and the construct of the defect in the first failing span; anything else is `other` (a new defect)"""
    import re
    first = err.split("\n")[0]
    if "E0599" in first and "`into_bytes`" in first and "Vec<u8>" in first and re.search(r"\.into_bytes\(\)\)?\.into_boxed_slice\(\)", err):
        return "rust-does-not-compile:raw-strings-owned-string-lowering"
    if "E0508" in first and "non-copy array" in first and re.search(r"let vec\d+ = \w+(\.\w+)*\[\d+\];", err):
        return "rust-does-not-compile:fixed-list-non-copy-import-param"
    if "E0106" in first and "missing lifetime specifier" in first and re.search(r"pub \w+: [A-Z]\w*,", err) \
            and "expected named lifetime parameter" in err:
        return "rust-does-not-compile:borrowing-missing-lifetime"
    return "rust-does-not-compile:other"


def check_signatures(c, host, batch):
    """wit-parser's wasm_signature (as used by the emitter for the raw trampolines) vs the Lean model
    of it and vs the spec-side 16/1 decisions at pointer width 8"""
    reqs, impl, model = [], [], []
    h = Proc([host])
    for m in batch.manifest:
        if m["dir"] not in ("export", "import"): continue
        v = "GuestExport" if m["dir"] == "export" else "GuestImport"
        ans = h.rq(f"sig|{v}|{P}|{m['func']}")
        reqs.append(f"{v} {m['func']}")
        impl.append(f"{m['sig_params']} -> {m['sig_results']} indirect={int(m['indirect_params'])} retptr={int(m['retptr'])} "
                    f"spec-indirect={int(m['indirect_params'])} spec-retptr={int(m['retptr'])}")
        model.append(ans or "m_host died")
    h.close()
    c.compare("wasm-signature", reqs, impl, model)


def run_calls(c, batch, host, rng, per_fn, on_outcome, handle=None):
    """per function of the batch: per_fn seeded calls; on_outcome(m, o) is called for each.
    Crashes of the batch binary are reported as outcomes with o['error']."""
    r = Runner(batch.binary, host)
    n = 0
    try:
        for m in batch.manifest:
            if m["dir"] not in ("export", "import"): continue
            if m["kind"] != "free": continue     # resource functions are C07's
            for _ in range(per_fn):
                vals, ret = gen_vals(rng, m, handle)
                try:
                    o = r.export_call(m, vals, ret) if m["dir"] == "export" else r.import_call(m, vals, ret)
                except Crash as e:
                    o = {"key": m["key"], "kind": m["dir"], "vals": vals, "ret": ret, "error": f"batch binary died ({e})"}
                    r.restart_native()
                except ValueError as e:
                    o = {"key": m["key"], "kind": m["dir"], "vals": vals, "ret": ret, "error": f"protocol: {e}"}
                    r.restart_native()
                n += 1
                on_outcome(m, o)
        v = r.native.rq("VERIFY")
        if v is not None and v.startswith("ok|") and v[3:]:
            on_outcome(None, {"verify": v[3:]})
    finally:
        r.close()
    return n
