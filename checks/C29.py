"""C29 — Markdown docs have valid links and verbatim documentation text (crates/markdown/src/lib.rs).

Model + spec monitors: lean/Witverif/Text/MdLinks.lean; theorems: lean/Witverif/Props/C29.lean.
Tie (per seeded world, all through line servers):
  1. gen-run `md gen`     the REAL Markdown generator -> .md, .html, the abstract world it read, and the
                          pulldown-cmark events of the .md (same parser version/options as `Markdown::finish`)
  2. m_mdlinks            the Lean model: .md of `Md.gen world` (compared byte for byte with the real .md),
                          `Md.rewrite hrefs events`, and the C29 monitors (`MdSpec`) evaluated on the REAL .md/.html
  3. gen-run `md render`  the model's rewritten events rendered by the real `push_html`, compared byte for byte
                          with the real .html
A panic of the real generator is compared with the model's panic (message); panics are C16's subject.
"""
import os, re, json, collections
from vlib import run_lines, VERIF
import witgen2

def hx(s): return s.encode().hex() if s else "-"
def unhx(h): return "" if h == "-" else bytes.fromhex(h).decode()

# ------------------------------------------------------------------------------ doc comments
WORDS = ["the", "value", "of", "this", "handle", "returns", "an", "error", "when", "x < y", "a & b", "1 > 0",
         "100%", "it's", '"quoted"', "tab\there", "naïve", "中文", "snake_case", "CamelCase", "a*b*c", "under_score_"]
BRACES = ["{", "}", "{ unbalanced", "} closing first", "fn f() {", "}}", "{{x}}", "if x { y } else {", "${var}"]
COMMENTS = ["// not a comment", "text // trailing", "/* block */", "//", "/// triple", "http://example.com/a//b"]
MDMETA = ["# heading", "## h2 `{n}`", "* bullet", "- item", "+ plus", "1. numbered", "> quote", "**bold**", "_em_ text",
          "`code`", "``double `tick` ``", "\\`escaped\\`", "\\*not em\\*", "***", "---", "===", "a | b", "line with two spaces  ",
          "[text](http://example.com)", "[text](http://example.com \"title\")", "<http://auto.link>", "![img](http://i/x.png)",
          "[ref-style][r]", "[r]: http://example.com/ref", "[unknown ref]", "[`{n}`]", "    indented four", "\tTabbed",
          "trailing backslash\\", "&amp; &lt; &#35; &copy;", "emoji :) <3"]
HTMLMETA = ["<b>bold</b>", "<i>unclosed", "<br/>", "<span class=\"x\">s</span>", "<img src=\"x.png\" alt=\"a\">",
            "a <em>b</em> c", "</div>", "<notatag", "x<y>z", "<code>`{n}`</code>", "<!-- closed comment -->", "<?php ?>"]
NAMED = ["`{n}`", "see `{n}` and `{n2}`", "[`{n}`](http://example.com/{n})", "[the `{n}` type](http://x)", "`{n}`s",
         "` {n} `", "``{n}``", "![`{n}`](http://i/{n}.png)", "*`{n}`*", "**[`{n}`](http://b)**", "[a [`{n}`](http://in) b](http://out)",
         "`{n}::f0`", "`{n}::c0`", "`w`", "`t:t/i0`", "`f0`", "`[method]res.m0`", "`res`"]
WS = ["  padded both  ", " nbsp lead", "ideographic　", "", "   "]
# features with known findings (each enabled rarely, so that most worlds exercise the clean path)
RAW_ANCHOR = ["<a href=\"http://y\">`{n}`</a>", "<a href=\"http://y\">see `{n}` here</a>", "<a name=\"q\">`{n}`"]
FENCE_BAL = [["```", "code { here", "```"], ["```rust", "let `{n}` = 1; // x", "```"], ["~~~", "<b id=\"x\"> {", "~~~"],
             ["<div>", "inside *html* `{n}`", "</div>"], ["<pre>", "pre `{n}`", "</pre>"]]
# links of every pulldown-cmark LinkType whose text contains a code span naming a documented item: reference
# (full), collapsed, shortcut — each with its `[label]: url` definition after a blank line (a definition cannot
# interrupt a paragraph) — unknown-reference forms (no definition: stay text), autolink and email autolink
# (plain text only, next to a code span)
REF_LINKS = [["[`{n}`][lbl-{n}]", "", "[lbl-{n}]: http://example.com/full/{n}"],
             ["see [the `{n}` type and `{n2}`][Some Label] here", "", "[some label]: <http://example.com/ci> 'title'"],
             ["[`{n}`][]", "", "[`{n}`]: http://example.com/collapsed/{n}"],
             ["[`{n}`] and again [`{n}`]", "", "[`{n}`]: http://example.com/shortcut/{n}"],
             ["[a `{n}` b][]", "", "[a `{n}` b]: http://example.com/collapsed2"],
             ["*[`{n}`][e-{n}]* **[x `{n2}`][e-{n}]**", "", "[e-{n}]: http://example.com/em"],
             ["![`{n}`][img-{n}]", "", "[img-{n}]: http://example.com/{n}.png"],
             ["[`{n}`][undefined-label] [`{n2}`][] [`{n}`]"],
             ["<http://example.com/auto/{n}> `{n}` <mailto:dev@example.com> <someone@example.com> `{n2}`"],
             ["[`{n}`](<http://example.com/angle> \"t\") [`{n2}`](http://example.com/plain)"]]
BLOCK_OPEN = ["```", "~~~~", "<!-- never closed", "<pre>", "<script>", "<div>"]


def make_docgen(rng, names, stats, rates):
    def line():
        r = rng.random()
        pool = (WORDS if r < 0.25 else BRACES if r < 0.37 else COMMENTS if r < 0.47 else MDMETA if r < 0.67
                else HTMLMETA if r < 0.77 else NAMED if r < 0.95 else WS)
        t = rng.choice(pool)
        if pool is WORDS:
            t = " ".join(rng.choice(WORDS) for _ in range(rng.randint(1, 6)))
        stats["doc:" + {id(WORDS): "words", id(BRACES): "braces", id(COMMENTS): "comment-markers", id(MDMETA): "markdown-meta",
                        id(HTMLMETA): "html-meta", id(NAMED): "named-code-span", id(WS): "whitespace"}[id(pool)]] += 1
        n, n2 = rng.choice(names), rng.choice(names)
        return t.replace("{n2}", n2).replace("{n}", n)
    def docgen(where):
        if rng.random() < (0.25 if where == "member" else 0.15):
            return []
        out = [line() for _ in range(rng.choice([1, 1, 2, 3, 5]))]
        if rng.random() < 0.08:
            out += [l.replace("{n}", rng.choice(names)) for l in rng.choice(FENCE_BAL)]; stats["doc:balanced-block"] += 1
        if rng.random() < 0.10:
            n, n2 = rng.choice(names), rng.choice(names)
            out += [l.replace("{n2}", n2).replace("{n}", n) for l in rng.choice(REF_LINKS)]; stats["doc:link-kinds-group"] += 1
        if rng.random() < rates["rawanchor"]:
            out.append(rng.choice(RAW_ANCHOR).replace("{n}", rng.choice(names))); stats["doc:raw-anchor"] += 1
        if rng.random() < rates["blockopen"]:
            out.append(rng.choice(BLOCK_OPEN)); stats["doc:unclosed-block"] += 1
        stats["doc:comments"] += 1
        stats["doc:lines"] += len(out)
        return out
    return docgen


NAME_POOL = ["r1", "r2", "e1", "e2", "v1", "v3", "fl1", "fl2", "t0", "t1", "res", "f0", "f1", "w", "i0", "p0", "c0", "b0", "u8", "string"]


def gen_case(rng, stats, tier):
    rates = {"rawanchor": 0.0, "blockopen": 0.0}
    r = rng.random()
    if r < 0.06: rates["rawanchor"] = 0.15
    elif r < 0.12: rates["blockopen"] = 0.12
    feats = set(witgen2.ALL_FEATURES)
    if rng.random() < 0.85:
        feats -= {"typedef-future", "typedef-stream", "typedef-handle", "flist"}
    docgen = make_docgen(rng, NAME_POOL, stats, rates)
    blocks, st = witgen2.gen_world2(rng, features=feats, docgen=docgen, max_ifaces=3,
                                    nfuncs=rng.choice([1, 2, 4]), max_depth=rng.choice([1, 2, 3]))
    for k, v in st.items(): stats["ty:" + k] += v
    return blocks


def strip_docs(blocks):
    return [[l for l in b if not l.lstrip().startswith("///")] for b in blocks]


# ------------------------------------------------------------------------------ one batch through the three servers
class Runner:
    def __init__(self, c, impl, model):
        self.c, self.impl, self.model = c, impl, model

    def run(self, wits):
        """-> list of dict(kind, md, html, panic, model_md, render, spec{}, world, evs)"""
        a = run_lines([self.impl, "md"], ["gen " + hx(w) for w in wits], timeout=600)
        res, mreq, midx = [], [], []
        for i, ans in enumerate(a):
            parts = ans.split("\t")
            head = parts[0].split(" ")
            d = {"kind": head[0], "raw": ans[:300]}
            if head[0] == "ok" and len(parts) == 3:
                d.update(md=head[1], html=head[2], world=parts[1], evs=parts[2])
                mreq.append("\t".join([parts[1], parts[2], head[1], head[2]])); midx.append(i)
            elif head[0] == "panic" and len(parts) == 2:
                d.update(panic=unhx(head[1]), loc=unhx(head[2]), world=parts[1])
                mreq.append(parts[1]); midx.append(i)
            res.append(d)
        if self.model and mreq:
            m = run_lines([self.model], mreq, timeout=900)
            rreq, ridx = [], []
            for i, ans in zip(midx, m):
                f = ans.split("\t")
                d = res[i]
                d["model_md"] = f[0]
                if len(f) == 3:
                    d["model_ev"] = f[1][3:]
                    d["spec"] = dict(kv.split("=", 1) for kv in f[2].split(" ")[1:] if "=" in kv)
                    if d["kind"] == "ok" and not f[0].startswith("md=panic"):
                        rreq.append("render " + f[1][3:]); ridx.append(i)
            r = run_lines([self.impl, "md"], rreq, timeout=600) if rreq else []
            for i, ans in zip(ridx, r):
                res[i]["render"] = ans
        return res


def ev_stats(evs, model_ev, stats):
    toks = evs.split(" ")[1:]
    out = model_ev.split(" ") if model_ev else []
    n_in = sum(1 for t in toks if t.startswith("SL:"))
    n_out = sum(1 for t in out if t.startswith("SL:"))
    stats["ev:events"] += len(toks)
    stats["ev:links-in-md"] += n_in
    for t in toks:
        if t.startswith("SL:"): stats["ev:linktype:" + t.split(":")[1]] += 1
    stats["ev:links-inserted"] += n_out - n_in
    stats["ev:code-spans"] += sum(1 for t in toks if t.startswith("C:"))
    stats["ev:raw-html"] += sum(1 for t in toks if t.startswith("H:") or t.startswith("IH:"))
    depth = 0; inlink_codes = 0
    for t in toks:
        if t.startswith("SL:"): depth = 1
        elif t == "EL": depth = 0
        elif t.startswith("C:") and depth: inlink_codes += 1
    stats["ev:code-spans-inside-links"] += inlink_codes
    return n_out - n_in, inlink_codes


def run(c):
    c.rule = ("seeded multi-interface worlds (tools/witgen2.py: every type constructor in params/results/fields/payloads/"
              "aliases/world items; interfaces imported, exported or both; same type names in several interfaces) with doc "
              "comments on world/interfaces/types/members/functions drawn from pools of plain words, braces, '//' and "
              "'/*' markers, markdown metacharacters, HTML metacharacters and code spans naming documented items; "
              "non-trivial = the link pass inserted at least one link AND left at least one code span inside an existing "
              "link untouched AND the world has doc comments; distinct by WIT text")
    ok = c.lake_build(["Witverif.Props.C29"])
    if ok: c.audit("Witverif.Props.C29")
    if c.tier == "thorough" and ok: c.leanchecker("Witverif.Props.C29")
    model = c.model_exe("m_mdlinks")
    impl = c.cargo_build("gen-run")
    if not impl:
        return
    stats = collections.Counter()
    n = 140 if c.tier == "quick" else 2500
    cases = []          # (label, blocks)
    cp = os.path.join(VERIF, "corpus", "C29.txt")
    if os.path.exists(cp):
        for l in open(cp):
            l = l.strip()
            if l and not l.startswith("#"):
                d = json.loads(l)
                cases.append((d["name"], [[x] for x in d["wit"].split("\n") if x != ""]))
    ncorpus = len(cases)
    if c.replay and "witness" in c.replay and "wit" in c.replay["witness"]:
        cases.insert(0, ("replay", [[x] for x in c.replay["witness"]["wit"].split("\n") if x != ""]))
    for i in range(n):
        cases.append((f"seed{i}", gen_case(c.rng, stats, c.tier)))
    R = Runner(c, impl, model)
    wits = [witgen2.render(b) for _, b in cases]
    res = R.run(wits)

    kinds = collections.Counter(d["kind"] for d in res)
    reqs_md, impl_md, model_md = [], [], []
    reqs_h, impl_h, model_h = [], [], []
    reqs_p, impl_p, model_p = [], [], []
    nontriv = {}
    for (label, blocks), wit, d in zip(cases, wits, res):
        if d["kind"] == "bad-wit":
            c.broken.append((f"generator of worlds produced invalid WIT ({label})", unhx(d["raw"].split(" ")[1])[:400] + "\n" + wit[:1500]))
            continue
        if d["kind"] == "ok":
            reqs_md.append(wit); impl_md.append("md=" + d["md"]); model_md.append(d.get("model_md", "model-missing"))
            reqs_h.append(wit); impl_h.append("ok " + d["html"]); model_h.append(d.get("render", "render-missing"))
            ins, inl = ev_stats(d["evs"], d.get("model_ev", ""), stats)
            nontriv[wit] = ins > 0 and inl > 0 and "///" in wit
            stats["md:bytes"] += len(d["md"]) // 2
        elif d["kind"] == "panic":
            reqs_p.append(wit); impl_p.append("md=panic:" + hx(d["panic"])); model_p.append(d.get("model_md", "model-missing"))
            stats["panic:" + d["panic"] + " @" + d["loc"].replace("/repo/", "")] += 1
        else:
            c.broken.append((f"md engine answered {d['kind']} ({label})", d["raw"]))
    c.compare("md-text", reqs_md, impl_md, model_md, nontrivial=lambda r, o: nontriv.get(r, False))
    c.compare("html-after-link-pass", reqs_h, impl_h, model_h, nontrivial=lambda r, o: nontriv.get(r, False))
    c.compare("panic-message", reqs_p, impl_p, model_p, nontrivial=lambda r, o: False)

    # ---------------------------------------------------------------- spec monitors on the real output
    def failing(pred):
        def f(blocks):
            r = R.run([witgen2.render(blocks)])[0]
            return r["kind"] == "ok" and "spec" in r and pred(r, blocks)
        return f

    def report(klass, what, label, blocks, d, pred, extra):
        if klass in reported:     # one shrunk witness per class and run
            c.spec_violation(klass, what, reported[klass]); return
        small, nev = witgen2.shrink_blocks(blocks, failing(pred), budget=120 if c.tier == "quick" else 400)
        r = R.run([witgen2.render(small)])[0]
        wit = witgen2.render(small)
        w = {"wit": wit, "case": label, "shrink_evaluations": nev, "spec": r.get("spec"), **extra(r)}
        reported[klass] = w
        c.spec_violation(klass, what, w)
    reported = {}
    verdicts = collections.Counter()
    for (label, blocks), wit, d in zip(cases, wits, res):
        sp = d.get("spec")
        if d["kind"] != "ok" or not sp: continue
        c.evaluations += 1
        for k in ("nest", "safe", "evnest", "pdocs"):
            verdicts[k + "=" + sp.get(k, "?")] += 1
        verdicts["hrefs=" + sp.get("hrefs", "?")[:4]] += 1
        verdicts["docs=" + sp.get("docs", "?")[:4]] += 1
        if sp.get("evnest") != "ok":
            c.broken.append(("assumption on pulldown-cmark violated: nested markdown links in parser events", wit[:2000]))
        # (1) nesting in the real HTML
        if sp.get("nest") != "ok":
            if sp.get("safe") == "no":
                report("raw-html-anchor-wraps-code",
                       "a code span inside a raw-HTML <a> of a doc comment is wrapped in a second <a>: nested links in the .html",
                       label, blocks, d, lambda r, b: r["spec"].get("nest") != "ok" and r["spec"].get("safe") == "no",
                       lambda r: {"html_excerpt": excerpt_nested(unhx(r.get("html", "-")))})
            else:
                report("nested-link", "the generated .html nests an <a> inside an <a> although the input satisfies htmlSafe",
                       label, blocks, d, lambda r, b: r["spec"].get("nest") != "ok" and r["spec"].get("safe") != "no",
                       lambda r: {"html_excerpt": excerpt_nested(unhx(r.get("html", "-")))})
        # (2) fragment links
        h = sp.get("hrefs", "?")
        if h != "ok":
            dang = [unhx(x) for x in h[5:].split(",") if x]
            md = unhx(d["md"])
            emitted = all(f'<a id="{x}"></a>' in md for x in dang)
            nodocs = R.run([witgen2.render(strip_docs(blocks))])[0]
            clean_without_docs = nodocs["kind"] == "ok" and nodocs.get("spec", {}).get("hrefs") == "ok"
            if emitted and clean_without_docs:
                def pred(r, b):
                    if r["spec"].get("hrefs", "ok") == "ok": return False
                    nd = R.run([witgen2.render(strip_docs(b))])[0]
                    return nd["kind"] == "ok" and nd.get("spec", {}).get("hrefs") == "ok"
                report("doc-block-swallows-anchor",
                       "a doc comment that opens a markdown/HTML block (unclosed code fence, <!--, <pre>…) swallows a later "
                       "<a id> anchor emitted by the generator while links to it are still produced: dangling #fragment in the .html",
                       label, blocks, d, pred,
                       lambda r: {"dangling": [unhx(x) for x in r["spec"].get("hrefs", "fail:")[5:].split(",") if x]})
            else:
                report("href-without-anchor", "the .html links to a #fragment that has no anchor (not caused by a doc comment)",
                       label, blocks, d, lambda r, b: r["spec"].get("hrefs", "ok") != "ok",
                       lambda r: {"dangling": [unhx(x) for x in r["spec"].get("hrefs", "fail:")[5:].split(",") if x],
                                  "anchor_emitted_in_md": emitted, "clean_without_docs": clean_without_docs})
        # (3) doc text
        dd = sp.get("docs", "?")
        if dd != "ok":
            missing = [unhx(x) for x in dd[5:].split(",") if x]
            if sp.get("pdocs") == "ok":
                # (repaired in /repo 283838a; the class stays so that a regression is reported as a VIOLATION)
                report("export-interface-docs-dropped",
                       "the doc comment of an interface that is only exported is not printed (export_interface has no docs call)",
                       label, blocks, d, lambda r, b: r["spec"].get("docs", "ok") != "ok" and r["spec"].get("pdocs") == "ok",
                       lambda r: {"missing_docs": [unhx(x) for x in r["spec"].get("docs", "fail:")[5:].split(",") if x]})
            else:
                report("doc-text-lost", "a doc comment that the generator prints does not appear verbatim (per trimmed line) in the .md",
                       label, blocks, d, lambda r, b: r["spec"].get("pdocs") != "ok",
                       lambda r: {"missing_docs": [unhx(x) for x in r["spec"].get("docs", "fail:")[5:].split(",") if x]})
        c.nontrivial  # (distinct non-trivial inputs are counted by compare())
    for (label, blocks), wit, d in list(zip(cases, wits, res))[ncorpus:ncorpus + 2]:
        if d["kind"] == "ok":
            c.sample({"wit": wit[:1200], "md_bytes": len(d["md"]) // 2, "spec": d.get("spec")})
    c.cov["input_distribution"] = dict(sorted(stats.items()))
    c.cov["generator_outcomes"] = dict(kinds)
    c.cov["monitor_verdicts_on_real_output"] = dict(verdicts)
    c.cov["corpus_cases"] = ncorpus
    c.cov["search"] = ("MdSpec monitors (Lean, spec side) evaluated on the real .md/.html of every world of this run: "
                       "tokNoNested(scan html), hrefsDefined(scan html), docsVerbatim(md, world); failing worlds are shrunk by block/line deletion")
    c.assumptions += [
        "pulldown-cmark 0.13.4 (Parser::new, html::push_html) is external: its events are an input of the model, its renderer is applied to the model's output; "
        "assumed never to yield a Start(Link) inside a link (checked on every parsed document of the run: evnest)",
        "wit-parser supplies the abstract world (names, name_world_key, docs, type table); heck::to_snake_case is the Heck model (validated by C27's glue run; names here are ASCII kebab-case)",
        "Opts.html_in_md is a private field (only reachable through clap): the default (separate .md and .html) is the only mode run",
        "HashMap<String,String> hrefs modelled as an association list (get = latest insert)",
        "the HTML scanner of the monitors (MdSpec.scan) recognises <a …> / </a> tags textually; it does not parse comments/CDATA/script",
    ]


def excerpt_nested(html):
    depth = 0
    for m in re.finditer(r"<a[\s>]|</a>", html, re.I):
        if m.group(0).lower().startswith("<a"):
            if depth > 0:
                return html[max(0, m.start() - 80): m.start() + 80]
            depth += 1
        else:
            depth = max(0, depth - 1)
    return ""
