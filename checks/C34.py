"""C34 — test configuration reader (crates/test/src/config.rs: parse_test_config, StringList).
Model + spec: lean/Witverif/Text/Config.lean (+ RustStr.lean / RustStr2.lean primitives),
theorems: lean/Witverif/Props/C34.lean.
Tie: harness/config-run (#[path]-includes the real config.rs from the working tree) vs m_config:
  * parse_test_config::<toml::Table>(contents, marker) == toml(model config_text) == toml(spec text)
    (canonical rendering of the document, or the full error chain), on random files;
  * the implementation's answer does not change when everything after the first non-marker line is replaced;
  * Vec<String>::from(StringList) == model, and the Lean-side judge `acceptsArgs` on the implementation's vector;
  * end to end: `args` / `wasmtime-flags` / `dependencies` written as TOML string or array in a file;
  * glue: str::lines / split_whitespace / join / starts_with / slicing vs the model's primitives."""
import os, json, collections
from vlib import run_lines, VERIF

def hx(s): return s.encode().hex() if s else "-"
def unhx(h): return "" if h == "-" else bytes.fromhex(h).decode()
def hl(l): return ",".join(hx(x) for x in l) if l else "[]"
def unhl(t): return [] if t == "[]" else [unhx(x) for x in t.split(",")]

MARKERS = ["//@"] * 8 + [";;@"] * 3 + ["#@", "#", "//", "--", ";;", "//@ ", "@", "é@", "", "\t"]
WS = [" ", " ", " ", "\t", "\n", "\r", "\x0b", "\x0c", "\u0085", "\u00a0", "\u1680", "\u2000", "\u2003", "\u200a",
      "\u2028", "\u2029", "\u202f", "\u205f", "\u3000"]
NOT_WS = ["\u200b", "\u180e", "\ufeff", "\u2060", "\x1f", "\x00", "\x1c"]     # look-alikes that are not White_Space
WORDS = ["--foo", "--bar=1", "-O", "x", "a.b", "é", "--async=all", "'q'", "\"", "-", "\\", "漢字"]
TOML_BODIES = [" args = '--foo --bar'", " args = [\"a\", \"b c\"]", "args='-x'", " wasmtime-flags = '-W x  -S y'",
               " [lang]", " rustflags = '-O'", "x=1", " # comment", "", " ", " key = \"v\\tq\"", " dependencies = 'a b'",
               " async = true", " runner = 'r'", " y = 1.5", " z = [1, 2]", " d = 1979-05-27", "\tt = true",
               " = 3", " a = ", "[[", " args = 1", " x = 1", " 'q k' = \"é\"", " a.b = 2", " s = \"\"\"", " \"\"\""]
CODE = ["", "fn main() {}", "  ", "include!(env!(\"BINDINGS\"));", "// plain comment", ";; plain", "#include <x.h>", "}",
        "package a:b;", "\ufeff", "x //@ not = 'leading'"]
RAWCH = list("abcXYZ019 _-=[]{}#\"\\/@;,.:!") + ["\t", "\u00e9", "\u6f22", "'", "''", "\u00a0", "\u3000"]

def gen_eol(rng, st):
    r = rng.random()
    if r < 0.68: return "\n"
    if r < 0.93: st["crlf"] += 1; return "\r\n"
    st["crcrlf"] += 1; return "\r\r\n"

def gen_file(rng, st):
    """returns (contents, marker, alt) — alt = same file with everything after the first non-marker line replaced
    (None when the file has no such line)"""
    m = rng.choice(MARKERS)
    mode = rng.random()
    bodies = []
    if mode < 0.5:
        st["block:toml-ish"] += 1
        bodies = [rng.choice(TOML_BODIES) for _ in range(rng.choice([0, 1, 1, 2, 2, 3, 4, 6]))]
    elif mode < 0.8:
        st["block:raw-capture"] += 1
        k = rng.choice(["v", "w1"])
        inner = ["".join(rng.choice(RAWCH) for _ in range(rng.randint(0, 12))).replace("'''", "'") for _ in range(rng.randint(0, 4))]
        bodies = [rng.choice(["", " "]) + f"{k} = '''"] + inner + ["'''"]
        if rng.random() < 0.3: bodies += [rng.choice(TOML_BODIES) for _ in range(rng.randint(1, 2))]
        if rng.random() < 0.3: bodies = [rng.choice(TOML_BODIES[:9])] + bodies
    else:
        st["block:garbage"] += 1
        bodies = ["".join(rng.choice(RAWCH) for _ in range(rng.randint(0, 10))) for _ in range(rng.randint(0, 4))]
    # a configuration line whose content starts with the marker text again (`//@//@ …`): exactly ONE marker is
    # stripped per line, so the rest belongs to the TOML text (a value inside a multi-line string, or an error)
    if m:
        nb = []
        for b in bodies:
            if rng.random() < 0.1:
                st["body-starts-with-marker"] += 1
                b = m * rng.choice([1, 1, 2]) + b
            nb.append(b)
        bodies = nb
    head = "".join(m + b + gen_eol(rng, st) for b in bodies)
    st["config-lines:%d" % min(len(bodies), 6)] += 1
    r = rng.random()
    if r < 0.12:
        # no terminating line: the file is only the block (maybe last line unterminated / ending in a bare CR)
        st["end:block-only"] += 1
        if head and rng.random() < 0.6:
            head = head.rstrip("\n")
            if head.endswith("\r") and rng.random() < 0.5: head = head[:-1]
            if rng.random() < 0.25: head += "\r"; st["end:bare-cr"] += 1
        return head, m, None
    # the first line that is not a marker line
    stop_kind = rng.randrange(7)
    if stop_kind == 0: stop = ""
    elif stop_kind == 1: stop = rng.choice(CODE)
    elif stop_kind == 2 and len(m) > 1: stop = m[:-1] + " a = 1"              # marker cut short
    elif stop_kind == 3: stop = " " + m + " a = 1"                            # marker not at column 0
    elif stop_kind == 4 and m.upper() != m: stop = m.upper() + " a = 1"
    elif stop_kind == 5: stop = "\ufeff" + m + " a = 1"                       # BOM in front
    else: stop = rng.choice(CODE)
    if m and stop.startswith(m) or m == "":
        stop = "\x01" if m == "" else "zz"
        if m == "": return head, m, None          # every line starts with the empty marker
    st["stop:%d" % stop_kind] += 1
    def suffix():
        out = ""
        for _ in range(rng.randint(0, 5)):
            q = rng.random()
            if q < 0.45: out += m + rng.choice(TOML_BODIES) + gen_eol(rng, st); st["later-marker-line"] += 1
            elif q < 0.8: out += rng.choice(CODE) + gen_eol(rng, st)
            else: out += "".join(rng.choice(RAWCH) for _ in range(rng.randint(0, 8))) + gen_eol(rng, st)
        if out and rng.random() < 0.3: out = out.rstrip("\n")
        return out
    base = head + stop + gen_eol(rng, st)
    return base + suffix(), m, base + suffix()

def gen_ws_string(rng, st):
    parts = []
    for _ in range(rng.randint(0, 7)):
        r = rng.random()
        if r < 0.45: parts.append(rng.choice(WORDS))
        elif r < 0.85: parts.append("".join(rng.choice(WS) for _ in range(rng.randint(1, 3))))
        else: parts.append(rng.choice(NOT_WS)); st["ws-lookalike"] += 1
    return "".join(parts)

def toml_str(s):
    out = '"'
    for ch in s:
        o = ord(ch)
        if ch == '"': out += '\\"'
        elif ch == "\\": out += "\\\\"
        elif o < 0x20 or o == 0x7f or 0x80 <= o <= 0x9f or o in (0x2028, 0x2029): out += "\\u%04X" % o
        else: out += ch
    return out + '"'

def run(c):
    c.rule = ("random files: marker from {//@, ;;@, #@, #, //, --, ..., empty, non-ASCII}, block of TOML-ish / raw-capture "
              "(multi-line literal string that makes every character of the extracted text visible in the parsed value) / "
              "garbage lines, LF / CRLF / CRCRLF / unterminated / bare-CR endings, then a non-marker line (blank, code, "
              "cut marker, indented marker, BOM) and a suffix with later marker lines; non-trivial = block non-empty and "
              "a suffix with a later marker line exists, or the string has >= 2 words / odd white space; distinct by request text")
    ok = c.lake_build(["Witverif.Props.C34"])
    if ok: c.audit("Witverif.Props.C34")
    if c.tier == "thorough" and ok: c.leanchecker("Witverif.Props.C34")
    model = c.model_exe("m_config")
    impl = c.cargo_build("config-run")
    quick = c.tier == "quick"
    n_files = 12000 if quick else 200000
    n_words = 8000 if quick else 100000
    n_e2e = 3000 if quick else 40000
    n_glue = 4000 if quick else 50000
    st = collections.Counter()
    if not impl or not model:
        c.cov["search"] = "not run: harness or model driver did not build"
        return
    rng = c.rng
    # ------------------------------------------------------------------ files
    files = []
    cp = os.path.join(VERIF, "corpus", "C34.jsonl")
    if os.path.exists(cp):
        for l in open(cp):
            if l.strip() and not l.startswith("#"):
                j = json.loads(l)
                if j["kind"] == "file": files.append((j["contents"], j["marker"], j.get("alt")))
    n_corpus = len(files)
    if c.replay and "witness" in c.replay and "contents" in c.replay["witness"]:
        w = c.replay["witness"]; files.insert(0, (w["contents"], w["marker"], w.get("alt")))
    files += [gen_file(rng, st) for _ in range(n_files)]
    mreq = [f"cfg {hx(ct)} {hx(m)}" for ct, m, _ in files]
    mout = run_lines([model], mreq, timeout=600)
    texts = [tuple(o.split(" ")) if " " in o else (None, None) for o in mout]
    ireq, idx = [], []
    for i, ((ct, m, alt), (mt, stx)) in enumerate(zip(files, texts)):
        if mt is None:
            c.broken.append(("corr:config-text", f"model driver answered {mout[i][:80]} for {mreq[i][:200]}")); continue
        ireq.append(f"cfg {hx(ct)} {hx(m)} {mt}"); idx.append((i, "model"))
        ireq.append(f"cfg {hx(ct)} {hx(m)} {stx}"); idx.append((i, "spec"))
        if alt is not None:
            ireq.append(f"cfg {hx(alt)} {hx(m)} {stx}"); idx.append((i, "alt"))
    iout = run_lines([impl, "config"], ireq, timeout=900)
    by = collections.defaultdict(dict)
    for (i, kind), o in zip(idx, iout): by[i][kind] = o
    reqs, ians, mans = [], [], []
    def split(o):
        if not o.startswith("I="): return o, o
        a, b = o.split(" M=")
        return a[2:], b
    for i, (ct, m, alt) in enumerate(files):
        if "model" not in by[i]: continue
        iv, mv = split(by[i]["model"])
        reqs.append(mreq[i]); ians.append(iv); mans.append(mv)
        st["result:" + ("ok" if iv.startswith("ok:") else "toml-error" if iv.startswith("err:") else iv[:12])] += 1
        if iv == "ok:{}": st["result:empty-config"] += 1
        # model text and spec text must coincide (theorem config_text_accepted); judged separately:
        sv_i, sv_m = split(by[i]["spec"])
        if sv_i != sv_m:
            c.spec_violation("config-not-leading-block",
                             "parse_test_config does not read exactly the leading block of marker lines",
                             {"contents": ct, "marker": m, "impl": sv_i[:400], "spec_text": unhx(texts[i][1]),
                              "toml_of_spec_text": sv_m[:400], "impl_decoded": unhx(sv_i[4:])[:400] if sv_i.startswith("err:") else None})
        if alt is not None:
            av, _ = split(by[i]["alt"])
            if av != sv_i:
                c.spec_violation("config-suffix-dependence",
                                 "text after the first non-marker line changes the configuration that is read",
                                 {"contents": ct, "alt": alt, "marker": m, "impl": sv_i[:400], "impl_alt": av[:400]})
    def nt_file(r, o): return o not in ("ok:{}",)
    c.compare("config-text", reqs, ians, mans, nontrivial=nt_file)
    c.cov["file_distribution"] = dict(sorted(st.items()))
    for (ct, m, alt), (mt, _), o in list(zip(files, texts, ians))[n_corpus:n_corpus + 3]:
        c.sample({"contents": ct, "marker": m, "model_config_text": unhx(mt) if mt else None, "impl": o[:200]})

    # ------------------------------------------------------------------ StringList
    st2 = collections.Counter()
    vals = []
    if os.path.exists(cp):
        for l in open(cp):
            if l.strip() and not l.startswith("#"):
                j = json.loads(l)
                if j["kind"] == "string": vals.append(("s", j["value"]))
                if j["kind"] == "list": vals.append(("l", j["value"]))
    if c.replay and "witness" in c.replay and "value" in c.replay["witness"]:
        w = c.replay["witness"]; vals.insert(0, (w["form"], w["value"]))
    for _ in range(n_words):
        if rng.random() < 0.75: vals.append(("s", gen_ws_string(rng, st2)))
        else: vals.append(("l", [rng.choice(WORDS + ["", "a b", " x ", "\t"]) for _ in range(rng.randint(0, 4))]))
    vals.append(("d", None))
    def tok(v): return "default" if v[0] == "d" else ("s:" + hx(v[1]) if v[0] == "s" else "l:" + hl(v[1]))
    wreq_i = ["sl " + tok(v) for v in vals]
    wout_i = run_lines([impl, "config"], wreq_i, timeout=300)
    wreq_m = ["words " + tok(v) + "\t" + o for v, o in zip(vals, wout_i)]
    wout_m = run_lines([model], wreq_m, timeout=300)
    def nt_w(r, o): return o.count(",") >= 1
    c.compare("string-list", ["words " + tok(v) for v in vals], wout_i, [m.split("\t")[0] for m in wout_m], nontrivial=nt_w)
    for v, o, m in zip(vals, wout_i, wout_m):
        verdict = m.split("\t")[1] if "\t" in m else "spec=missing"
        st2["form:" + v[0]] += 1
        if o not in ("panic", "bad-request"): st2["words:%d" % min(len(unhl(o)), 6)] += 1
        if verdict != "spec=ok":
            c.spec_violation("string-list-words", "Vec<String>::from(StringList) is not the list of the string's words",
                             {"form": v[0], "value": v[1], "impl": o, "model": m.split("\t")[0], "verdict": verdict})
    # end to end through the TOML parser: args / wasmtime-flags / dependencies
    e2e, e2e_req = [], []
    for _ in range(n_e2e):
        def val():
            if rng.random() < 0.6:
                s = gen_ws_string(rng, st2); return ("s", s), toml_str(s)
            l = [rng.choice(WORDS + ["", "a b", " x "]) for _ in range(rng.randint(0, 4))]
            return ("l", l), "[" + ", ".join(toml_str(x) for x in l) + "]"
        m = rng.choice(["//@", "//@", ";;@", "#@"])
        a, at = val(); w, wt = val()
        which = rng.random()
        if which < 0.7:
            lines = []
            present = [rng.random() < 0.8, rng.random() < 0.6]
            if present[0]: lines.append(f"{m} args = {at}")
            if present[1]: lines.append(f"{m} wasmtime-flags = {wt}")
            rng.shuffle(lines)
            ct = "".join(l + rng.choice(["\n", "\r\n"]) for l in lines) + "\nfn main() {}\n" + f"{m} args = 'late'\n"
            e2e.append(("args", a if present[0] else ("d", None), w if present[1] else ("d", None)))
            e2e_req.append(f"args {hx(ct)} {hx(m)}")
        else:
            present = rng.random() < 0.75
            ct = (f"{m} dependencies = {at}\n" if present else f"{m} runner = 'r'\n") + "\npackage a:b;\n"
            e2e.append(("deps", a if present else None))
            e2e_req.append(f"deps {hx(ct)} {hx(m)}")
    e_out = run_lines([impl, "config"], e2e_req, timeout=300)
    need = []
    for e in e2e:
        for v in e[1:]:
            if v is not None: need.append("words " + tok(v))
    got = dict(zip(need, run_lines([model], need, timeout=300)))
    e_model = []
    for e in e2e:
        if e[0] == "args": e_model.append("ok:" + got["words " + tok(e[1])] + "|" + got["words " + tok(e[2])])
        else: e_model.append("ok:" + (got["words " + tok(e[1])] if e[1] is not None else hl(["test"])))
    c.compare("string-list-end-to-end", e2e_req, e_out, e_model, nontrivial=lambda r, o: o.count(",") >= 1)
    for e, o in zip(e2e, e_out):
        st2["e2e:" + e[0] + (":err" if o.startswith("err") else "")] += 1
    c.cov["string_list_distribution"] = dict(sorted(st2.items()))

    # ------------------------------------------------------------------ glue (std primitives)
    greq = []
    for _ in range(n_glue):
        k = rng.randrange(5)
        s = "".join(rng.choice(RAWCH + WS + NOT_WS + ["\n", "\r\n", "\r", "//@", ";;@"]) for _ in range(rng.randint(0, 14)))
        p = rng.choice(MARKERS + [s[:rng.randint(0, 3)]])
        if k == 0: greq.append("lines " + hx(s))
        elif k == 1: greq.append("splitws " + hx(s))
        elif k == 2: greq.append("join " + hx(rng.choice(["\n", " ", "", ", "])) + " " + hl([rng.choice(WORDS + ["", " "]) for _ in range(rng.randint(0, 4))]))
        elif k == 3: greq.append(f"starts {hx(s)} {hx(p)}")
        else: greq.append(f"slice {hx(s)} {hx(p)}")
    c.compare("glue-std-str", greq, run_lines([impl, "glue"], greq, timeout=300), run_lines([model], greq, timeout=300),
              nontrivial=lambda r, o: o not in ("[]", "-", "0", "none"))
    c.cov["search"] = ("spec side evaluated on the implementation: parse result == TOML of the spec's leading-block text; "
                       "parse result invariant under replacing the suffix; ConfigSpec.acceptsArgs (Lean) on the implementation's vectors")
    c.assumptions += [
        "the TOML parser (toml crate) is external: the model stops at config_text; two texts are compared through the parser "
        "(canonical rendering of the document or the full error chain, which quotes the offending line); raw-capture blocks make "
        "every character of the extracted text visible in a parsed string value",
        "str::lines, split_whitespace, starts_with, join and slicing are modelled on List Char (RustStr / RustStr2) and compared with std (glue-std-str)",
        "`&l[comment.len()..]` is modelled as dropping the marker's characters (equal because the line starts with the marker)",
    ]
