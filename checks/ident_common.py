"""Shared machinery of C09 (Rust) and C31 (C++): identifier model tie + compiler validation/search.

  names  --ident-run rustid (real to_rust_ident / to_c_ident / heck / validate_id)-->  compared with m_ident (Lean model)
  worlds --ident-run scopes (real wit-parser)--> naming scopes --m_ident--> predicted hygiene defects ("reasons")
         --ident-run rustgen|cppgen (real generator, option matrix)--> files --rustc | g++--> accepted / diagnostics
The model predicts "identifier-clean => the compiler accepts".  A rejection of a predicted-clean world is a
correspondence break (class = diagnostic code + identifier); a rejection explained by a predicted reason is a
failure of the property on the implementation, reported under the reason's class."""
import os, sys, re, json, glob, subprocess, hashlib, collections
from concurrent.futures import ThreadPoolExecutor
from vlib import run_lines, sh, VERIF, REPO, BUILD, HARNESS

sys.path.insert(0, os.path.join(VERIF, "tools"))
import identgen

def hx(s): return s.encode().hex() if s else "-"
def unhx(h): return "" if h == "-" else bytes.fromhex(h).decode()

def parse_kv(line):
    d = {}
    for t in line.split(" "):
        if "=" in t:
            k, v = t.split("=", 1); d[k] = v
    return d

# ---------------------------------------------------------------- translator
def run_translator(c, only):
    rc, out = sh([sys.executable, os.path.join(VERIF, "tools", "gen_ident_tables.py"), "--only", only, "--repo", REPO])
    if os.path.realpath(REPO) != "/repo":
        # a run against another source tree (VERIF_REPO, e.g. a mutant) must not leave its tables in the shared
        # Lean tree: regenerate from /repo when this process exits
        import atexit
        atexit.register(lambda: sh([sys.executable, os.path.join(VERIF, "tools", "gen_ident_tables.py"), "--only", only, "--repo", "/repo"]))
    try: info = json.loads(out.strip().split("\n")[-1])
    except Exception: info = {"translator_error": out[-500:]}
    if rc == 2 or "translator_error" in info:
        c.broken.append(("translator tools/gen_ident_tables.py (round-trip guard)", info.get("translator_error", out[-500:])))
    c.cov["translator"] = info.get("rust" if only == "rust" else "cpp", info)
    return info

# ---------------------------------------------------------------- model tie on names
def random_wit_name(rng):
    parts = []
    for i in range(rng.choice([1, 1, 2, 2, 3, 4])):
        upper = rng.random() < 0.25
        n = rng.choice([1, 2, 3, 5, 8])
        first_digit = i > 0 and rng.random() < 0.2
        cs = []
        for j in range(n):
            if (j == 0 and first_digit) or (j > 0 and rng.random() < 0.25): cs.append(rng.choice("0123456789"))
            else: cs.append(rng.choice("ABCDEFGHIJKLMNOPQRSTUVWXYZ" if upper else "abcdefghijklmnopqrstuvwxyz"))
        parts.append("".join(cs))
    return "-".join(parts)

def name_pool(lang):
    P = identgen.pools(lang)
    names = []
    for v in P.values(): names += v
    for a, b in identgen.PAIRS: names += [a, b]
    # keywords in every WIT spelling: lower, UPPER, kebab for `_`
    kws = identgen.RUST_KEYWORDS if lang == "rust" else identgen.CPP_KEYWORDS
    names += [k.upper() for k in kws] + [k.replace("-", "-").lower() for k in kws]
    names += ["Self", "self", "a", "A", "a-", "-a", "a--b", "aB", "1a", "a-1", "a1", "", "a_b", "x-Y-z", "X1-2y"]
    return list(dict.fromkeys(names))

def tie_names(c, impl, model, lang, n_random):
    names = name_pool(lang) + [random_wit_name(c.rng) for _ in range(n_random)]
    names = [n for n in dict.fromkeys(names)]
    iout = run_lines([impl, "rustid"], [hx(n) for n in names], timeout=120)
    mout = run_lines([model], [hx(n) + "\t" + o for n, o in zip(names, iout)], timeout=300)
    keys = ["rust", "c", "snake", "camel", "pascal", "shouty", "valid"]
    canon = lambda a: " ".join(f"{k}={parse_kv(a).get(k)}" for k in keys)
    c.compare("ident-functions", [hx(n) for n in names], iout, [m.split("\t")[0] for m in mout],
              nontrivial=lambda r, o: parse_kv(o).get("valid") == "1" and parse_kv(o).get("rust") != r, canon=canon)
    return names, iout, mout

# ---------------------------------------------------------------- scopes + prediction
def get_scopes(impl, reqs):
    """reqs: list of (wit_text or None, path or None, world or None) -> list of scopes lists (None on error)"""
    lines = [("@" + hx(p) if p else hx(w)) + " " + (wn or "-") for (w, p, wn) in reqs]
    outs = run_lines([impl, "scopes"], lines, timeout=300)
    res = []
    for o in outs:
        if not o.startswith("ok"):
            res.append(None); continue
        sc = []
        for t in o.split(" ")[1:]:
            if not t: continue
            kind, conv, owner, names = t.split("|")
            ns = [unhx(x) for x in names.split(",")]
            own = unhx(owner)
            if kind == "params" and "[method]" in own and ns and ns[0] == "self": ns = ns[1:]
            sc.append({"kind": kind, "conv": conv, "owner": own, "names": ns})
        res.append(sc)
    return res

def model_lookup(model, names):
    names = sorted(set(names))
    outs = run_lines([model], [hx(n) for n in names], timeout=300)
    M = {}
    for n, o in zip(names, outs):
        d = parse_kv(o)
        M[n] = {k: (unhx(v) if k not in ("valid", "rkw", "ckw", "rtemp", "ctemp", "rckw", "skw", "cskw", "rpre", "rfn", "rgp") else v) for k, v in d.items()}
    return M

def dup_groups(idents):
    g = collections.defaultdict(list)
    for name, ident in idents: g[ident].append(name)
    return {k: v for k, v in g.items() if len(set(v)) > 1}

# ---------------------------------------------------------------- compilers
def parallel(fn, items, workers=16):
    with ThreadPoolExecutor(workers) as ex:
        return list(ex.map(fn, items))

def decode_files(ans):
    """`ok <hexname>:<hexcontent> …` -> dict"""
    toks = ans.split(" ")
    if toks[0] != "ok": return None
    files = {}
    for t in toks[1:]:
        if not t: continue
        n, cnt = t.split(":")
        files[unhx(n)] = unhx(cnt)
    return files

def gen_error(ans):
    toks = ans.split(" ")
    return toks[0] + (": " + unhx(toks[1])[:300] if len(toks) > 1 else "")
