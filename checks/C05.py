"""C05 — Rust guest bindings carry every value across the boundary unchanged.
Theorems: lean/Witverif/Props/C05.lean (Rust profile of the ABI model).  Tie: harness/bind-native —
the REAL Rust generator (every option combination) on seeded worlds, generated code compiled and
executed natively, the Lean canonical-ABI spec (`m_host`) acting as the component-model host."""
import os, json
import bind_common as bc
from vlib import VERIF

def run(c):
    quick = c.tier == "quick"
    c.rule = ("one evaluation = one call (export: host lowers seeded arguments, user function observes them, returns a scripted "
              "value, host lifts it; import: Rust code passes seeded arguments through the generated wrapper, host lifts them and "
              "answers with a seeded result) compared as canonical value terms; non-trivial = the call carries at least one "
              "value through linear memory or a joined variant slot; distinct by (world, function, values)")
    ok = c.lake_build(["Witverif.Props.C05"])
    if ok: c.audit("Witverif.Props.C05")
    if not quick and ok: c.leanchecker("Witverif.Props.C05")
    emitter, host = bc.prepare(c)
    if not emitter or not host:
        return
    corpus = bc.load_corpus(os.path.join(VERIF, "corpus", "C05.txt"))
    replay_item, replay_calls = None, None
    if c.replay and "witness" in c.replay and "wit" in c.replay["witness"]:
        w = c.replay["witness"]
        replay_item = (w["config"], w["wit"])
    n_worlds = 40 - len(corpus) if quick else 200
    per_fn = 3 if quick else 6
    items, stats = bc.make_items(c.rng, max(n_worlds, 0), bc.BASE_FEATURES, corpus, replay_item)
    dropped = {}
    batches = bc.iter_batches(c, items, emitter, dropped)
    ncompiled = 0
    cfgs = {}
    # worlds known not to compile: their own small batch (each must still fail to compile)
    nc = bc.load_corpus(os.path.join(VERIF, "corpus", "C05-nocompile.txt"))
    nc_items = [(cfg, text.replace("t:wX", f"t:w{900 + k}")) for k, (cfg, text) in enumerate(nc)]
    if nc_items:
        _, nc_dropped = bc.build_all(c, nc_items, emitter)
        for k, e in nc_dropped.items():
            c.spec_violation(bc.classify_compile_error(e), "generated Rust bindings do not compile, so no value can cross the boundary (" + e + ")",
                             {"config": nc_items[k][0], "wit": nc_items[k][1], "rustc": e})
        c.cov["nocompile_corpus"] = {"worlds": len(nc_items), "still_failing": len(nc_dropped)}
    counts = {"export": 0, "import": 0, "indirect-params": 0, "retptr": 0, "through-memory": 0}
    reqs, impl, model = [], [], []
    dreqs, dimpl, dmodel = [], [], []
    renderings = {}
    for batch, gmap in batches:
        ncompiled += len(gmap)
        fr = bc.flags_lift_rendering(batch)
        renderings[str(fr)] = renderings.get(str(fr), 0) + 1
        if fr == "?":
            c.broken.append(("translator:flags-lift-rendering", "the FlagsLift template of the Rust backend is not one of the two modelled renderings"))
        bc.Runner.flags_mode = fr if fr in ("zext", "sext") else "zext"
        bc.check_signatures(c, host, batch)
        for m in batch.manifest:
            if m["dir"] == "item":
                cfgs[m["config"]] = cfgs.get(m["config"], 0) + 1
                if m["status"] != "ok":
                    c.spec_violation("rust-generator-failed", f"the Rust generator {m['status']}s on a valid world: {m.get('message', '')[:300]}",
                                     {"config": m["config"], "wit": items[gmap[m['item']]][1] if m['item'] < len(gmap) else None})

        def on_outcome(m, o, batch=batch, gmap=gmap):
            if m is None:
                return
            counts[m["dir"]] += 1
            counts["indirect-params"] += int(m["indirect_params"])
            counts["retptr"] += int(m["retptr"])
            fs = bc.value_findings(m, o)
            req = f"{m['dir']} {m['key']} {bc.vals_term(o['vals'])} -> {o['ret']}"
            reqs.append(req)
            i_, m_ = bc.value_corr(m, o)
            impl.append(i_); model.append(m_)
            # which lists take the canonical (buffer reinterpreted / taken over) and which the element-wise path
            # (fresh collection / buffer, incoming one freed) is visible in the allocation events of the call:
            # compared with the model's decision (`rustCanon`, through the ledger model) on every export call
            lc = bc.ledger_counts(o) if m["dir"] == "export" else None
            if lc is not None:
                dreqs.append(req)
                dimpl.append(json.dumps({k: lc[0][k] for k in ("galloc", "gfree", "hostfree")}, sort_keys=True))
                dmodel.append(json.dumps({k: lc[1][k] for k in ("galloc", "gfree", "hostfree")}, sort_keys=True))
            mem = any(x in m["func"] for x in ("string", "list", "map", "variant", "option", "result")) 
            if mem:
                counts["through-memory"] += 1
                c.nontrivial.add(req)
            wit, cfg = items[gmap[m["item"]]][1], items[gmap[m["item"]]][0]
            for cls, what, detail in fs:
                c.spec_violation(cls, what, {"config": cfg, "wit": wit, "function": m["key"], "func": m["func"],
                                             "args": o["vals"], "ret": o["ret"], **detail})
            if len(c.samples) < 4 and mem and not fs:
                c.sample({"config": cfg, "function": m["key"], "type": m["func"], "args": bc.vals_term(o["vals"])[:300],
                          "observed": (o.get("observed") or o.get("lifted_args") or "")[:300]})
        bc.run_calls(c, batch, host, c.rng, per_fn, on_outcome)
    for k, e in dropped.items():
        cls = bc.classify_compile_error(e)
        c.spec_violation(cls, "generated Rust bindings do not compile, so no value can cross the boundary (" + e + ")",
                         {"config": items[k][0], "wit": items[k][1], "rustc": e})
    c.cov["flags_lift_rendering_per_batch"] = renderings
    c.compare("values", reqs, impl, model, nontrivial=lambda r, o: False)
    c.compare("canonical-vs-elementwise-list-path", dreqs, dimpl, dmodel, nontrivial=lambda r, o: False)
    c.cov["worlds"] = {"generated": len(items), "corpus": len(corpus), "compiled": ncompiled,
                       "dropped_not_compiling": len(dropped)}
    c.cov["configurations"] = cfgs
    c.cov["type_constructors_generated"] = stats
    c.cov["calls"] = counts
    c.cov["search"] = "value monitors (host-sent vs guest-observed, guest-sent vs host-lifted) on every call of this run"
    c.assumptions += [
        "executed natively at pointer width 8 only (x86-64); pointer width 4 is covered by the C01/C02 theorems and the abi-trace correspondence, not by execution",
        "the independent host is the Lean transcription of the canonical ABI (Spec.lean via m_host), not wasmtime",
        "hook H3 replaces the unreachable!() import shims by extern symbols on non-wasm targets; the wasm32 text of the bindings is untouched",
        "no shape is avoided by the world generator any more (the three does-not-compile findings of C05 were repaired in /repo; their worlds are must-pass corpus entries)",
        "future/stream/error-context types are out of scope here (async runtime: C08, C18-C23)",
    ]
