"""C14 — every backend's scalar conversion expressions implement the canonical ABI mapping.
Translator tie (DESIGN §3.1): tools/scalar_translate.py regenerates lean/Witverif/Generated/ScalarExprs.lean from the
OUTPUT of the seven real generators; theorems: lean/Witverif/Props/C14.lean + Props/C14/<Backend>.lean (fixed text,
re-proved against the regenerated table); search: m_scalar evaluates every expression against Spec; glue: the
Rust/C/C++ snippets are compiled natively and compared with the Lean evaluation (validates Scalar/Langs.lean)."""
import scalar_check as S
import scalar_translate as T

MODULES = ["Witverif.Props.C14"] + [f"Witverif.Props.C14.{S.CAP[b]}" for b in T.BACKENDS]

def run(c):
    c.rule = ("one entry per distinct (backend, scalar instruction, position, declared types, expression) extracted from generated "
              "output of 84 probe worlds (12 scalar types x 7 backends, import+export, flat + in-memory); every entry is "
              "non-trivial (it is a conversion the generator emits); evaluations = inputs on which an entry was compared with Spec")
    rep = S.step_translate(c, want_casts=False)
    S.step_proofs(c, MODULES)
    model = S.driver(c)
    if rep is None or model is None:
        return
    if c.replay and isinstance(c.replay.get("witness"), dict) and "list" in c.replay["witness"]:
        w = c.replay["witness"]
        from vlib import run_lines
        req = f"s {w['list']} {w['index']} {w['input_hex']} {1 if w.get('debug_assertions') else 0}"
        ans = run_lines([model], [req], timeout=60)[0]
        print(f"replay: {req} -> {ans}")
        if not ans.startswith("1\t"):
            c.spec_violation(c.replay.get("class", "replay"), c.replay.get("what", "replayed witness still fails"),
                             dict(w, replayed_answer=ans))
    fails = S.sweep_scalars(c, rep, model)
    S.native_search_untranslatable(c, rep, model)
    S.native_langs(c, rep, model, S.native_support(rep), scalars=True, casts=False)
    for s in [x for x in rep["sites"] if "wty" in x and "probe" not in x][:6]:
        c.sample({"site": s["key"], "snippet": T.one_line(s["snippet"]), "expr": s["lean"], "declared operand type": s["opTy_text"],
                  "declared destination type": s["dstTy_text"]})
    per = {}
    for s in rep["sites"]:
        if "wty" in s and "probe" not in s:
            per.setdefault(s["backend"], {"sites": 0, "distinct_exprs": set()})
            per[s["backend"]]["sites"] += 1
            per[s["backend"]]["distinct_exprs"].add(s["lean"])
    c.cov["per_backend"] = {b: {"sites": v["sites"], "distinct_expressions": len(v["distinct_exprs"])} for b, v in per.items()}
    c.cov["search"] = ("every extracted expression evaluated by the Lean model (m_scalar) against Spec.lower/lift/store/load on all 2^8 "
                       "(thorough: all 2^16 for 8/16-bit types) inputs, boundary and random 32/64-bit inputs, with arbitrary bytes after "
                       "the memory cell, both debug_assertions settings for Rust; Rust/C/C++ snippets also compiled and run natively")
    c.cov["input_distribution"] = {"exhaustive_low_bits": 65536 if c.tier == "thorough" else 256, "boundary_values": len(S.B64),
                                   "random_64bit": 200 if c.tier == "thorough" else 40, "random_32bit": 100 if c.tier == "thorough" else 20,
                                   "memory_tail_variations_per_mem_lift": 256 + len(S.B32)}
    c.assumptions += [
        "Scalar/Langs.lean: cast / implicit-conversion / intrinsic semantics of C#, Go, MoonBit and D are transcribed from the language "
        "references and not validated against a compiler (no dotnet/go/moon/ldc2 here); Rust, C, C++ are validated natively on sampled inputs",
        "C signed narrowing conversions are modular (GCC/Clang behaviour; implementation-defined before C23)",
        "C# code is compiled in the default unchecked context (no <CheckForOverflowUnderflow>)",
        "wasm32 data model (pointers, size_t, usize, nint are 32 bits); native validation runs on x86-64 and only covers pointer-free snippets",
        "the representation tables Claims.reprTy / coreTy (which target type carries which WIT / core type) are cross-checked against the "
        "declared types found in the generated signatures where a declaration is found at the site",
        "floats are bit patterns; no emitted conversion performs float arithmetic (a float<->int value conversion makes eval return an error)",
        "Spec.lean transcribes CanonicalABI.md lower_flat/lift_flat/load/store for scalars from memory (no network)",
        "Go's in-memory loads of 8/16-bit values read 4 bytes (`*(*uint32)`): the model reads 8 bytes at the cell address and quantifies "
        "over the bytes after the cell; that the extra bytes are addressable is not part of C14",
    ]
    c.trusted += ["the translator tools/scalar_translate.py + tools/scalar_parse.py (extraction sites, per-language mini-parser with "
                  "round-trip guard, lowering of surface syntax to Scalar.Expr)",
                  "bv_decide's LRAT checker compiled natively (axioms `<thm>._native.bv_decide.ax_*`), only in Props/C14/* (listed per theorem)"]
