"""C17 — async selection directives (wit_bindgen_core::AsyncFilterSet and its use by the Rust / C /
MoonBit generators).  Model + spec: lean/Witverif/Text/AsyncFilter.lean, theorems:
lean/Witverif/Props/C17.lean.
Tie 1: text-run asyncfilter (real AsyncFilterSet on functions of a real Resolve) vs m_asyncfilter.
Tie 2: gen-run asyncsel (real generators) — set of functions bound with the async ABI and Rust's
       rejection vs the model; the spec monitor is evaluated on the implementation's outputs."""
import os, json, collections
from vlib import run_lines, VERIF

def hx(s): return s.encode().hex() if s else "-"
def unhx(h): return "" if h == "-" else bytes.fromhex(h).decode()

KINDS = {"func": 0, "method": 1, "static": 2, "ctor": 3, "afunc": 4, "amethod": 5, "astatic": 6}
FN = ["f", "g", "h", "run", "all", "get-x", "f2"]
SIGS = ["()", "(x: u32) -> u32", "(s: string) -> string", "(a: u8, b: list<u8>)", "() -> result<u32, string>"]

# ---------------------------------------------------------------------------------- worlds
def gen_funcs(rng, lo, hi):
    """[(name, kindcode, wit line)] for an interface body / world level"""
    out = []
    for n in rng.sample(FN, rng.randint(lo, hi)):
        a = rng.random() < 0.4
        out.append((n, KINDS["afunc" if a else "func"], f"{n}: {'async ' if a else ''}func{rng.choice(SIGS)};"))
    return out

def gen_resource(rng, rname):
    lines, funcs = [f"resource {rname} {{"], []
    if rng.random() < 0.6:
        lines.append("  constructor(x: u32);"); funcs.append((f"[constructor]{rname}", KINDS["ctor"]))
    for n in rng.sample(["m", "f", "get-x", "all"], rng.randint(0, 3)):
        st, a = rng.random() < 0.35, rng.random() < 0.4
        if st:
            lines.append(f"  {n}: static {'async ' if a else ''}func{rng.choice(SIGS)};")
            funcs.append((f"[static]{rname}.{n}", KINDS["astatic" if a else "static"]))
        else:
            lines.append(f"  {n}: {'async ' if a else ''}func{rng.choice(SIGS)};")
            funcs.append((f"[method]{rname}.{n}", KINDS["amethod" if a else "method"]))
    lines.append("}")
    return lines, funcs

def gen_iface_body(rng):
    lines, funcs = [], []
    if rng.random() < 0.45:
        for rn in rng.sample(["r", "res", "f"], rng.randint(1, 2)):
            l, fs = gen_resource(rng, rn)
            lines += l; funcs += fs
    rnames = {l.split()[1] for l in lines if l.startswith("resource ")}
    for n, k, l in gen_funcs(rng, 0 if funcs else 1, 3):
        if n in rnames: continue
        lines.append(l); funcs.append((n, k))
    if not funcs:
        lines.append("only: func();"); funcs.append(("only", 0))
    return lines, funcs

def gen_world(rng):
    """returns (wit text, descriptors) ; descriptor = (dir 'i'|'e', iface key or None, func name, kind)"""
    ns, pk = rng.choice(["a", "foo", "wasi"]), rng.choice(["b", "bar-baz"])
    ver = rng.choice([None, None, "1.2.0", "0.2.0-rc.1"])
    vs = f"@{ver}" if ver else ""
    text = [f"package {ns}:{pk}{vs};", ""]
    ifaces = {}
    for iname in rng.sample(["i", "j", "types", "all"], rng.randint(0, 3)):
        lines, funcs = gen_iface_body(rng)
        ifaces[iname] = funcs
        text += [f"interface {iname} {{"] + ["  " + l for l in lines] + ["}", ""]
    foreign = {}
    if rng.random() < 0.25:
        fver = rng.choice(["", "@0.1.0"])
        lines, funcs = gen_iface_body(rng)
        foreign[f"c:d/z{fver}"] = funcs
        text += [f"package c:d{fver} {{", "  interface z {"] + ["    " + l for l in lines] + ["  }", "}", ""]
    desc, wl = [], []
    used = {"i": set(), "e": set()}
    for d, kw in (("i", "import"), ("e", "export")):
        # named interfaces of this / a foreign package
        for iname, funcs in ifaces.items():
            if rng.random() < 0.6:
                wl.append(f"  {kw} {iname};")
                desc += [(d, f"{ns}:{pk}/{iname}{vs}", n, k) for n, k in funcs]
        for q, funcs in foreign.items():
            if rng.random() < 0.7:
                wl.append(f"  {kw} {q};")
                desc += [(d, q, n, k) for n, k in funcs]
        # inline interfaces
        # (the C backend panics "duplicate symbols" when an inline interface of the same name is imported and
        #  exported with a common function name, so the two pools overlap only in `k`)
        for kname in rng.sample(["k", "k2", "f", "i"] if d == "i" else ["k", "x", "g", "j"], rng.randint(0, 2)):
            if kname in used[d]: continue
            used[d].add(kname)
            lines, funcs = gen_iface_body(rng)
            wl += [f"  {kw} {kname}: interface {{"] + ["    " + l for l in lines] + ["  }"]
            desc += [(d, kname, n, k) for n, k in funcs]
        # world-level functions
        for n, k, l in gen_funcs(rng, 0, 3):
            if n in used[d]: continue
            used[d].add(n)
            wl.append(f"  {kw} {l}")
            desc.append((d, None, n, k))
    if rng.random() < 0.15 and "wr" not in used["i"]:
        l, fs = gen_resource(rng, "wr")
        if fs:
            wl += ["  " + x for x in l]
            desc += [("i", None, n, k) for n, k in fs]
    if not desc:
        wl.append("  export run: async func();"); desc.append(("e", None, "run", 4))
    text += ["world w {"] + wl + ["}"]
    return "\n".join(text) + "\n", desc

def qual(f): return f"{f[1]}#{f[2]}" if f[1] is not None else f[2]
def ftok(f): return f"{f[0]}:{hx(f[1]) if f[1] is not None else '~'}:{hx(f[2])}:{f[3]}"

# ---------------------------------------------------------------------------------- directives
WEIRD = ["", "-", "--all", "-import:", "import:", "export:", "export:all", "import:-x", "all ", " all", "ALL",
         "import:import:f", "é", "-é#ü", "-export:export:all", "import", "-all-", "all,f", "import:all", "--"]

def render(d):
    """the documented syntax (python's own rendering of a structural directive)"""
    en, k, n = d
    return ("" if en else "-") + {"a": "all", "f": n, "i": "import:" + n, "e": "export:" + n}[k]

def wf(d):
    en, k, n = d
    if k != "f": return True
    return n != "all" and not n.startswith("import:") and not n.startswith("export:") and not (en and n.startswith("-"))

def near_miss(rng, f):
    q = qual(f)
    c = rng.randrange(8)
    if c == 0 and "@" in q: return q.split("@")[0] + "#" + f[2]           # version dropped
    if c == 1 and f[1] and "/" in f[1]: return f[1].split("/")[1] + "#" + f[2]   # package dropped
    if c == 2: return f[2]                                                  # bare function name
    if c == 3 and "]" in f[2]: return (f[1] + "#" if f[1] else "") + f[2].split("]")[1]   # [method] dropped
    if c == 4: return q + "x"
    if c == 5: return q.upper()
    if c == 6: return "w#" + f[2]
    return q.replace("#", "/")

def gen_directives(rng, desc, stats):
    out = []
    clean = rng.random() < 0.5      # half of the lists contain only directives that name a real function
    for _ in range(rng.choice([0, 1, 1, 2, 2, 3, 3, 4, 5, 7])):
        r = rng.random() * (0.62 if clean else 1.0)
        en = rng.random() < 0.6
        if r < 0.12:
            d = ("d", (en, "a", "")); stats["all"] += 1
        elif r < 0.62:
            f = rng.choice(desc)
            sc = rng.choice(["f", "f", f[0], f[0]] if clean else ["f", "f", "i", "e"])
            d = ("d", (en, sc, qual(f)))
            stats["exact-" + ("any" if sc == "f" else "own-dir" if sc == f[0] else "other-dir")] += 1
        elif r < 0.77:
            d = ("d", (en, rng.choice(["f", "i", "e"]), near_miss(rng, rng.choice(desc)))); stats["near-miss"] += 1
        elif r < 0.87 and out:
            p = rng.choice(out)
            d = ("d", (en, p[1][1], p[1][2])) if p[0] == "d" else p
            stats["duplicate"] += 1
        else:
            d = ("s", rng.choice(WEIRD)); stats["odd-text"] += 1
        if d[0] == "d" and not wf(d[1]):
            d = ("s", render(d[1]))          # no text denotes it structurally: send as text
        out.append(d)
    return out

def dtext(d): return render(d[1]) if d[0] == "d" else d[1]
def dtok_model(d):
    if d[0] == "s": return "s:" + hx(d[1])
    en, k, n = d[1]
    return f"d:{'+' if en else '-'}:{k}:{hx(n)}"

# ---------------------------------------------------------------------------------- cases
def gen_case(rng, stats):
    wit, desc = gen_world(rng)
    dirs = gen_directives(rng, desc, stats)
    start = rng.choice([None] * 12 + ["A:+", "A:-"])
    ops = []
    mode = rng.random()
    if mode < 0.35:      # what a generator does
        order = list(range(len(desc))); rng.shuffle(order)
        ops = [("q", i) for i in order] + [("e",)]
    else:
        for _ in range(rng.randint(1, 12)):
            r = rng.random()
            if r < 0.62: ops.append(("q", rng.randrange(len(desc))))
            elif r < 0.72: ops.append(("x", rng.randrange(len(desc))))
            elif r < 0.84: ops.append(("e",))
            elif r < 0.89: ops.append(("a",))
            elif r < 0.93: ops.append(("d",))
            else:
                more = gen_directives(rng, desc, collections.Counter())
                if more: ops.append(("p", more[0]))
    ops += [("a",), ("e",), ("d",)]
    return {"wit": wit, "desc": desc, "dirs": dirs, "start": start, "ops": ops}

def impl_request(case):
    d = ([case["start"]] if case["start"] else []) + ["s:" + hx(dtext(x)) for x in case["dirs"]]
    ops = []
    for op in case["ops"]:
        if op[0] in "qx":
            f = case["desc"][op[1]]
            ops.append(f"{op[0]}:{f[0]}:{hx(f[1]) if f[1] is not None else '~'}:{hx(f[2])}")
        elif op[0] == "p": ops.append("p:" + hx(dtext(op[1])))
        else: ops.append(op[0])
    return f"{hx(case['wit'])} - D {' '.join(d)} Q {' '.join(ops)}"

def model_request(case, ops=None):
    d = ([case["start"]] if case["start"] else []) + [dtok_model(x) for x in case["dirs"]]
    o = []
    for op in (case["ops"] if ops is None else ops):
        if op[0] in "qx": o.append(f"{op[0]}{op[1]}")
        elif op[0] == "p": o.append("p:" + dtok_model(op[1]))
        else: o.append(op[0])
    return f"D {' '.join(d)} F {' '.join(ftok(f) for f in case['desc'])} Q {' '.join(o)}"

def case_to_json(case):
    return {"wit": case["wit"], "functions": [[f[0], f[1], f[2], f[3]] for f in case["desc"]],
            "start": case["start"], "directives": [dtext(d) for d in case["dirs"]],
            "directive_tokens": [[d[0], list(d[1]) if d[0] == "d" else d[1]] for d in case["dirs"]],
            "ops": [[o[0]] + ([o[1]] if o[0] in "qx" else [[o[1][0], list(o[1][1]) if o[1][0] == "d" else o[1][1]]] if o[0] == "p" else []) for o in case["ops"]]}

def case_from_json(j):
    def dt(t): return ("d", tuple(t[1])) if t[0] == "d" else ("s", t[1])
    ops = []
    for o in j["ops"]:
        if o[0] in "qx": ops.append((o[0], o[1]))
        elif o[0] == "p": ops.append(("p", dt(o[1])))
        else: ops.append((o[0],))
    return {"wit": j["wit"], "desc": [tuple(f) for f in j["functions"]], "start": j.get("start"),
            "dirs": [dt(t) for t in j["directive_tokens"]], "ops": ops}

# ---------------------------------------------------------------------------------- generated code
BACKENDS = ["rust", "c", "moonbit"]

def observe(case, ans):
    """From the core names found in generated code: per function 't'/'f' (async / sync ABI) or a
    defect marker; returns (status, outs, problems)"""
    toks = ans.split(" ")
    if toks[0] != "ok":
        return toks[0], None, [unhx(toks[1]) if len(toks) > 1 else ""]
    e = toks.index("E")
    imports = {tuple(unhx(x) for x in t.split(":")) for t in toks[2:e]}
    exports = {unhx(t) for t in toks[e + 1:]}
    outs, problems = [], []
    for f in case["desc"]:
        if f[0] == "i":
            m = f[1] if f[1] is not None else "$root"
            a, s = (m, "[async-lower]" + f[2]) in imports, (m, f[2]) in imports
        else:
            en = qual(f)
            a, s = ("[async-lift]" + en) in exports, en in exports
        if a == s:
            problems.append(f"{f[0]} {qual(f)} bound {'both sync and async' if a else 'neither sync nor async'}")
            outs.append("?")
        else:
            outs.append("t" if a else "f")
    return "ok", outs, problems

# ---------------------------------------------------------------------------------- run
def run(c):
    c.rule = ("random worlds (named / foreign-package / inline interfaces, world-level functions, resources with "
              "constructor / method / static, sync and async, imported and exported, same interface both ways) x random "
              "directive lists x random API histories; non-trivial = some is_async answer differs from the WIT "
              "declaration or ensure_all_used rejects; distinct by request text")
    ok = c.lake_build(["Witverif.Props.C17"])
    if ok: c.audit("Witverif.Props.C17")
    if c.tier == "thorough" and ok: c.leanchecker("Witverif.Props.C17")
    model = c.model_exe("m_asyncfilter")
    impl = c.cargo_build("text-run")
    gen = c.cargo_build("gen-run")
    quick = c.tier == "quick"
    n_api = 20000 if quick else 200000
    n_gen = 4000 if quick else 40000
    stats = collections.Counter()
    cases = []
    cp = os.path.join(VERIF, "corpus", "C17.jsonl")
    if os.path.exists(cp):
        cases += [case_from_json(json.loads(l)) for l in open(cp) if l.strip() and not l.startswith("#")]
    n_corpus = len(cases)
    if c.replay and "witness" in c.replay and "case" in c.replay["witness"]:
        cases.insert(0, case_from_json(c.replay["witness"]["case"]))
    cases += [gen_case(c.rng, stats) for _ in range(n_api)]
    c.cov["directive_mix"] = dict(stats)
    c.cov["corpus_cases"] = n_corpus
    if not impl or not model:
        c.cov["search"] = "not run: harness or model driver did not build"
        return

    # ---------------- tie 1: the real AsyncFilterSet through its public API
    ireqs = [impl_request(k) for k in cases]
    iout = run_lines([impl, "asyncfilter"], ireqs, timeout=300)
    glue_bad, results = 0, []
    for k, o in zip(cases, iout):
        toks = o.split(" ")
        if toks[0] != "F" or "R" not in toks:
            results.append(o)
            c.broken.append(("corr:worldgen-glue", "harness rejected a generated world: " + o[:60] + " " + unhx(toks[1])[:300] if len(toks) > 1 and toks[0].startswith("bad") else o[:200]))
            continue
        ri = toks.index("R")
        ft, rt = toks[1:ri], " ".join(toks[ri + 1:])
        got = sorted(ft); want = sorted(ftok(f) for f in k["desc"])
        if got != want or "nofunc" in rt.split(" "):
            glue_bad += 1
            if glue_bad <= 3: c.broken.append(("corr:worldgen-glue", json.dumps({"wit": k["wit"], "got": got, "want": want})))
        results.append(rt.strip())
    c.cov["worldgen_glue"] = {"cases": len(cases), "descriptor_mismatches": glue_bad,
                              "what": "python's expected (direction, name_world_key, func.name, kind) list == what wit-parser resolves"}
    mreqs = [model_request(k) + "\t" + r for k, r in zip(cases, results)]
    mout = run_lines([model], mreqs, timeout=600)
    manswers = [m.split("\t")[0] for m in mout]
    def nontriv(r, o):
        return "err:" in o or any(a != b for a, b in zip(o.split(" "), nontriv.decl.get(r, [])))
    nontriv.decl = {}
    hist = collections.Counter()
    for k, rq, r in zip(cases, [model_request(k) for k in cases], results):
        decl = []
        for op in k["ops"]:
            decl.append(("t" if k["desc"][op[1]][3] >= 4 else "f") if op[0] in "qx" else "-")
        nontriv.decl[rq] = decl
        outs = r.split(" ")
        for op, o in zip(k["ops"], outs):
            if op[0] in "qx": hist["query->" + ("flipped-by-directive" if o != ("t" if k["desc"][op[1]][3] >= 4 else "f") else "as-declared")] += 1
            elif op[0] == "e": hist["ensure->" + ("err" if o.startswith("err") else o)] += 1
            else: hist[op[0]] += 1
        hist["functions/world:%d" % min(len(k["desc"]) // 5 * 5, 30)] += 1
        hist["directives:%d" % len(k["dirs"])] += 1
        for f in k["desc"]: hist["kind%d-%s" % (f[3], f[0])] += 1
    for k in cases:
        texts = [dtext(d) for d in k["dirs"]]
        for op in k["ops"]:
            if op[0] == "p": texts = texts + [dtext(op[1])]
            if op[0] not in "qx": continue
            f = k["desc"][op[1]]; imp = (f[0] == "i") != (op[0] == "x"); q = qual(f)
            skipped_dir = False
            for i, t in enumerate((["all" if k["start"] == "A:+" else "-all"] if k["start"] else []) + texts):
                t = t[1:] if t.startswith("-") else t
                if t == "all" or t == q or t == ("import:" if imp else "export:") + q:
                    hist["decided-by-directive#%d%s" % (min(i, 4), "+" if i >= 4 else "")] += 1
                    if skipped_dir: hist["decided-after-skipping-other-direction-directive"] += 1
                    break
                if t == ("export:" if imp else "import:") + q: skipped_dir = True
            else:
                hist["no-directive-matches"] += 1
                if skipped_dir: hist["no-match-after-skipping-other-direction-directive"] += 1
    c.cov["api_history_distribution"] = dict(sorted(hist.items()))
    c.compare("asyncfilter", [model_request(k) for k in cases], results, manswers, nontrivial=nontriv)
    for k, r, m in zip(cases, results, mout):
        verdict = m.split("\t")[1] if "\t" in m else "spec=missing"
        if verdict != "spec=ok":
            c.spec_violation("asyncfilter-history-monitor",
                             "AsyncFilterSet answered a history in a way that violates the C17 monitor "
                             "(first matching directive / used-set / rejection)",
                             {"case": case_to_json(k), "impl": r, "model": m.split("\t")[0], "verdict": verdict})
    for k, r in list(zip(cases, results))[n_corpus:n_corpus + 2]:
        c.sample({"directives": [dtext(d) for d in k["dirs"]], "functions": [f"{f[0]} {qual(f)} kind{f[3]}" for f in k["desc"]][:8],
                  "ops": [o[0] + (str(o[1]) if o[0] in "qx" else "") for o in k["ops"]], "impl": r})

    # ---------------- tie 2: generated code of the Rust / C / MoonBit backends
    if not gen:
        return
    gcases = [k for k in cases[:n_corpus]] + cases[n_corpus:n_corpus + n_gen]
    gcases = [k for k in gcases if not k["start"]]
    gstats = collections.Counter()
    for b in BACKENDS:
        greqs = [f"{hx(k['wit'])} - {b} " + " ".join(hx(dtext(d)) for d in k["dirs"]) for k in gcases]
        gout = run_lines([gen, "asyncsel"], greqs, timeout=900)
        obs, mreq2, keep = [], [], []
        for k, a in zip(gcases, gout):
            st, outs, problems = observe(k, a)
            gstats[f"{b}:{st}"] += 1
            ops = [("q", i) for i in range(len(k["desc"]))] + ([("e",)] if b == "rust" else [])
            if st == "ok":
                line = " ".join(outs + (["ok"] if b == "rust" else []))
                for f, o in zip(k["desc"], outs):
                    gstats[f"{b}:bound-" + ("async" if o == "t" else "sync") + ("(WIT says otherwise)" if (o == "t") != (f[3] >= 4) else "")] += 1
                for p in problems:
                    c.spec_violation(f"gen-{b}-binding-count", f"{b}: a world function is not bound exactly once",
                                     {"case": case_to_json(k), "backend": b, "problem": p})
            elif st == "err" and b == "rust":
                line = None
            elif st == "panic" and b == "c" and problems[0].startswith("duplicate symbols"):
                gstats["c:excluded-world(duplicate C symbols, not an async matter)"] += 1
                continue
            else:
                c.broken.append((f"corr:asyncsel-{b}", f"generator did not produce output: {st} {problems} for " + json.dumps(case_to_json(k))[:1500]))
                continue
            keep.append((k, st, line, problems, ops))
        # model answers for the same worlds
        mans = run_lines([model], [model_request(k, ops) for k, _, _, _, ops in keep], timeout=600)
        reqs_c, impl_c, model_c = [], [], []
        for (k, st, line, problems, ops), m in zip(keep, mans):
            mouts = m.split(" ")
            if st == "err":      # only the rejection is observable
                impl_line = "err:" + hx(problems[0]); model_line = mouts[-1]
                if model_line.startswith("err"): gstats[f"{b}:rejected"] += 1
            else:
                impl_line = line; model_line = m
            reqs_c.append(b + " " + model_request(k, ops)); impl_c.append(impl_line); model_c.append(model_line)
        def nt(r, o): return "t" in o.split(" ") or o.startswith("err")
        mism = c.compare(f"asyncsel-{b}", reqs_c, impl_c, model_c, nontrivial=nt,
                         canon=lambda x: x.replace("?", "~"))
        # spec monitor on the generated code's behaviour (unobservable answers filled from the spec's own
        # `expected`, i.e. only the observable part is judged)
        sreqs = []
        for (k, st, line, problems, ops), m in zip(keep, mans):
            if st == "err":
                filled = m.split(" ")[:-1] + ["err:" + hx(problems[0])]
            else:
                filled = [x if x != "?" else y for x, y in zip(line.split(" "), m.split(" "))]
            sreqs.append(model_request(k, ops) + "\t" + " ".join(filled))
        sout = run_lines([model], sreqs, timeout=600)
        for (k, st, line, problems, ops), m in zip(keep, sout):
            verdict = m.split("\t")[1] if "\t" in m else "spec=missing"
            if verdict != "spec=ok":
                c.spec_violation(f"gen-{b}-async-set",
                                 f"{b} generator: the set of functions bound with the async ABI (or the rejection of "
                                 "unused directives) differs from the first-matching-directive rule",
                                 {"case": case_to_json(k), "backend": b, "observed": line if st == "ok" else "err " + problems[0],
                                  "expected": m.split("\t")[0]})
    c.cov["generated_code"] = dict(sorted(gstats.items()))
    c.cov["search"] = ("AsyncFilterSpec.check (Lean, spec side) evaluated on the real AsyncFilterSet's answers for every history, "
                       "and on the async/sync binding of every world function observed in generated Rust, C and MoonBit code")
    c.assumptions += [
        "HashSet<usize> modelled as a list observed only through contains/insert",
        "resolve.name_world_key (wit-parser) is a parameter of the model; the harness compares wit-parser's rendering with the generator's expectation (worldgen_glue)",
        "Async values are built only by Async::parse / AsyncFilterSet::all (private struct; serde-deserialised values outside the documented syntax are out of scope: theorem parse_display_roundtrip_full_false)",
        "generated code: observation = core import (module, name) / export names in the emitted text ([async-lower] / [async-lift] prefix); what rustc/clang/moonc do with the text is not covered",
        "Rust generator is run with generate_all + stubs so that every function of the world is visited",
    ]
