"""C28 — type analysis identifies exactly the structurally equal types (wit_bindgen_core::Types).

Model + spec: lean/Witverif/Text/TypesEq.lean, theorems: lean/Witverif/Props/C28.lean,
tie: harness/typeseq-run (real `Types::analyze` / `collect_equal_types` /
`get_representative_type` / `get` on `Resolve`s parsed from generated WIT text) vs `m_typeseq`
(the model on the exported type table); the spec monitor (shapes, reachability) is evaluated by
`m_typeseq` on the implementation's answers."""
import os, json, re, collections
from vlib import run_lines, VERIF

PRIMS = ["bool", "u8", "s8", "u16", "s16", "u32", "s32", "u64", "s64", "f32", "f64", "char", "string"]
KEYPRIMS = ["bool", "u8", "u16", "u32", "u64", "s8", "s32", "char", "string"]
FIELDS = ["a", "b", "c", "x", "y", "id", "val", "first-name", "tag"]


class Named:
    """A named type of the generated package."""
    def __init__(self, name, iface, kind, body, size, borrow, resource=False):
        self.name, self.iface, self.kind, self.body = name, iface, kind, body
        self.size, self.borrow, self.resource = size, borrow, resource


class WorldGen:
    """Random WIT package full of structurally equal and near-equal types.

    Type ASTs: ('prim',p) ('name',n) ('borrow',n) ('tuple',[T]) ('option',T) ('result',T|None,T|None)
    ('list',T) ('flist',T,k) ('map',K,V) ('future',T|None) ('stream',T|None);
    named bodies: ('record',[(f,T)]) ('variant',[(c,T|None)]) ('enum',[c]) ('flags',[f])
    ('resource',[methods]) ('alias',T)."""

    def __init__(self, rng, big=False):
        self.r = rng
        self.big = big
        self.maxsize = 120 if not big else 400
        self.ctr = 0
        self.named = {}          # name -> Named (global: names are unique in the package)
        self.ifaces = []         # dicts: name, uses {origin-name: (iface, local-name)}, order [names], funcs [text]
        self.templates = []      # (kind, body) of every named definition, for cloning

    def fresh(self, p):
        self.ctr += 1
        return f"{p}{self.ctr}"

    # ---------------------------------------------------------------- visibility
    def visible(self, iface):
        """names usable inside `iface` right now: own definitions and use-aliases"""
        return list(iface["order"])

    def import_name(self, iface, name):
        """make a named type of an earlier interface usable in `iface` (adds a `use`); returns local name"""
        n = self.named[name]
        if n.iface is iface["name"]:
            return name
        for local, (src_if, src_name) in iface["uses"].items():
            if src_name == name:
                return local
        local = name if self.r.random() < 0.6 else self.fresh("al")
        if local in self.named and local != name:
            local = self.fresh("al")
        iface["uses"][local] = (n.iface, name)
        alias = Named(local, iface["name"], "use", ("alias", ("name", name)), n.size, n.borrow, n.resource)
        alias.origin = name
        self.named_local(iface, local, alias)
        return local

    def named_local(self, iface, local, obj):
        iface["locals"][local] = obj
        if local not in iface["order"]:
            iface["order"].append(local)

    def lookup(self, iface, local):
        return iface["locals"][local]

    # ---------------------------------------------------------------- type expressions
    def texpr(self, iface, depth, borrow_ok, budget):
        """returns (ast, size, has_borrow)"""
        r = self.r
        vis = self.visible(iface)
        x = r.random()
        if depth <= 0 or budget <= 2 or x < 0.30:
            if vis and r.random() < 0.55:
                return self.name_ref(iface, r.choice(vis), borrow_ok)
            if r.random() < 0.04:
                return ("prim", "error-context"), 1, False
            return ("prim", r.choice(PRIMS)), 1, False
        if x < 0.50 and vis:
            return self.name_ref(iface, r.choice(vis), borrow_ok)
        k = r.choice(["tuple", "option", "result", "list", "list", "flist", "map", "future", "stream", "option", "tuple"])
        sub = lambda b: self.texpr(iface, depth - 1, borrow_ok, b)
        if k == "tuple":
            n = r.randint(1, 3)
            parts = [sub((budget - 1) // n) for _ in range(n)]
            return ("tuple", [p[0] for p in parts]), 1 + sum(p[1] for p in parts), any(p[2] for p in parts)
        if k == "option":
            a = sub(budget - 1)
            return ("option", a[0]), 1 + a[1], a[2]
        if k == "list":
            a = sub(budget - 1)
            return ("list", a[0]), 1 + a[1], a[2]
        if k == "flist":
            a = sub(budget - 1)
            return ("flist", a[0], r.choice([1, 2, 4, 4, 8])), 1 + a[1], a[2]
        if k == "map":
            v = sub(budget - 2)
            return ("map", ("prim", r.choice(KEYPRIMS)), v[0]), 2 + v[1], v[2]
        if k == "result":
            ok = sub((budget - 1) // 2) if r.random() < 0.7 else None
            er = sub((budget - 1) // 2) if r.random() < 0.7 else None
            return (("result", ok[0] if ok else None, er[0] if er else None),
                    1 + (ok[1] if ok else 1) + (er[1] if er else 1),
                    bool((ok and ok[2]) or (er and er[2])))
        # future / stream: payloads may not contain borrows
        a = self.texpr(iface, depth - 1, False, budget - 1) if r.random() < 0.75 else None
        return (k, a[0] if a else None), 1 + (a[1] if a else 1), False

    def name_ref(self, iface, local, borrow_ok):
        n = self.lookup(iface, local)
        if n.resource:
            if borrow_ok and self.r.random() < 0.45:
                return ("borrow", local), 2, True
            return ("name", local), 2, False       # bare resource name = own<r>
        if n.borrow and not borrow_ok:
            return ("prim", self.r.choice(PRIMS)), 1, False
        return ("name", local), n.size, n.borrow

    def show(self, t):
        k = t[0]
        if k == "prim": return t[1]
        if k == "name": return t[1]
        if k == "borrow": return f"borrow<{t[1]}>"
        if k == "tuple": return "tuple<" + ", ".join(self.show(x) for x in t[1]) + ">"
        if k == "option": return f"option<{self.show(t[1])}>"
        if k == "list": return f"list<{self.show(t[1])}>"
        if k == "flist": return f"list<{self.show(t[1])}, {t[2]}>"
        if k == "map": return f"map<{self.show(t[1])}, {self.show(t[2])}>"
        if k == "result":
            ok, er = t[1], t[2]
            if ok is None and er is None: return "result"
            if er is None: return f"result<{self.show(ok)}>"
            return f"result<{self.show(ok) if ok else '_'}, {self.show(er)}>"
        if k in ("future", "stream"):
            return k if t[1] is None else f"{k}<{self.show(t[1])}>"
        raise ValueError(k)

    # ---------------------------------------------------------------- named definitions
    def fresh_body(self, iface, borrow_ok=True):
        r = self.r
        k = r.choice(["record", "record", "variant", "variant", "enum", "flags", "alias", "alias", "resource",
                      "result-alias"])
        budget = self.maxsize
        if k == "result-alias":
            # `type r = result<ok, err>` with a named error type when one is visible
            vis = [n for n in self.visible(iface) if not self.lookup(iface, n).resource
                   and not self.lookup(iface, n).borrow]
            er = (("name", r.choice(vis)), self.lookup(iface, vis[0]).size, False) if vis and r.random() < 0.8 \
                else (("prim", r.choice(PRIMS)), 1, False)
            if er[0][0] == "name":
                er = (er[0], self.lookup(iface, er[0][1]).size, False)
            ok = self.texpr(iface, 1, False, budget // 2) if r.random() < 0.6 else None
            return (("alias", ("result", ok[0] if ok else None, er[0])), 1 + (ok[1] if ok else 1) + er[1], False)
        if k == "record":
            n = r.randint(1, 4)
            names = r.sample(FIELDS, n)
            fs = [(nm, self.texpr(iface, 2, borrow_ok, budget // n)) for nm in names]
            return ("record", [(nm, t[0]) for nm, t in fs]), 1 + sum(t[1] for _, t in fs), any(t[2] for _, t in fs)
        if k == "variant":
            n = r.randint(1, 4)
            names = r.sample(FIELDS, n)
            cs = [(nm, self.texpr(iface, 2, borrow_ok, budget // n) if r.random() < 0.6 else None) for nm in names]
            return (("variant", [(nm, t[0] if t else None) for nm, t in cs]),
                    1 + sum(t[1] if t else 1 for _, t in cs), any(t and t[2] for _, t in cs))
        if k in ("enum", "flags"):
            return (k, r.sample(FIELDS, r.randint(1, 4))), 2, False
        if k == "alias":
            t = self.texpr(iface, 3, borrow_ok, budget)
            return ("alias", t[0]), t[1], t[2]
        return ("resource", []), 1, False

    def remap(self, iface, t, src_iface):
        """re-home an AST written for `src_iface` into `iface`: named leaves become uses (or, with some
        probability, a structurally equal local definition if one exists)"""
        k = t[0]
        if k == "prim": return t
        if k in ("name", "borrow"):
            origin = self.origin_of(src_iface, t[1])
            # a local name with the same origin?
            cands = [l for l, o in iface["locals"].items() if getattr(o, "origin", l) == origin]
            if cands and self.r.random() < 0.7:
                return (k, self.r.choice(cands))
            if self.named[origin].iface == iface["name"]:
                return (k, origin)
            return (k, self.import_name(iface, origin))
        if k in ("tuple",): return (k, [self.remap(iface, x, src_iface) for x in t[1]])
        if k in ("option", "list"): return (k, self.remap(iface, t[1], src_iface))
        if k == "flist": return (k, self.remap(iface, t[1], src_iface), t[2])
        if k == "map": return (k, t[1], self.remap(iface, t[2], src_iface))
        if k == "result":
            return (k, self.remap(iface, t[1], src_iface) if t[1] else None,
                    self.remap(iface, t[2], src_iface) if t[2] else None)
        if k in ("future", "stream"):
            return (k, self.remap(iface, t[1], src_iface) if t[1] else None)
        raise ValueError(k)

    def origin_of(self, iface_name, local):
        i = next(x for x in self.ifaces_all if x["name"] == iface_name)
        o = i["locals"][local]
        return getattr(o, "origin", local)

    def remap_body(self, iface, body, src):
        k = body[0]
        if k == "record": return (k, [(n, self.remap(iface, t, src)) for n, t in body[1]])
        if k == "variant": return (k, [(n, self.remap(iface, t, src) if t else None) for n, t in body[1]])
        if k in ("enum", "flags"): return (k, list(body[1]))
        if k == "alias": return (k, self.remap(iface, body[1], src))
        return (k, [])

    def mutate(self, iface, body):
        """one near-miss edit (or none): the result is usually *not* structurally equal"""
        r = self.r
        k = body[0]
        m = r.choice(["none", "none", "rename", "swap", "retype", "drop", "kind"])
        if m == "none" or k in ("resource",):
            return body, "clone-equal"
        if k in ("record", "variant"):
            items = list(body[1])
            if m == "rename":
                i = r.randrange(len(items))
                new = r.choice([f for f in FIELDS if f not in [n for n, _ in items]] or ["zz"])
                items[i] = (new, items[i][1])
                return (k, items), "clone-renamed"
            if m == "swap" and len(items) >= 2:
                i, j = r.sample(range(len(items)), 2)
                items[i], items[j] = items[j], items[i]
                return (k, items), "clone-reordered"
            if m == "retype":
                i = r.randrange(len(items))
                t = ("prim", r.choice(PRIMS))
                items[i] = (items[i][0], t)
                return (k, items), "clone-retyped"
            if m == "drop" and len(items) >= 2:
                items.pop(r.randrange(len(items)))
                return (k, items), "clone-dropped"
            if m == "kind" and k == "record":
                return ("variant", [(n, t) for n, t in items]), "clone-kind"
            return body, "clone-equal"
        if k in ("enum", "flags"):
            items = list(body[1])
            if m == "rename":
                i = r.randrange(len(items))
                items[i] = r.choice([f for f in FIELDS if f not in items] or ["zz"])
                return (k, items), "clone-renamed"
            if m == "swap" and len(items) >= 2:
                i, j = r.sample(range(len(items)), 2)
                items[i], items[j] = items[j], items[i]
                return (k, items), "clone-reordered"
            if m == "drop" and len(items) >= 2:
                items.pop(); return (k, items), "clone-dropped"
            if m == "kind":
                return ("flags" if k == "enum" else "enum", items), "clone-kind"
            return body, "clone-equal"
        if k == "alias":
            t = body[1]
            if m == "retype" and t[0] in ("list", "option"):
                return ("alias", ("option" if t[0] == "list" else "list", t[1])), "clone-kind"
            if m == "kind" and t[0] == "flist":
                return ("alias", ("flist", t[1], t[2] + 1)), "clone-retyped"
            if m == "swap" and t[0] == "tuple" and len(t[1]) >= 2:
                return ("alias", ("tuple", list(reversed(t[1])))), "clone-reordered"
            if m == "rename" and t[0] == "result":
                return ("alias", ("result", t[2], t[1])), "clone-reordered"
            return body, "clone-equal"
        return body, "clone-equal"

    def measure(self, iface, t):
        k = t[0]
        if k == "prim": return 1, False
        if k == "name":
            n = self.lookup(iface, t[1])
            return (2, False) if n.resource else (n.size, n.borrow)
        if k == "borrow": return 2, True
        if k == "tuple":
            ps = [self.measure(iface, x) for x in t[1]]
            return 1 + sum(p[0] for p in ps), any(p[1] for p in ps)
        if k in ("option", "list"):
            a = self.measure(iface, t[1]); return 1 + a[0], a[1]
        if k == "flist":
            a = self.measure(iface, t[1]); return 1 + a[0], a[1]
        if k == "map":
            a = self.measure(iface, t[2]); return 2 + a[0], a[1]
        if k == "result":
            ps = [self.measure(iface, x) if x else (1, False) for x in (t[1], t[2])]
            return 1 + sum(p[0] for p in ps), any(p[1] for p in ps)
        if k in ("future", "stream"):
            a = self.measure(iface, t[1]) if t[1] else (1, False); return 1 + a[0], a[1]
        raise ValueError(k)

    def measure_body(self, iface, body):
        k = body[0]
        if k == "record":
            ps = [self.measure(iface, t) for _, t in body[1]]
        elif k == "variant":
            ps = [self.measure(iface, t) if t else (1, False) for _, t in body[1]]
        elif k == "alias":
            ps = [self.measure(iface, body[1])]
        else:
            ps = []
        return 1 + sum(p[0] for p in ps), any(p[1] for p in ps)

    def has_kind(self, t, kinds):
        if t is None: return False
        if t[0] in kinds: return True
        if t[0] == "tuple": return any(self.has_kind(x, kinds) for x in t[1])
        if t[0] in ("option", "list", "flist"): return self.has_kind(t[1], kinds)
        if t[0] == "map": return self.has_kind(t[2], kinds)
        if t[0] == "result": return self.has_kind(t[1], kinds) or self.has_kind(t[2], kinds)
        if t[0] in ("future", "stream"): return self.has_kind(t[1], kinds)
        return False

    def define(self, iface, stats):
        r = self.r
        x = r.random()
        how = "fresh"
        if self.templates and x < 0.50:
            src_if, kind, body = r.choice(self.templates)
            body = self.remap_body(iface, body, src_if)
            body, how = self.mutate(iface, body)
        elif iface["order"] and x < 0.62:
            tgt = r.choice(iface["order"])
            body, how = ("alias", ("name", tgt)), "alias"
        else:
            body, _, _ = self.fresh_body(iface)
        size, borrow = self.measure_body(iface, body)
        if size > self.maxsize:
            body, size, borrow, how = ("enum", r.sample(FIELDS, 2)), 2, False, "fresh"
        # future/stream payloads must not contain borrows; bodies with such payloads referencing
        # borrow-carrying names are rejected by wit-parser: regenerate as a plain alias
        name = self.fresh("ty")
        if body[0] == "alias" and body[1][0] == "name" and self.lookup(iface, body[1][1]).resource:
            # `type x = r` with r a resource: x is an own handle type alias; keep it a plain value type
            obj = Named(name, iface["name"], "alias", body, 2, False, False)
        else:
            obj = Named(name, iface["name"], body[0], body, size, borrow, body[0] == "resource")
        self.named[name] = obj
        self.named_local(iface, name, obj)
        iface["defs"].append(name)
        if not iface["name"].startswith("@"):
            self.templates.append((iface["name"], body[0], body))
        stats[how] += 1

    def def_text(self, iface, name):
        o = iface["locals"][name]
        b = o.body
        k = b[0]
        if k == "record":
            return f"  record {name} {{ " + ", ".join(f"{n}: {self.show(t)}" for n, t in b[1]) + " }"
        if k == "variant":
            return f"  variant {name} {{ " + ", ".join(n if t is None else f"{n}({self.show(t)})" for n, t in b[1]) + " }"
        if k in ("enum", "flags"):
            return f"  {k} {name} {{ " + ", ".join(b[1]) + " }"
        if k == "alias":
            return f"  type {name} = {self.show(b[1])};"
        if k == "resource":
            ms = iface["methods"].get(name, [])
            if not ms:
                return f"  resource {name};"
            return f"  resource {name} {{\n" + "\n".join("    " + m for m in ms) + "\n  }"
        raise ValueError(k)

    # ---------------------------------------------------------------- functions
    def func_sig(self, iface, stats, method_of=None):
        r = self.r
        ps = []
        for i in range(r.randint(0, 3)):
            t = self.texpr(iface, 2, True, self.maxsize)
            ps.append(f"p{i}: {self.show(t[0])}")
        res = ""
        x = r.random()
        if x < 0.75:
            vis = [n for n in self.visible(iface) if not self.lookup(iface, n).borrow]
            y = r.random()
            if y < 0.45:
                # error position: inline result, or a named result (directly or through alias / use)
                errs = [n for n in vis if not self.lookup(iface, n).resource]
                er = ("name", r.choice(errs)) if errs and r.random() < 0.8 else ("prim", r.choice(PRIMS))
                ok = self.texpr(iface, 1, False, self.maxsize // 2)[0] if r.random() < 0.6 else None
                res = " -> " + self.show(("result", ok, er))
                stats["fn-result-inline-error"] += 1
            elif y < 0.75:
                named_results = [n for n in vis if self.is_resultish(iface, n)]
                if named_results:
                    res = " -> " + r.choice(named_results)
                    stats["fn-result-named-result"] += 1
                else:
                    t = self.texpr(iface, 2, False, self.maxsize)
                    res = " -> " + self.show(t[0])
            else:
                t = self.texpr(iface, 2, False, self.maxsize)
                res = " -> " + self.show(t[0])
        return "func(" + ", ".join(ps) + ")" + res

    def is_resultish(self, iface, local):
        o = self.lookup(iface, local)
        seen = 0
        while seen < 20:
            seen += 1
            b = o.body
            if b[0] != "alias": return False
            if b[1][0] == "result": return True
            if b[1][0] != "name": return False
            nm = b[1][1]
            # follow within the defining interface
            src = next(x for x in self.ifaces_all if x["name"] == o.iface)
            o = src["locals"].get(nm) or self.named.get(nm)
            if o is None: return False
        return False

    # ---------------------------------------------------------------- package
    def package(self):
        r = self.r
        stats = collections.Counter()
        self.ifaces_all = []
        n_if = r.randint(1, 4) if not self.big else r.randint(2, 6)
        for k in range(n_if):
            iface = {"name": f"i{k}", "uses": {}, "locals": {}, "order": [], "defs": [], "funcs": [], "methods": {}}
            self.ifaces_all.append(iface)
            # sometimes start by using types of earlier interfaces
            if k > 0 and r.random() < 0.7:
                pool = [n for n, o in self.named.items() if o.iface != iface["name"]]
                for nm in r.sample(pool, min(len(pool), r.randint(1, 3))):
                    self.import_name(iface, nm)
                    stats["use"] += 1
            for _ in range(r.randint(2, 7) if not self.big else r.randint(5, 12)):
                self.define(iface, stats)
            for nm in iface["defs"]:
                if iface["locals"][nm].resource and r.random() < 0.6:
                    ms = []
                    if r.random() < 0.4:
                        ms.append("constructor(" + ", ".join(
                            f"p{i}: {self.show(self.texpr(iface, 1, True, 20)[0])}" for i in range(r.randint(0, 2))) + ");")
                    for j in range(r.randint(0, 2)):
                        st = "static " if r.random() < 0.3 else ""
                        sig = self.func_sig(iface, stats)
                        ms.append(f"{self.fresh('me')}: {st}{sig};")
                    iface["methods"][nm] = ms
                    stats["resource-with-methods"] += 1
            for _ in range(r.randint(1, 4)):
                iface["funcs"].append(f"  {self.fresh('fn')}: {self.func_sig(iface, stats)};")
        out = ["package t:p;", ""]
        real_ifaces = list(self.ifaces_all)
        for iface in real_ifaces:
            out.append(f"interface {iface['name']} {{")
            by_src = collections.OrderedDict()
            for local, (src_if, src_name) in iface["uses"].items():
                by_src.setdefault(src_if, []).append(src_name if local == src_name else f"{src_name} as {local}")
            for src_if, items in by_src.items():
                out.append(f"  use {src_if}.{{{', '.join(items)}}};")
            for nm in iface["defs"]:
                out.append(self.def_text(iface, nm))
            out += iface["funcs"]
            out.append("}")
            out.append("")
        # worlds
        worlds = ["w"] + (["w2"] if r.random() < 0.3 else [])
        for wn in worlds:
            out.append(f"world {wn} {{")
            chosen = 0
            # exporting a suffix of the interfaces keeps the world's dependency closure consistent;
            # 15% of the worlds choose freely (wit-parser rejects some of those)
            free = r.random() < 0.15
            cut = r.randint(0, len(real_ifaces))
            for idx, iface in enumerate(real_ifaces):
                x = r.random()
                if free:
                    mode = "import" if x < 0.40 else "export" if x < 0.70 else "both" if x < 0.85 else "none"
                elif idx >= cut:
                    mode = "export"
                else:
                    mode = "import" if x < 0.75 else "none"
                if mode in ("import", "both"): out.append(f"  import {iface['name']};")
                if mode in ("export", "both"): out.append(f"  export {iface['name']};")
                if mode != "none": chosen += 1; stats[f"world-{mode}-iface"] += 1
            # world-level functions over used types
            wi = {"name": "@" + wn, "uses": {}, "locals": {}, "order": [], "defs": [], "funcs": [], "methods": {}}
            self.ifaces_all.append(wi)
            pool = [n for n, o in self.named.items() if not o.iface.startswith("@")]
            for nm in r.sample(pool, min(len(pool), r.randint(0, 3))):
                self.import_name(wi, nm)
            wdefs = []
            if r.random() < 0.4:
                self.define(wi, stats)
                for nm in wi["defs"]:
                    wdefs.append(self.def_text(wi, nm))
                stats["world-type"] += 1
            wfuncs = []
            for _ in range(r.randint(0, 2)):
                wfuncs.append(f"  import {self.fresh('fn')}: {self.func_sig(wi, stats)};"); stats["world-import-func"] += 1
            for _ in range(r.randint(0, 2)):
                wfuncs.append(f"  export {self.fresh('fn')}: {self.func_sig(wi, stats)};"); stats["world-export-func"] += 1
            by_src = collections.OrderedDict()
            for local, (src_if, src_name) in wi["uses"].items():
                by_src.setdefault(src_if, []).append(src_name if local == src_name else f"{src_name} as {local}")
            for src_if, items in by_src.items():
                out.append(f"  use {src_if}.{{{', '.join(items)}}};")
            out += wdefs + wfuncs
            out.append("}")
            out.append("")
        return "\n".join(out), stats


def gen_request(rng, big=False):
    g = WorldGen(rng, big)
    wit, stats = g.package()
    filters = ["all", "kinds", "none", f"rand:{rng.randrange(1 << 30)}:{rng.choice([150, 500, 850])}"]
    return "W=" + wit.encode().hex() + " M=" + b"w".hex() + " " + " ".join("F=" + f for f in filters), wit, stats


def par_lines(cmd, lines, timeout, k=8):
    """run_lines over k chunks concurrently (the line servers are stateless per request)"""
    from concurrent.futures import ThreadPoolExecutor
    if len(lines) < 400:
        return run_lines(cmd, lines, timeout=timeout)
    size = (len(lines) + k - 1) // k
    chunks = [lines[i:i + size] for i in range(0, len(lines), size)]
    with ThreadPoolExecutor(max_workers=k) as ex:
        res = list(ex.map(lambda ch: run_lines(cmd, ch, timeout=timeout), chunks))
    return [a for r in res for a in r]


KIND = {"R": "record", "Z": "resource", "H": "own", "B": "borrow", "F": "flags", "T": "tuple", "V": "variant",
        "E": "enum", "O": "option", "X": "result", "L": "list", "M": "map", "A": "fixed-list", "U": "future",
        "S": "stream", "Y": "alias"}


def fields(ans):
    d = {"X": []}
    for tok in ans.split(" ")[1:]:
        k, v = tok[0], tok[2:]
        if k == "X": d["X"].append(v)
        else: d[k] = v
    return d


def run(c):
    c.rule = ("random WIT packages (1-6 interfaces, 2 worlds) whose named types are ~50% clones of earlier "
              "definitions (re-homed through `use`, then left equal or edited once: field renamed, cases "
              "reordered, component retyped, field dropped, kind changed), plus aliases, distinct resources, "
              "anonymous nested types, functions with inline / named / aliased result<_, E> types; each world is "
              "analysed with filters all / Rust-backend kinds / none / random subset. non-trivial = under filter "
              "`all` at least one type is merged into another one (representative differs from itself); "
              "distinct by exported table + function list")
    ok = c.lake_build(["Witverif.Props.C28"])
    if ok: c.audit("Witverif.Props.C28")
    if c.tier == "thorough" and ok: c.leanchecker("Witverif.Props.C28")
    model = c.model_exe("m_typeseq")
    impl = c.cargo_build("typeseq-run")
    if os.environ.get("VERIF_C28_IMPL_OVERRIDE"):
        # experiments only (a harness binary built against an edited copy of crates/core); recorded
        impl = os.environ["VERIF_C28_IMPL_OVERRIDE"]
        c.notes.append("implementation binary overridden by VERIF_C28_IMPL_OVERRIDE=" + impl)
    n = 4000 if c.tier == "quick" else 40000
    reqs, wits = [], []
    cp = os.path.join(VERIF, "corpus", "C28.txt")
    ncorpus = 0
    if os.path.exists(cp):
        cur = []
        for l in open(cp).read().split("\n") + ["---"]:
            if l.startswith("#"): continue
            if l.strip() == "---":
                if any(x.strip() for x in cur):
                    w = "\n".join(cur)
                    reqs.append("W=" + w.encode().hex() + " M=" + b"w".hex() + " F=all F=kinds F=none F=rand:7:500")
                    wits.append(w); ncorpus += 1
                cur = []
            else:
                cur.append(l)
    if c.replay and "witness" in c.replay and "wit" in c.replay["witness"]:
        w = c.replay["witness"]["wit"]
        reqs.insert(0, "W=" + w.encode().hex() + " M=" + b"w".hex() + " F=all F=kinds F=none F=rand:7:500")
        wits.insert(0, w)
    gstats = collections.Counter()
    for i in range(n):
        rq, w, st = gen_request(c.rng, big=(i % 10 == 9))
        reqs.append(rq); wits.append(w); gstats.update(st)
    if not impl:
        return
    iout = par_lines([impl], reqs, timeout=900)
    good = [(r, w, o) for r, w, o in zip(reqs, wits, iout) if o.startswith("ok ")]
    rejected = [(w, o) for w, o in zip(wits, iout) if not o.startswith("ok ")]
    for w, o in rejected:
        if o in ("panic", "crash", "timeout"):
            c.spec_violation("types-panic", "Types::analyze / collect_equal_types panicked or hung on a valid world",
                             {"wit": w, "impl": o})
    c.cov["generator"] = {"requests": len(reqs), "corpus": ncorpus, "accepted_by_wit_parser": len(good),
                          "rejected_by_wit_parser": len(rejected),
                          "first_rejections": [o[:160] for _, o in rejected[:3]],
                          "definitions_by_origin": dict(gstats)}
    if ncorpus and any(not o.startswith("ok ") for o in iout[:ncorpus]):
        c.broken.append(("corpus", "a corpus world was rejected by wit-parser: " +
                         next(o for o in iout[:ncorpus] if not o.startswith("ok "))[:300]))
    if len(good) < 0.8 * len(reqs):
        c.broken.append(("generator", f"only {len(good)}/{len(reqs)} generated worlds accepted by wit-parser"))
    # distribution of what the real code saw
    kinds, ntypes, nfuncs, nlive = collections.Counter(), [], [], []
    merged_all, classes_big = 0, collections.Counter()
    for _, _, o in good:
        d = fields(o)
        toks = [] if d["T"] == "-" else d["T"].split(",")
        ntypes.append(len(toks))
        kinds.update(KIND.get(t[0], "?") for t in toks)
        nfuncs.append(0 if d["U"] == "-" else len(d["U"].split(",")))
        nlive.append(0 if d["L"] == "-" else len(d["L"].split(".")))
        if d["X"]:
            reps = d["X"][0].split(";")[1]
            reps = [] if reps == "-" else [int(x) for x in reps.split(".")]
            cl = collections.Counter(reps)
            merged_all += sum(1 for i, r in enumerate(reps) if r != i)
            for v in cl.values():
                classes_big[min(v, 6)] += 1
    def hist(xs, edges):
        h = collections.OrderedDict()
        for lo, hi in zip(edges, edges[1:]):
            h[f"{lo}-{hi - 1}"] = sum(1 for x in xs if lo <= x < hi)
        return h
    c.cov["input_distribution"] = {
        "types_per_table": hist(ntypes, [0, 5, 10, 20, 40, 80, 1000]),
        "functions_per_case": hist(nfuncs, [0, 1, 4, 8, 16, 1000]),
        "live_types": hist(nlive, [0, 5, 10, 20, 40, 80, 1000]),
        "typedef_kinds": dict(kinds),
        "types_merged_under_filter_all": merged_all,
        "class_sizes_under_filter_all(6=6+)": dict(sorted(classes_big.items())),
    }
    def nontriv(r, o):
        d = fields(o)
        if not d["X"]: return False
        reps = d["X"][0].split(";")[1]
        return reps != "-" and any(int(x) != i for i, x in enumerate(reps.split(".")))
    def strip_impl(o):
        d = fields(o)
        return " ".join(["I=" + d.get("I", "?")] + ["X=" + ";".join(x.split(";")[1:]) for x in d["X"]])
    keyreq = [" ".join(t for t in o.split(" ") if t[:2] in ("T=", "N=", "U=", "L=")) for _, _, o in good]
    if model:
        mout = par_lines([model], [o for _, _, o in good], timeout=1200)
        manswers = [m.split("\t")[0] for m in mout]
        mism = c.compare("typeseq", keyreq, [strip_impl(o) for _, _, o in good], manswers, nontrivial=lambda r, o: True)
        c.nontrivial = set()
        import hashlib
        for (r, w, o), k in zip(good, keyreq):
            if nontriv(r, o):
                c.nontrivial.add(hashlib.sha1(k.encode()).hexdigest())
        for mm in mism[:3]:
            idx = keyreq.index(mm["request"])
            mm["wit"] = good[idx][1]
        verdicts = collections.Counter()
        for (r, w, o), m in zip(good, mout):
            verdict = m.split("\t")[1] if "\t" in m else "spec=missing:" + m[:60]
            if verdict == "spec=ok":
                verdicts["ok"] += 1
                continue
            if not verdict.startswith("spec=fail:"):
                verdicts[verdict[:40]] += 1
                c.broken.append(("spec monitor did not run", verdict + " on " + w[:400]))
                continue
            for f in verdict[len("spec=fail:"):].split("|"):
                klass = f.split(":")[0]
                verdicts[klass] += 1
                what = {
                    "error-via-result-alias": "TypeInfo.error is not set on the error type of a function whose result type is named through a type alias / `use` (repaired in /repo; see known_findings fixed: line)",
                }.get(klass, "Types analysis violates the C28 specification: " + klass)
                c.spec_violation(klass, what, {"wit": w, "detail": f, "impl": strip_impl(o)})
        c.cov["spec_verdicts_on_impl"] = dict(verdicts)
    else:
        c.cov["spec_verdicts_on_impl"] = "model driver unavailable: spec monitor not evaluated"
    for r, w, o in good[:2]:
        d = fields(o)
        c.sample({"wit": w[:600], "table": d["T"][:300], "reps_all": d["X"][0].split(";")[1] if d["X"] else ""})
    c.cov["search"] = ("TypesEqSpec (shape equality, Contains/Refers reachability, union of facts) evaluated in Lean on the "
                       "implementation's representatives and TypeInfo for every accepted world of this run, 4 filters each")
    c.assumptions += [
        "wit-parser's Resolve is a topologically ordered type table (checked on every exported table: the driver answers not-topological otherwise)",
        "LiveTypes (wit-parser) yields exactly the types referenced, transitively, without repetition (checked per function and per world by the monitor: class live-assumption)",
        "TypeId order = arena index order (one arena); HashMap iteration order is arbitrary (theorem info_is_union holds for every order; the implementation's order is randomised per process)",
        "has_list means a string, list<T> or map<K,V> is contained; fixed-length lists are not lists for this fact; future/stream payloads and the resource behind a handle are not contained values",
        "borrowed/owned are defined for named types only (the code tests name.is_some()); error marks the (alias-resolved) error type of a function result",
    ]
