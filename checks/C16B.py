"""C16B — the backend half of C16 alone (`./check C16B quick`): see checks/c16_backends.py.
Findings are filed under property C16 in known_findings.jsonl; evidence goes to evidence/C16B.json."""
import json, os
from vlib import VERIF
from c16_backends import run_backends

def run(c):
    def known():
        res = []
        for line in open(os.path.join(VERIF, "known_findings.jsonl")):
            line = line.strip()
            if not line or line.startswith("#") or line.startswith("fixed:"): continue
            try: d = json.loads(line)
            except Exception: continue
            if d.get("property") == "C16": res.append(d)
        return res
    c.known_findings = known
    c.rule = ("seeded worlds (tools/witgen2.py) restricted per backend to the features it does not declare unsupported, "
              "every backend x option variant under catch_unwind; non-trivial = the world parsed and was run; distinct by (backend, variant, world)")
    run_backends(c)
