"""C10 — C guest bindings carry every value across the boundary unchanged.
Theorems: lean/Witverif/Props/C10.lean (C signature layer carries exactly the WIT parameters and
result; C struct layout = canonical layout; C corollaries of C01/C02).  Tie: the REAL generator's
bindings are compiled natively (gcc, pointer width 8) and driven by the Lean canonical ABI acting as
the host (m_chost): see harness/c-native/README.md."""
import json
import c_common as cc

def run(c):
    c.level = "proof"
    c.rule = ("one evaluation = one value crossing the boundary in one direction (an argument or a result of one call), "
              "compared after an independent lift/print on the receiving side; non-trivial = the function's signature "
              "contains a string/list/map/variant/option/result/record/handle (every generated function does, the resource "
              "methods' scalar-only signatures do not); distinct by (world, configuration, function, values)")
    ok = c.lake_build(["Witverif.Props.C10"])
    if ok: c.audit("Witverif.Props.C10")
    if c.tier == "thorough" and ok: c.leanchecker("Witverif.Props.C10")
    nworlds, ncases = (10, 2) if c.tier == "quick" else (60, 3)
    live = cc.run_native(c, "C10", nworlds, ncases)
    if live is None: return
    cc.correspondence(c, live)
    cc.coverage(c, live)
    for w in live:
        for cls, what, wit in w.vf:
            c.spec_violation("c-value-" + cls, what, wit)
        for cls, what, wit in w.of:
            if cls == "sanitizer-report": c.spec_violation("c-value-" + cls, what, wit)
        for case in w.cases:
            key = f"{w.name}|{case.fn['key']}|{case.cid}"
            nt = bool(cc.cn.kinds(["tuple"] + case.fn["dparams"] + ([case.fn["dresult"]] if case.fn["dresult"] is not None else []), set())
                      & {"string", "list", "map", "variant", "option", "result", "record", "own", "borrow", "tuple", "flags", "enum"} - {"tuple"})
            if nt: c.nontrivial.add(key)
        c.evaluations += w.st.get("values", 0)
    for w in live[:1]:
        for case in w.cases[:3]:
            c.sample({"world": w.name, "function": case.fn["key"], "term": case.fn["term"],
                      "params": [cc.cn.show(v) for v in case.params],
                      "result": cc.cn.show(case.result) if case.result is not None else None})
    c.cov["search"] = ("every value observed by the C implementation (printed through the generated C types) and every value "
                       "lifted by the Lean canonical-ABI host from what the bindings produced is compared with the value sent")
    c.assumptions += [
        "native x86-64 execution (pointer width 8, gcc 12, -O0, ASan+UBSan); pointer width 4 (wasm32) is covered by the "
        "theorems (both widths) and by the instruction-stream correspondence of C01/C02, not by execution",
        "gcc's x86-64 struct layout rules = natural alignment (validated: sizeof/_Alignof of every by-pointer type vs CProfile.cSA)",
        "under --string-encoding utf16 the host treats `string` as list<u16> (same canonical layout: pointer + code-unit count, 2-byte alignment)",
        "borrows of exported resources (raw pointers: 8 bytes natively, 4 in the ABI) only at the top level of parameter lists",
        "worlds restricted to what the C backend supports (crates/test/src/c.rs): no error-context, no fixed-length lists; "
        "flags <= 32 members (component-model limit); futures/streams not exercised natively (async intrinsics need a host scheduler)",
    ]
