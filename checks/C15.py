"""C15 — binding generation is deterministic.

PROOF part   (lean/Witverif/Props/C15.lean over lean/Witverif/Generated/HashSites.lean):
  tools/gen_hash_sites.py re-inventories every iteration over HashMap/HashSet-typed state of the
  generator crates of /repo, classifies the consumer (automatic rules + fingerprinted manual table
  tools/hash_sites_manual.json) and regenerates the Lean table; the theorems are re-checked against
  it.  A new / changed / unclassifiable site, or a new `emitted` consumer, breaks the obligation.
VALIDATION part (observed, not modelled):
  every backend x option variant of crates/test is run by the real generators (harness/names-run,
  engine `determ`) on corpus + tests/codegen + seeded worlds in k SEPARATE OS processes (std's
  RandomState is seeded per process; environment size is varied so that stack/heap addresses move)
  and every output file (names, lengths, bytes) is compared.  k = 3 quick, 12 thorough.
  A difference is a violation of the property with (world, backend, variant, file) as witness."""
import os, json, hashlib, collections, subprocess, concurrent.futures, random
from vlib import run_lines, sh, VERIF, REPO, LEAN
import names_worlds as NW

def hx(s): return s.encode().hex() if s else "-"
def unhx(h): return "" if h == "-" else bytes.fromhex(h).decode()

VARIANTS = {"rust": ["default", "borrowed", "borrowed-duplicate", "async", "no-std", "merge-equal", "hashmap"],
            "c": ["default", "no-sig-flattening", "autodrop", "async"],
            "cpp": ["default"], "csharp": ["default"], "go": ["default"],
            "moonbit": ["default", "async"], "d": ["default"], "markdown": ["default"]}
ORDER = {"full": 0, "noerr": 1, "sync": 2, "syncnomap": 3}


def run_proc(cmd, lines, env_pad, timeout):
    env = {"PATH": os.environ.get("PATH", "/usr/bin"), "HOME": os.environ.get("HOME", "/root"),
           "VERIF_PAD": "x" * env_pad, "TMPDIR": "/tmp"}
    return run_lines(cmd, lines, timeout=timeout, env=env)


def run(c):
    c.level = "proof"
    c.rule = ("(input, backend, variant) triples: corpus + every entry of tests/codegen + seeded worlds x every backend x every "
              "option variant of crates/test; each run in k separate processes; non-trivial = the generator produced files; "
              "distinct by (input, backend, variant)")
    # ---------------------------------------------------------------- translator
    out = os.path.join(LEAN, "Witverif", "Generated", "HashSites.lean")
    js = os.path.join(VERIF, ".build", "hash_sites.json")
    os.makedirs(os.path.dirname(js), exist_ok=True)
    gen = ["python3", os.path.join(VERIF, "tools", "gen_hash_sites.py")]
    if os.path.realpath(REPO) != "/repo":
        # a run against a patched copy (VERIF_REPO) must not leave its table behind for the next
        # pristine build: the table of /repo is written back when this process ends, however it ends
        import atexit
        atexit.register(lambda: sh(gen + ["--repo", "/repo", "--out", out, "--json", js + ".restore"]))
    rc, o = sh(gen + ["--repo", REPO, "--out", out, "--json", js])
    c.checker_cmds.append("python3 tools/gen_hash_sites.py --repo /repo --out lean/Witverif/Generated/HashSites.lean")
    inv = None
    if rc != 0 or not os.path.exists(js):
        c.broken.append(("translator gen_hash_sites.py", o[-1500:]))
    else:
        inv = json.load(open(js))
        c.cov["inventory"] = {"sites": len(inv["sites"]), "by_class": inv["by_class"],
                              "automatic": sum(1 for s in inv["sites"] if s["auto"]),
                              "manual": sum(1 for s in inv["sites"] if not s["auto"]),
                              "files": sorted({s["file"] for s in inv["sites"]})}
        if not inv["roundtrip_ok"]:
            c.broken.append(("translator round-trip (HashSites.lean re-parsed != inventory)", ""))
        unc = [s for s in inv["sites"] if s["class"] == "unclassified"]
        if unc:
            c.broken.append(("hash-iteration sites without classification (new or changed code)",
                             json.dumps([{k: s[k] for k in ("file", "func", "line", "fp", "text", "why")} for s in unc[:5]])))
        if inv["stale_manual_entries"]:
            c.notes.append(f"manual classifications whose site no longer exists: {inv['stale_manual_entries']}")
        for s in inv["sites"][:3]:
            c.sample({"site": f"{s['file']}:{s['line']} fn {s['func']}", "container": s["name"] + ": " + s["kind"], "walk": s["walk"],
                      "consumer": s["class"], "why": s["why"][:160]})
    ok = c.lake_build(["Witverif.Props.C15"])
    if ok: c.audit("Witverif.Props.C15")
    if c.tier == "thorough" and ok: c.leanchecker("Witverif.Props.C15")

    # ---------------------------------------------------------------- k-process validation
    impl = c.cargo_build("names-run")
    if not impl: return
    impl = os.environ.get("VERIF_NAMES_RUN", impl)      # replay against a patched copy of the generators
    # pin the binary for this run: a concurrent `cargo build` (other checks, a changed /repo) must not
    # swap the generators between two of the k processes
    import shutil, atexit
    pinned = os.path.join(VERIF, ".build", "run", f"names-run-C15-{os.getpid()}")
    os.makedirs(os.path.dirname(pinned), exist_ok=True)
    shutil.copy2(impl, pinned)
    atexit.register(lambda: os.path.exists(pinned) and os.remove(pinned))
    impl = pinned
    k = 3 if c.tier == "quick" else 12
    inputs = []          # (id, class, input token, source text / path)
    cp = os.path.join(VERIF, "corpus", "C15.jsonl")
    if os.path.exists(cp):
        for i, line in enumerate(open(cp)):
            line = line.strip()
            if not line or line.startswith("#"): continue
            d = json.loads(line)
            inputs.append((f"corpus{i}", d.get("class", "full"), "t:" + hx(d["wit"]), d["wit"], d.get("backends")))
    if c.replay and "witness" in c.replay and "wit" in c.replay["witness"]:
        w = c.replay["witness"]
        inputs.insert(0, ("replay", "full", "t:" + hx(w["wit"]), w["wit"], [w["backend"]] if "backend" in w else None))
    cg = os.path.join(REPO, "tests", "codegen")
    for n in sorted(os.listdir(cg)):
        p = os.path.join(cg, n)
        if os.path.isdir(p):
            p = os.path.join(p, "wit")          # crates/test: `<dir>/wit` holds the package
            if not os.path.isdir(p): continue   # (empty directory: submodule not checked out)
        inputs.append((f"codegen:{n}", "codegen", "p:" + hx(p), p, None))
    nseed = 40 if c.tier == "quick" else 300
    for i in range(nseed):
        klass = c.rng.choice(["full", "noerr", "noerr", "sync", "syncnomap"])
        wit, st = NW.gen_world(c.rng, klass, size=c.rng.choice([1, 2, 3]))
        inputs.append((f"seed{i}", klass, "t:" + hx(wit), wit, None))
    reqs, meta = [], []
    for iid, klass, tok, src, only in inputs:
        for b, vs in VARIANTS.items():
            if only and b not in only: continue
            for v in vs:
                reqs.append(f"{b} {v} {tok} -")
                meta.append((iid, b, v, src, tok))
    # k processes per chunk; chunks in parallel
    nchunks = 14
    size = (len(reqs) + nchunks - 1) // nchunks
    chunks = [(i, reqs[i:i + size]) for i in range(0, len(reqs), size)]
    pads = [0, 4096, 131, 65521, 17, 9000, 2, 40000, 777, 12345, 1, 30011]
    def work(args):
        start, lines = args
        return start, [run_proc([impl, "determ"], lines, pads[j % len(pads)], 1500) for j in range(k)]
    results = [None] * len(reqs)
    with concurrent.futures.ThreadPoolExecutor(max_workers=nchunks) as ex:
        for start, runs in ex.map(work, chunks):
            for off in range(len(runs[0])):
                results[start + off] = [r[off] for r in runs]
    # a `timeout` / `crash` answer under machine load is the harness's, not the generator's: ask again, alone
    retried = 0
    for idx, answers in enumerate(results):
        for j, a in enumerate(answers):
            if a in ("timeout", "crash"):
                retried += 1
                answers[j] = run_proc([impl, "determ"], [reqs[idx]], pads[j % len(pads)], 600)[0]
    c.cov["harness_retries"] = retried
    status = collections.Counter()
    ndiff = collections.Counter()
    files_compared = 0
    harness_timeouts = 0
    st = c.corr.setdefault("k-process-diff", {"cases": 0, "mismatches": 0, "first_mismatches": []})
    for (iid, b, v, src, tok), answers in zip(meta, results):
        st["cases"] += 1; c.evaluations += 1
        a0 = answers[0]
        kind = a0.split(" ")[0]
        status[f"{b}:{kind}"] += 1
        if kind == "ok":
            files_compared += (len(a0.split(" ")) - 1) * k
            c.nontrivial.add(hashlib.sha1(f"{iid}\0{b}\0{v}".encode()).hexdigest())
        if all(a == a0 for a in answers):
            continue
        if any(a == "timeout" for a in answers):
            harness_timeouts += 1       # still no answer within 10 minutes for one request: not a verdict
            continue
        # something differs
        if not all(a.split(" ")[0] == kind for a in answers) or kind != "ok":
            what = f"{b} {v}: outcome differs between processes ({sorted({a[:60] for a in answers})[:3]})"
            klass = f"{b}-outcome-differs"
            differing = []
        else:
            per = [dict((t.split(":")[0], t.split(":")[1:]) for t in a.split(" ")[1:]) for a in answers]
            names = [list(p) for p in per]
            differing, reorder_only = [], True
            if any(n != names[0] for n in names):
                klass = f"{b}-file-set-differs"
                what = f"{b} {v}: the set/order of generated file names differs between processes"
            else:
                for f in names[0]:
                    vals = {tuple(p[f]) for p in per}
                    if len(vals) > 1:
                        differing.append(unhx(f))
                        if len({p[f][2] for p in per}) > 1 or len({p[f][0] for p in per}) > 1:
                            reorder_only = False
                klass = f"{b}-hash-order-emitted" if reorder_only else f"{b}-nondeterministic-content"
                what = (f"{b} {v}: {len(differing)} generated file(s) differ between processes "
                        f"({'same lines in a different order' if reorder_only else 'different content'}): {differing[:4]}")
        ndiff[klass] += 1
        st["mismatches"] += 0     # a difference is a spec failure of the implementation, not a model mismatch
        wit = open(src).read() if os.path.isfile(src) else src
        c.spec_violation(klass, what, {"backend": b, "variant": v, "input": iid, "wit": wit, "files": differing[:6], "k": k,
                                       "replay_note": "names-run determ, k separate processes"})
    c.cov["processes_per_case"] = k
    c.cov["harness_timeouts_excluded"] = harness_timeouts
    if harness_timeouts > len(reqs) // 100 + 1:
        c.broken.append(("k-process run: too many requests without an answer", f"{harness_timeouts} of {len(reqs)}"))
    c.cov["generator_status"] = dict(sorted(status.items()))
    c.cov["files_compared"] = files_compared
    c.cov["differences_by_class"] = dict(ndiff)
    c.cov["inputs"] = {"corpus": sum(1 for i in inputs if i[0].startswith("corpus")), "tests/codegen": sum(1 for i in inputs if i[0].startswith("codegen")),
                       "seeded": nseed}
    c.cov["search"] = "byte-for-byte diff of every output file of every (input, backend, variant) across k separate processes"
    c.assumptions += [
        "the inventory is syntactic: hash-typed names are found per crate by declared type / initialiser (+ flow through mem::take / clone); a hash container reached only through an alias or a generic wrapper that the rules do not see is missed (the k-process diff is the net under it)",
        "that a site belongs to its consumer class is a trusted classification (automatic rule or the fingerprinted manual table with its justification); the Lean theorems are about the classes",
        "nondeterminism sources other than hash iteration (addresses, time, environment, thread scheduling) are not modelled; they are only observed by the k-process diff",
        "wit-parser's own data structures are IndexMap/arena based and are not inventoried (external crate)",
    ]
    c.trusted += ["tools/gen_hash_sites.py + tools/hash_sites_manual.json (syntactic inventory and consumer classification)"]
