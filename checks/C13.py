"""C13 — every backend's core imports/exports match the world's canonical ABI.

Spec (Lean): lean/Witverif/Abi/Names.lean  (legacy mangling as wit-parser/wit-component implement it)
Models:      lean/Witverif/Abi/NamesBackends.lean (C, C++, C#, Go, MoonBit, D, Rust naming code)
Theorems:    lean/Witverif/Props/C13.lean
Tie:         harness/names-run (real generators in-process) + tools/names_extract.py (declarations
             cut out of the generated text)  vs  m_names (Lean driver)

Per (world, backend, option variant) the run does
  A  oracle 1: wit-parser's wasm_import_name/wasm_export_name/wasm_signature/task_return_import for
     every world item  ==  Lean `Spec.*` (labelled entries)          -> validates the spec transcription
  B  oracle 2: imports/exports of wit_component::dummy_module (sync; async-callback on the
     all-async copy)  ⊆  Lean `Spec.allImports/allExports`
  C  correspondence of the backend model:  must ⊆ extracted ⊆ must ∪ optional ; exports equal
  D  THE PROPERTY, spec side evaluated by Lean on the implementation's declarations:
     every referenced import ∈ Spec.allImports, every export ∈ Spec.allExports (else it is silently
     ignored by the component encoder), Spec.requiredExports ⊆ exports
  E  oracle 3: ComponentEncoder::validate(true).encode() on a synthetic module declaring exactly the
     extracted imports/exports must agree with D (accept iff no import is unknown)."""
import os, json, re, hashlib, collections, concurrent.futures
from vlib import run_lines, VERIF, REPO
import names_extract as NE
import names_worlds as NW

def hx(s): return s.encode().hex() if s else "-"
def unhx(h): return "" if h == "-" else bytes.fromhex(h).decode()

BACKENDS = ["rust", "c", "go", "moonbit", "csharp", "cpp", "d"]
VARIANTS = {"rust": ["default", "borrowed", "borrowed-duplicate", "async", "no-std", "merge-equal", "hashmap"],
            "c": ["default", "no-sig-flattening", "autodrop", "async"],
            "cpp": ["default"], "csharp": ["default"], "go": ["default"],
            "moonbit": ["default", "async"], "d": ["default"]}
# variants that change nothing about naming are sampled, the others always run
NAMING_VARIANTS = {"rust": ["default", "async"], "c": ["default", "async", "no-sig-flattening"],
                   "moonbit": ["default", "async"]}

FS_RE = re.compile(r"^(\[async-lower\])?\[(future|stream)-(new|read|write|cancel-read|cancel-write|drop-readable|drop-writable|drop-writeable)-(\d+|unit)\](.*)$")


def parallel_lines(cmd, reqs, workers=12, timeout=600):
    """run_lines over chunks in parallel, order preserved"""
    if not reqs: return []
    n = max(1, min(workers, len(reqs)))
    size = (len(reqs) + n - 1) // n
    chunks = [reqs[i:i + size] for i in range(0, len(reqs), size)]
    with concurrent.futures.ThreadPoolExecutor(max_workers=n) as ex:
        outs = list(ex.map(lambda ch: run_lines(cmd, ch, timeout=timeout), chunks))
    return [a for o in outs for a in o]


def decl_token(d):
    p = ",".join(d["params"]) if d["params"] else "-"
    r = ",".join(d["results"]) if d["results"] else "-"
    if d["kind"] == "I":
        return f"I:{hx(d['module'])}:{hx(d['name'])}:{p}:{r}"
    return f"E:{hx(d['name'])}:{p}:{r}"


def show_token(t):
    p = t.split(":")
    if p[0] == "I": return f"import {unhx(p[1])!r} {unhx(p[2])!r} ({p[3]}) -> ({p[4]})"
    return f"export {unhx(p[1])!r} ({p[2]}) -> ({p[3]})"


def snake_simple(s):
    return s.replace("-", "_").lower()


ASYNC_FORCED = "async-abi-forced-on-sync-function"


def classify(backend, tok, allexp_names, allimp=frozenset(), forced=False):
    """stable witness class of a declaration that the spec rejects.  `forced`: in this run the
    configuration selects the async ABI for at least one function whose WIT type is not async
    (only then can a rejected async name belong to the known class ASYNC_FORCED)."""
    p = tok.split(":")
    if p[0] == "E":
        name = unhx(p[1])
        for pre in ("[callback][async-lift]", "[async-lift]"):
            if forced and name.startswith(pre) and name[len(pre):] in allexp_names:
                return ASYNC_FORCED
        if backend == "c" and "#[dtor]" in name:
            pre, r = name.split("#[dtor]", 1)
            if any(n.startswith(pre + "#[dtor]") and snake_simple(n.split("#[dtor]", 1)[1]) == r and n != name for n in allexp_names):
                return "c-dtor-export-snake-case"
        if backend == "cpp" and name.startswith("cabi_post_"):
            rest = name[len("cabi_post_"):]
            if any(n.startswith("cabi_post_") and "#" not in n and n[len("cabi_post_"):].replace("-", "_") == rest and n != name for n in allexp_names):
                return "cpp-world-post-return-mangled"
        if backend == "csharp" and name.startswith("cabi_post_[async-lift]"):
            return "csharp-async-post-return-ignored"
        if backend == "csharp" and name.startswith("[dtor]"):
            return "csharp-world-resource-treated-as-exported"
        return f"export-not-in-world:{backend}"
    name = unhx(p[2])
    if backend == "csharp" and FS_RE.match(name):
        return "csharp-future-stream-intrinsic-names"
    if backend == "csharp" and unhx(p[1]) == "[export]$root" and name.startswith(("[resource-new]", "[resource-rep]")):
        return "csharp-world-resource-treated-as-exported"
    if forced and name.startswith("[async-lower]") and (p[1], name[len("[async-lower]"):]) in allimp:
        return ASYNC_FORCED
    if forced and name.startswith("[task-return]") and unhx(p[1]).startswith("[export]"):
        m = unhx(p[1])[len("[export]"):]
        f = name[len("[task-return]"):]
        if (f if m == "$root" else m + "#" + f) in allexp_names:
            return ASYNC_FORCED
    return f"import-not-in-world:{backend}"


def load_cases(c):
    """[(id, klass, input token, world, wit text or path, origin)]"""
    cases = []
    cp = os.path.join(VERIF, "corpus", "C13.jsonl")
    if os.path.exists(cp):
        for i, line in enumerate(open(cp)):
            line = line.strip()
            if not line or line.startswith("#"): continue
            d = json.loads(line)
            cases.append((f"corpus{i}", d.get("class", "full"), "t:" + hx(d["wit"]), d.get("world", "-"), d["wit"], "corpus", d.get("backends")))
    if c.replay and "witness" in c.replay and "wit" in c.replay["witness"]:
        w = c.replay["witness"]
        cases.insert(0, ("replay", w.get("class", "full"), "t:" + hx(w["wit"]), "-", w["wit"], "replay", [w["backend"]] if "backend" in w else None))
    cg = os.path.join(REPO, "tests", "codegen")
    names = sorted(os.listdir(cg))
    if c.tier == "quick":
        keep = {"resources.wit", "futures.wit", "streams.wit", "import-and-export-resource.wit", "conventions.wit",
                "multiversion", "simple-http.wit", "resources-with-futures.wit", "import-export-future.wit",
                "async-resource-func.wit", "rename-interface.wit", "issue929.wit", "worlds-with-types.wit",
                "resource-alias.wit", "many-arguments.wit", "ret-areas.wit", "wasi-clocks"}
        names = [n for n in names if n in keep]
    for n in names:
        p = os.path.join(cg, n)
        if os.path.isdir(p):
            p = os.path.join(p, "wit")          # crates/test: `<dir>/wit` holds the package
            if not os.path.isdir(p): continue   # (empty directory: submodule not checked out)
        cases.append((f"codegen:{n}", "codegen", "p:" + hx(p), "-", p, "tests/codegen", None))
    nseed = 60 if c.tier == "quick" else 700
    for i in range(nseed):
        klass = c.rng.choice(["full", "noerr", "noerr", "sync", "syncnomap"])
        wit, st = NW.gen_world(c.rng, klass, size=c.rng.choice([1, 2, 3]))
        cases.append((f"seed{i}", klass, "t:" + hx(wit), "-", wit, "seeded", None))
        for k, v in st.items():
            c.cov.setdefault("world_features", collections.Counter())[k] += v
    return cases


def backends_for(klass):
    if klass == "codegen": return BACKENDS
    return [b for b in BACKENDS if {"full": 0, "noerr": 1, "sync": 2, "syncnomap": 3}[NW.CLASS_OF[b]] <= {"full": 0, "noerr": 1, "sync": 2, "syncnomap": 3}[klass]]


def run(c):
    c.rule = ("worlds: corpus + tests/codegen + seeded (kebab/multi-word names, versions, resources, async, futures/streams "
              "nested and repeated, world-level and inline items) x backend x option variant; non-trivial = the generator "
              "produced output with at least one import and one export declaration or a payload intrinsic; distinct by (world, backend, variant)")
    ok = c.lake_build(["Witverif.Props.C13"])
    if ok: c.audit("Witverif.Props.C13")
    if c.tier == "thorough" and ok: c.leanchecker("Witverif.Props.C13")
    model = c.model_exe("m_names")
    impl = c.cargo_build("names-run")
    if not impl: return
    impl = os.environ.get("VERIF_NAMES_RUN", impl)      # replay against a patched copy of the generators
    import shutil, atexit               # pin the binary for this run (concurrent cargo builds swap it)
    pinned = os.path.join(VERIF, ".build", "run", f"names-run-C13-{os.getpid()}")
    os.makedirs(os.path.dirname(pinned), exist_ok=True)
    shutil.copy2(impl, pinned)
    atexit.register(lambda: os.path.exists(pinned) and os.remove(pinned))
    impl = pinned
    cases = load_cases(c)
    reqs, meta = [], []
    for cid, klass, inp, world, src, origin, only in cases:
        for b in (only or backends_for(klass)):
            vs = VARIANTS[b]
            if origin != "corpus" and len(vs) > 1:
                nv = NAMING_VARIANTS.get(b, vs)
                extra = [v for v in vs if v not in nv]
                vs = nv + ([c.rng.choice(extra)] if extra and c.rng.random() < (0.3 if c.tier == "quick" else 1.0) else [])
            for v in vs:
                reqs.append(f"{b} {v} {inp} {world}")
                meta.append((cid, klass, b, v, src, origin, inp, world))
    answers = parallel_lines([impl, "names"], reqs, workers=14, timeout=900)
    status = collections.Counter()
    parsed = []
    for a, m in zip(answers, meta):
        try:
            d = json.loads(a)
        except Exception:
            d = {"status": "harness-" + a[:40]}
        parsed.append(d)
        status[(m[2], d["status"])] += 1
    c.cov["generator_status"] = {f"{b}:{s}": n for (b, s), n in sorted(status.items())}

    # ---------------------------------------------------------------- Lean requests
    lreq, lidx = [], []
    seen_world = {}
    for i, (d, m) in enumerate(zip(parsed, meta)):
        if "desc" not in d: continue
        wkey = hashlib.sha1(d["desc"].encode()).hexdigest()
        if wkey not in seen_world:
            seen_world[wkey] = i
            lreq.append("spec\t" + d["desc"]); lidx.append(("spec", i))
            lreq.append("sets\t" + d["desc"]); lidx.append(("sets", i))
        if d["status"] != "ok": continue
        if m[2] in ("cpp", "d") and (re.search(r"\(f \w+ \S+ \S+ 1 ", d["desc"]) or re.search(r"\(tids \d", d["desc"])):
            # async functions / futures / streams: declared unsupported by these two backends (crates/test)
            d["status"] = "unsupported-feature"
            status[(m[2], "ok")] -= 1; status[(m[2], "unsupported-feature (async/future/stream)")] += 1
            continue
        decls = NE.extract(m[2], d["files"])
        d["decls"] = decls
        d["raw"] = NE.raw_attribute_count(m[2], d["files"])
        good = [x for x in decls if x["params"] is not None]
        d["tokens"] = [decl_token(x) for x in good]
        lreq.append("check\t" + d["desc"] + "".join("\t" + t for t in d["tokens"])); lidx.append(("check", i))
        lreq.append(f"model\t{m[2]}\t" + d["desc"]); lidx.append(("model", i))
    c.cov["generator_status"] = {f"{b}:{s}": n for (b, s), n in sorted(status.items()) if n}
    if not model:
        return
    lans = parallel_lines([model], lreq, workers=14, timeout=900)
    res = collections.defaultdict(dict)
    for (kind, i), a in zip(lidx, lans):
        res[i][kind] = a
    world_res = {}
    for wkey, i in seen_world.items():
        world_res[wkey] = res[i]

    # ---------------------------------------------------------------- A, B per world
    stA = c.corr.setdefault("spec-vs-wit-parser", {"cases": 0, "mismatches": 0, "first_mismatches": []})
    stB = c.corr.setdefault("spec-vs-dummy-module", {"cases": 0, "mismatches": 0, "first_mismatches": []})
    for wkey, i in seen_world.items():
        d, m = parsed[i], meta[i]
        spec = {}
        for t in res[i].get("spec", "").split(" "):
            if "=" in t:
                k, v = t.split("=", 1); spec[k] = v
        if res[i].get("spec", "bad").startswith("bad"):
            c.broken.append(("corr:m_names spec", f"{m[0]}: {res[i].get('spec')}")); continue
        for lbl, v in d["wp"].items():
            if lbl == "G.memory": continue
            stA["cases"] += 1; c.evaluations += 1
            p = v.split(" ")
            tok = (f"I:{p[1]}:{p[2]}:{p[3]}:{p[4]}" if p[0] == "I" else f"E:{p[1]}:{p[2]}:{p[3]}")
            if spec.get(lbl) != tok:
                stA["mismatches"] += 1
                if len(stA["first_mismatches"]) < 5:
                    stA["first_mismatches"].append({"case": m[0], "label": lbl, "wit-parser": show_token(tok), "lean": show_token(spec[lbl]) if lbl in spec else None})
        sets = res[i].get("sets", "").split(" ")
        allI = {t for t in sets if t.startswith("I:")}
        allE = {t for t in sets if t.startswith("E:")}
        d["allI"], d["allE"] = allI, allE
        d["req"] = {"E" + t[1:] for t in sets if t.startswith("R:")}
        for tag, lst in d.get("dummy", {}).items():
            if not isinstance(lst, list):
                c.notes.append(f"dummy_module {tag} failed on {m[0]}: {lst}"); continue
            for e in lst:
                p = e.split(" ")
                if p[0] == "E" and p[2] == "memory": continue
                tok = (f"I:{p[1]}:{p[2]}:{p[3]}:{p[4]}" if p[0] == "I" else f"E:{p[1]}:{p[2]}:{p[3]}")
                stB["cases"] += 1; c.evaluations += 1
                if tok not in (allI if p[0] == "I" else allE):
                    stB["mismatches"] += 1
                    if len(stB["first_mismatches"]) < 5:
                        stB["first_mismatches"].append({"case": m[0], "abi": tag, "dummy": show_token(tok)})
    for nm, st in (("spec-vs-wit-parser", stA), ("spec-vs-dummy-module", stB)):
        if st["mismatches"]:
            c.broken.append((f"corr:{nm}", json.dumps(st["first_mismatches"][:3])))

    # ---------------------------------------------------------------- C, D per (world, backend, variant)
    stC = c.corr.setdefault("backend-model-vs-generated", {"cases": 0, "mismatches": 0, "first_mismatches": []})
    enc_req, enc_idx = [], []
    per_backend = collections.Counter()
    kinds = collections.Counter()
    for i, (d, m) in enumerate(zip(parsed, meta)):
        if d.get("status") != "ok" or "tokens" not in d: continue
        cid, klass, b, v, src, origin, inp, world = m
        wkey = hashlib.sha1(d["desc"].encode()).hexdigest()
        wd = parsed[seen_world[wkey]]
        allI, allE, req = wd.get("allI", set()), wd.get("allE", set()), wd.get("req", set())
        decls = d["decls"]
        # extraction must have seen every declaration marker
        bad = [x for x in decls if x["params"] is None]
        ni = sum(1 for x in decls if x["kind"] == "I"); ne = sum(1 for x in decls if x["kind"] == "E")
        if bad or (b != "moonbit" and (ni, ne) != tuple(d["raw"])) or (b == "moonbit" and ni != d["raw"][0]):
            c.broken.append(("extraction incomplete", json.dumps({"case": cid, "backend": b, "variant": v, "raw": d["raw"], "got": [ni, ne],
                                                                     "bad": [(x["name"], x["problems"]) for x in bad][:3]})))
            continue
        good = [x for x in decls if x["params"] is not None]
        toks = d["tokens"]
        verdicts = res[i].get("check", "").split(" ") if toks else []
        if len(verdicts) != len(toks):
            c.broken.append(("corr:m_names check", f"{cid} {b} {v}: {res[i].get('check', '')[:200]}")); continue
        ext_imports = {t for t in toks if t.startswith("I:")}
        ext_exports = [t for t in toks if t.startswith("E:")]
        ext_ref_imports = {t for t, x in zip(toks, good) if x["kind"] == "I" and x["referenced"]}
        per_backend[b] += 1
        if ext_imports and ext_exports or any(FS_RE.match(unhx(t.split(":")[2])) for t in ext_imports):
            c.nontrivial.add(hashlib.sha1(f"{cid}\0{b}\0{v}".encode()).hexdigest())
        for t in toks:
            nm = unhx(t.split(":")[2 if t[0] == "I" else 1])
            k = ("fs-intrinsic" if FS_RE.match(nm) else "task-return" if nm.startswith("[task-return]") else
                 "resource-intrinsic" if nm.startswith("[resource-") else "async-lower" if nm.startswith("[async-lower]") else
                 "callback" if nm.startswith("[callback]") else "async-lift" if nm.startswith("[async-lift]") else
                 "post-return" if nm.startswith("cabi_post_") else "dtor" if "#[dtor]" in nm else
                 "builtin" if nm.startswith("[") and t[0] == "I" and "]" == nm[-1] else "func")
            kinds[f"{b}:{t[0]}:{k}"] += 1
        # ---- C: model correspondence
        mtoks = res[i].get("model", "").split(" ")
        if res[i].get("model", "bad").startswith("bad"):
            c.broken.append(("corr:m_names model", f"{cid} {b}: {res[i].get('model')}")); continue
        must = {t.rsplit(":", 1)[0] for t in mtoks if t.startswith("I:") and t.endswith(":must")}
        optl = {t.rsplit(":", 1)[0] for t in mtoks if t.startswith("I:") and t.endswith(":opt")}
        mexp = [t for t in mtoks if t.startswith("E:")]
        stC["cases"] += 1; c.evaluations += 1
        problems = []
        cs_fs = set()
        if b == "csharp":
            # future/stream intrinsics of C#: structural check against `CSharp.addFuturesOrStreams`
            # (∃ input list: per (module, kind) the indices are 0..n-1, each with its eight names)
            groups = collections.defaultdict(lambda: collections.defaultdict(set))
            for t in ext_imports:
                mod, nm = unhx(t.split(":")[1]), unhx(t.split(":")[2])
                fm = FS_RE.match(nm)
                if fm:
                    cs_fs.add(t)
                    groups[(mod, fm.group(2))][(fm.group(4), fm.group(5))].add((fm.group(1) or "") + fm.group(3))
            for (mod, kind), ents in groups.items():
                idx = sorted(int(ix) for ix, _ in ents if ix != "unit")
                if idx != list(range(len(idx))):
                    problems.append(f"C# {kind} indices of {mod} are {idx}, model numbers generated entries 0..n-1")
                for key, ops in ents.items():
                    want = {"[async-lower]read", "[async-lower]write", "drop-readable", "drop-writable", "new", "cancel-read", "cancel-write", "drop-writeable"}
                    if ops != want:
                        problems.append(f"C# {kind} entry {key} of {mod} has ops {sorted(ops)}")
        miss = must - ext_imports
        extra = ext_imports - must - optl - cs_fs
        if miss: problems.append("model says emitted, not found: " + "; ".join(show_token(t) for t in sorted(miss)[:4]))
        if extra: problems.append("generated, not in model: " + "; ".join(show_token(t) for t in sorted(extra)[:4]))
        if sorted(set(mexp)) != sorted(set(ext_exports)):
            a, bb = set(mexp) - set(ext_exports), set(ext_exports) - set(mexp)
            problems.append("exports differ: model-only " + "; ".join(show_token(t) for t in sorted(a)[:4]) + " | generated-only " + "; ".join(show_token(t) for t in sorted(bb)[:4]))
        if problems:
            stC["mismatches"] += 1
            if len(stC["first_mismatches"]) < 6:
                stC["first_mismatches"].append({"case": cid, "backend": b, "variant": v, "problems": problems[:4], "wit": src if origin != "tests/codegen" else src})
        # ---- D: the property on the implementation's declarations
        allexp_names = {unhx(t.split(":")[1]) for t in allE}
        # (f KIND RES ITEM WITASYNC SEL …): sync-typed function selected async by this run's configuration
        forced = re.search(r"\(f \w+ \S+ \S+ 0 1 ", d["desc"]) is not None
        allimp = {(t.split(":")[1], unhx(t.split(":")[2])) for t in allI}
        fails = []
        for t, x, vd in zip(toks, good, verdicts):
            if vd == "ok": continue
            if x["kind"] == "I" and not x["referenced"]:
                c.cov.setdefault("unreferenced_misnamed_imports", collections.Counter())[f"{b}:{FS_RE.match(x['name']).group(3) if FS_RE.match(x['name']) else x['name'][:30]}"] += 1
                continue
            fails.append((classify(b, t, allexp_names, allimp, forced), "declared " + show_token(t) + " is not assigned by the component model to any item of the world" + (" (silently ignored export)" if t[0] == "E" else "")))
        for r in req - set(ext_exports):
            fails.append((f"required-export-missing:{b}", "required " + show_token(r) + " is not exported"))
        d["fails"] = fails
        for klass_, what in fails:
            c.spec_violation(klass_, what, {"backend": b, "variant": v, "case": cid, "wit": open(src).read() if origin == "tests/codegen" and os.path.isfile(src) else src,
                                             "class": klass, "what": what})
        # ---- E: encoder request (referenced imports + exports)
        etoks = sorted(ext_ref_imports) + sorted(set(ext_exports))
        enc_req.append(f"{inp} {world} " + " ".join(etoks)); enc_idx.append(i)
    if stC["mismatches"]:
        c.broken.append(("corr:backend-model-vs-generated", json.dumps(stC["first_mismatches"][:3])))
    c.cov["cases_per_backend"] = dict(per_backend)
    c.cov["declaration_kinds_seen"] = dict(sorted(kinds.items()))

    # ---------------------------------------------------------------- E
    stE = c.corr.setdefault("spec-vs-component-encoder", {"cases": 0, "mismatches": 0, "first_mismatches": []})
    eans = parallel_lines([impl, "encode"], enc_req, workers=14, timeout=900)
    for i, a in zip(enc_idx, eans):
        d, m = parsed[i], meta[i]
        stE["cases"] += 1; c.evaluations += 1
        reject = any(k.startswith("import-not-in-world") or k.startswith("required-export-missing") or
                     k in ("csharp-future-stream-intrinsic-names", ASYNC_FORCED) or
                     (k == "csharp-world-resource-treated-as-exported" and "declared import" in w_)
                     for k, w_ in d.get("fails", []))
        accepted = a.startswith("ok")
        expect = not reject
        if accepted != expect:
            stE["mismatches"] += 1
            if len(stE["first_mismatches"]) < 5:
                stE["first_mismatches"].append({"case": m[0], "backend": m[2], "variant": m[3], "encoder": a[:3] + " " + (unhx(a.split(" ")[1])[:300] if a.startswith("err") else a[:80]),
                                                "spec_says": "accept" if expect else "reject", "wit": m[4]})
    if stE["mismatches"]:
        c.broken.append(("corr:spec-vs-component-encoder", json.dumps(stE["first_mismatches"][:3])))

    # ---------------------------------------------------------------- F: "silently ignored", asked of the encoder itself
    # an export is ignored iff removing it leaves the encoded component byte-identical.  Asked for every
    # case in which the spec flags an export, and for a sample of the cases in which it flags none.
    stF = c.corr.setdefault("ignored-exports-vs-component-encoder", {"cases": 0, "mismatches": 0, "first_mismatches": []})
    flagged, clean = [], []
    for j, (i, a) in enumerate(zip(enc_idx, eans)):
        if not a.startswith("ok"): continue
        bad = [w for k_, w in parsed[i].get("fails", []) if "silently ignored export" in w]
        (flagged if bad else clean).append(j)
    c.rng.shuffle(clean)
    pick = flagged[: (60 if c.tier == "quick" else 600)] + clean[: (40 if c.tier == "quick" else 400)]
    ians = parallel_lines([impl, "encode"], ["ignored " + enc_req[j] for j in pick], workers=14, timeout=900)
    confirmed = 0
    for j, a in zip(pick, ians):
        i = enc_idx[j]; d, m = parsed[i], meta[i]
        stF["cases"] += 1; c.evaluations += 1
        if not a.startswith("ok"):
            stF["mismatches"] += 1; stF["first_mismatches"].append({"case": m[0], "backend": m[2], "answer": a[:120]}); continue
        ign = {unhx(h) for h in a.split(" ")[1:]} - {"cabi_realloc"}    # (unused when nothing needs memory)
        want = set()
        for k_, w in d.get("fails", []):
            if "silently ignored export" in w:
                mm = re.search(r"declared export '((?:[^'\\]|\\.)*)'", w)
                if mm: want.add(mm.group(1))
        if ign != want:
            stF["mismatches"] += 1
            if len(stF["first_mismatches"]) < 5:
                stF["first_mismatches"].append({"case": m[0], "backend": m[2], "variant": m[3], "encoder_ignores": sorted(ign), "spec_flags": sorted(want), "wit": m[4]})
        elif want:
            confirmed += 1
    c.cov["silently_ignored_confirmed_by_encoder"] = confirmed
    if stF["mismatches"]:
        c.broken.append(("corr:ignored-exports-vs-component-encoder", json.dumps(stF["first_mismatches"][:3])))

    for d, m in list(zip(parsed, meta)):
        if d.get("status") == "ok" and d.get("tokens"):
            c.sample({"case": m[0], "backend": m[2], "variant": m[3], "declarations": [show_token(t) for t in d["tokens"][:6]]})
            if len(c.samples) >= 6: break
    for k in ("world_features", "unreferenced_misnamed_imports"):
        if k in c.cov: c.cov[k] = dict(c.cov[k])
    c.cov["search"] = ("Spec.allImports/allExports/requiredExports (Lean, spec side) evaluated on every declaration extracted from every generated "
                       "output of this run; wit-parser, dummy_module and ComponentEncoder as independent oracles")
    c.assumptions += [
        "declarations are cut out of generated *text* by regular expressions (tools/names_extract.py); a marker count guards against missed declarations",
        "'actually references' is decided syntactically (the declared identifier occurs elsewhere in the generated files); for C and Rust every import is declared at its use site",
        "core signatures are compared at wasm32 (pointer and length = i32)",
        "C#/Go/MoonBit/D/C++ output is not compiled here (no toolchain): what their compilers do with the attributes is assumed",
        "which payload type gets its future/stream intrinsics from which function (per-type de-duplication in the generators) is not modelled: those declarations are optional in the model",
    ]
    c.trusted += ["wit-parser 0.257 / wit-component 0.257 as the reference for the legacy name mangling (oracles 1-3)",
                  "tools/names_extract.py (per-language declaration extraction)"]
