"""C18 — the async runtime registers, delivers and unregisters waitables exactly.
Models: lean/Witverif/Async/Waitable.lean (generic WaitableOperation) + Subtask/Host/Script, spec monitor
Async/WaitableSpec.lean, theorems lean/Witverif/Props/C18.lean (generic in the operation kind).
Tie: harness/rt-native engine `script` with TWO harness tasks in the cabi1/cabi2 modes (the body moves
between them with `t<n>`), exact trace equality with m_async; the Lean spec side (WaitableSpec per waitable
handle, clone/drop balance per task, registrations left, host traps) is evaluated on the REAL traces of
cabi1, cabi2 and export (real executor: SharedTaskState::waitable_register/unregister,
deliver_waitable_event); in the cabi modes the driver also replays the PROVED step function `GSys.step subtaskOps`
along the real trace, label by label (Async/Refine.lean).  A trace is judged up to the point where a Rust panic
starts; a script that kills the process is re-run alone in streaming mode so that its prefix is not lost.
A failure is filed under the known v1 cross-task finding only if its clause, the handle it is about and its position
in the trace match that defect (`attribute`).  Operation kind driven today: subtasks."""
import os, collections, re
from vlib import run_lines, VERIF, sh
import rtlib

C18_PREFIXES = ("waitable:", "gsys:", "anomaly:!registrations-left", "anomaly:!task-clones-left", "anomaly:!trap:",
                "anomaly:!host-leftovers", "host:trap:", "panic")

# clauses of the WaitableSpec monitor that the v1 cross-task defect produces for the waitable that moved
V1_CLAUSES = ("registered-in-two-tasks", "cancel-while-registered", "drop-while-registered", "dangling-registration")
REG = re.compile(r"^(un)?reg\((\d+),(\d+)\)=")
DLV = re.compile(r"^dlv\((\d+),(\d+)\)$")


def tasks_upto(toks, w, i):
    """tasks under which waitable `w` was registered or unregistered in toks[0..i]"""
    seen = set()
    for t in toks[:i + 1]:
        m = REG.match(t)
        if m and m.group(3) == w:
            seen.add(m.group(2))
    return seen


def leftover_regs(toks):
    """the executors' maps at the end of the trace, replayed from the reg/unreg/dlv tokens (lowest task delivers)"""
    regs = set()
    for t in toks:
        m = REG.match(t)
        if m:
            (regs.discard if m.group(1) else regs.add)((m.group(2), m.group(3)))
            continue
        m = DLV.match(t)
        if m:
            holders = sorted(int(a) for a, w in regs if w == m.group(1))
            if holders:
                regs.discard((str(holders[0]), m.group(1)))
    return regs


def attribute(script, toks, item):
    """Is this failed item an instance of the known v1 cross-task defect?  Matches on the CLAUSE, on the
    HANDLE the clause is about and on the POSITION in the trace: the waitable must have been (un)registered
    under two different tasks by then, with the v1 ABI.  Returns "known" / "domain" (outside the theorems'
    label domain, not judged) / None (a new failure)."""
    if not script.startswith("cabi1"):
        return None
    cls, _, where = item.partition("@")
    where, _, pos = where.partition("#")
    pos = int(pos) if pos.isdigit() else len(toks)
    if cls.startswith("waitable:") and where.startswith("h"):
        if cls[len("waitable:"):] in V1_CLAUSES and len(tasks_upto(toks, where[1:], pos)) >= 2:
            return "known"
        return None
    if cls.startswith("anomaly:!registrations-left:"):
        left = leftover_regs(toks)
        n = cls.rsplit(":", 1)[1]
        if n.isdigit() and int(n) == len(left) and left and all(len(tasks_upto(toks, w, len(toks))) >= 2 for _, w in left):
            return "known"
        return None
    if cls == "panic":
        m = DLV.match(toks[-1]) if toks else None          # the panic started inside the callback of this delivery
        if m and len(tasks_upto(toks, m.group(1), len(toks))) >= 2:
            return "known"
        return None
    if cls.startswith("gsys:"):
        # `GSys` labels are legal for the v1 ABI only while the operation stays in one task (GLegal)
        k = where
        h = next((t.split(":")[1] for t in toks if t.startswith(f"call{k}=")), "0")
        if h != "0" and len(tasks_upto(toks, h, pos)) >= 2:
            return "domain"
        return None
    return None


def run(c):
    c.rule = ("scripts as in C21 (1..3 import calls, body over create/poll/await/drop/suspend/yield, host directives "
              "advance/deliver, task cancel when directives run out) plus task switches `t1`/`t2` between two harness tasks "
              "in the cabi1 (v1 ABI) and cabi2 (v2 ABI) modes, and the real executor (export); 40 % of the cabi scripts are "
              "directed schedules (rtlib.gen_move_script): partial progress that keeps the operation pending (STARTING -> STARTED "
              "event; the only operation kind with a non-final event code is the subtask) x re-registration with the same task x "
              "poll/drop under the other task (also back and forth) x completion / cancel / drop / task cancel; non-trivial = an operation "
              "was registered (reg/join) at least once; distinct by normalised trace")
    rc, out = sh(["python3", os.path.join(VERIF, "tools", "gen_limits.py")])
    c.cov["translator"] = out.strip()
    if rc != 0:
        c.broken.append(("translator gen_limits", out[-500:]))
    ok = c.lake_build(["Witverif.Props.C18"])
    if ok: c.audit("Witverif.Props.C18")
    if c.tier == "thorough" and ok: c.leanchecker("Witverif.Props.C18")
    model = c.model_exe("m_async")
    impl = rtlib.build_rt(c)
    n = 6000 if c.tier == "quick" else 80000
    maxbody = 14 if c.tier == "quick" else 30
    stats = collections.Counter()
    reqs = []
    cp = os.path.join(VERIF, "corpus", "C18.txt")
    if os.path.exists(cp):
        reqs += [l.rstrip("\n") for l in open(cp) if l.strip() and not l.startswith("#")]
    if c.replay and "witness" in c.replay: reqs.insert(0, c.replay["witness"]["request"])
    ncorpus = len(reqs)
    for _ in range(n):
        r = c.rng.random()
        mode = "cabi2" if r < 0.45 else "cabi1" if r < 0.75 else "export"
        if mode != "export" and c.rng.random() < 0.4:
            reqs.append(rtlib.gen_move_script(c.rng, mode, stats))      # directed: progress x re-register x move x end
        else:
            reqs.append(rtlib.gen_subtask_script(c.rng, mode, 3, maxbody, stats, tasks=True))
    if not impl or not model:
        return
    # (a script that aborts the process is re-run alone in streaming mode: its trace prefix is not lost)
    flaky = collections.Counter()
    runs = rtlib.run_scripts(impl, reqs[:ncorpus], timeout=300, stats=flaky) + rtlib.run_scripts(impl, reqs[ncorpus:], stats=flaky)
    c.cov["batch_runner_confirmations"] = dict(flaky)
    itrace = [x.cmp() for x in runs]
    # the spec side judges the trace up to the point where a panic started (what follows is unwinding)
    mout = run_lines([model], [r + "\t" + x.judged() for r, x in zip(reqs, runs)], timeout=900)
    c.cov["process_aborts_recovered_by_streaming"] = sum(1 for x in runs if x.aborted)
    cab = [(r, o, rtlib.model_cmp(m.split("\t")[0])) for r, o, m in zip(reqs, itrace, mout) if not r.startswith("export")]
    def nontriv(r, o): return " reg(" in o or " join(" in o
    c.compare("waitable-cabi-two-tasks", [x[0] for x in cab], [x[1] for x in cab], [x[2] for x in cab], nontrivial=nontriv)
    shapes, events, skipped = set(), collections.Counter(), collections.Counter()
    moves, known_items = collections.Counter(), collections.Counter()
    for r, x, m in zip(reqs, runs, mout):
        o = x.prefix
        toks = o.split(" ")
        if r.startswith("export"):
            c.evaluations += 1
            c.corr.setdefault("waitable-export-spec-only", {"cases": 0, "mismatches": 0})["cases"] += 1
        shapes.add(o)
        for t in toks:
            name = t.split("(")[0].split("=")[0].rstrip("0123456789")
            if name in ("reg", "unreg", "clone", "tdrop", "dlv", "join", "ev", "cancel", "sdrop", "task", "ws.poll", "X", "edrop", "drop"):
                events[name] += 1
        if "tdrop(1) reg(2," in o or "tdrop(2) reg(1," in o: moves["v2 move while registered"] += 1
        if r.startswith("cabi1") and any(len(tasks_upto(toks, w, len(toks))) >= 2
                                         for w in {mm.group(3) for mm in map(REG.match, toks) if mm}):
            moves["v1 operation seen by two tasks"] += 1
        verdict = m.split("\t")[1] if "\t" in m else "spec=missing"
        if verdict == "spec=ok":
            continue
        fails = verdict.split(":", 1)[1].split(",") if verdict.startswith("spec=fail:") else ["missing@-"]
        doc = rtlib.documented_panic(x) if r.startswith("export") else None
        if doc:
            skipped[doc] += 1                 # the documented panic itself is not judged; the prefix before it is
            fails = [f for f in fails if not f.startswith("panic@")]
        mine = [f for f in fails if f.startswith(C18_PREFIXES) or f.startswith("missing")]
        for f in mine:                        # other properties' classes (C21) are reported by their own checks
            a = attribute(r, toks, f)
            if a == "known":
                known_items[f.split("@")[0].split(":")[-1] if f.startswith("anomaly") else f.split("@")[0]] += 1
                c.spec_violation("waitable-v1-cross-task",
                                 "v1 task ABI: an operation polled under one task and polled/dropped under another keeps a stale "
                                 "registration (callback pointer) in the first task's map",
                                 {"request": r, "impl": x.raw, "judged_prefix": x.judged(), "item": f, "verdict": verdict})
            elif a == "domain":
                skipped["gsys replay: v1 operation in two tasks (labels outside GLegal, not judged)"] += 1
            else:
                cls = f.split("@")[0]
                k = "waitable-" + re.sub(r"[^a-z!-]+", "-", cls.split(":", 1)[1] if ":" in cls else cls).strip("-")[:60]
                c.spec_violation(k, "the real trace violates the C18 spec side (" + f + ")",
                                 {"request": r, "impl": x.raw, "judged_prefix": x.judged(), "model": m.split("\t")[0],
                                  "verdict": verdict, "panic": x.msg})
    c.cov["known_class_instances_by_clause"] = dict(known_items)
    for r, x in list(zip(reqs, runs))[ncorpus:ncorpus + 3]:
        c.sample({"script": r, "impl_trace": x.raw.split("\t")[0]})
    c.cov["input_distribution"] = dict(sorted(stats.items()))
    c.cov["trace_events"] = dict(sorted(events.items()))
    c.cov["cross_task"] = dict(moves)
    c.cov["distinct_traces"] = len(shapes)
    c.cov["not_judged"] = dict(skipped)
    c.cov["scripts"] = {"corpus": ncorpus, "seeded": n, "max_body": maxbody}
    c.cov["search"] = ("Refine.replayOp (GSys.step subtaskOps driven along the real trace, cabi modes) + WaitableSpec.run/complete per waitable handle + clone/drop balance per task + registrations left + host traps, "
                       "evaluated by the Lean driver on the implementation's traces of every script of this run (all three modes)")
    c.assumptions += [
        "operation kind driven on the real code: subtasks only (the theorems are generic in the operation kind; stream/future ops join the harness with C19/C20)",
        "the real executor's map/set bookkeeping (SharedTaskState) is checked on real traces by the spec monitor but not modelled (Async/Task.lean is C22); exact trace prediction covers the harness-executor modes",
        "two tasks share one C-ABI version per script; `assert_eq!(ptr, prev)` identity checks are not modelled",
        "Ops.Stable (in_progress_waitable never changes) is the WaitableOp trait's documented obligation; proved for the subtask kind",
    ]
