"""C18 — the async runtime registers, delivers and unregisters waitables exactly.
Models: lean/Witverif/Async/Waitable.lean (generic WaitableOperation) + Subtask/Host/Script, spec monitor
Async/WaitableSpec.lean, theorems lean/Witverif/Props/C18.lean (generic in the operation kind).
Tie: harness/rt-native engine `script` with TWO harness tasks in the cabi1/cabi2 modes (the body moves
between them with `t<n>`), exact trace equality with m_async; the Lean spec side (WaitableSpec per waitable
handle, clone/drop balance per task, registrations left, host traps) is evaluated on the REAL traces of
cabi1, cabi2 and export (real executor: SharedTaskState::waitable_register/unregister,
deliver_waitable_event).  Operation kind driven today: subtasks (stream/future ops arrive with C19/C20)."""
import os, collections, re
from vlib import run_lines, VERIF, sh
import rtlib

C18_PREFIXES = ("waitable:", "anomaly:!registrations-left", "anomaly:!task-clones-left", "anomaly:!trap:",
                "anomaly:!host-leftovers", "host:trap:", "panic")


def cross_task_v1(script, trace):
    """v1 ABI and some waitable was (un)registered under two different tasks"""
    if not script.startswith("cabi1"):
        return False
    seen = collections.defaultdict(set)
    for m in re.finditer(r"(?:un)?reg\((\d+),(\d+)\)", trace):
        seen[m.group(2)].add(m.group(1))
    return any(len(v) > 1 for v in seen.values())


def run(c):
    c.rule = ("scripts as in C21 (1..3 import calls, body over create/poll/await/drop/suspend/yield, host directives "
              "advance/deliver, task cancel when directives run out) plus task switches `t1`/`t2` between two harness tasks "
              "in the cabi1 (v1 ABI) and cabi2 (v2 ABI) modes, and the real executor (export); non-trivial = an operation "
              "was registered (reg/join) at least once; distinct by normalised trace")
    rc, out = sh(["python3", os.path.join(VERIF, "tools", "gen_limits.py")])
    c.cov["translator"] = out.strip()
    if rc != 0:
        c.broken.append(("translator gen_limits", out[-500:]))
    ok = c.lake_build(["Witverif.Props.C18"])
    if ok: c.audit("Witverif.Props.C18")
    if c.tier == "thorough" and ok: c.leanchecker("Witverif.Props.C18")
    model = c.model_exe("m_async")
    impl = rtlib.build_rt(c)
    n = 6000 if c.tier == "quick" else 80000
    maxbody = 14 if c.tier == "quick" else 30
    stats = collections.Counter()
    reqs = []
    cp = os.path.join(VERIF, "corpus", "C18.txt")
    if os.path.exists(cp):
        reqs += [l.rstrip("\n") for l in open(cp) if l.strip() and not l.startswith("#")]
    if c.replay and "witness" in c.replay: reqs.insert(0, c.replay["witness"]["request"])
    ncorpus = len(reqs)
    for _ in range(n):
        r = c.rng.random()
        mode = "cabi2" if r < 0.45 else "cabi1" if r < 0.75 else "export"
        reqs.append(rtlib.gen_subtask_script(c.rng, mode, 3, maxbody, stats, tasks=True))
    if not impl or not model:
        return
    # corpus separately: it contains a script that aborts the process (bisecting a short list is cheap)
    iout = run_lines([impl, "script"], reqs[:ncorpus], timeout=300) + run_lines([impl, "script"], reqs[ncorpus:], timeout=900)
    itrace = [o.split("\t")[0] for o in iout]
    mout = run_lines([model], [r + "\t" + o for r, o in zip(reqs, itrace)], timeout=900)
    # A panic inside the `extern "C"` completion callback (`cabi_wake`: `waker.take().unwrap()`) cannot unwind:
    # the process aborts, so the harness answers `crash`.  Where the MODEL predicts a panic at that point the
    # two agree; the model's trace then stands in for the (lost) implementation trace below.
    aborted = 0
    for i, (o, m) in enumerate(zip(itrace, mout)):
        mt = m.split("\t")[0]
        if o in ("crash", "timeout") and " panic " in " " + mt + " ":
            itrace[i] = mt
            mout[i] = mt + "\tspec=fail:panic@-"
            aborted += 1
    c.cov["aborts_matching_model_panic"] = aborted
    cab = [(r, o, m.split("\t")[0]) for r, o, m in zip(reqs, itrace, mout) if not r.startswith("export")]
    def nontriv(r, o): return " reg(" in o or " join(" in o
    c.compare("waitable-cabi-two-tasks", [x[0] for x in cab], [x[1] for x in cab], [x[2] for x in cab], nontrivial=nontriv)
    shapes, events, skipped = set(), collections.Counter(), collections.Counter()
    moves = collections.Counter()
    for idx, (r, o, m) in enumerate(zip(reqs, itrace, mout)):
        if r.startswith("export"):
            c.evaluations += 1
            c.corr.setdefault("waitable-export-spec-only", {"cases": 0, "mismatches": 0})["cases"] += 1
        shapes.add(o)
        for t in o.split(" "):
            name = t.split("(")[0].split("=")[0].rstrip("0123456789")
            if name in ("reg", "unreg", "clone", "tdrop", "dlv", "join", "ev", "cancel", "sdrop", "task", "ws.poll", "X", "edrop", "drop"):
                events[name] += 1
        if "tdrop(1) reg(2," in o or "tdrop(2) reg(1," in o: moves["v2 move while registered"] += 1
        if cross_task_v1(r, o): moves["v1 operation seen by two tasks"] += 1
        verdict = m.split("\t")[1] if "\t" in m else "spec=missing"
        if verdict == "spec=ok":
            continue
        pmsg = (iout[idx].split("\t") + [""])[1]
        if r.startswith("export") and "cannot sleep waiting only on Rust-originating events" in pmsg:
            skipped["export: task sleeps with no waitable registered (documented panic)"] += 1
            continue
        fails = verdict.split(":", 1)[1].split(",") if verdict.startswith("spec=fail:") else ["missing@-"]
        mine = [f for f in fails if f.startswith(C18_PREFIXES) or f.startswith("missing")]
        if not mine:
            continue                       # other properties' classes (C21) are reported by their own checks
        if cross_task_v1(r, o):
            c.spec_violation("waitable-v1-cross-task",
                             "v1 task ABI: an operation polled under one task and polled/dropped under another keeps a stale "
                             "registration (callback pointer) in the first task's map",
                             {"request": r, "impl": o, "verdict": verdict})
            continue
        for f in sorted({x.split("@")[0] for x in mine}):
            k = "waitable-" + re.sub(r"[^a-z!-]+", "-", f.split(":", 1)[1] if ":" in f else f).strip("-")[:60]
            c.spec_violation(k, "the real trace violates the C18 spec side (" + f + ")",
                             {"request": r, "impl": o, "model": m.split("\t")[0], "verdict": verdict, "panic": pmsg})
    for r, o in list(zip(reqs, itrace))[ncorpus:ncorpus + 3]:
        c.sample({"script": r, "impl_trace": o})
    c.cov["input_distribution"] = dict(sorted(stats.items()))
    c.cov["trace_events"] = dict(sorted(events.items()))
    c.cov["cross_task"] = dict(moves)
    c.cov["distinct_traces"] = len(shapes)
    c.cov["scripts_not_applicable"] = dict(skipped)
    c.cov["scripts"] = {"corpus": ncorpus, "seeded": n, "max_body": maxbody}
    c.cov["search"] = ("WaitableSpec.run/complete per waitable handle + clone/drop balance per task + registrations left + host traps, "
                       "evaluated by the Lean driver on the implementation's traces of every script of this run (all three modes)")
    c.assumptions += [
        "operation kind driven on the real code: subtasks only (the theorems are generic in the operation kind; stream/future ops join the harness with C19/C20)",
        "the real executor's map/set bookkeeping (SharedTaskState) is checked on real traces by the spec monitor but not modelled (Async/Task.lean is C22); exact trace prediction covers the harness-executor modes",
        "two tasks share one C-ABI version per script; `assert_eq!(ptr, prev)` identity checks are not modelled",
        "Ops.Stable (in_progress_waitable never changes) is the WaitableOp trait's documented obligation; proved for the subtask kind",
    ]
