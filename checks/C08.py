"""C08 — Rust async imports and exports deliver the same values as sync ones.

Theorems: lean/Witverif/Props/C08.lean (layout of the params/results area = what the canonical ABI
requires; async lower/lift streams decode to the spec's values like the sync ones; task.return xor
task.cancel exactly once; lowered parameters alive until the callee started).
Tie (every run, from /repo's working tree): the REAL Rust generator binds every seeded function twice —
synchronously and asynchronously (import, export or both, selected through `--async` filters) —, both
bindings are compiled natively against the REAL async runtime (crates/guest-rust, hook H1) and driven
by a scripted component-model host (tools/asynchost.py; values lowered/lifted by the Lean spec) that
chooses per call {returns immediately, starts and blocks, returns after later events, cancelled at every
point}.  Compared: values on both sides of the boundary (against the spec AND between the sync and the
async binding), heap ledger (host buffers freed once, nothing leaked, no allocator error), handle drops,
task.return / task.cancel counts, liveness of the lowered parameters when the callee starts, the layout
numbers in the generated text against the model (both pointer widths) and against the spec."""
import os, re, json, hashlib, shutil, time
import bind_common as bc
import asynchost as ah
from vlib import VERIF, REPO, BUILD, LEAN, sh

ASYNC_TARGET = os.path.join(BUILD, "bind-target-async")
GUARD_FLAGS = "--cfg bytecodealliance_wit_bindgen_verif"
P = 8

# ---------------------------------------------------------------------------------- worlds

SCALARS = ["u8", "s8", "u16", "s16", "u32", "s32", "u64", "s64", "f32", "f64", "bool", "char"]


def flat_params(rng, n):
    """parameter types with exactly n flat slots (strings and lists count 2)"""
    out, left = [], n
    while left > 0:
        if left >= 2 and rng.random() < 0.3:
            out.append(rng.choice(["string", "list<u8>", "list<u32>"])); left -= 2
        else:
            out.append(rng.choice(SCALARS)); left -= 1
    rng.shuffle(out)
    return out


def flat_result(rng, n, defs, name):
    """result type with exactly n flat slots (None for 0); wide results are records (the harness's value
    traits cover anonymous tuples up to 12 fields only)"""
    if n == 0: return None
    if n == 1: return rng.choice(SCALARS)
    if n == 2 and rng.random() < 0.5: return rng.choice(["string", "list<u16>"])
    ts = flat_params(rng, n)
    if len(ts) <= 12 and rng.random() < 0.5:
        return "tuple<" + ", ".join(ts) + ">"
    defs.append(f"  record {name} {{ " + ", ".join(f"a{j}: {t}" for j, t in enumerate(ts)) + " }")
    return name


def boundary_funcs(rng, prefix, stats):
    """functions on both sides of every flat-count decision: 4/5 (async-lowered parameters), 16/17
    (parameters of lifts and of task.return), 0/1/2 (sync results).  Returns (type definitions, functions)"""
    fs, defs = [], []
    for i in range(2):
        np_ = rng.choice([0, 3, 4, 5, 5, 15, 16, 17, 17])
        nr = rng.choice([0, 1, 2, 2, 3, 16, 17])
        ps = flat_params(rng, np_)
        r = flat_result(rng, nr, defs, f"wide-{prefix}{i}")
        stats[f"boundary:params={np_}"] = stats.get(f"boundary:params={np_}", 0) + 1
        stats[f"boundary:result={nr}"] = stats.get(f"boundary:result={nr}", 0) + 1
        fs.append(f"  {prefix}{i}: func({', '.join(f'p{j}: {t}' for j, t in enumerate(ps))})" + (f" -> {r}" if r else "") + ";")
    return defs, fs


COPY_ELEMS = ["u8", "s8", "u16", "s16", "u32", "s32", "u64", "s64", "f32", "f64", "bool", "char"]


def copy_flist(rng):
    """a fixed-length list whose elements are Copy in Rust (scalars, nested fixed-length lists, tuples of scalars)"""
    e = rng.choice(COPY_ELEMS)
    r = rng.random()
    if r < 0.2: e = f"list<{e}, {rng.choice([1, 2, 3])}>"
    elif r < 0.35: e = f"tuple<{e}, {rng.choice(COPY_ELEMS)}>"
    return f"list<{e}, {rng.choice([1, 2, 3, 4, 5])}>"


def flist_funcs(rng, prefix, stats):
    """functions with fixed-length lists of Copy elements: among at most 4 flat async-lowered parameters (abi::deallocate,
    repaired in /repo 0252795), beyond 4 (deallocate_indirect), next to strings / lists, and in results"""
    fs = []
    for i in range(2):
        ps = [copy_flist(rng)]
        for _ in range(rng.choice([0, 0, 1, 2, 3])):
            ps.append(rng.choice(COPY_ELEMS + ["string", "list<u8>", "option<u32>", copy_flist(rng)]))
        rng.shuffle(ps)
        r = rng.choice([None, copy_flist(rng), f"tuple<{copy_flist(rng)}, string>", f"option<{copy_flist(rng)}>", "u32", "string"])
        stats["flist-copy:functions"] = stats.get("flist-copy:functions", 0) + 1
        fs.append(f"  {prefix}{i}: func({', '.join(f'p{j}: {t}' for j, t in enumerate(ps))})" + (f" -> {r}" if r else "") + ";")
    return fs


def gen_case(rng, features, stats, nfuncs=3):
    same = rng.random() < 0.35
    parts = ["package t:wX;"]

    def iface(name, imported):
        text = bc.gen_iface(rng, name, nfuncs, features, 3, 5, imported, False, stats)
        lines = text.split("\n")
        defs, fs = boundary_funcs(rng, "b", stats)
        if rng.random() < 0.5:
            fs += flist_funcs(rng, "c", stats)
        return "\n".join(lines[:1] + defs + lines[1:-1] + fs + lines[-1:])
    if same:
        parts.append(iface("i", True))
        parts.append("world w { import i; export i; }")
        stats["shape:same-interface"] = stats.get("shape:same-interface", 0) + 1
    else:
        parts.append(iface("i", True))
        parts.append(iface("j", False))
        parts.append("world w { import i; export j; }")
        stats["shape:two-interfaces"] = stats.get("shape:two-interfaces", 0) + 1
    return "\n".join(parts) + "\n"


VARIANTS = ["imports", "exports", "both", "mixed", "all-minus"]


def iface_funcs(wit):
    """{interface name: [function names]} and (imported interface, exported interface) read off the WIT text"""
    funcs, cur = {}, None
    for line in wit.split("\n"):
        m = re.match(r"\s*interface\s+([\w-]+)\s*\{", line)
        if m: cur = m.group(1); funcs[cur] = []; continue
        m = re.match(r"\s*([\w-]+):\s*(?:async\s+)?func\(", line)
        if m and cur: funcs[cur].append(m.group(1))
    w = re.search(r"world\s+[\w-]+\s*\{([^}]*)\}", wit)
    imp = re.search(r"import\s+([\w-]+)\s*;", w.group(1))
    exp = re.search(r"export\s+([\w-]+)\s*;", w.group(1))
    return funcs, imp.group(1) if imp else None, exp.group(1) if exp else None


def directives(rng, variant, wit, idx):
    """the `--async` filter list (in order) realising a variant for the world of item idx"""
    funcs, imp, exp = iface_funcs(wit)
    pk = f"t:w{idx}"
    q = lambda i, f: f"{pk}/{i}#{f}"
    if variant.startswith("mixed:"):
        return [d.replace("t:wX", pk).replace("%", "#") for d in variant[len("mixed:"):].split("+") if d]
    if variant == "both":
        if rng.random() < 0.5: return ["all"]
        ds = [f"import:{q(imp, f)}" for f in funcs.get(imp, [])] + [f"export:{q(exp, f)}" for f in funcs.get(exp, [])]
        return ds
    if variant == "imports":
        if rng.random() < 0.5:
            return [f"import:{q(imp, f)}" for f in funcs.get(imp, [])]
        return [f"-export:{q(exp, f)}" for f in funcs.get(exp, [])] + ["all"]
    if variant == "exports":
        if rng.random() < 0.5:
            return [f"export:{q(exp, f)}" for f in funcs.get(exp, [])]
        return [f"-import:{q(imp, f)}" for f in funcs.get(imp, [])] + ["all"]
    if variant == "all-minus":
        # everything async except one import and one export, switched off by a more specific earlier directive
        ds = []
        if funcs.get(imp): ds.append(f"-import:{q(imp, rng.choice(funcs[imp]))}")
        if funcs.get(exp): ds.append(f"-export:{q(exp, rng.choice(funcs[exp]))}")
        return ds + ["all"]
    # mixed: a random subset, by unqualified (both directions) or qualified names
    ds = []
    for f in funcs.get(imp, []):
        if rng.random() < 0.5:
            ds.append(q(imp, f) if (imp == exp or rng.random() < 0.3) else f"import:{q(imp, f)}")
    if exp != imp:
        for f in funcs.get(exp, []):
            if rng.random() < 0.5:
                ds.append(q(exp, f) if rng.random() < 0.3 else f"export:{q(exp, f)}")
    return ds or ["all"]


def load_corpus(path):
    """entries `== <variant> # comment` + WIT text (package t:wX)"""
    return bc.load_corpus(path)


# ---------------------------------------------------------------------------------- batches

class AsyncBatch(bc.Batch):
    """batch crate built with hook H1 on (the async runtime's built-ins are extern symbols defined by bn-async)"""
    target = ASYNC_TARGET

    def build(self):
        t0 = time.time()
        mut = os.environ.get("VERIF_BIND_MUTATE")
        if mut:
            for f in sorted(os.listdir(os.path.join(self.dir, "src"))):
                if f.startswith("w") and f.endswith(".rs"):
                    sh(["sed", "-i", "-E", mut, os.path.join(self.dir, "src", f)])
        env = {"CARGO_TARGET_DIR": self.target, "RUSTFLAGS": GUARD_FLAGS}
        rc, out = sh(["cargo", "build", "--offline", "--quiet"], cwd=self.dir, timeout=3000, env=env)
        self.build_s = time.time() - t0
        if rc != 0:
            self.compile_errors = out
            return False
        dst = os.path.join(self.dir, "bn-batch")
        shutil.copy2(os.path.join(self.target, "debug", "bn-batch"), dst)
        self.binary = dst
        return True


def prune_mine(keep=16):
    """remove the oldest batch directories of THIS check (prefix `a-`)"""
    if not os.path.isdir(bc.BIND): return
    ds = sorted((os.path.getmtime(os.path.join(bc.BIND, d)), d) for d in os.listdir(bc.BIND) if d.startswith("a-"))
    for _, d in ds[:-keep]:
        shutil.rmtree(os.path.join(bc.BIND, d), ignore_errors=True)


class DroppedItem(str):
    """first rustc error line of an item that did not compile (a str, for messages) + every located error + the text"""
    def __new__(cls, first, errors, text):
        o = super().__new__(cls, first)
        o.errors, o.text = errors, text
        return o


def locate_in_bindings(lines, ln):
    """which generated function an error line belongs to: {"fn": name, "kind": async-import | async-export | other, "part": …}"""
    part, kind, fn = "", "other", None
    for i in range(min(ln, len(lines)) - 1, -1, -1):
        l = lines[i]
        if not part:
            for key, nm in (("unsafe fn params_lower(", "params_lower"), ("unsafe fn results_lift(", "results_lift"),
                            ("unsafe fn params_dealloc_lists", "params_dealloc"), ("type Params =", "type-params"),
                            ("unsafe fn call_import(", "call_import"), ("start_task(async move {", "async-block")):
                if key in l:
                    part = nm if i != ln - 1 or nm != "type-params" else "type-params"
                    break
        m = re.search(r"pub async fn (\w+)\(", l)
        if m:
            kind, fn = "async-import", m.group(1)
            if i == ln - 1: part = "signature"
            break
        m = re.search(r"pub unsafe fn _export_(\w+)_cabi<", l)
        if m:
            kind, fn = "async-export" if part == "async-block" or any("start_task(async move {" in x for x in lines[i:ln]) else "sync-export", m.group(1)
            break
        if re.search(r"^\s*pub (unsafe )?fn |^\s*pub mod |^\s*pub trait ", l) and i != ln - 1:
            break
    if ln - 1 < len(lines) and "type Params =" in lines[ln - 1]: part = "type-params"
    return {"fn": fn, "kind": kind, "part": part}


def build_batch(c, name, items, emitter, max_retries=3, target=ASYNC_TARGET):
    """as bc.build_batches, with AsyncBatch; a case whose sync or async item does not compile is dropped as a whole"""
    dropped, live, index_map = {}, list(items), list(range(len(items)))
    b = None
    for attempt in range(max_retries + 1):
        b = AsyncBatch(c, name, live)
        b.target = target
        if not b.emit(emitter):
            return None, dropped
        if b.build():
            b.index_map = index_map
            return b, dropped
        bad = b.failing_items()
        if not bad:
            c.broken.append((f"bind-native build {name}", b.compile_errors[-3000:]))
            return None, dropped
        for k in bad:
            # every rustc error of the item with its position in the generated text (read now: a retry renumbers the files)
            try:
                text = open(os.path.join(b.dir, "src", f"w{k}.rs")).read().split("\n")
            except OSError:
                text = []
            errs = []
            for em in re.finditer(r"(error(?:\[E\d+\])?: [^\n]*)\n\s*--> src/w%d\.rs:(\d+):(\d+)" % k, b.compile_errors):
                ln = int(em.group(2))
                errs.append({"msg": em.group(1)[:300], "line": ln, "src": (text[ln - 1].strip()[:300] if 0 < ln <= len(text) else ""),
                             "where": locate_in_bindings(text, ln)})
            dropped[index_map[k]] = DroppedItem(errs[0]["msg"] if errs else "error", errs, "\n".join(text))
        keep = [k for k in range(len(live)) if k not in bad]
        live = [live[k] for k in keep]
        index_map = [index_map[k] for k in keep]
    c.broken.append((f"bind-native build {name}", "still failing after dropping items: " + b.compile_errors[-2000:]))
    return None, dropped


# ---------------------------------------------------------------------------------- layout extraction (translator)

PTR_EXPR = "::core::mem::size_of::<*const u8>()"
CORE_OF = {"i32": "i32", "i64": "i64", "f32": "f32", "f64": "f64", "*mut u8": "ptr", "usize": "len",
           "::core::mem::MaybeUninit::<u64>": "p64"}


def eval_size(expr, p):
    e = expr.replace(PTR_EXPR, str(p)).strip()
    if not re.fullmatch(r"[0-9+*() ]+", e):
        raise ValueError("size expression not understood: " + expr)
    return int(eval(e, {"__builtins__": {}}))


def split_top(s):
    out, depth, cur = [], 0, ""
    for ch in s:
        if ch in "(<": depth += 1
        if ch in ")>": depth -= 1
        if ch == "," and depth == 0:
            out.append(cur); cur = ""
        else:
            cur += ch
    if cur.strip(): out.append(cur)
    return [x.strip() for x in out]


def matching(s, i):
    """index of the parenthesis closing the one at s[i]"""
    d = 0
    for j in range(i, len(s)):
        if s[j] == "(": d += 1
        elif s[j] == ")":
            d -= 1
            if d == 0: return j
    raise ValueError("unbalanced")


def extract_layout(text, rust_name):
    """the layout facts of one generated async import, as `m_c08 layout` prints them"""
    m = re.search(r"pub async fn %s\(" % re.escape(rust_name), text)
    if not m: raise ValueError(f"async fn {rust_name} not found")
    end = text.index("_MySubtask { _unused", m.start())
    body = text[m.start():end]
    i = body.index("struct ParamsLower(") + len("struct ParamsLower")
    tys = split_top(body[i + 1:matching(body, i)])
    lower = [CORE_OF[t] for t in tys if t]
    i = body.index("from_size_align_unchecked(") + len("from_size_align_unchecked")
    size, align = split_top(body[i + 1:matching(body, i)])
    mo = re.search(r"fn results_offset\(&mut self\) -> usize \{([^}]*)\}", body)
    roff = mo.group(1)
    pl = body[body.index("unsafe fn params_lower("):body.index("unsafe fn results_lift(")]
    offs = []
    for mo in re.finditer(r"let _param_ptr = unsafe \{ _ptr\.add", pl):
        j = mo.end()
        offs.append(pl[j + 1:matching(pl, j)])
    both = lambda e: f"{eval_size(e, 4)}/{eval_size(e, 8)}"
    return (f"indirect={int('ParamsLower(_ptr,)' in pl)} size={both(size)} align={both(align)} roff={both(roff)} "
            f"offs={','.join(both(o) for o in offs) or '-'} lower={','.join(lower) or '-'}"), \
        (eval_size(size, 4), eval_size(align, 4), eval_size(roff, 4)), (eval_size(size, 8), eval_size(align, 8), eval_size(roff, 8))


def wrapper_shape(text, rust_name):
    """shape facts of the generated async export wrapper that the model `ExportGlue.Fut` relies on: the guard is
    created first, the user function is awaited exactly once before the guard is forgotten, `forget()` is
    immediately followed by the single task.return call, nothing can leave the block in between"""
    m = re.search(r"pub unsafe fn _export_%s_cabi<" % re.escape(rust_name), text)
    if not m: raise ValueError(f"_export_{rust_name}_cabi not found")
    i = text.index("start_task(async move {", m.start())
    end = text.index("pub unsafe fn __callback_%s(" % rust_name, i)
    block = text[i + len("start_task(async move {"):end]
    guard_first = bool(re.match(r"\s*let _task_cancel = [\w:]+::TaskCancelOnDrop::new\(\);", block))
    awaits = [x.start() for x in re.finditer(r"\.await\b", block)]
    forgets = [x.start() for x in re.finditer(r"_task_cancel\.forget\(\);", block)]
    mentions = len(re.findall(r"_task_cancel\b", block))
    after = block[forgets[0] + len("_task_cancel.forget();"):] if forgets else ""
    ret_call = re.match(r"\s*(wit_import\d+)\(", after)
    decls = len(re.findall(r'#\[link_name = "\[task-return\]', block))
    code = re.sub(r'"[^"]*"', '""', block[:forgets[0]]) if forgets else ""
    early = len(re.findall(r"\breturn\b|\?\s*;", code)) if forgets else -1
    user_await = False
    if awaits:
        k = block.rfind("T_::", 0, awaits[0])
        if k >= 0:
            o = block.index("(", k)
            try:
                user_await = block[matching(block, o) + 1:].lstrip().startswith(".await")
            except ValueError:
                user_await = False
    return (f"guard-first={int(guard_first)} awaits={len(awaits)} user-await={int(user_await)} forgets={len(forgets)} "
            f"await-before-forget={int(bool(awaits) and bool(forgets) and awaits[-1] < forgets[0])} guard-mentions={mentions} "
            f"forget-then-task-return={int(bool(ret_call))} task-return-decls={decls} early-exits={early}")


WRAPPER_SHAPE_MODEL = ("guard-first=1 awaits=1 user-await=1 forgets=1 await-before-forget=1 guard-mentions=2 "
                       "forget-then-task-return=1 task-return-decls=1 early-exits=0")


# ---------------------------------------------------------------------------------- schedules

IMPORT_SCHEDULES = {
    "returns-immediately": dict(s0=2),
    "started-then-returns": dict(s0=1, events=[2]),
    "starting-started-returned": dict(s0=0, events=[1, 2]),
    "starting-then-returned": dict(s0=0, events=[2]),
    "cancel-while-starting=start-cancelled": dict(s0=0, events=[], budget=1, cancel=3),
    "cancel-while-starting=return-cancelled": dict(s0=0, events=[], budget=1, cancel=4),
    "cancel-while-starting=returned": dict(s0=0, events=[], budget=1, cancel=2),
    "cancel-after-started-event=return-cancelled": dict(s0=0, events=[1], budget=2, cancel=4),
    "cancel-after-started-event=returned": dict(s0=0, events=[1], budget=2, cancel=2),
    "cancel-while-started=return-cancelled": dict(s0=1, events=[], budget=1, cancel=4),
    "cancel-while-started=returned": dict(s0=1, events=[], budget=1, cancel=2),
}
COMPLETING = ["returns-immediately", "started-then-returns", "starting-started-returned", "starting-then-returned"]


def pick_import_schedules(rng, n):
    names = list(IMPORT_SCHEDULES)
    first = rng.choice(COMPLETING)
    rest = rng.sample([x for x in names if x != first], min(n - 1, len(names) - 1))
    return [first] + rest


# ---------------------------------------------------------------------------------- monitors

def canon_or_none(v, t):
    try:
        return bc.canon_str(v, t) if v else None
    except Exception:
        return "unparsable:" + str(v)[:80]


def export_findings(m, o, sync):
    """findings of one async export scenario (o) against the spec and against the sync twin's outcome (sync)"""
    fs = []
    if "error" in o:
        return [("call-failed", f"async export did not complete: {o['error'][:200]}", {})]
    pt = bc.params_ty(m)
    sent = bc.canon_str(bc.vals_term(o["vals"]), pt)
    if o.get("monitor") != "ok":
        fs.append(("export-protocol:" + str(o.get("monitor")), "the host's view of the async export violates the canonical ABI's task rules (GlueSpec.expCheck)", {"tokens": o["tokens"]}))
    for t in o["host_traps"]:
        fs.append(("host-trap:" + t, "the guest broke a rule of the canonical built-ins while running an async export", {"tokens": o["tokens"]}))
    if o["leftover"]["subs"] or o["leftover"]["sets"] or o["leftover"]["ctx0"]:
        fs.append(("export-leftover-handles", "subtasks / waitable sets / context slot left behind after the task exited", {"leftover": o["leftover"]}))
    if o.get("observed_count") != 1:
        fs.append(("export-user-function-call-count", f"user function behind the async export ran {o.get('observed_count')} times", {}))
    else:
        got = bc.canon_str(o["observed"], pt)
        want = bc.canon_str(o["model_observed"], pt) if o.get("model_observed") else sent
        if got != want:
            fs.append((bc.diff_class(sent, got, pt) or "value-changed:async-export-args", "arguments sent by the host arrived changed in the async Rust implementation", {"sent": sent, "observed": got}))
        if sync is not None and sync.get("observed") and bc.canon_str(sync["observed"], pt) != got:
            fs.append(("sync-async-differ:export-args", "the sync and the async binding of the same export hand different arguments to the user function",
                       {"sync": bc.canon_str(sync["observed"], pt), "async": got}))
    completed = o["task_returns"] == 1
    if completed and m["result"] is not None:
        want = bc.canon_str(o["ret"], m["result"])
        got = canon_or_none(o.get("lifted"), m["result"])
        if got != want:
            fs.append(("value-changed:async-export-result", "the value passed to task.return arrives changed at the host (or the host traps lifting it)", {"returned": want, "lifted": got}))
        if sync is not None and "lifted" in sync and canon_or_none(sync.get("lifted"), m["result"]) != got:
            fs.append(("sync-async-differ:export-result", "the host lifts different results from the sync and the async binding of the same export",
                       {"sync": canon_or_none(sync.get("lifted"), m["result"]), "async": got}))
    if o["cancel_at"] is None and not o.get("forced_cancel") and not completed:
        fs.append(("export-no-task-return", "an async export that was never cancelled exited without task.return", {"tokens": o["tokens"]}))
    # ledger: by the time the task has exited everything is released exactly once
    led = ah.merge_reports(o["reports"])
    host = bc.nz(list(o.get("hostblocks", [])) + [b for sub in o.get("subcalls", []) for b in sub.get("hostblocks", [])])
    if led["freed_h"] != host:
        missing = [b for b in host if b not in led["freed_h"]]
        extra = [b for b in led["freed_h"] if b not in host]
        # known class ONLY IF the function takes its parameters through a host-allocated record, the one block that is not
        # freed is exactly that record (first block of the host's image: address, size and alignment of the parameter
        # tuple) and every other host buffer was freed exactly once
        record = tuple(o["hostblocks"][0]) if (m["indirect_params"] and o.get("host_indirect") and o.get("hostblocks")
                                                 and o.get("flat_args") and o["flat_args"][0] == o["hostblocks"][0][0]) else None
        cls = "async-export-param-record-not-freed" if (record is not None and missing == [record] and not extra) else \
              ("host-buffer-not-released" if missing else "host-buffer-released-twice")
        fs.append((cls, "buffers the host allocated for the arguments of an async export are not freed exactly once by the time the task has exited",
                   {"host_blocks": host, "freed": led["freed_h"]}))
    if led["leaked"]:
        fs.append(("async-export-leak", "guest blocks allocated while running an async export are still live after the task exited", {"leaked": led["leaked"]}))
    for e in led["errs"]:
        fs.append(("allocator:" + e.split(":")[0], f"async export: allocator contract error {e}", {"error": e}))
    if o.get("unexpected_imports"):
        fs.append(("unexpected-import-call", "the guest called imports the scenario does not expect", {"imports": o["unexpected_imports"]}))
    return fs


def import_findings(m, o, sync):
    fs = []
    if "error" in o:
        return [("call-failed", f"async import did not complete: {o['error'][:200]}", {})]
    pt = bc.params_ty(m)
    sent = bc.canon_str(bc.vals_term(o["vals"]), pt)
    mon = o.get("monitor")
    if mon != "ok":
        cls = "params-dead-at-start" if mon == "fail:params-dead-at-start" else "import-protocol:" + str(mon)
        fs.append((cls, "the host's view of the async import call violates the canonical ABI (GlueSpec.impCheck): " + str(mon), {"tokens": o["tokens"], "notes": o.get("notes")}))
    for t in o["host_traps"]:
        fs.append(("host-trap:" + t, "the guest broke a rule of the canonical built-ins during an async import call", {"tokens": o["tokens"]}))
    if o["leftover"]["subs"] or o["leftover"]["sets"]:
        fs.append(("import-leftover-handles", "subtask handles / waitable sets left behind after the call's future was gone", {"leftover": o["leftover"]}))
    if o["import_events"] != 1:
        fs.append(("import-call-count", f"async-lowered import symbol called {o['import_events']} times for one wrapper call", {}))
        return fs
    if o["started"]:
        got = canon_or_none(o.get("lifted_args"), pt)
        if got != sent:
            fs.append(("value-changed:async-import-args", "arguments passed by Rust code arrive changed at the host when the callee starts (or the host traps lifting them)", {"sent": sent, "lifted": got}))
        if sync is not None and "lifted_args" in sync and canon_or_none(sync.get("lifted_args"), pt) != got:
            fs.append(("sync-async-differ:import-args", "the host lifts different arguments from the sync and the async binding of the same import",
                       {"sync": canon_or_none(sync.get("lifted_args"), pt), "async": got}))
    completed = o.get("returned") is not None
    if completed and m["result"] is not None:
        want = bc.canon_str(o["model_returned"], m["result"]) if o.get("model_returned") else bc.canon_str(o["ret"], m["result"])
        got = canon_or_none(o["returned"], m["result"])
        if got != want:
            fs.append((bc.diff_class(bc.canon_str(o["ret"], m["result"]), got, m["result"]) or "value-changed:async-import-result",
                       "result stored by the host arrives changed in async Rust code", {"sent": want, "observed": got}))
        if sync is not None and sync.get("returned") is not None and canon_or_none(sync["returned"], m["result"]) != got:
            fs.append(("sync-async-differ:import-result", "Rust code observes different results from the sync and the async binding of the same import",
                       {"sync": canon_or_none(sync["returned"], m["result"]), "async": got}))
    if "call_report" in o:
        led = ah.merge_reports([o["call_report"]])
        host = bc.nz(o.get("hostblocks", []))
        if led["freed_h"] != host:
            missing = [b for b in host if b not in led["freed_h"]]
            fs.append(("host-buffer-not-released" if missing else "host-buffer-released-twice",
                       "buffers the host allocated for the result of an async import are not freed exactly once by the time the caller dropped the result",
                       {"host_blocks": host, "freed": led["freed_h"], "tokens": o["tokens"]}))
        if led["leaked"]:
            fs.append(("async-import-leak", "guest blocks allocated for an async import call (lowered parameters, params/results area) are still live after the call's future is gone",
                       {"leaked": led["leaked"], "tokens": o["tokens"]}))
        for e in led["errs"]:
            fs.append(("allocator:" + e.split(":")[0], f"async import: allocator contract error {e}", {"error": e, "tokens": o["tokens"]}))
    if o.get("unexpected_imports"):
        fs.append(("unexpected-import-call", "the guest called imports the scenario does not expect", {"imports": o["unexpected_imports"]}))
    return fs


def collect_handles(t, v, kind, out):
    """handles at `own` / `borrow` positions of a value tree (t: type tree with annotated handles `own@…`)"""
    if isinstance(t, str):
        if (t == kind or t.startswith(kind + "@")) and v[0] == "h":
            out.append(int(v[1]))
        return
    k = t[0]
    if k in ("list", "flist"):
        for x in v[1:]: collect_handles(t[1], x, kind, out)
    elif k == "map":
        for e in v[1:]:
            collect_handles(t[1], e[1], kind, out); collect_handles(t[2], e[2], kind, out)
    elif k in ("record", "tuple"):
        for x, ft in zip(v[1:], t[1:]): collect_handles(ft, x, kind, out)
    elif k in ("variant", "result"):
        i = int(v[1])
        if len(v) > 2: collect_handles(t[1 + i], v[2], kind, out)
    elif k == "option":
        if len(v) > 2: collect_handles(t[1], v[2], kind, out)


def handles_of(m, vals, ret):
    """(own handles in the arguments, borrowed handles in the arguments, own handles in the result)"""
    po, pb, ro = [], [], []
    for t, v in zip(m["params_ann"], vals):
        collect_handles(bc.parse(t), bc.parse(v), "own", po)
        collect_handles(bc.parse(t), bc.parse(v), "borrow", pb)
    if m["result"] is not None and ret is not None:
        collect_handles(bc.parse(m["result_ann"]), bc.parse(ret), "own", ro)
    return po, pb, ro


def ownership_findings(kind, m, o):
    """ownership of resource handles: which handles the guest must drop in this scenario, against the drops observed.
    Import: an `own` argument belongs to the callee once it has started (the guest must NOT drop it) and stays with the
    caller if the call was cancelled before (the guest must drop it); the result's `own` handles belong to the caller
    as soon as the result is lifted; borrowed arguments are dropped by the harness, which created their owners.
    Export: `own` arguments belong to the user function (the stub drops them), borrowed ones must be dropped before the
    task returns; the result's handles go to the host."""
    if "error" in o or o.get("subcalls"):
        return []
    po, pb, ro = handles_of(m, o["vals"], o["ret"])
    if not (po or pb or ro):
        return []
    got = sorted(h for _, h in o.get("handle_drops", []))
    if kind == "import":
        toks = o.get("tokens", "")
        lifted = ("return:1" in toks)             # the host stored a result, the runtime lifted it (also on cancel answered RETURNED)
        want = list(pb) + (ro if lifted else []) + (po if not o.get("started") else [])
    else:
        # (a borrowed handle of a resource this component does not implement is an entry of the callee's table: the
        # callee must drop it before it returns — `task.return` traps while the task still holds borrows)
        want = (list(po) + list(pb)) if o.get("observed_count") else []
        if o.get("drops_at_return") is not None:
            early = sorted(o["drops_at_return"])
            if any(early.count(h) < pb.count(h) for h in set(pb)):
                return [("borrow-held-at-task-return", "a borrowed handle is still held when the async export calls task.return (the canonical ABI traps)",
                         {"borrowed": sorted(pb), "dropped_before_task_return": early, "tokens": o.get("tokens")})]
    if got != sorted(want):
        return [("handle-ownership", "the guest drops other resource handles than the ones it owns in this scenario",
                 {"dropped": got, "owned_by_guest": sorted(want), "tokens": o.get("tokens")})]
    return []


def sync_summary(kind, o):
    """ledger summary of a sync outcome, comparable with the async one: (host buffers freed exactly once, #leaked, #allocator errors)"""
    if "error" in o or "call_report" not in o: return None
    reps = [o["call_report"]] + ([o["post_report"]] if o.get("post_report") else [])
    led = ah.merge_reports(reps)
    host = bc.nz(o.get("hostblocks", []))
    return {"host_freed_once": led["freed_h"] == host, "leaked": len(led["leaked"]), "errs": len(led["errs"])}


def async_summary(kind, o):
    if "error" in o: return None
    reps = o["reports"] if kind == "export" else ([o["call_report"]] if "call_report" in o else [])
    if not reps: return None
    led = ah.merge_reports(reps)
    host = bc.nz(list(o.get("hostblocks", [])) + [b for sub in o.get("subcalls", []) for b in sub.get("hostblocks", [])])
    return {"host_freed_once": led["freed_h"] == host, "leaked": len(led["leaked"]), "errs": len(led["errs"])}


# ---------------------------------------------------------------------------------- classification of build failures

def borrowed_named_types(text):
    """named generated types that carry a lifetime parameter (rendered in borrowed form)"""
    return set(re.findall(r"pub (?:struct|enum) (\w+)<'a\s*,?\s*>", text))


def nonflat_copy(t):
    """type tree contains a heap-owning (non-Copy in Rust) type"""
    if isinstance(t, str): return t in ("string", "own")
    if t[0] in ("list", "map"): return True
    return any(nonflat_copy(x) for x in t[1:] if not (isinstance(x, str) and x.isdigit()))


def flist_of_non_copy(t):
    """type tree has a fixed-length list whose element type is not Copy"""
    if isinstance(t, str): return False
    if t[0] == "flist" and nonflat_copy(t[1]): return True
    return any(flist_of_non_copy(x) for x in t[1:] if not isinstance(x, str))


def classify_async_compile_error(err, cfg, sync_compiles, result_types):
    """Stable class keys of the known ways the ASYNC bindings fail to compile.  A class is assigned only if the sync
    twin compiles and EVERY rustc error of the item matches the class's clause at the class's position:
      borrowed-parameter-types      config is a borrowing ownership mode; each error is E0726/E0106 on the signature or the
                                    `type Params` of an async IMPORT naming a generated type that has a lifetime parameter,
                                    or E0599 `into_bytes` inside that import's `params_lower`
      fixed-list-non-copy-elements  each error is E0508 (move out of a non-copy array) inside the async block of an async
                                    EXPORT whose WIT result type contains a fixed-length list of non-Copy elements
    anything else (other error, other place, sync twin broken too) is `…:other` = not a known finding."""
    other = "async:rust-does-not-compile:other"
    errs = getattr(err, "errors", None)
    if not sync_compiles or not errs:
        return other
    borrowed = borrowed_named_types(getattr(err, "text", ""))

    def is_borrowed(e):
        w = e["where"]
        if "own=owning" in cfg or w["kind"] != "async-import": return False
        if ("E0726" in e["msg"] or "E0106" in e["msg"]) and w["part"] in ("signature", "type-params"):
            return any(t in borrowed for t in re.findall(r"\b([A-Z]\w*)\b", e["src"]))
        return "E0599" in e["msg"] and "into_bytes" in e["msg"] and w["part"] == "params_lower"

    def is_flist(e):
        w = e["where"]
        return ("E0508" in e["msg"] and "non-copy array" in e["msg"] and w["kind"] == "async-export"
                and flist_of_non_copy(bc.parse(result_types.get(w["fn"], "u8"))) if result_types.get(w["fn"]) else False)
    if all(is_borrowed(e) for e in errs): return "async:rust-does-not-compile:borrowed-parameter-types"
    if all(is_flist(e) for e in errs): return "async:rust-does-not-compile:fixed-list-non-copy-elements"
    return other


def one_function_world(wit, iface, fname):
    """the world reduced to one function of one interface (all type definitions kept)"""
    out, cur = [], None
    for line in wit.split("\n"):
        m = re.match(r"\s*interface\s+([\w-]+)\s*\{", line)
        if m: cur = m.group(1)
        fm = re.match(r"\s*([\w-]+):\s*(?:async\s+)?func\(", line)
        if fm and not (cur == iface and fm.group(1) == fname):
            continue
        out.append(line)
    return "\n".join(out)


def emit_only(emitter, cfg, wit, tag):
    """run the emitter (= the real generator) on one world without compiling; returns the item status record"""
    d = os.path.join(BUILD, "bind", "c08-probe-" + tag)
    os.makedirs(d, exist_ok=True)
    sp = os.path.join(d, "spec.txt")
    open(sp, "w").write(bc.worlds_spec([(cfg, wit)]))
    rc, out = sh([emitter, "emit", d, sp], timeout=300, env={"VERIF_REPO": REPO, "VERIF_ROOT": VERIF})
    if rc != 0: return {"status": "emitter-failed", "message": out[-300:]}
    for l in open(os.path.join(d, "manifest.jsonl")):
        m = json.loads(l)
        if m["dir"] == "item": return m
    return {"status": "?"}


def shrink_generator_failure(emitter, cfg, wit, message):
    """the functions of the world on which the generator alone fails the same way: [(iface, name, line)]"""
    funcs, imp, exp = iface_funcs(wit)
    bad = []
    for iface in dict.fromkeys([imp, exp]):
        if iface is None: continue
        for f in funcs.get(iface, []):
            w1 = one_function_world(wit, iface, f)
            # directives naming other functions would be "unused": bind everything async in the probe
            cfg1 = re.sub(r"async=[^,]*", "async=all", cfg)
            st = emit_only(emitter, cfg1, w1, "g")
            if st.get("status") != "ok" and st.get("message", "")[:60] == message[:60]:
                line = next(l.strip() for l in w1.split("\n") if re.match(r"\s*%s:\s*(?:async\s+)?func\(" % re.escape(f), l))
                bad.append((iface, f, line, w1))
    return bad, imp, exp


def classify_generator_failure(emitter, cfg, wit, message):
    """no generator failure is a known finding (the fixed-length-list `todo!()` of abi::deallocate was repaired in /repo
    0252795): the class is generic, the witness is shrunk to the functions on which the generator alone fails"""
    bad, imp, exp = shrink_generator_failure(emitter, cfg, wit, message)
    return "async:rust-generator-failed", bad


# ---------------------------------------------------------------------------------- shrinking of run-time witnesses

def zero_val(t):
    """the simplest value of a type tree"""
    if isinstance(t, str):
        if t == "bool": return "(b 0)"
        if t in abivals_int(): return "(i 0)"
        if t == "f32": return "(f32 0)"
        if t == "f64": return "(f64 0)"
        if t == "char": return "(c 65)"
        if t == "string": return "(s)"
        return "(h 1)"
    k = t[0]
    if k in ("list", "map"): return "(l)"
    if k == "flist": return "(l" + "".join(" " + zero_val(t[1]) for _ in range(int(t[2]))) + ")"
    if k in ("record", "tuple"): return "(r" + "".join(" " + zero_val(f) for f in t[1:]) + ")"
    if k == "flags": return "(fl " + "0" * int(t[1]) + ")" if int(t[1]) else "(fl)"
    if k == "enum": return "(e 0)"
    if k == "variant": return "(var 0)" if t[1] == "_" else f"(var 0 {zero_val(t[1])})"
    if k == "option": return "(var 0)"
    if k == "result": return "(var 0)" if t[1] == "_" else f"(var 0 {zero_val(t[1])})"
    return "(h 1)"


def abivals_int():
    import abivals
    return abivals.INT


def simpler_scenarios(kind, nm, spec):
    """scenarios of the same kind that are simpler than (nm, spec), simplest first"""
    if kind == "import":
        names = list(IMPORT_SCHEDULES)
        return [(n, IMPORT_SCHEDULES[n]) for n in names[:names.index(nm)]] if nm in names else []
    plan, ca = spec
    if any(not isinstance(st, str) for st in plan):
        return []
    cands = [("finish", ([], None)), ("yield", (["y"], None)), ("yield+cancel", (["y"], 0))]
    size = lambda sp: (len(sp[0]), sp[1] is not None)
    return [(n, sp) for n, sp in cands if size(sp) < size((plan, ca))]


def shrink_values(run_fn, m, vals, ret, cls):
    """greedy: replace each argument (and the result) by its simplest value while the same class still fails"""
    vals = list(vals)
    for i, p in enumerate(m["params"]):
        z = zero_val(bc.parse(p))
        if z == vals[i]: continue
        trial = vals[:i] + [z] + vals[i + 1:]
        if cls in run_fn(trial, ret): vals = trial
    if m["result"] is not None:
        z = zero_val(bc.parse(m["result"]))
        if z != ret and cls in run_fn(vals, z): ret = z
    return vals, ret


class _Quiet:
    """stand-in for the Check object while probing shrunk worlds (their build problems are not obligations)"""
    def __init__(self): self.broken, self.notes = [], []


def verify_minimal(c, emitter, host, ahost, v):
    """rebuild the one-function world of a run-time witness (sync twin + everything async) and replay its scenario:
    True iff the same class fails again"""
    w = v["witness"]
    if not w.get("minimal_wit") or not w.get("name") or "scenario" not in w:
        return False
    sched = w.get("schedule")
    if w["dir"] == "export" and (not isinstance(sched, dict) or any(st != "y" for st in sched.get("plan", []))):
        return False          # nested import calls need the other functions of the world
    cfg = w["config"]
    mw = w["minimal_wit"]
    items = [(cfg, mw.replace("t:wX", "t:w0")), (cfg + ",async=all", mw.replace("t:wX", "t:w1"))]
    name = "a-min-" + hashlib.sha1(bc.worlds_spec(items).encode()).hexdigest()[:10]
    batch, dropped = build_batch(_Quiet(), name, items, emitter)
    if batch is None or dropped or len(batch.index_map) != 2:
        return False
    ms = next((m for m in batch.manifest if m.get("item") == 0 and m.get("dir") == w["dir"] and m.get("name") == w["name"]), None)
    ma = next((m for m in batch.manifest if m.get("item") == 1 and m.get("dir") == w["dir"] and m.get("name") == w["name"]), None)
    if ma is None or not ma.get("async"):
        return False
    runner = ah.AsyncRunner(batch.binary, host, ahost)
    try:
        so = None
        if ms is not None:
            try:
                so = runner.export_call(ms, w["args"], w["ret"]) if ms["dir"] == "export" else runner.import_call(ms, w["args"], w["ret"])
            except (bc.Crash, ValueError):
                runner.restart_native()
        spec = sched if w["dir"] == "import" else (list(sched.get("plan", [])), sched.get("cancel_at"))
        o = run_scenario(c, runner, w["dir"], ma, w["args"], w["ret"], spec, None)
        return v["class"] in {f[0] for f in scenario_findings(w["dir"], ma, o, so, [])}
    finally:
        runner.close()


# ---------------------------------------------------------------------------------- the check

def rust_ident(name):
    return name.replace("-", "_")


def handle_supplier(rng):
    return lambda kind: f"(h {rng.choice([1, 2, 3, 7, 1000])})"


def import_scenarios(rng, n):
    return [("import", nm, IMPORT_SCHEDULES[nm]) for nm in pick_import_schedules(rng, n)]


def export_scenarios(rng, async_imports, quick):
    plans = [("finish", [], None), ("yield", ["y"] * rng.randint(1, 3), None)]
    ny = rng.randint(1, 3)
    plans.append(("yield+cancel", ["y"] * ny, rng.randrange(ny)))
    free = [x for x in async_imports if x["kind"] == "free"]
    if free:
        for _ in range(1 if quick else 2):
            mi = rng.choice(free)
            nm = rng.choice(COMPLETING)
            plans.append(("await-import:" + nm, [("call", async_imports.index(mi), mi, nm)], None))
        mi = rng.choice(free)
        nm = rng.choice(["starting-started-returned", "started-then-returns", "starting-then-returned"])
        plans.append(("await-import+cancel:" + nm, [("call", async_imports.index(mi), mi, nm)],
                      0 if nm != "starting-started-returned" else rng.randint(0, 1)))
    return [("export", nm, (plan, cancel_at)) for nm, plan, cancel_at in plans]


def run_scenario(c, runner, kind, ma, vals, ret, spec, handle, cov=None):
    """one async scenario; returns the outcome dict"""
    try:
        if kind == "import":
            return runner.async_import_call(ma, vals, ret, spec)
        plan, cancel_at = spec
        rplan = []
        for st in plan:
            if isinstance(st, str):
                rplan.append(st)
                continue
            if len(st) == 3:          # already instantiated (replay / shrink): ("call", idx, ImportCall-spec dict)
                _, idx, d = st
                rplan.append(("call", idx, ah.ImportCall(d["m"], d["vals"], d["ret"], d["sched"])))
                continue
            _, idx, mi, snm = st
            sv, sr = bc.gen_vals(c.rng, mi, handle)
            sched = dict(IMPORT_SCHEDULES[snm])
            if cancel_at is not None:
                # the task is cancelled while the nested call is in flight: no events after the cancellation point
                sched["events"] = sched.get("events", [])[:cancel_at]
                sched["cancel"] = c.rng.choice([2, 4] + ([3] if not sched["events"] and sched["s0"] == 0 else []))
            rplan.append(("call", idx, ah.ImportCall(mi, sv, sr, sched)))
            if cov is not None: cov["scenarios"]["both(nested import)"] += 1
        return runner.async_export_call(ma, vals, ret, rplan, cancel_at)
    except (bc.Crash, ValueError) as e:
        runner.restart_native()
        return {"key": ma["key"], "kind": kind, "vals": vals, "ret": ret, "error": f"{type(e).__name__}: {e}"}


def scenario_findings(kind, ma, o, so, async_imports):
    fs = export_findings(ma, o, so) if kind == "export" else import_findings(ma, o, so)
    fs += ownership_findings(kind, ma, o)
    for sub in o.get("subcalls", []):
        sub_m = next(x for x in async_imports if x["key"] == sub["key"])
        if sub.get("tokens"):
            sub["model_returned"] = None
            for cls, what, detail in import_findings(sub_m, sub, None):
                fs.append(("nested:" + cls, "async import awaited inside an async export: " + what,
                           {"nested": {"function": sub["key"], "args": sub["vals"], "ret": sub["ret"], "schedule": sub["sched"]}, **detail}))
    return fs


def run(c):
    from concurrent.futures import ThreadPoolExecutor
    quick = c.tier == "quick"
    c.rule = ("one evaluation = one scenario of one function: the sync binding's call, or the async binding's call under one host "
              "schedule (import: status at call time x later events x cancellation point x cancel answer; export: stub plan "
              "finish/yield/await-an-async-import x cancellation point), each compared with the spec's values, the ledger discipline, "
              "the task/subtask protocol monitors and the sync twin; non-trivial = the function carries a value through linear memory, "
              "or the schedule has at least one suspension; distinct by (world, function, values, schedule)")
    ok = c.lake_build(["Witverif.Props.C08"])
    if ok: c.audit("Witverif.Props.C08")
    if not quick and ok: c.leanchecker("Witverif.Props.C08")
    emitter, host = bc.prepare(c)
    ahost = c.model_exe("m_c08")
    if not emitter or not host or not ahost:
        return
    # seeded worlds stay inside what the async bindings can express today; the shapes outside are recorded findings,
    # replayed from corpus/C08-known.txt on every run (each must still fail the same way).  Fixed-length lists appear
    # with Copy elements only (flist_funcs): non-Copy elements do not compile as sync import parameters (C05 finding)
    # nor as async export results (C08 finding), and leak below deallocate_indirect (C03/C06 finding)
    features = set(bc.BASE_FEATURES) - {"flist"}
    stats = {}
    corpus = load_corpus(os.path.join(VERIF, "corpus", "C08.txt"))
    known = load_corpus(os.path.join(VERIF, "corpus", "C08-known.txt"))
    cases = []   # (variant, wit with t:wX, origin, config or None)
    base = "own=owning,std=0,merge=0,map=btree,raw=0"
    if c.replay and "witness" in c.replay and "wit" in c.replay["witness"]:
        w = c.replay["witness"]
        cases.append((w.get("variant", "both"), re.sub(r"t:w\d+", "t:wX", w["wit"]), "replay", w.get("config", base)))
    replaying = bool(cases)
    if replaying:
        corpus, known = [], []       # a replay run runs the recorded witness only
    for variant, wit in corpus:
        cases.append((variant, wit, "corpus", base))
    n_seeded = 0 if replaying else int(os.environ.get("VERIF_C08_SEEDED", 60 if quick else 400))
    for _ in range(n_seeded):
        cfg = bc.config_str("owning", c.rng.randint(0, 1), c.rng.randint(0, 1), c.rng.choice(["btree", "hash"]), c.rng.randint(0, 1))
        cases.append((c.rng.choice(VARIANTS), gen_case(c.rng, features, stats), "seeded", cfg))
    n_regular = len(cases)
    for hdr, wit in known:
        # header: `<variant>;<config>`
        variant, _, cfg = hdr.partition(";")
        cases.append((variant.strip(), wit, "known", cfg.strip() or base))
    per_import = 4 if quick else 7
    # items: 2k = sync twin, 2k+1 = async variant
    items, meta = [], []
    for k, (variant, wit, origin, cfg) in enumerate(cases):
        si, ai = 2 * k, 2 * k + 1
        ds = directives(c.rng, variant, wit.replace("t:wX", f"t:w{ai}"), ai)
        items.append((cfg, wit.replace("t:wX", f"t:w{si}")))
        items.append((cfg + ",async=" + "+".join(ds), wit.replace("t:wX", f"t:w{ai}")))
        meta.append({"variant": variant, "origin": origin, "directives": ds, "config": cfg})
    cov = {"scenarios": {"sync-import": 0, "sync-export": 0, "async-import": 0, "async-export": 0, "both(nested import)": 0},
           "import_schedules": {}, "export_plans": {}, "params_flat": {}, "result_flat": {},
           "indirect_params_async_import": 0, "findings": {}, "variants": {}, "directive_forms": {}, "timing": {}}
    for mt in meta:
        v0 = mt["variant"].split(":")[0]
        cov["variants"][v0] = cov["variants"].get(v0, 0) + 1
        for d in mt["directives"]:
            b = d.lstrip("-")
            form = ("-" if d.startswith("-") else "") + ("all" if b == "all" else b.split(":")[0] if b.split(":")[0] in ("import", "export") else "name")
            cov["directive_forms"][form] = cov["directive_forms"].get(form, 0) + 1
    lay_req, lay_impl, lay_model = [], [], []
    sig_req, sig_impl, sig_model = [], [], []
    led_req, led_sync, led_async = [], [], []
    shp_req, shp_impl, shp_model = [], [], []
    tok_req, tok_impl, tok_model = [], [], []
    hproc = bc.Proc([ahost])
    shrinks_left = [3]

    def witness(k, m, detail):
        mt = meta[k]
        return {"variant": "mixed:" + "+".join(d.replace(f"t:w{2 * k + 1}", "t:wX").replace("#", "%") for d in mt["directives"]),
                "config": mt["config"], "wit": cases[k][1], "function": m["key"] if m else None,
                "func": m["func"] if m else None, "dir": m["dir"] if m else None, "name": m["name"] if m else None, **detail}

    def violation(cls, what, k, m, detail):
        cov["findings"][cls] = cov["findings"].get(cls, 0) + 1
        if detail.get("scenario"):
            by = cov.setdefault("findings_by_scenario", {}).setdefault(cls, {})
            sn = str(detail["scenario"]).split(":")[0]
            by[sn] = by.get(sn, 0) + 1
        c.spec_violation(cls, what, witness(k, m, detail))

    # ------------------------------------------------------------ build every batch (in parallel: one target dir per slot)
    CASES_PER_BATCH = 4 if quick else 6
    SLOTS = 5
    chunks = []
    bounds = list(range(0, n_regular, CASES_PER_BATCH)) + list(range(n_regular, len(cases), CASES_PER_BATCH))
    bounds = sorted(set(bounds))
    for i, b0 in enumerate(bounds):
        b1 = min([x for x in bounds if x > b0] + [len(cases)])
        chunks.append((b0, b1))

    def build_chunk(args):
        slot, (b0, b1) = args
        chunk = items[2 * b0:2 * b1]
        name = "a-" + hashlib.sha1((bc.worlds_spec(chunk) + os.environ.get("VERIF_BIND_MUTATE", "")).encode()).hexdigest()[:12]
        t0 = time.time()
        batch, dropped = build_batch(c, name, chunk, emitter, target=ASYNC_TARGET + f"-{slot}")
        return b0, b1, batch, dropped, round(time.time() - t0, 1)

    prune_mine(12)            # directories of earlier runs (this run's batches are all needed until it ends)
    tb = time.time()
    from queue import Queue
    slotq = Queue()
    for sidx in range(SLOTS): slotq.put(sidx)

    def build_with_slot(ch):
        sidx = slotq.get()
        try:
            return build_chunk((sidx, ch))
        finally:
            slotq.put(sidx)
    with ThreadPoolExecutor(max_workers=SLOTS) as ex:
        built = list(ex.map(build_with_slot, chunks))
    cov["timing"]["build_all_s"] = round(time.time() - tb, 1)
    cov["timing"]["batch_build_s"] = [x[4] for x in built]
    ncompiled, ndropped = 0, 0

    # ------------------------------------------------------------ run
    for b0, b1, batch, dropped, _ in built:
        trun = time.time()
        for kk, e in dropped.items():
            g = 2 * b0 + kk
            k = g // 2
            ndropped += 1
            if g % 2:
                # the sync twin (item g-1) tells whether it compiles and the WIT result type of every exported function
                sync_ok = batch is not None and (g - 1) in [2 * b0 + x for x in batch.index_map] and (g - 1 - 2 * b0) not in dropped
                rts = {}
                if sync_ok:
                    ls = [2 * b0 + x for x in batch.index_map].index(g - 1)
                    rts = {rust_ident(m["name"]): m["result"] for m in batch.manifest
                           if m.get("item") == ls and m.get("dir") == "export" and m.get("result") is not None}
                cls = classify_async_compile_error(e, meta[k]["config"], sync_ok, rts)
                violation(cls, "the async bindings generated for a world whose sync bindings compile do not compile, so no value can cross (" + e + ")",
                          k, None, {"directives": meta[k]["directives"], "rustc": e,
                                    "errors": [{"msg": x["msg"], "line": x["line"], "src": x["src"], **x["where"]} for x in getattr(e, "errors", [])][:6]})
            else:
                violation("sync:" + bc.classify_compile_error(e), "the sync twin's generated Rust does not compile (" + e + ")", k, None, {"rustc": e})
        if batch is None:
            continue
        gidx = [2 * b0 + kk for kk in batch.index_map]
        local_of = {g: l for l, g in enumerate(gidx)}
        by_item = {}
        for m in batch.manifest:
            if m["dir"] == "item":
                if m["status"] != "ok" and m["item"] < len(gidx):
                    g = gidx[m["item"]]
                    k = g // 2
                    msg = m.get("message", "")
                    if g % 2:
                        cls, bad = classify_generator_failure(emitter, items[g][0], items[g][1], msg)
                        violation(cls, f"the Rust generator {m['status']}s on a valid world when asked for async bindings: {msg[:200]}", k, None,
                                  {"directives": meta[k]["directives"], "message": msg[:500],
                                   "minimal_functions": [line for _, _, line, _ in bad][:4],
                                   "minimal_wit": re.sub(r"t:w\d+", "t:wX", bad[0][3]) if bad else None})
                    else:
                        violation("sync:rust-generator-failed", f"the Rust generator {m['status']}s on a valid world: {msg[:200]}", k, None, {"message": msg[:500]})
                continue
            by_item.setdefault(m["item"], []).append(m)
        ncompiled += len(gidx)
        runner = ah.AsyncRunner(batch.binary, host, ahost)
        try:
            for k in range(b0, b1):
                si, ai = 2 * k, 2 * k + 1
                if si not in local_of or ai not in local_of:
                    continue
                if batch.status.get(local_of[si], {}).get("status") != "ok" or batch.status.get(local_of[ai], {}).get("status") != "ok":
                    continue
                if meta[k]["origin"] == "known":
                    c.notes.append(f"known-findings corpus entry {k - n_regular} ({meta[k]['variant']}) now generates and compiles: stale entry?")
                sm = {(m["dir"], m["iface"].split("/")[-1], m["name"]): m for m in by_item.get(local_of[si], []) if m["dir"] in ("import", "export")}
                am = {(m["dir"], m["iface"].split("/")[-1], m["name"]): m for m in by_item.get(local_of[ai], []) if m["dir"] in ("import", "export")}
                atext = open(os.path.join(batch.dir, "src", f"w{local_of[ai]}.rs")).read()
                async_imports = [m for m in by_item.get(local_of[ai], []) if m["dir"] == "import" and m.get("async")]
                replay_fn = c.replay["witness"].get("function") if (c.replay and meta[k]["origin"] == "replay" and "witness" in c.replay) else None
                for key, ma in am.items():
                    if not ma.get("async") or ma["kind"] != "free":
                        continue
                    ms = sm.get(key)
                    v = "GuestImportAsync" if ma["dir"] == "import" else "GuestExportAsync"
                    sig_req.append(f"{v} {ma['func']}")
                    sig_impl.append(f"{ma['sig_params']} -> {ma['sig_results']} indirect={int(ma['indirect_params'])} retptr={int(ma['retptr'])} spec-indirect={int(ma['indirect_params'])}")
                    sig_model.append(hproc.rq(f"sig|{v}|{P}|{ma['func']}") or "m_c08 died")
                    if ma["dir"] == "import":
                        # layout numbers in the generated text vs the model (both widths) and vs the spec's requirement
                        try:
                            line, l4, l8 = extract_layout(atext, rust_ident(ma["name"]))
                        except Exception as e:
                            c.broken.append(("translator:abi-layout", f"layout of {ma['key']} not recognised in the generated text: {e}"))
                            line, l4, l8 = "unrecognised", None, None
                        lay_req.append(ma["func"]); lay_impl.append(line); lay_model.append(hproc.rq(f"layout|{ma['func']}") or "m_c08 died")
                        for pw, l in ((4, l4), (8, l8)):
                            if l is not None and hproc.rq(f"areaok|{pw}|{ma['func']}|{l[0]}|{l[1]}|{l[2]}") != "ok":
                                violation("abi-layout-violates-spec", f"abi_layout / results_offset of the generated async import do not satisfy the canonical ABI's requirements at pointer width {pw}",
                                          k, ma, {"size": l[0], "align": l[1], "results_offset": l[2], "pointer_width": pw})
                        cov["indirect_params_async_import"] += int(ma["indirect_params"])
                    else:
                        # the shape of the generated wrapper that the model of its root future (ExportGlue.Fut) relies on
                        try:
                            shape = wrapper_shape(atext, rust_ident(ma["name"]))
                        except Exception as e:
                            shape = f"unrecognised: {e}"
                        shp_req.append(ma["key"]); shp_impl.append(shape); shp_model.append(WRAPPER_SHAPE_MODEL)
                    handle = handle_supplier(c.rng)
                    vals, ret = bc.gen_vals(c.rng, ma, handle)
                    rw = c.replay["witness"] if replay_fn else None
                    if rw and rw.get("function") == ma["key"] and "args" in rw:
                        vals, ret = rw["args"], rw.get("ret")
                    mem = any(x in ma["func"] for x in ("string", "list", "map", "variant", "option", "result"))
                    req0 = f"{ma['dir']} {ma['key']} {bc.vals_term(vals)} -> {ret}"
                    # ------------------------------------------------ sync twin

                    def run_sync(vals, ret):
                        if ms is None or ms.get("async"): return None
                        try:
                            return runner.export_call(ms, vals, ret) if ms["dir"] == "export" else runner.import_call(ms, vals, ret)
                        except (bc.Crash, ValueError) as e:
                            runner.restart_native()
                            return {"key": ms["key"], "kind": ms["dir"], "vals": vals, "ret": ret, "error": f"{type(e).__name__}: {e}"}
                    so = run_sync(vals, ret)
                    if so is not None:
                        cov["scenarios"]["sync-" + ms["dir"]] += 1
                        c.evaluations += 1
                        for cls, what, detail in bc.value_findings(ms, so):
                            violation("sync:" + cls, "sync twin: " + what, k, ms, {"args": vals, "ret": ret, **detail})
                    # ------------------------------------------------ async scenarios
                    scen = import_scenarios(c.rng, per_import) if ma["dir"] == "import" else export_scenarios(c.rng, async_imports, quick)
                    if rw and rw.get("function") == ma["key"] and rw.get("scenario"):
                        # replay: the recorded scenario first
                        nm = rw["scenario"]
                        if ma["dir"] == "import" and isinstance(rw.get("schedule"), dict) and "s0" in rw["schedule"]:
                            scen.insert(0, ("import", nm, rw["schedule"]))
                        elif ma["dir"] == "export":
                            sc_ = rw.get("schedule") or {}
                            if isinstance(sc_, dict) and all(st == "y" for st in sc_.get("plan", ["call"])):
                                scen.insert(0, ("export", nm, (list(sc_.get("plan", [])), sc_.get("cancel_at"))))
                            else:
                                scen = [s_ for s_ in scen if s_[1].split(":")[0] == nm.split(":")[0]] + scen
                    known_classes = {kf["class"] for kf in c.known_findings()}
                    for kind, nm, spec in scen:
                        c.evaluations += 1
                        req = f"{req0} @{nm}"
                        o = run_scenario(c, runner, kind, ma, vals, ret, spec, handle, cov)
                        if kind == "import":
                            cov["import_schedules"][nm] = cov["import_schedules"].get(nm, 0) + 1
                            cov["scenarios"]["async-import"] += 1
                        else:
                            cov["export_plans"][nm.split(":")[0]] = cov["export_plans"].get(nm.split(":")[0], 0) + 1
                            cov["scenarios"]["async-export"] += 1
                        if mem or nm not in ("finish", "returns-immediately"):
                            c.nontrivial.add(req)
                        fs = scenario_findings(kind, ma, o, so, async_imports)
                        if kind == "export" and "error" not in o and all(isinstance(st, str) for st in spec[0]) and not o.get("forced_cancel"):
                            # model of the code (generated wrapper || executor, Async/ExportGlue.lean) vs the real observations
                            ca = spec[1]
                            tok_req.append(f"yields={len(spec[0])} cancel_at={ca}")
                            tok_impl.append(o["tokens"])
                            tok_model.append(hproc.rq(f"predict|{len(spec[0])}|{'-' if ca is None else ca}") or "m_c08 died")
                        elif kind == "export" and "error" not in o and len(spec[0]) == 1 and len(o.get("subcalls", [])) == 1 and not o.get("forced_cancel"):
                            sc_ = o["subcalls"][0]["sched"]
                            ca = spec[1]
                            evs_ = ",".join(str(x) for x in sc_.get("events", [])) or "-"
                            tok_req.append(f"await-import s0={sc_['s0']} events={evs_} cancel_at={ca}")
                            tok_impl.append(o["tokens"])
                            tok_model.append(hproc.rq(f"predict2|{sc_['s0']}|{evs_}|{'-' if ca is None else ca}") or "m_c08 died")
                        svals, sret, shrunk = vals, ret, False
                        new = [f for f in fs if f[0] not in known_classes]
                        if new and shrinks_left[0] > 0 and not any(isinstance(st, tuple) for st in (spec[0] if kind == "export" else [])):
                            # search for a simpler failing input of the same class on the compiled batch
                            shrinks_left[0] -= 1
                            cls0 = new[0][0]

                            def classes_at(nm2, spec2, v2, r2):
                                o2 = run_scenario(c, runner, kind, ma, v2, r2, spec2, handle)
                                return {f[0] for f in scenario_findings(kind, ma, o2, run_sync(v2, r2), async_imports)}
                            snm, sspec = nm, spec
                            for nm2, spec2 in simpler_scenarios(kind, nm, spec):
                                if cls0 in classes_at(nm2, spec2, vals, ret):
                                    snm, sspec = nm2, spec2
                                    break
                            svals, sret = shrink_values(lambda v2, r2: classes_at(snm, sspec, v2, r2), ma, vals, ret, cls0)
                            shrunk = (svals, sret, snm) != (vals, ret, nm)
                            det3 = None
                            if shrunk:
                                # the details (tokens, blocks, values) of the shrunk input, from one more run of it
                                o3 = run_scenario(c, runner, kind, ma, svals, sret, sspec, handle)
                                det3 = next((d3 for c3, _, d3 in scenario_findings(kind, ma, o3, run_sync(svals, sret), async_imports) if c3 == cls0), None)
                                shrunk = det3 is not None
                        for cls, what, detail in fs:
                            d = {"args": vals, "ret": ret, "scenario": nm,
                                 "schedule": spec if kind == "import" else {"plan": o.get("plan"), "cancel_at": o.get("cancel_at")}, **detail}
                            if shrunk and cls == new[0][0]:
                                d = {**d, **det3}
                                d["args"], d["ret"], d["shrunk_from"] = svals, sret, {"args": vals, "ret": ret, "scenario": nm}
                                d["scenario"] = snm
                                d["schedule"] = sspec if kind == "import" else {"plan": list(sspec[0]), "cancel_at": sspec[1]}
                            d["minimal_wit"] = one_function_world(cases[k][1], ma["iface"].split("/")[-1], ma["name"])
                            violation(cls, what, k, ma, d)
                        # sync vs async ledger summaries (completed, otherwise clean runs only)
                        completed = (o.get("task_returns") == 1) if kind == "export" else (o.get("returned") is not None or (ma["result"] is None and "done:1" in o.get("tokens", "")))
                        if so is not None and completed and not fs and "error" not in so:
                            s_, a_ = sync_summary(kind, so), async_summary(kind, o)
                            if s_ is not None and a_ is not None:
                                led_req.append(req); led_sync.append(json.dumps(s_, sort_keys=True)); led_async.append(json.dumps(a_, sort_keys=True))
                            # (the import key carries the item's package name: compare interface#name and the handle)
                            nd = lambda xs: sorted(f"{k_.split('/')[-1]}:{h_}" for k_, h_ in xs)
                            hs, ha = nd(so.get("handle_drops", [])), nd(o.get("handle_drops", []))
                            if hs != ha and not o.get("subcalls"):   # (a nested import call drops handles of its own)
                                violation("sync-async-differ:handle-drops", "the sync and the async binding drop different resource handles for the same call", k, ma,
                                          {"args": vals, "ret": ret, "scenario": nm, "sync": hs, "async": ha})
                        if len(c.samples) < 6 and not fs and (mem or kind == "export") and nm not in ("finish", "returns-immediately"):
                            c.sample({"function": ma["key"], "type": ma["func"], "directives": meta[k]["directives"], "scenario": nm,
                                      "tokens": o.get("tokens"), "args": bc.vals_term(vals)[:200]})
                    pf = len([x for x in ma["sig_params"].split(",") if x != "-"])
                    if ma["dir"] == "import":
                        b = "indirect(>4 flat)" if ma["indirect_params"] else f"flat:{pf - int(ma['retptr'])}"
                    else:
                        b = "indirect(>16 flat)" if ma["indirect_params"] else ("flat:16" if pf == 16 else "flat:<16")
                    cov["params_flat"][ma["dir"] + ":" + b] = cov["params_flat"].get(ma["dir"] + ":" + b, 0) + 1
                    if ma["result"] is not None:
                        rm = hproc.rq(f"sig|GuestExport|{P}|(fn free () {ma['result']})") or ""
                        nres = 2 if "retptr=1" in rm else 1
                        trm = hproc.rq(f"sig|GuestExport|{P}|(fn free ({ma['result']}) _)") or ""
                        rb = "none"
                        rb = ("1 flat" if nres == 1 else ("2..16 flat" if "indirect=0" in trm else
                                                          (">16 flat (task.return through memory)" if ma["dir"] == "export" else ">16 flat")))
                    else:
                        rb = "none"
                    cov["result_flat"][ma["dir"] + ":" + rb] = cov["result_flat"].get(ma["dir"] + ":" + rb, 0) + 1
            v = runner.native.rq("VERIFY")
            if v is not None and v.startswith("ok|") and v[3:]:
                for e in v[3:].split(","):
                    violation("allocator:" + e.split(":")[0], "write outside a live block / after free detected by the final redzone and poison scan", b0, None, {"error": e})
        finally:
            runner.close()
            cov["timing"].setdefault("batch_run_s", []).append(round(time.time() - trun, 1))
    hproc.close()
    # ------------------------------------------------------------ shrink the world of new run-time witnesses
    known_classes = {kf["class"] for kf in c.known_findings()}
    seen, tried = set(), 0
    for v in c.violations:
        if v["class"] in known_classes or v["class"] in seen:
            continue
        seen.add(v["class"])
        if tried >= 2 or not v["witness"].get("minimal_wit") or "scenario" not in v["witness"]:
            continue
        tried += 1
        try:
            okmin = verify_minimal(c, emitter, host, ahost, v)
        except Exception as e:
            okmin = False
            c.notes.append(f"world shrinking of {v['class']} raised {type(e).__name__}: {e}")
        if okmin:
            w = v["witness"]
            w["original_wit"], w["original_variant"] = w["wit"], w["variant"]
            w["wit"], w["variant"] = w["minimal_wit"], "both"
            w["world_shrunk"] = "the one-function world reproduces the failure (rebuilt and replayed)"
        else:
            v["witness"]["world_shrunk"] = "the one-function world was not confirmed; the witness keeps the original world"
    cov["world_shrinks_tried"] = tried
    c.compare("abi-layout(generated text vs model, both pointer widths)", lay_req, lay_impl, lay_model)
    c.compare("wasm-signature(async variants)", sig_req, sig_impl, sig_model)
    c.compare("ledger-summary(sync vs async binding)", led_req, led_sync, led_async, nontrivial=lambda r, o: False)
    c.compare("export-wrapper-shape(generated text vs ExportGlue.Fut)", shp_req, shp_impl, shp_model, nontrivial=lambda r, o: False)
    c.compare("export-observations(real run vs ExportGlue model)", tok_req, tok_impl, tok_model, nontrivial=lambda r, o: False)
    cov["worlds"] = {"cases": len(cases), "corpus": len(corpus), "seeded": n_seeded, "known_findings_corpus": len(known),
                     "items_compiled": ncompiled, "items_dropped_not_compiling": ndropped}
    cov["type_constructors_generated"] = stats
    c.cov.update(cov)
    c.cov["search"] = ("value / ledger / protocol monitors on every scenario of this run (each witness = WIT + --async directives + function + values + host schedule, "
                       "shrunk on the compiled batch, replayable with ./check C08 --replay)")
    c.assumptions += [
        "executed natively at pointer width 8 only (x86-64); pointer width 4 is covered by the layout theorems, the text-vs-model layout correspondence (both widths) and the C01/C02 theorems, not by execution",
        "the independent host is tools/asynchost.py (handle table, schedules) with the Lean transcription of the canonical ABI lowering/lifting every value (m_host / m_c08), not wasmtime; its rules are the ones of DESIGN Appendix B",
        "hooks H1 (runtime built-ins as extern symbols) and H3 (generated import shims as extern symbols) are on; the wasm32 text of the bindings is untouched",
        "user code is the stub emitted by bind-native: it drops every argument it receives, then finishes / yields / awaits one async import, and returns freshly built values",
        "block_on of the real runtime drives async imports outside an export task; cancellation = dropping the call's future after a scripted number of Pending polls",
        "seeded worlds use ownership=owning, and fixed-length lists with Copy elements only (the async bindings of named borrowed parameter types and of fixed-length lists of non-Copy elements in export results do not compile: two recorded findings, replayed from corpus/C08-known.txt)",
        "future/stream/error-context payload types and exported resources are out of scope here (C18-C20, C07)",
    ]
