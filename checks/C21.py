"""C21 — async import calls release parameters and results exactly once.
Models: lean/Witverif/Async/{Waitable,Subtask,Host,Script}.lean, spec monitor Async/SubtaskSpec.lean,
theorems: lean/Witverif/Props/C21.lean.  Tie: harness/rt-native engine `script` (the REAL runtime linked
natively through hook H1, scripted mock host, instrumented `Subtask` implementation with an ownership
ledger, checking allocator)  vs  m_async: exact trace equality in the cabi1/cabi2 modes (the harness is
the executor), and the Lean spec side (SubtaskSpec monitor per call + legality of every host answer +
ledger anomalies + leak/allocator errors) evaluated on the REAL traces of all three modes
(cabi1, cabi2, export = the real `start_task`/`callback` executor); in the cabi modes the driver also replays the
PROVED step function `CallSys.step` along the real trace, label by label (Async/Refine.lean).
A trace is judged up to the point where a Rust panic starts (`@panic`); a script that kills the process is re-run
alone in streaming mode so that its prefix is not lost."""
import os, collections
from vlib import run_lines, VERIF, sh
import rtlib


def classify(cls):
    """stable known-findings / violation class from a monitor class like `lists-freed-twice@0`"""
    c = cls.split("@")[0]
    if c.startswith("anomaly:"):
        tok = c[len("anomaly:"):]
        bang = tok.find("!")
        reason = tok[bang + 1:] if bang >= 0 else tok
        return "subtask-anomaly-" + "".join(ch for ch in reason.split(":")[0] if not ch.isdigit())
    if c.startswith("host:"):
        return "subtask-host-" + c[5:].split("(")[0]
    if c.startswith("callsys:") or c.startswith("gsys:"): return "subtask-" + c.replace(":", "-")
    if c.startswith("waitable:"): return "subtask-" + c.replace(":", "-")
    if c.startswith("leak"): return "subtask-leak"
    if c.startswith("alloc-errors"): return "subtask-alloc-errors"
    return "subtask-" + c


WHAT = {
    "lists": "parameter lists are not freed exactly once after the callee started",
    "owns": "owned parameters released although the call was not cancelled before starting (or not released when it was)",
    "lift": "results not lifted exactly once iff the call returned",
    "handle": "subtask handle not dropped exactly once after resolution",
    "cancel": "subtask.cancel issued for a call that is not in progress / still registered",
    "area": "params/results area freed early, twice, never, or used after free",
}


def run(c):
    c.rule = ("scripts: 1..3 import calls (layout 0 or >0, results offset, 0..2 param lists / owned handles / result lists, "
              "host start status STARTING/STARTED/RETURNED, host cancel answer), a task body over {create, poll, await, drop, "
              "suspend, yield} and host directives {callee advances to STARTED/RETURNED (and illegal moves, skipped), deliver}; "
              "when directives run out the host cancels the task (everything dropped); modes cabi1/cabi2 (harness is the "
              "executor, trace compared exactly with the model) and export (real executor, spec side only); non-trivial = at "
              "least one call blocked (poll returned Pending); distinct by normalised trace")
    rc, out = sh(["python3", os.path.join(VERIF, "tools", "gen_limits.py")])
    c.cov["translator"] = out.strip()
    if rc != 0:
        c.broken.append(("translator gen_limits", out[-500:]))
    ok = c.lake_build(["Witverif.Props.C21"])
    if ok: c.audit("Witverif.Props.C21")
    if c.tier == "thorough" and ok: c.leanchecker("Witverif.Props.C21")
    model = c.model_exe("m_async")
    impl = rtlib.build_rt(c)
    n = 6000 if c.tier == "quick" else 80000
    maxbody = 12 if c.tier == "quick" else 30
    stats = collections.Counter()
    reqs = []
    cp = os.path.join(VERIF, "corpus", "C21.txt")
    if os.path.exists(cp):
        reqs += [l.rstrip("\n") for l in open(cp) if l.strip() and not l.startswith("#")]
    if c.replay and "witness" in c.replay: reqs.insert(0, c.replay["witness"]["request"])
    ncorpus = len(reqs)
    for _ in range(n):
        r = c.rng.random()
        mode = "cabi2" if r < 0.4 else "cabi1" if r < 0.8 else "export"
        reqs.append(rtlib.gen_subtask_script(c.rng, mode, 3, maxbody, stats))
    if not impl:
        return
    flaky = collections.Counter()
    runs = rtlib.run_scripts(impl, reqs, stats=flaky)
    c.cov["batch_runner_confirmations"] = dict(flaky)
    itrace = [x.cmp() for x in runs]
    if not model:
        for r, x in zip(reqs, runs):
            c.evaluations += 1
            if "!" in x.prefix or (x.panicked and not rtlib.documented_panic(x)) or (not x.panicked and not x.prefix.endswith("end:0:0")):
                c.spec_violation("subtask-anomaly", "ledger anomaly / panic / leak in a real trace (python fallback, model unavailable)",
                                 {"request": r, "impl": x.raw})
        return
    # the spec side judges the trace up to the point where a panic started (what follows is unwinding)
    mout = run_lines([model], [r + "\t" + x.judged() for r, x in zip(reqs, runs)], timeout=900)
    cab = [(r, o, rtlib.model_cmp(m.split("\t")[0])) for r, o, m in zip(reqs, itrace, mout) if not r.startswith("export")]
    def nontriv(r, o): return "=pend" in o
    c.compare("subtask-cabi", [x[0] for x in cab], [x[1] for x in cab], [x[2] for x in cab], nontrivial=nontriv)
    shapes = set()
    events = collections.Counter()
    skipped = collections.Counter()
    c.cov["process_aborts_recovered_by_streaming"] = sum(1 for x in runs if x.aborted)
    for r, x, m in zip(reqs, runs, mout):
        o = x.prefix
        if r.startswith("export"):
            c.evaluations += 1
            c.corr.setdefault("subtask-export-spec-only", {"cases": 0, "mismatches": 0})["cases"] += 1
        shapes.add(o)
        for t in o.split(" "):
            name = t.split("(")[0].split("=")[0].rstrip("0123456789")
            events[name] += 1
            if (t.startswith("call") or t.startswith("cancel(")) and "=" in t:
                events[t.split("=")[0].rstrip("0123456789(),") + "=" + t.split("=")[1].split(":")[0]] += 1
        verdict = m.split("\t")[1] if "\t" in m else "spec=missing"
        if verdict == "spec=ok":
            continue
        fails = verdict.split(":", 1)[1].split(",") if verdict.startswith("spec=fail:") else ["missing@-"]
        doc = rtlib.documented_panic(x) if r.startswith("export") else None
        if doc:
            # the script suspends the task with nothing registered: the default-feature runtime documents this
            # as unsupported and panics.  The panic itself is not judged; everything BEFORE it is.
            skipped[doc] += 1
            fails = [f for f in fails if not f.startswith("panic@")]
        for k in sorted({classify(f) for f in fails}):
            fam = k.split("-")[1] if "-" in k else k
            c.spec_violation(k, WHAT.get(fam, "the real trace violates the C21 spec side (" + k + ")"),
                             {"request": r, "impl": x.raw, "judged_prefix": x.judged(), "model": m.split("\t")[0],
                              "verdict": verdict, "panic": x.msg})
    for r, x in list(zip(reqs, runs))[ncorpus:ncorpus + 3]:
        c.sample({"script": r, "impl_trace": x.raw.split("\t")[0]})
    c.cov["input_distribution"] = dict(sorted(stats.items()))
    c.cov["trace_events"] = dict(sorted(events.items()))
    c.cov["distinct_traces"] = len(shapes)
    c.cov["documented_panics_prefix_judged"] = dict(skipped)
    c.cov["scripts"] = {"corpus": ncorpus, "seeded": n, "max_body": maxbody}
    c.cov["search"] = ("Refine.replayCall (CallSys.step driven along the real trace, cabi modes) + SubtaskSpec.run/complete per call + Host.follow (legality of every recorded host answer) + ledger anomalies + "
                       "leak/allocator errors, all evaluated by the Lean driver on the implementation's traces of every script of this run")
    c.assumptions += [
        "host rules are the Appendix-B transcription in Async/Host.lean (subtask part); `cancel traps while the waitable is in a set` is (R): taken from the runtime's comments",
        "subtask.cancel is the synchronous form (always returns a resolved status), as the runtime uses it",
        "one component task; cross-task moves of an operation are C18",
        "the `assert_eq!(ptr, prev)` identity checks of register/unregister are not modelled (handles are unique per call)",
        "native x86-64, default feature build of the runtime; the export mode traces are checked against the spec side only (the executor model is C22)",
    ]
