"""Backend half of C04 (called from checks/C04.py as `c04_backends.run_backends(c)`): every backend's emitted `Bitcast`
expressions are the canonical ABI's reinterpret / zero-extend / wrap conversions and round-trip losslessly.
Translator tie: tools/scalar_translate.py regenerates lean/Witverif/Generated/CastExprs.lean from the OUTPUT of the seven
real generators on eight variant probes; theorems: lean/Witverif/Props/C04Backends.lean + Props/C04Backends/<Backend>.lean
(fixed text, re-proved against the regenerated table); search: m_scalar evaluates every expression against Spec.joinConv;
glue: Rust/C/C++ snippets compiled natively vs the Lean evaluation."""
import scalar_check as S
import scalar_translate as T

MODULES = ["Witverif.Props.C04Backends"] + [f"Witverif.Props.C04Backends.{S.CAP[b]}" for b in T.BACKENDS]

def run_backends(c):
    rep = S.step_translate(c, want_casts=True, want_scalars=False)
    S.step_proofs(c, MODULES)
    model = S.driver(c)
    if rep is None or model is None:
        return
    S.sweep_casts(c, rep, model)
    S.native_langs(c, rep, model, S.native_support(rep), scalars=False, casts=True)
    kinds = {}
    for s in rep["sites"]:
        if "probe" in s:
            kinds.setdefault(s["backend"], set()).add(s["kind"])
            if len(c.samples) < 6:
                c.sample({"site": s["key"], "snippet": T.one_line(s["snippet"]), "expr": s["lean"]})
    c.cov["backend_bitcast_kinds_covered"] = {b: sorted(k) for b, k in kinds.items()}
    c.cov["backend_bitcast_kinds_not_covered"] = ["PToP64", "P64ToP", "I32ToL", "LToI32", "I64ToL", "LToI64", "PToL", "LToP",
                                                  "Sequence through Length"]
    c.assumptions += [
        "backend half of C04 covers the Bitcasts whose operand is a number: {None, F32ToI32, I32ToF32, F64ToI64, I64ToF64, I32ToI64, "
        "I64ToI32, F32ToI64, I64ToF32, I64ToP64, P64ToI64, I32ToP, PToI32, Sequence[F32ToI32,I32ToP], Sequence[PToI32,I32ToF32], "
        "Sequence[F64ToI64,I64ToP64], Sequence[P64ToI64,I64ToF64]} (pointer slots modelled under the wasm32 data model: Pointer = 32 bits, "
        "PointerOrI64 = 64 bits); Bitcasts whose operand is a pointer or a length (PToP64, P64ToP, PToL, LToP, I32ToL, LToI32, I64ToL, "
        "LToI64) are not extracted (string payloads need per-language handling of the ptr/len temporaries)",
        "Go has its own `cast` function (crates/go/src/lib.rs:3188) rather than perform_cast; it is covered like the others",
        "Scalar/Langs.lean semantics of C#, Go, MoonBit, D are not validated against a compiler; Rust, C, C++ are (natively, sampled inputs)",
    ]
    c.trusted += ["the translator tools/scalar_translate.py + tools/scalar_parse.py (variant-probe extraction sites, mini-parser with "
                  "round-trip guard)", "bv_decide's natively compiled LRAT checker, only in Props/C04Backends/* (listed per theorem)"]
