"""C04 — variant payload slot joining is lossless and matches the spec.
Core half (abi.rs `cast`, wit-parser `join`/`push_flat`): theorems in Props/C04.lean, tie via
abi-trace/m_abi (all 49 cast pairs, flat_types and every Bitcasts-carrying stream).
Backend half (each backend's rendering of every Bitcast): checks/c04_backends.py (builder-scalar)."""
import os, importlib.util
import abi_common as A

def classify(m, verdict):
    return ("variant-slot-conversion:" + verdict.split(" ")[1] if " " in verdict else "variant-slot-conversion",
            "a variant value does not survive lowering/lifting through its joined flat slots (or differs from the spec's flat form)")

def run(c):
    c.rule = ("all 49 (from,to) core-type pairs of abi::cast; flat_types at limits 16/4/1 and the lower/lift trees of every "
              "generated type that contains a variant/option/result; monitors: machine(real tree)(value) vs Spec on seeded "
              "values, both pointer widths. non-trivial = request with a structured type; distinct by request text")
    model, exe = A.setup(c, "Witverif.Props.C04")
    if not exe: return
    tp = A.tier_params(c)
    paths, stats = A.gen_worlds(c, tp["n"], tp["depth"], tp["nfuncs"], tp["max_params"], extra_corpus=("abi-casts",))
    cases, failed = A.trace(c, exe, paths)
    if failed: c.broken.append(("abi-trace failed on generated world", str(failed[:2])))
    joined = lambda k: any(x in k for x in ("variant", "option", "result"))
    sel = [x for x in A.select(cases, {"cast", "flat", "lowerflat", "lowermem", "liftmem"})
           if x[0].startswith(("cast", "flat")) or joined(x[0])]
    if model:
        A.corr(c, "abi-trace:cast+flat+variant-streams", sel, model)
        reqs, meta = A.eval_requests(c, [x for x in sel if x[0].startswith(("lowerflat", "liftmem"))], tp["nvals"])
        A.run_monitors(c, model, reqs, meta, classify)
    c.cov["generated_types"] = stats
    c.cov["constructors_in_cases"] = A.constructor_histogram(sel)
    for k, v, _ in sel[:2] + [x for x in sel if "cast p64" in x[1]][:2]: c.sample({"request": k, "impl": v[:300]})
    c.cov["search"] = "monitors checkLowerFlat/checkLiftMem (Lean) on the real trees of variant-carrying types, seeded + boundary values, ptr 4 and 8"
    c.assumptions += ["wit-parser's push_flat storage limits are modelled as `length ≤ max` (compared, not proved)",
                      "castSem fixes the reference meaning of each Bitcast (zero-extension for I32ToI64 etc.); backends are tied to it in the backend half"]
    bp = os.path.join(os.path.dirname(__file__), "c04_backends.py")
    if os.path.exists(bp):
        spec = importlib.util.spec_from_file_location("c04_backends", bp)
        mod = importlib.util.module_from_spec(spec); spec.loader.exec_module(mod)
        mod.run_backends(c)
    else:
        c.notes.append("backend half (per-backend Bitcast expressions) not present in this commit")
