"""C03 — cleanup code frees exactly the heap data the lowering allocated.
Theorems: Props/C03.lean.  Tie + search: see checks/abi_common.py."""
import abi_common as A

def classify(m, verdict):
    kind = m["kind"]
    if kind == "needs":
        return ("needs-post-return:" + verdict.split(" ", 1)[1].replace(" ", ","),
                "post-return requested although the result has no heap buffer (or vice versa)")
    if kind == "postret-panic":
        return ("post-return-panics", "abi::post_return panics for a function whose result is said to need post-return")
    if verdict.startswith("FAIL[flist-leak]"):
        return ("dealloc-flist-leak", "cleanup through memory skips everything below a fixed-length list: buffers/handles inside list<T, N> are never released")
    tag = verdict.split(" ")[1].split("=")[0] if " " in verdict else verdict
    return (f"{kind}:{tag}", f"cleanup stream does not release exactly what the lowering allocated ({tag})")

def run(c):
    c.rule = ("per distinct type of seeded worlds + boundary corpus: deallocate_lists / deallocate_lists_and_own trees, direct "
              "and through memory; per function: post_return tree and guest_export_needs_post_return. Monitors: Spec lowers a "
              "seeded value (allocating), the REAL cleanup tree runs in the reference machine, the ledger of freed blocks "
              "(addr,size,align) and dropped handles must equal what was allocated / owned; ptr 4 and 8. "
              "non-trivial = structured type; distinct by request text")
    model, exe = A.setup(c, "Witverif.Props.C03")
    if not exe: return
    tp = A.tier_params(c)
    paths, stats = A.gen_worlds(c, tp["n"], tp["depth"], tp["nfuncs"], tp["max_params"])
    cases, failed = A.trace(c, exe, paths)
    if failed: c.broken.append(("abi-trace failed on generated world", str(failed[:2])))
    sel = A.select(cases, {"dealloc", "postret", "needs"})
    if model:
        A.corr(c, "abi-trace:dealloc+post_return", sel, model)
        reqs, meta = A.eval_requests(c, A.select(cases, {"dealloc"}), tp["nvals"])
        # needs_post_return flag vs the spec predicate; post_return must exist when requested
        needs = {k.split("|", 1)[1]: v for k, v, _ in sel if k.startswith("needs|")}
        for k, v, w in sel:
            if k.startswith("needs|"):
                reqs.append(f"evalneeds|{k.split('|', 1)[1]}|{v}")
                meta.append({"key": k, "kind": "needs", "func": k.split("|", 1)[1], "impl": v, "world": w})
        A.run_monitors(c, model, reqs, meta, classify)
        for k, v, w in sel:
            if k.startswith("postret|") and v.startswith("panic") and needs.get(k.split("|", 1)[1], "").startswith("postreturn=1"):
                c.evaluations += 1
                kl, what = classify({"kind": "postret-panic"}, v)
                c.spec_violation(kl, what, {"key": k, "func": k.split("|", 1)[1], "impl": v, "world": w})
    c.cov["generated_types"] = stats
    c.cov["constructors_in_cases"] = A.constructor_histogram(sel)
    for k, v, _ in [x for x in sel if x[0].startswith("dealloc|own|indirect") and "list" in x[0]][:2] + sel[:1]:
        c.sample({"request": k, "impl": v[:400]})
    c.cov["search"] = "Lean monitors checkDealloc (ledger equality incl. classification of the fixed-length-list leak by reachability) and checkNeeds on the real outputs"
    c.assumptions += ["allocation is a deterministic bump allocator in both spec and machine; blocks are compared as multisets of (addr,size,align), zero-sized requests ignored",
                      "direct-mode cleanup is compared for types with at most 16 flat slots (the only ones the API accepts)"]
