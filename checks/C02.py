"""C02 — call glue follows the canonical calling convention for every signature.
Theorems: Props/C02.lean.  Tie + search: see checks/abi_common.py."""
import abi_common as A

def classify(m, verdict):
    tag = verdict.split(" ")[1] if " " in verdict else verdict
    if tag.startswith("param-record-frees=0") and m["variant"] in ("GuestExport", "GuestExportAsync", "GuestExportAsyncStackful") \
            and m["dir"] == "lift" and m["async"] == "async":
        return ("async-export-indirect-params-not-freed",
                "async export with indirect parameters never frees the caller-allocated parameter record")
    return (f"call:{m['variant']}:{m['dir']}:{m['async']}:{tag.split('=')[0]}",
            f"call glue violates the calling convention ({tag})")

def run(c):
    c.rule = ("every function of seeded worlds (0..max_params parameters of random types, optional result; thorough tier up to "
              "20 parameters) + boundary corpus (16/17 parameters, 4/5 async parameters, 1/2 flat results, methods): "
              "wasm_signature for 5 variants; Generator::call tree for 5 variants x 2 directions x sync/async x 2 canonical-list "
              "rules. Monitor checkCall on the REAL glue tree with seeded argument/result values at ptr 4 and 8 for the "
              "combinations backends use (import-lower-sync, export-lift-sync, export-lift-async, C#'s GuestExport-lift-async) and their host-side duals. "
              "non-trivial = function with a structured parameter or result; distinct by request text")
    model, exe = A.setup(c, "Witverif.Props.C02")
    if not exe: return
    tp = A.tier_params(c)
    paths, stats = A.gen_worlds(c, tp["n"], tp["depth"], tp["nfuncs"], max(tp["max_params"], 8))
    cases, failed = A.trace(c, exe, paths)
    if failed: c.broken.append(("abi-trace failed on generated world", str(failed[:2])))
    sel = A.select(cases, {"sig", "call"})
    if model:
        A.corr(c, "abi-trace:sig+call", sel, model)
        reqs, meta = A.call_requests(c, sel, tp["nvals"], A.USED_CALLS | A.HOST_CALLS)
        A.run_monitors(c, model, reqs, meta, classify)
    flat = {}
    for k, v, _ in sel:
        if k.startswith("sig|GuestExport|"):
            n = 0 if v.startswith("-") else len(v.split(" -> ")[0].split(","))
            key = "indirect" if "indirect=1" in v else f"flat{min(n, 17)}"
            flat[key] = flat.get(key, 0) + 1
    c.cov["param_passing_histogram(GuestExport)"] = flat
    c.cov["generated_types"] = stats
    for k, v, _ in [x for x in sel if x[0].startswith("call|GuestExport|lift|sync|none") and "indirect" not in x[1]][:1] + sel[:1]:
        c.sample({"request": k, "impl": v[:500]})
    c.cov["search"] = "Lean monitor checkCall on the real glue trees (call/return counts, canonical arguments, canonical results, parameter-record frees)"
    c.cov["partial_obligations"] = [
        "proved glue theorems: flat/memory-free import and export, export with indirect parameters (any types; record freed once with canonical layout), import with a return area (any result type), import with indirect parameters (any types, no result), async export (flat) with exactly one task.return. Open as theorems (enforced by the checkCall monitor on the real trees): export-side return areas, flat list-bearing parameters, the remaining async combinations; existence of the glue incl. its closing stack assertions ('no value unconsumed') IS proved for every function: glue_exists_and_leaves_no_value_unconsumed",
    ]
    c.assumptions += ["wit-parser's wasm_signature is external: modelled (Abi.wasmSignature), compared on every function, and proved equal to the spec's flatten_functype",
                      "values cross CallWasm/CallInterface through scripted callee results (the callee side is the spec)"]
