"""Shared part of the checks C19 (streams) and C20 (futures): harness/rt-native engine `chan` (the REAL
runtime linked natively through hook H1, scripted peer, instrumented payload vtables with an item
ledger, checking allocator) vs m_chan: exact trace equality in the cabi1/cabi2 modes (the harness is the
executor), and the Lean spec side (ChanSpec monitor per channel + legality of every recorded host answer
(Host.End rules) + WaitableSpec per end + ledger anomalies + leak/allocator errors) evaluated on the REAL
traces of all three modes (cabi1, cabi2, export = the real start_task/callback executor), in two feature
builds of the runtime (default, futures-stream: the `futures::Stream` adapter)."""
import os, re, collections
from vlib import run_lines, VERIF, sh
import rtlib

BLOCKED = 4294967295


def canon(trace):
    """traces are compared up to and including the first host trap (a real host tears the component down
    there; what the mock lets the guest do afterwards is not part of the correspondence) or the start of
    the first Rust panic (`@panic` on the implementation side marks where it starts; what follows up to
    `panic` is unwinding) — whichever comes first"""
    toks = trace.split(" ")
    for i, t in enumerate(toks):
        if t.startswith("!trap:"):
            return " ".join(toks[:i + 1])
        if t == "@panic" or t == "panic":
            return " ".join(toks[:i] + ["panic"])
    return trace


def cut_point(toks):
    """index of the first host trap or of the start of the first Rust panic (None: the script ran to its
    end): the trace BEFORE it is judged as a prefix, the event itself is classified separately"""
    for i, t in enumerate(toks):
        if t.startswith("!trap:") or t == "@panic" or t == "panic":
            return i
    return None


def codes_for_handle(toks, h, upto):
    """codes the host told the guest for end `h` in toks[:upto], in order"""
    out = []
    for t in toks[:upto]:
        m = re.fullmatch(r"(?:swrite|sread)(\d+):\d+:(\d+):\d+", t) or re.fullmatch(r"(?:scw|scr|fwrite|fread|fcw|fcr)(\d+):(\d+)", t)
        if m and int(m.group(1)) == h:
            out.append(int(m.group(2))); continue
        m = (re.fullmatch(r"dlv\((\d+),(\d+)\)", t) or re.fullmatch(r"ev\(\d+,(\d+),(\d+)\)", t)
             or re.fullmatch(r"ws\.(?:poll|wait)\(\d+\)=\d+:(\d+):(\d+)", t))
        if m and int(m.group(1)) == h:
            out.append(int(m.group(2)))
    return out


def after_done_class(trace):
    """classify every `!trap:copy-after-done`: which code made the end `done`?
    DROPPED|0 -> F10 (StreamResult::Dropped did not set `done`; repaired in /repo 44e42ba — a regression if seen); DROPPED|k>0 -> `done` was
    not set although the code sets it there (a different defect)"""
    toks = trace.split(" ")
    classes = set()
    for i, t in enumerate(toks):
        if t != "!trap:copy-after-done":
            continue
        m = re.fullmatch(r"(?:swrite|sread)(\d+):\d+:\d+:\d+", toks[i + 1]) if i + 1 < len(toks) else None
        if not m:
            classes.add("stream-op-after-done-unclassified"); continue
        told = [c for c in codes_for_handle(toks, int(m.group(1)), i) if c != BLOCKED]
        if told and told[-1] == 1:
            classes.add("stream-op-after-dropped-zero")
        elif told and told[-1] % 16 == 1:
            classes.add("stream-op-after-dropped-nonzero")
        else:
            classes.add("stream-op-after-done-unclassified")
    return classes


def stranded_channels(toks):
    """The CAUSE of the known finding, read off an export trace: the host cancels the task (`X`, EVENT_CANCEL) and
    the task exits (`cb=exit`) while the default write of a FutureWriter is unfinished — the default value was
    made (`def<c>:<id>`: by dropping a live FutureWriter, before the cancel or by the cancel dropping the body),
    its write blocked (`fwrite<w>:BLOCKED` after the `def`) and the writable end was never dropped afterwards (no
    `fdw<w>`).  Returns {channel: (writable handle, id of the default value)}"""
    if "X" not in toks or "cb=exit" not in toks[toks.index("X"):]:
        return {}
    handle, opening = {}, None
    for t in toks:
        m = re.fullmatch(r"open(\d+)", t)
        if m: opening = int(m.group(1)); continue
        m = re.fullmatch(r"fnew(\d+):\d+", t)
        if m and opening is not None:
            handle[opening] = int(m.group(1)); opening = None
    out = {}
    for i, t in enumerate(toks):
        m = re.fullmatch(r"def(\d+):(\d+)", t)
        if not m or int(m.group(1)) not in handle:
            continue
        c, w = int(m.group(1)), handle[int(m.group(1))]
        rest = toks[i + 1:]
        if f"fwrite{w}:{BLOCKED}" in rest and f"fdw{w}" not in rest:
            out[c] = (w, int(m.group(2)))
    return out


def before_end_audits(toks):
    """the trace without the end-of-run audit tokens (`!…` anomalies emitted after the task is gone, `end:`)"""
    n = len(toks)
    while n and (toks[n - 1].startswith("!") or toks[n - 1].startswith("end:")):
        n -= 1
    return toks[:n]


def stranded_split(script, toks, fails, run_level):
    """Split the failing clauses of an export script into those that belong to the known finding
    `future-default-write-stranded-on-task-cancel` and the rest.  Keyed on the CAUSE (`stranded_channels`), not on a
    list of symptom names: given the cause, EVERY end-of-trace symptom (a clause that the same trace, judged as a
    prefix up to the task's exit without the end-of-trace rules, does NOT produce: `run_level` = the failures of that
    prefix) that is about a stranded channel (`@c<k>`), about its writable handle (`@h<w>`), a ledger entry of that
    channel, the host's leftovers when they are exactly one end per stranded channel in the task's one set, or the
    byte leak, belongs to the finding.  Run-level failures, symptoms positioned at OTHER channels / handles, other
    ends left over in the host, allocator errors and anomalies of unknown position stay ordinary failures."""
    if not script.startswith("export"):
        return [], fails
    k = stranded_channels(toks)
    if not k:
        return [], fails
    handles = {"h%d" % w for w, _ in k.values()}
    mine, rest = [], []
    for f in fails:
        cls, _, where = f.rpartition("@")
        ok = False
        if f in run_level:
            ok = False
        elif where.startswith("c") and where[1:].isdigit():
            ok = int(where[1:]) in k
        elif where.startswith("h") and where[1:].isdigit():
            ok = where in handles
        elif cls.startswith("anomaly:!item-ledger"):
            m = re.match(r"anomaly:!item-ledger(\d+):", cls)
            ok = bool(m) and int(m.group(1)) in k
        elif cls.startswith("anomaly:!host-leftovers"):
            m = re.fullmatch(r"anomaly:!host-leftovers:sets=(\d+)/ends=(\d+)/ctx=0", cls)
            ok = bool(m) and int(m.group(2)) == len(k) and int(m.group(1)) == 1
        elif re.fullmatch(r"leak:\d+", cls):
            ok = True          # bytes held by the unfinished write(s) and the task state; cannot be attributed more finely
        (mine if ok else rest).append(f)
    return mine, rest


def run_chan(c, pid, want, only, what_map):
    rc, out = sh(["python3", os.path.join(VERIF, "tools", "gen_limits.py")])
    c.cov["translator"] = out.strip()
    if rc != 0:
        c.broken.append(("translator gen_limits", out[-500:]))
    mod = "Witverif.Props." + pid
    ok = c.lake_build([mod])
    if ok: c.audit(mod)
    if c.tier == "thorough" and ok: c.leanchecker(mod)
    model = c.model_exe("m_chan")
    impl = rtlib.build_rt(c)
    impl_fs = rtlib.build_rt(c, "futures-stream")
    n = 5000 if c.tier == "quick" else 60000
    n_fs = 1500 if c.tier == "quick" else 20000
    maxbody = 12 if c.tier == "quick" else 30
    stats = collections.Counter()
    corpus = []
    cp = os.path.join(VERIF, "corpus", pid + ".txt")
    if os.path.exists(cp):
        corpus = [l.rstrip("\n") for l in open(cp) if l.strip() and not l.startswith("#")]
    if c.replay and "witness" in c.replay: corpus.insert(0, c.replay["witness"]["request"])
    def gen(k, adapter):
        out = []
        for _ in range(k):
            r = c.rng.random()
            mode = "cabi2" if r < 0.45 else "cabi1" if r < 0.8 else "export"
            out.append(rtlib.gen_chan_script(c.rng, mode, maxbody, stats, want, adapter, True, only))
        return out
    plain = [l for l in corpus if not re.search(r"\b[SF][WR][a-z]\dA\b", l)]
    withad = [l for l in corpus if l not in plain]
    batches = [("default", impl, plain + gen(n, False)), ("futures-stream", impl_fs, withad + gen(n_fs, True))]
    if not model or not impl or not impl_fs:
        return
    shapes, events, skipped = set(), collections.Counter(), collections.Counter()
    first = True
    for bname, exe, reqs in batches:
        iout = run_lines([exe, "chan"], reqs, timeout=900)
        itrace = [o.split("\t")[0] for o in iout]
        mout = run_lines([model], [r + "\t" + o for r, o in zip(reqs, itrace)], timeout=900)
        cab = [(r, o, m.split("\t")[0]) for r, o, m in zip(reqs, itrace, mout) if not r.startswith("export")]
        def nontriv(r, o): return "=pend" in o
        c.compare("chan-cabi-" + bname, [x[0] for x in cab], [x[1] for x in cab], [x[2] for x in cab], nontrivial=nontriv, canon=canon)
        failing = []
        for idx, (r, o, m) in enumerate(zip(reqs, itrace, mout)):
            if r.startswith("export"):
                c.evaluations += 1
                c.corr.setdefault("chan-export-spec-only-" + bname, {"cases": 0, "mismatches": 0})["cases"] += 1
            shapes.add(o)
            for t in o.split(" "):
                name = re.match(r"[A-Za-z.!-]*", t).group(0)
                events[name] += 1
                mm = re.fullmatch(r"(swrite|sread)\d+:\d+:(\d+):\d+", t) or re.fullmatch(r"(fwrite|fread|scw|scr|fcw|fcr)\d+:(\d+)", t)
                if mm:
                    code = int(mm.group(2))
                    kind = "BLOCKED" if code == BLOCKED else ["COMPLETED", "DROPPED", "CANCELLED"][code % 16] + ("" if code < 16 else "+k")
                    events[mm.group(1) + "=" + kind] += 1
            verdict = m.split("\t")[1] if "\t" in m else "spec=missing"
            if verdict == "spec=ok":
                continue
            failing.append((idx, r, o, m, verdict))
        # second stage: a script with a host trap / a Rust panic is judged on the trace BEFORE that event
        # (closed by `abort end:?:0`: run-level clauses, legality of the host's answers, waitable rules and
        # anomalies apply; end-of-trace clauses do not); the event itself is classified separately
        cuts = {}
        for idx, r, o, m, verdict in failing:
            toks = o.split(" ")
            k = cut_point(toks)
            if k is not None:
                cuts[idx] = k
        order = sorted(cuts)
        pout = run_lines([model], [reqs[i] + "\t" + " ".join(itrace[i].split(" ")[:cuts[i]] + ["abort", "end:?:0"]) for i in order],
                         timeout=900) if order else []
        pverdict = {i: (p.split("\t")[1] if "\t" in p else "spec=missing") for i, p in zip(order, pout)}
        # scripts that show the cause of the stranded-default-write finding: the same trace judged up to the task's
        # exit WITHOUT the end-of-trace rules tells run-level failures from end-of-trace symptoms
        strand = [idx for idx, r, o, m, verdict in failing
                  if idx not in cuts and r.startswith("export") and stranded_channels(o.split(" "))]
        sout = run_lines([model], [reqs[i] + "\t" + " ".join(before_end_audits(itrace[i].split(" ")) + ["abort", "end:?:0"])
                                   for i in strand], timeout=900) if strand else []
        runlevel = {}
        for i, p in zip(strand, sout):
            v = p.split("\t")[1] if "\t" in p else "spec=missing"
            runlevel[i] = set() if v == "spec=ok" else set(v.split(":", 1)[1].split(",")) if v.startswith("spec=fail:") else {"missing@-"}
        for idx, r, o, m, verdict in failing:
            toks = o.split(" ")
            pmsg = (iout[idx].split("\t") + [""])[1]
            wit = {"request": r, "impl": o, "model": m.split("\t")[0], "verdict": verdict, "panic": pmsg, "build": bname}
            judged = toks
            if idx in cuts:
                k = cuts[idx]
                judged = toks[:k]
                verdict = pverdict[idx]
                wit["verdict_of_prefix_before_cut"] = verdict
                wit["cut"] = toks[k]
                c.corr.setdefault("chan-prefix-before-trap-or-panic", {"cases": 0, "mismatches": 0})["cases"] += 1
                if toks[k] == "!trap:copy-after-done":
                    for cls in sorted(after_done_class(" ".join(toks[:k + 2]))):
                        c.spec_violation(cls, what_map.get(cls, "a stream operation reaches the host on an end that is done (host trap)"), wit)
                elif toks[k].startswith("!trap:"):
                    c.spec_violation("chan-host-trap-" + re.sub(r"[^a-z-]+", "-", toks[k][6:])[:50],
                                     "the guest makes the host trap (" + toks[k] + ")", wit)
                elif r.startswith("export") and "cannot sleep waiting only on Rust-originating events" in pmsg:
                    skipped["export: task sleeps with no waitable registered (documented panic; the trace before it is judged)"] += 1
                else:
                    c.spec_violation("chan-panic", "the runtime panics: " + pmsg[:200], wit)
            fails = [] if verdict == "spec=ok" else verdict.split(":", 1)[1].split(",") if verdict.startswith("spec=fail:") else ["missing@-"]
            fails = [f for f in fails if f not in ("anomaly:@panic@-",)]
            mine, rest = stranded_split(r, judged, fails, runlevel.get(idx, set())) if idx in runlevel else ([], fails)
            if mine:
                c.spec_violation("future-default-write-stranded-on-task-cancel",
                                 "export task cancelled (EVENT_CANCEL) while a FutureWriter or its background default write is alive: "
                                 "the task exits at once and the default write is never finished (slab, writable end, waitable set "
                                 "and task state leak)",
                                 dict(wit, clauses_attributed=mine))
            for k in sorted({re.sub(r"[^a-z!-]+", "-", f.split("@")[0]).strip("-")[:70] for f in rest}):
                c.spec_violation("chan-" + k, what_map.get(k.split("-")[0], "the real trace violates the spec side (" + k + ")"), wit)
        if first:
            for r, o in list(zip(reqs, itrace))[len(plain):len(plain) + 3]:
                c.sample({"script": r, "impl_trace": o})
            first = False
    c.cov["input_distribution"] = dict(sorted(stats.items()))
    c.cov["trace_events"] = dict(sorted(events.items()))
    c.cov["distinct_traces"] = len(shapes)
    c.cov["scripts_not_applicable"] = dict(skipped)
    c.cov["scripts"] = {"corpus": len(corpus), "seeded_default_build": n, "seeded_futures_stream_build": n_fs, "max_body": maxbody}
    c.cov["search"] = ("ChanSpec.run/complete per channel + ChanSpec.followWith (legality of every recorded host answer, Host.End rules) + "
                       "WaitableSpec per end + ledger anomalies + leak/allocator errors, evaluated by the Lean driver on the "
                       "implementation's traces of every script of this run (three modes, two feature builds)")
