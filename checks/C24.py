"""C24 — guest allocation entry points (cabi_realloc / Cleanup / cabi_dealloc).
Model: lean/Witverif/Text/Realloc.lean (allocator as a parameter, GlobalAlloc contract as hypothesis),
theorems: lean/Witverif/Props/C24.lean, tie: harness/rt-native engine `realloc` (the working-tree
text of `cabi_realloc` + the generated wrapper + the real `Cleanup` + the `cabi_dealloc` template,
run against a checking allocator)  vs  m_realloc; spec monitor ReallocSpec.stepOk on the REAL outputs."""
import os, collections
from vlib import run_lines, VERIF
import rtlib

NSLOTS = 8
SIZES_EDGE = [0, 1, 2, 3, 4, 5, 6, 7, 8, 9, 15, 16, 17, 33, 255, 256, 257, 1025, 4095, 4096, 65535, 65536, 65537, (1 << 20) - 1, 1 << 20]


def gen_size(rng, alog):
    r = rng.random()
    if r < 0.12: return 0
    if r < 0.30: return rng.choice(SIZES_EDGE)
    if r < 0.40:  # around the alignment
        return max(0, (1 << alog) + rng.choice([-1, 0, 1]))
    # log-uniform 1 .. 2^20
    e = rng.uniform(0, 20)
    return min(1 << 20, max(1, int(2 ** e)))


def gen_alog(rng):
    r = rng.random()
    if r < 0.55: return rng.randint(0, 4)
    if r < 0.9: return rng.randint(0, 12)
    return rng.randint(13, 16)


def gen_history(rng, maxlen, stats):
    n = rng.randint(1, maxlen)
    slots = [(0, 0)] * NSLOTS          # (size, alog) the host holds
    ncl, alive = 0, []
    ops = []
    for _ in range(n):
        r = rng.random()
        if r < 0.62:
            s = rng.randrange(NSLOTS) if rng.random() < 0.3 else rng.randrange(3)
            size, alog = slots[s]
            if size == 0:
                alog = gen_alog(rng)        # fresh allocation (or zero-size again): any alignment
            new = gen_size(rng, alog)
            if size != 0 and new == 0:
                # the property's domain: `cabi_realloc` documents "non-zero old_len requires non-zero new_len"
                # (rt/mod.rs `debug_assert_ne!`), and no canonical-ABI host resizes a block to zero
                new = 1 + gen_size(rng, alog)
            kind = ("zero-zero" if size == 0 and new == 0 else "alloc" if size == 0 else
                    "grow" if new > size else "shrink" if new < size else "same")
            stats["r:" + kind] += 1
            stats["align:2^%d" % alog] += 1
            stats["size:" + ("0" if new == 0 else "2^%d" % (new.bit_length() - 1))] += 1
            ops.append(f"r:{s}:{alog}:{new}")
            slots[s] = (new, alog)
        elif r < 0.74:
            s = rng.randrange(NSLOTS) if rng.random() < 0.3 else rng.randrange(3)
            stats["d:" + ("zero" if slots[s][0] == 0 else "block")] += 1
            ops.append(f"d:{s}")
            slots[s] = (0, 0)
        elif r < 0.86 or ncl == 0:
            alog = gen_alog(rng)
            size = gen_size(rng, alog)
            stats["n:" + ("zero" if size == 0 else "block")] += 1
            ops.append(f"n:{size}:{alog}")
            alive.append(True); ncl += 1
        else:
            i = rng.randrange(ncl)
            k = "x" if rng.random() < 0.6 else "f"
            stats[k + ":" + ("alive" if alive[i] else "again")] += 1
            ops.append(f"{k}:{i}")
            alive[i] = False
    return " ".join(ops)


ODD_SIZES = [1, 2, 3, 4, 5, 6, 7, 9, 17, 33, 257, 4097]


def grid_histories():
    """Deterministic stream: every layout whose size is NOT a multiple of the word size x every alignment 2^0..2^16,
    for Cleanup::new + drop, Cleanup::new + forget, and cabi_realloc alloc / grow / shrink / cabi_dealloc.  The
    checking allocator puts guard bytes directly before and after every block (sizes are not rounded up), so a write
    outside `[ptr, ptr+size)` — e.g. by the poison loop of Cleanup::drop — changes a canary."""
    out = []
    for alog in range(17):
        for size in ODD_SIZES:
            out.append(f"n:{size}:{alog} x:0 n:{size}:{alog} f:1 r:0:{alog}:{size} r:0:{alog}:{size + 9} "
                       f"r:0:{alog}:{max(1, size - 1)} r:0:{alog}:{size} d:0")
    return out


def gen_outside(rng):
    """A separate stream OUTSIDE the documented precondition: a valid history followed by one request that
    resizes a non-empty block to zero.  What the code does then is recorded in the evidence, never judged."""
    alog = gen_alog(rng)
    size = 1 + gen_size(rng, alog)
    return f"r:0:{alog}:{size} r:0:{alog}:0"


def run(c):
    c.rule = ("request histories over 8 host slots and a growing list of Cleanups: cabi_realloc with (old ptr, old size) "
              "taken from the slot's earlier result, alignment 2^0..2^16 (kept for a non-empty slot), new size 0..2^20 (never 0 for a non-empty block: documented precondition) "
              "(edge values, around the alignment, log-uniform); cabi_dealloc of slots; Cleanup new/drop/forget; "
              "non-trivial = the history reallocates a non-empty block at least once; distinct by request text")
    ok = c.lake_build(["Witverif.Props.C24"])
    if ok: c.audit("Witverif.Props.C24")
    if c.tier == "thorough" and ok: c.leanchecker("Witverif.Props.C24")
    model = c.model_exe("m_realloc")
    impl = rtlib.build_rt(c)
    n = 20000 if c.tier == "quick" else 200000
    maxlen = 14 if c.tier == "quick" else 40
    stats = collections.Counter()
    reqs = []
    cp = os.path.join(VERIF, "corpus", "C24.txt")
    if os.path.exists(cp):
        reqs += [l.rstrip("\n") for l in open(cp) if l.strip() and not l.startswith("#")]
    if c.replay and "witness" in c.replay: reqs.insert(0, c.replay["witness"]["request"])
    grid = grid_histories()
    reqs += grid
    ncorpus = len(reqs)
    reqs += [gen_history(c.rng, maxlen, stats) for _ in range(n)]
    if not impl:
        return
    flaky = collections.Counter()
    iout = rtlib.run_engine(impl, "realloc", reqs, timeout=600, stats=flaky)
    c.cov["batch_runner_confirmations"] = dict(flaky)
    def nontriv(r, o): return "=blk:1:1:R(" in o
    if model:
        mout = run_lines([model], [r + "\t" + o for r, o in zip(reqs, iout)], timeout=600)
        manswers = [m.split("\t")[0] for m in mout]
        c.compare("realloc", reqs, iout, manswers, nontrivial=nontriv)
        for r, o, m in zip(reqs, iout, mout):
            verdict = m.split("\t")[1] if "\t" in m else "spec=missing"
            if verdict == "spec=ok":
                continue
            classes = sorted({f.split("@")[0] for f in verdict.split(":", 1)[1].split(",")}) if verdict.startswith("spec=fail:") else ["missing"]
            if "write-outside-allocation" in o:
                # the guard bytes around a block changed: the end token names the first changed byte
                detail = o.rsplit("write-outside-allocation", 1)[1]
                c.spec_violation("realloc-write-outside-allocation",
                                 "an allocation entry point wrote outside the block it owns (guard bytes before/after the block changed; "
                                 "offset relative to the block start and block size: " + detail + ")",
                                 {"request": r, "impl": o, "verdict": verdict, "first_changed_byte": detail})
                continue
            for k in classes:
                if k == "shrink-to-zero":
                    # cannot happen: the generator and the corpus stay inside the documented precondition
                    c.broken.append(("generator produced a request outside the precondition of cabi_realloc", r))
                else:
                    c.spec_violation("realloc-" + k,
                                     "allocation entry point violates the C24 monitor (null / misaligned / wrong allocator call / "
                                     "contents lost / Cleanup null-iff-zero or freed-once broken)",
                                     {"request": r, "impl": o, "model": m.split("\t")[0], "verdict": verdict})
        # outside the precondition (recorded, never judged, not part of the correspondence either)
        outs = [gen_outside(c.rng) for _ in range(200)]
        oo = rtlib.run_engine(impl, "realloc", outs, timeout=120)
        c.cov["outside_precondition"] = {
            "what": "cabi_realloc(ptr, old_len > 0, align, 0): outside the precondition the code documents (debug_assert_ne!); "
                    "outcomes recorded only",
            "requests": len(outs),
            "outcomes": dict(collections.Counter(o.split(" ")[1].split(":")[0] if len(o.split(" ")) > 1 else o for o in oo)),
        }
    else:
        # model unavailable: minimal python transcription of the monitor as the search fallback
        for r, o in zip(reqs, iout):
            c.evaluations += 1
            toks = o.split(" ")
            bad = [t for t in toks[:-1] if t.endswith("=panic") or ":0:" in t.split("=")[1][:12] or "null" in t.split("=")[1].split(":")[0] and t[0] == "r"
                   or "bad" in t or not t.endswith(":0")]
            if bad or not toks[-1].endswith(":0"):
                c.spec_violation("realloc-monitor", "allocation entry point violates the C24 monitor (python fallback)", {"request": r, "impl": o})
    for r, o in list(zip(reqs, iout))[ncorpus:ncorpus + 3]:
        c.sample({"history": r, "impl": o})
    c.cov["input_distribution"] = dict(sorted(stats.items()))
    c.cov["histories"] = {"corpus": ncorpus - len(grid), "grid_odd_sizes_x_alignments": len(grid), "seeded": n, "max_ops": maxlen}
    c.cov["guard_bytes"] = ("16 canary bytes directly before and after every block handed out by the checking allocator (size not rounded up, "
                            "requested alignment kept), verified at every dealloc/realloc; grid: sizes %s x alignments 2^0..2^16" % ODD_SIZES)
    c.cov["search"] = ("ReallocSpec.stepOk/endOk (Lean, spec side) evaluated on the implementation's observations for every "
                       "history of this run (all inside the documented precondition of cabi_realloc)")
    c.assumptions += [
        "the global allocator is a parameter: theorems assume the GlobalAlloc contract (Lawful A); the run uses std's System allocator behind a checking wrapper",
        "allocation failure (null from the allocator) is modelled as abort and not exercised on the real code (handle_alloc_error aborts the process)",
        "domain: a non-empty block is never resized to zero — the precondition cabi_realloc documents (debug_assert_ne!, `histPre` in the model); canonical-ABI hosts do not issue such a request; a separate stream records (without judging) what the code does there",
        "that the poison loop of Cleanup::drop (and every other write of the entry points) stays inside [ptr, ptr+size) is checked on the real code by the guard-byte monitor; the Lean theorem cleanup_drop_writes_within_block is about the model's loop bound",
        "pointers/sizes are Nat (no usize overflow); alignments are powers of two 2^0..2^16, sizes 0..2^20 as in the property",
        "`cabi_realloc` and `cabi_dealloc` are compiled from the working-tree text cut out by harness/rt-native/build.rs (the item is cfg'd out / a generator template natively); Cleanup and the wrapper are linked/included unchanged",
        "native x86-64 only (pointer width 8)",
    ]
