"""Shared machinery of the shared-ABI-generator checks C01, C02, C03, C04, C16(core).

Model: lean/Witverif/Abi/{Types,Layout,Tree,Gen}.lean (model of crates/core/src/abi.rs producing
the *tree form* of the instruction stream), Spec.lean (canonical ABI), Sem.lean (reference
machine), Validate.lean (property monitors).  Tie: harness/abi-trace drives the REAL generator
through its public API with a recording Bindgen and prints the tree form; `m_abi` prints the
model's; exact text equality.  Search on break / validation: the monitors are evaluated on the
REAL trees for seeded values and both pointer widths.
"""
import os, sys, subprocess, hashlib, json
from concurrent.futures import ThreadPoolExecutor
from vlib import VERIF, BUILD, sh, run_lines
import witgen, abivals

# (variant, direction, async) combinations that guest backends actually use + the host-side duals
USED_CALLS = {("GuestImport", "lower", "sync"), ("GuestExport", "lift", "sync"),
              ("GuestExportAsync", "lift", "async"),
              # C# exports async functions through GuestExport with async_ = true (crates/csharp/src/interface.rs)
              ("GuestExport", "lift", "async")}
# (Go calls abi::call for imports only in its non-async branch, i.e. with GuestImport; async imports of Go,
#  Rust and MoonBit are written by hand in the backends and do not go through Generator::call.)
HOST_CALLS = {("GuestExport", "lower", "sync"), ("GuestImport", "lift", "sync")}


def norm(x):
    return "panic" if x.startswith("panic") else x


def gen_worlds(c, n, depth, nfuncs, max_params, extra_corpus=()):
    d = os.path.join(BUILD, "abi", c.pid)
    os.makedirs(d, exist_ok=True)
    paths, stats = [], {}
    for i in range(n):
        text, st = witgen.gen_world(c.rng, nfuncs=nfuncs, max_depth=depth, max_params=max_params)
        p = os.path.join(d, f"w{i}.wit")
        open(p, "w").write(text)
        paths.append(p)
        for k, v in st.items(): stats[k] = stats.get(k, 0) + v
    # fixed boundary corpus worlds (replayed first)
    cdir = os.path.join(VERIF, "corpus", "abi")
    corpus = sorted(os.path.join(cdir, f) for f in os.listdir(cdir) if f.endswith(".wit")) if os.path.isdir(cdir) else []
    for sub in extra_corpus:
        xd = os.path.join(VERIF, "corpus", sub)
        corpus += sorted(os.path.join(xd, f) for f in os.listdir(xd) if f.endswith(".wit"))
    return corpus + paths, stats


def trace(c, exe, paths):
    """run the real generator on every world; returns list of (key, result, world)"""
    def one(p):
        rc, out = sh([exe, p], timeout=600)
        return p, rc, out
    cases, failed = [], []
    with ThreadPoolExecutor(16) as ex:
        for p, rc, out in ex.map(one, paths):
            if rc != 0:
                failed.append((p, out[-300:])); continue
            for line in out.split("\n"):
                if "\t" in line:
                    k, v = line.split("\t", 1)
                    cases.append((k, v, p))
    rc, out = sh([exe, "--casts"])
    for line in out.split("\n"):
        if "\t" in line:
            k, v = line.split("\t", 1); cases.append((k, v, "--casts"))
    return cases, failed


def select(cases, prefixes):
    seen, out = set(), []
    for k, v, w in cases:
        if k.split("|")[0] in prefixes and k not in seen:
            seen.add(k); out.append((k, v, w))
    return out


def corr(c, name, cases, model):
    keys = [k for k, _, _ in cases]
    impl = [norm(v) for _, v, _ in cases]
    mout = [norm(x) for x in run_lines([model], keys, timeout=600)]
    def nontrivial(k, v):
        return v != "panic" and ("(" in k.split("|")[-1])
    return c.compare(name, keys, impl, mout, nontrivial=nontrivial)


def eval_requests(c, cases, nvals, widths=(4, 8)):
    """monitor requests for lower/lift/dealloc trees"""
    reqs, meta = [], []
    for k, v, w in cases:
        f = k.split("|")
        if not v.startswith("{"): continue
        if f[0] in ("lowerflat", "lowermem", "liftmem"):
            kind, t = f[0], f[2]
        elif f[0] == "dealloc":
            kind, t = f"dealloc-{f[1]}-{f[2]}", f[3]
        else:
            continue
        tt = abivals.parse(t)
        for p in widths:
            for j in range(nvals):
                val = abivals.gen(c.rng, tt, edge=(j == 0))
                reqs.append(f"eval|{kind}|{p}|{t}|{val}|{v}")
                meta.append({"key": k, "kind": kind, "ptr": p, "type": t, "value": val, "world": w})
    return reqs, meta


def call_requests(c, cases, nvals, combos, widths=(4, 8)):
    reqs, meta = [], []
    for k, v, w in cases:
        f = k.split("|")
        if f[0] != "call" or not v.startswith("{"): continue
        if (f[1], f[2], f[3]) not in combos: continue
        ft = abivals.parse(f[5])
        for p in widths:
            for j in range(nvals):
                vals = "(r" + "".join(" " + abivals.gen(c.rng, t, edge=(j == 0)) for t in ft[2]) + ")"
                rv = "_" if ft[3] == "_" else abivals.gen(c.rng, ft[3], edge=(j == 0))
                reqs.append(f"evalcall|{f[1]}|{f[2]}|{f[3]}|{p}|{f[5]}|{vals}|{rv}|{v}")
                meta.append({"key": k, "kind": "call", "ptr": p, "func": f[5], "params": vals, "result": rv,
                             "variant": f[1], "dir": f[2], "async": f[3], "world": w})
    return reqs, meta


def run_monitors(c, model, reqs, meta, classify):
    """evaluate the Lean monitors on the real trees; every FAIL is a concrete failing input"""
    # evaluated in chunks, each with a time and an address-space limit: on a broken implementation a tree
    # may make the reference machine iterate over a garbage "length" read from the wrong place
    out = []
    CH = 400
    for i in range(0, len(reqs), CH):
        out += run_lines([model], reqs[i:i + CH], timeout=300, mem_gb=6)
    hist = {}
    for r, m, o in zip(reqs, meta, out):
        c.evaluations += 1
        c.nontrivial.add(hashlib.sha1(r.encode()).hexdigest())
        tag = o.split(" ")[0]
        hist[(m["kind"], tag)] = hist.get((m["kind"], tag), 0) + 1
        if o == "ok": continue
        if o in ("bad-value",):
            c.broken.append(("value generator produced an ill-typed value", r[:300])); continue
        klass, what = classify(m, o)
        w = dict(m); w["verdict"] = o; w["request"] = r if len(r) < 20000 else r[:20000] + "…"
        c.spec_violation(klass, what, w)
    c.cov.setdefault("monitor_histogram", {}).update({f"{k[0]}:{k[1]}": v for k, v in hist.items()})
    return out


def constructor_histogram(cases):
    h = {}
    for k, _, _ in cases:
        t = k.split("|")[-1]
        for name in ("list", "flist", "map", "record", "tuple", "flags", "enum", "variant", "option", "result",
                     "own", "borrow", "future", "stream", "string", "errctx", "f32", "f64", "char", "bool"):
            if name in t: h[name] = h.get(name, 0) + 1
    return h


def setup(c, props_module, allow_bv=False):
    ok = c.lake_build([props_module])
    if ok: c.audit(props_module, allow_bv_decide=allow_bv)
    if c.tier == "thorough" and ok: c.leanchecker(props_module)
    model = c.model_exe("m_abi")
    exe = c.cargo_build("abi-trace")
    return model, exe


def tier_params(c):
    if c.tier == "quick":
        return dict(n=10, depth=4, nfuncs=6, max_params=5, nvals=2)
    return dict(n=150, depth=5, nfuncs=8, max_params=20, nvals=4)


def write_corpus_world():
    """boundary world replayed first by every ABI check (created once; committed)"""
    cdir = os.path.join(VERIF, "corpus", "abi")
    os.makedirs(cdir, exist_ok=True)
