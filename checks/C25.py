"""C25 — Source buffer (wit_bindgen_core::Source, crates/core/src/source.rs).
Model: lean/Witverif/Text/Source.lean (+ Rust str primitives lean/Witverif/Text/RustStr.lean),
theorems: lean/Witverif/Props/C25.lean, tie: `text-run source` vs `m_source` (exact traces),
glue tie: `text-run ruststr` vs `m_source str` (Rust std string functions vs RustStr),
spec monitors: SourceSpec.monitor / literalPairOk evaluated by m_source on the implementation's outputs."""
import os, json
from vlib import run_lines, VERIF

def hx(s): return s.encode().hex() if s else "-"
def unhx(h): return "" if h == "-" else bytes.fromhex(h).decode()

WHITE = [0x9, 0xA, 0xB, 0xC, 0xD, 0x20, 0x85, 0xA0, 0x1680] + list(range(0x2000, 0x200B)) + \
        [0x2028, 0x2029, 0x202F, 0x205F, 0x3000]

# ------------------------------------------------------------------ generator (histories)
CODE = ["fn f() {", "}", "} else {", "let x = 1;", "// note {", "// }", "x // trailing {", "{", "};", "{}",
        "if (a) { b }", "match v {", "},", "x", "y();", "/", "/ /", "//", "/// doc", "é {", "}é", "a{b", "} // c",
        "{ // c", "#[x]", "struct S {", ")", "({", "})", "x = {", " x ", "a b", "}}", "{{"]
LEAD = ["", "", "", "  ", " ", "\t", "    ", " ", "　 "]
TRAIL = ["", "", "", "", "", " ", "  ", "   ", "\t", "\r"]

def gen_line(rng, depth):
    r = rng.random()
    if r < 0.08: return ""
    if r < 0.12: return rng.choice(["  ", " ", "\t", "   "])
    if depth[0] <= 0 and rng.random() < 0.8:
        body = rng.choice([c for c in CODE if not c.lstrip().startswith("}")])
    else:
        body = rng.choice(CODE)
    t = body.strip()
    if not t.startswith("//"):
        if t.endswith("{"): depth[0] += 1
        if t.startswith("}"): depth[0] -= 1
    return rng.choice(LEAD) + body + rng.choice(TRAIL)

def gen_fragment(rng, depth):
    n = rng.choice([1, 1, 1, 2, 2, 3, 4])
    out = ""
    for i in range(n):
        out += gen_line(rng, depth)
        last = i == n - 1
        r = rng.random()
        if last and r < 0.3: pass
        elif r < 0.96: out += "\n"
        else: out += "\r\n"
    return out

def gen_balanced(rng):
    """a properly nested block as one fragment"""
    def block(d):
        s = rng.choice(["fn f() {", "if (x) {", "{", "x = {"]) + "\n"
        for _ in range(rng.randint(0, 2)):
            s += rng.choice(["y;", "// z {", "", "  w"]) + "\n" if d > 1 or rng.random() < 0.6 else block(d + 1)
        if rng.random() < 0.3: s += "} else {\n" + "q;\n"
        return s + rng.choice(["}", "};", "} // end"]) + "\n"
    return block(0)

def gen_ops(rng, maxlen, depth, nest=0):
    n = rng.randint(1, maxlen)
    ops, pending = [], None
    for _ in range(n):
        r = rng.random()
        if pending is not None:
            ops.append(("p", pending)); pending = None; continue
        if r < 0.46:
            f = gen_fragment(rng, depth)
            if len(f) > 2 and rng.random() < 0.3:          # a fragment that splits a line
                k = rng.randint(1, len(f) - 1)
                ops.append(("p", f[:k])); pending = f[k:]
            else:
                ops.append(("p", f))
        elif r < 0.53: ops.append(("p", gen_balanced(rng)))
        elif r < 0.63: ops.append(("l", gen_fragment(rng, [1])))
        elif r < 0.70: ops.append(("w", gen_fragment(rng, depth)))
        elif r < 0.77: ops.append(("W", gen_fragment(rng, depth).rstrip("\n")))
        elif r < 0.82: k = rng.randint(0, 2); depth[0] += k; ops.append(("i", k))
        elif r < 0.88:
            k = rng.randint(0, 2)
            if rng.random() < 0.9: k = min(k, max(depth[0], 0))
            depth[0] -= k; ops.append(("d", k))
        elif r < 0.91: k = rng.randint(0, 3); depth[0] = k; ops.append(("s", k))
        elif nest < 2:
            sub_depth = [0]
            sub = gen_ops(rng, 4, sub_depth, nest + 1)
            if rng.random() < 0.8:
                # keep the sub-buffer and the parent on a line boundary (the spec's domain of append_src)
                sub.append(("p", "\n"))
                ops.append(("p", "\n"))
            depth[0] += max(sub_depth[0], 0)
            ops.append(("[", sub))
        else: ops.append(("p", "x\n"))
    if pending is not None: ops.append(("p", pending))
    return ops

def toks(ops):
    out = []
    for k, v in ops:
        if k == "[": out += ["["] + toks(v) + ["]"]
        elif k in "plwW": out.append(k + ":" + hx(v))
        else: out.append(f"{k}:{v}")
    return out

def gen_history(rng, maxlen):
    return " ".join(toks(gen_ops(rng, maxlen, [0])))

# ------------------------------------------------------------------ w/W → effective push_str requests
def effective(req, ans):
    """Replace w/W tokens by the push_str fragments that std::fmt actually delivered to
    Source::write_str (observed by the harness).  Returns (eff request, eff impl trace, fmt_ok)."""
    rt = req.split(" ")
    # align the answer tokens with the top-level request tokens
    top, depth = [], 0
    for i, t in enumerate(rt):
        if t == "[": depth += 1
        elif t == "]":
            depth -= 1
            if depth == 0: top.append(i)
        elif depth == 0: top.append(i)
    at = ans.split(" ") if ans else []
    eff_req, eff_ans, fmt_ok = list(rt), [], True
    for j, a in enumerate(at):
        if j >= len(top): return None
        i = top[j]; t = rt[i]
        if t[:2] in ("w:", "W:") and a != "P":
            want = unhx(t[2:]) + ("\n" if t[0] == "W" else "")
            frs, obs = [], []
            if a != "w0":
                for e in a.split("|"):
                    f = e.split(":")
                    if len(f) != 3 or not f[2].startswith("f"): return None
                    frs.append(f[2][1:]); obs.append(f[0] + ":" + f[1])
            if "".join(unhx(f) for f in frs) != want: fmt_ok = False
            eff_req[i] = " ".join("p:" + f for f in frs)
            eff_ans += obs
        else:
            eff_ans.append(a)
    # top-level w/W tokens beyond the answered prefix (after a panic) stay unanswered: turn them into push_str
    for j in range(len(at), len(top)):
        t = rt[top[j]]
        if t[:2] in ("w:", "W:"): eff_req[top[j]] = "p:" + t[2:]
    # w/W inside sub-buffers: write! there is one push_str of the text (+ one of "\n")
    for i, t in enumerate(eff_req):
        if t[:2] == "w:": eff_req[i] = "p:" + t[2:]
        elif t[:2] == "W:": eff_req[i] = "p:" + t[2:] + " p:0a"
    return " ".join(x for x in eff_req if x), " ".join(eff_ans), fmt_ok

def decode(req):
    out = []
    for t in req.split(" "):
        if t in "[]": out.append(t)
        elif t[0] in "plwW": out.append(t[0] + ":" + repr(unhx(t[2:])))
        else: out.append(t)
    return out

CLASS = {"cr": "source-cr-dropped", "trim": "source-midline-trim", "pop": "source-midline-pop",
         "stale": "source-append-src-stale-indent"}
WHAT = {
    "source-cr-dropped": "Source drops a CR in front of LF (content not preserved)",
    "source-midline-trim": "Source drops leading whitespace of a multi-line fragment appended mid-line",
    "source-midline-pop": "Source drops two spaces in front of a closing brace appended mid-line",
    "source-append-src-stale-indent": "after append_src of a buffer that ends mid-line onto a buffer at a line start the next push writes indentation into the middle of the line",
    "source-split-line-brace": "indentation follows braces at the ends/starts of fragment pieces, not of buffer lines, when a line is assembled from several fragments",
    "source-buffer-line-level": "indentation level differs from the nesting of braces at the ends/starts of the buffer's lines although no line was assembled from several fragments",
    "source-content-other": "Source lost or changed appended text in a way not covered by the known classes",
    "source-level": "indentation level differs from (explicit indents + opening - closing fragment lines outside line comments)",
    "source-line-indent": "a line begun at nesting level L is not indented by 2*L spaces (one level less for a closing line)",
    "source-literal": "push_str_literal changed the indentation level",
    "source-literal-influence": "the content of literal text influenced later output or indentation",
    "source-balanced": "appending a brace-balanced fragment did not restore the indentation level",
    "source-api": "deindent below zero did not panic / set_indent did not return the old level",
    "source-monitor-malformed": "the implementation's answer could not be monitored (short or malformed)",
}

def str_requests(rng, n):
    """glue correspondence requests for the Rust str primitives"""
    alpha = ["\n", "\n", "\r", "\r\n", " ", "  ", "\t", "a", "b", "{", "}", "/", "//", "é", " ", " ",
             " ", "\u0085", "\u000b", "\u000c", "​", "᠎", "　", "x", "\U0001F600"]
    reqs = []
    pts = set()
    for w in WHITE + [0x0, 0x1F, 0x20, 0x7E, 0x7F, 0x80, 0x9F, 0xA0, 0x180E, 0x200B, 0x200C, 0x2060, 0xFEFF, 0x1FFF,
                      0x167F, 0x1681, 0x2027, 0x202A, 0x202E, 0x2030, 0x205E, 0x2060, 0x2FFF, 0x3001, 0x84, 0x86]:
        for d in (-1, 0, 1):
            if 0 <= w + d < 0xD800: pts.add(w + d)
    cps = "".join(chr(p) for p in sorted(pts) if p != 0xA)
    for i in range(0, len(cps), 16):
        reqs.append("white " + hx(cps[i:i + 16])); reqs.append("control " + hx(cps[i:i + 16]))
    reqs.append("white " + hx("".join(chr(p) for p in range(1, 0x100) if p != 0xA)))
    reqs.append("control " + hx("".join(chr(p) for p in range(1, 0x100) if p != 0xA)))
    fixed = ["", "\n", "\r\n", "\r", "a\r", "a\r\n", "a\r\r\n", "\n\n", "a\nb", "a\n", "\na", " a ", " a　",
             "  ", "a  ", "}", " }", "{ ", "//", " //x", "a\r\nb\r\n", "\r\n\r\n", "\n\r", "\r\n\r", "é", "  é"]
    strs = fixed + ["".join(rng.choice(alpha) for _ in range(rng.randint(0, 9))) for _ in range(n)]
    pats = ["//", "}", "{", "  ", "\n", " ", "é", "", "a", "\r\n"]
    for s in strs:
        for fn in ("lines", "splitnl", "trim", "trim_start", "trim_end", "pop2"):
            reqs.append(f"{fn} {hx(s)}")
        p = rng.choice(pats)
        reqs.append(f"starts_with {hx(s)} {hx(p)}"); reqs.append(f"ends_with {hx(s)} {hx(p)}")
        ch = rng.choice(["}", "{", "\n", " ", "é", "/"])
        reqs.append(f"starts_with_char {hx(s)} {hx(ch)}"); reqs.append(f"ends_with_char {hx(s)} {hx(ch)}")
    return reqs

def literal_variants(model, reqs, effs):
    """(3b) for every history with a top-level literal op: the same history with the literal text neutralised"""
    jobs = []
    for idx, (r, e) in enumerate(zip(reqs, effs)):
        if e is None: continue
        eff_req = e[0]
        ts = eff_req.split(" ")
        depth, lits = 0, []
        for i, t in enumerate(ts):
            if t == "[": depth += 1
            elif t == "]": depth -= 1
            elif depth == 0 and t.startswith("l:") and unhx(t[2:]).strip(): lits.append(i)
        if lits: jobs.append((idx, ts, lits))
    return jobs

def run(c):
    c.rule = ("histories of push_str/push_str_literal/write!/writeln!/indent/deindent/set_indent/append_src over code-like "
              "fragments (braces at line starts/ends/middles, // comments, blank and whitespace-only lines, CRLF, Unicode "
              "White_Space, fragments split mid-line); non-trivial = the history changes the indentation level through "
              "brace interpretation at least once or hits a content-loss class; distinct by request text")
    ok = c.lake_build(["Witverif.Props.C25"])
    if ok: c.audit("Witverif.Props.C25")
    if c.tier == "thorough" and ok: c.leanchecker("Witverif.Props.C25")
    model = c.model_exe("m_source")
    impl = os.environ.get("VERIF_C25_IMPL") or c.cargo_build("text-run")
    if os.environ.get("VERIF_C25_IMPL"): c.notes.append("implementation binary overridden by VERIF_C25_IMPL (self-test of the check)")
    n = 4000 if c.tier == "quick" else 80000
    maxlen = 10 if c.tier == "quick" else 24
    if not impl or not model:
        c.notes.append("harness or model driver did not build: no correspondence / monitor evaluation possible")
        return

    # ---------------------------------------------------------------- glue: Rust str primitives
    sreqs = str_requests(c.rng, 1500 if c.tier == "quick" else 20000)
    si = run_lines([impl, "ruststr"], sreqs, timeout=120)
    sm = run_lines([model], ["str\t" + r for r in sreqs], timeout=300)
    c.compare("ruststr(glue)", sreqs, si, sm)
    fns = {}
    for r in sreqs: fns[r.split(" ")[0]] = fns.get(r.split(" ")[0], 0) + 1
    c.cov["glue_ruststr"] = {"requests_per_function": fns,
                             "note": "Rust std str::lines/split_inclusive/trim*/starts_with/ends_with/char::is_whitespace/is_control/String::pop vs RustStr.lean"}

    # ---------------------------------------------------------------- histories
    reqs = []
    cp = os.path.join(VERIF, "corpus", "C25.txt")
    ncorpus = 0
    if os.path.exists(cp):
        for l in open(cp):
            l = l.rstrip("\n")
            if l.strip() and not l.startswith("#"): reqs.append(l); ncorpus += 1
    if c.replay and "witness" in c.replay and "request" in c.replay["witness"]:
        reqs.insert(0, c.replay["witness"]["request"])
    reqs += [gen_history(c.rng, maxlen) for _ in range(n)]
    iout = run_lines([impl, "source"], reqs, timeout=300)
    effs = [effective(r, a) if a not in ("crash", "timeout", "bad-op") else None for r, a in zip(reqs, iout)]
    mreqs, keep = [], []
    for i, e in enumerate(effs):
        if e is None:
            c.broken.append(("corr:source", f"implementation did not answer request {reqs[i]!r}: {iout[i][:200]}"))
            continue
        if not e[2]:
            c.broken.append(("corr:source-fmt", f"write!/writeln! did not deliver the text as push_str pieces: {reqs[i]} -> {iout[i][:300]}"))
        mreqs.append(e[0] + "\t" + e[1]); keep.append(i)
    mout = run_lines([model], mreqs, timeout=600)
    stats = {"ops": 0, "histories": len(keep), "verdicts": {}, "level_checked_ops": 0, "balanced_checked_ops": 0,
             "panics": 0, "op_kinds": {}, "fragments_multiline": 0, "fragments_crlf": 0, "max_indent": 0,
             "histories_with_subbuffer": 0, "histories_level_defined_throughout": 0}
    def nontriv(r, o):
        inds = [t.split(":")[0] for t in o.split(" ") if t and t != "P"]
        return len(set(inds)) > 1
    c.compare("source", [mreqs[j].split("\t")[0] for j in range(len(keep))],
              [mreqs[j].split("\t")[1] for j in range(len(keep))],
              [m.split("\t")[0] for m in mout], nontrivial=nontriv)
    per_class = {}
    def viol(klass, req, eff_req, impl_ans, k, verdict):
        per_class[klass] = per_class.get(klass, 0) + 1
        if per_class[klass] <= 3:
            c.spec_violation(klass, WHAT[klass], {"request": req, "effective_request": eff_req, "decoded": decode(eff_req),
                                                  "impl": impl_ans, "failing_op_index": k, "verdict": verdict})
    for j, m in enumerate(mout):
        i = keep[j]
        eff_req, eff_ans = mreqs[j].split("\t")
        for t in eff_req.split(" "):
            kd = t[0]; stats["op_kinds"][kd] = stats["op_kinds"].get(kd, 0) + 1
            if kd in "pl":
                s = unhx(t[2:])
                if "\n" in s[:-1]: stats["fragments_multiline"] += 1
                if "\r\n" in s: stats["fragments_crlf"] += 1
        if "[" in eff_req: stats["histories_with_subbuffer"] += 1
        parts = m.split("\t")
        if len(parts) != 2 or not parts[1].startswith("spec=") or parts[1].startswith("spec=malformed") or parts[1].startswith("spec=short"):
            viol("source-monitor-malformed", reqs[i], eff_req, eff_ans, -1, parts[1] if len(parts) > 1 else m[:200])
            continue
        vs = [v for v in parts[1][5:].split(" ") if v]
        obs = eff_ans.split(" ") if eff_ans else []
        all_l = True
        for k, v in enumerate(vs):
            stats["ops"] += 1
            status, flags = v.split("/")
            if "L" in flags: stats["level_checked_ops"] += 1
            else: all_l = False
            if "B" in flags: stats["balanced_checked_ops"] += 1
            if "W" in flags: stats["buffer_line_checked_ops"] = stats.get("buffer_line_checked_ops", 0) + 1
            if k < len(obs) and obs[k] == "P": stats["panics"] += 1
            elif k < len(obs): stats["max_indent"] = max(stats["max_indent"], int(obs[k].split(":")[0]))
            stats["verdicts"][status] = stats["verdicts"].get(status, 0) + 1
            if status == "ok": continue
            for f in status.split(","):
                if f.startswith("content:"):
                    kinds = f[8:]
                    if kinds == "other": viol("source-content-other", reqs[i], eff_req, eff_ans, k, v)
                    else:
                        for kk in kinds.split("+"): viol(CLASS[kk], reqs[i], eff_req, eff_ans, k, v)
                        c.nontrivial.add("loss:" + eff_req)
                elif f == "bufline:split": viol("source-split-line-brace", reqs[i], eff_req, eff_ans, k, v)
                elif f == "bufline:other": viol("source-buffer-line-level", reqs[i], eff_req, eff_ans, k, v)
                else:
                    viol({"level": "source-level", "lineindent": "source-line-indent", "literal": "source-literal",
                          "balanced": "source-balanced", "api": "source-api"}[f], reqs[i], eff_req, eff_ans, k, v)
        if all_l: stats["histories_level_defined_throughout"] += 1
    stats["spec_failures_by_class"] = per_class

    # ---------------------------------------------------------------- (3b) literal text influences nothing but itself
    jobs = literal_variants(model, reqs, effs)
    if c.tier == "quick": jobs = jobs[:1500]
    neu_reqs = []
    for idx, ts, lits in jobs:
        # neutral(t): non-whitespace -> 'x' (whitespace = the 25 White_Space code points, same list as RustStr.isWhite,
        # itself compared with char::is_whitespace in the glue run)
        ts2 = list(ts)
        for i in lits:
            s = unhx(ts[i][2:])
            ts2[i] = "l:" + hx("".join(ch if ord(ch) in WHITE else "x" for ch in s))
        neu_reqs.append(" ".join(ts2))
    nout = run_lines([impl, "source"], neu_reqs, timeout=300)
    lit_lines, lit_meta = [], []
    for (idx, ts, lits), nr, na in zip(jobs, neu_reqs, nout):
        a_ans = effs[idx][1].split(" ") if effs[idx][1] else []
        b_ans = na.split(" ") if na else []
        if len(a_ans) != len(b_ans):
            per_class["source-literal-influence"] = per_class.get("source-literal-influence", 0) + 1
            c.spec_violation("source-literal-influence", WHAT["source-literal-influence"],
                             {"request": effs[idx][0], "decoded": decode(effs[idx][0]), "neutralised_request": nr,
                              "why": "different number of answers", "impl": effs[idx][1], "impl_neutralised": na})
            continue
        for k, (x, y) in enumerate(zip(a_ans, b_ans)):
            lit_lines.append("lit\t" + ":".join(x.split(":")[:2]) + "\t" + ":".join(y.split(":")[:2]))
            lit_meta.append((idx, nr, k, na))
    lout = run_lines([model], lit_lines, timeout=300)
    for (idx, nr, k, na), l, v in zip(lit_meta, lit_lines, lout):
        c.evaluations += 1
        if v != "ok":
            per_class["source-literal-influence"] = per_class.get("source-literal-influence", 0) + 1
            if per_class["source-literal-influence"] <= 3:
                c.spec_violation("source-literal-influence", WHAT["source-literal-influence"],
                                 {"request": effs[idx][0], "decoded": decode(effs[idx][0]), "neutralised_request": nr,
                                  "failing_op_index": k, "impl": effs[idx][1], "impl_neutralised": na, "verdict": v})
    stats["literal_metamorphic_histories"] = len(jobs); stats["literal_metamorphic_observation_pairs"] = len(lit_lines)
    c.cov["histories"] = stats
    c.cov["corpus_cases"] = ncorpus
    for j in range(min(3, len(keep))):
        c.sample({"history": decode(mreqs[j].split("\t")[0]), "impl": mreqs[j].split("\t")[1][:400],
                  "verdicts": mout[j].split("\t")[1] if "\t" in mout[j] else mout[j]})
    c.cov["search"] = ("SourceSpec.monitorAll (content / level / line-indent / whole-buffer-line level / literal / balanced / api monitors, Lean, spec side) "
                       "evaluated on the implementation's observed buffer and probed level after every top-level operation, "
                       "plus the metamorphic literal monitor SourceSpec.literalPairOk on pairs of implementation runs")
    c.assumptions += [
        "usize indentation modelled as Nat (no wrap of += after 2^64)",
        "Source::as_mut_string (raw mutable access to the buffer) is outside the model and the property",
        "claim (2) is judged in both readings: per fragment piece (what the code does; proved) and over the lines of the buffer "
        "(the property's literal wording; false when a line is assembled from several fragments: known finding "
        "source-split-line-brace, any other disagreement is a violation)",
        "nesting-level claims (2) are made for histories without a closing line at level 0 (saturating_sub path: nesting undefined); "
        "after an append_src off a line boundary (append_src does not take over continuing_line / takes over in_line_comment) the "
        "content, literal and deindent/set_indent monitors keep judging every operation (known finding "
        "source-append-src-stale-indent for the indentation it then writes mid-line), the nesting monitors stop because the appended "
        "buffer's comment and line state cannot be observed; the exact model/implementation correspondence continues",
        "Rust str primitives are modelled in RustStr.lean and validated against std in the separate glue correspondence",
    ]
