"""C16 — generators handle every valid world without panicking (except on declared-unsupported features).
Core half (abi.rs): Props/C16.lean + abi-trace under catch_unwind.  Backend half: checks/c16_backends.py."""
import os, importlib.util
import abi_common as A
import abivals

def flat_len(c, model, types):
    from vlib import run_lines
    out = run_lines([model], [f"flat|100000|{t}" for t in types])
    return {t: (0 if o in ("-", "none") else len(o.split(","))) for t, o in zip(types, out)}

def run(c):
    c.rule = ("core: every public entry point of wit_bindgen_core::abi on every type/function of seeded worlds + boundary corpus "
              "under catch_unwind; a panic is allowed only where the model says so AND the case is outside what backends use "
              "(flat lowering beyond 16 slots, the documented todo! arms: async direct param lowering, stackful exports, "
              "fixed-length lists in direct deallocation). non-trivial = structured type; distinct by request text")
    model, exe = A.setup(c, "Witverif.Props.C16")
    if exe and model:
        tp = A.tier_params(c)
        paths, stats = A.gen_worlds(c, tp["n"], tp["depth"], tp["nfuncs"], tp["max_params"])
        cases, failed = A.trace(c, exe, paths)
        if failed: c.broken.append(("abi-trace failed on generated world", str(failed[:2])))
        sel = A.select(cases, {"lowerflat", "lowermem", "liftmem", "dealloc", "postret", "call", "needs"})
        A.corr(c, "abi-trace:panics-and-trees", sel, model)
        needs = {k.split("|", 1)[1]: v for k, v, _ in sel if k.startswith("needs|")}
        panics = [(k, v, w) for k, v, w in sel if v.startswith("panic")]
        types = sorted({k.split("|")[-1] for k, v, w in panics if k.split("|")[0] in ("lowerflat", "dealloc")})
        fl = flat_len(c, model, types) if types else {}
        hist = {}
        for k, v, w in panics:
            f = k.split("|")
            entry = f[0]
            allowed = None
            if entry == "lowerflat":
                allowed = fl.get(f[-1], 0) > 16 and "beyond-16-flat"
            elif entry == "dealloc":
                if f[2] == "direct":
                    allowed = fl.get(f[-1], 0) > 16 and "beyond-16-flat"     # (fixed-length lists: repaired, see known_findings fixed:)
            elif entry == "postret":
                allowed = (not needs.get(f[-1], "").startswith("postreturn=1")) and "post-return-not-requested"
            elif entry == "call":
                combo = (f[1], f[2], f[3])
                allowed = (combo not in A.USED_CALLS) and "combination-not-used-by-guest-backends"
            hist[f"{entry}:{allowed or 'VIOLATION'}"] = hist.get(f"{entry}:{allowed or 'VIOLATION'}", 0) + 1
            c.evaluations += 1
            if not allowed:
                c.spec_violation(f"core-panic:{entry}:{v}:" + ("|".join(f[1:-1])),
                                 f"abi::{entry} panics ({v}) on a supported input", {"key": k, "impl": v, "world": w})
        c.cov["core_panic_histogram"] = hist
        c.cov["generated_types"] = stats
        for k, v, _ in panics[:2]: c.sample({"request": k, "impl": v})
        if not panics: c.sample({"request": sel[0][0], "impl": sel[0][1][:200]})
    c.cov["partial_obligations"] = ["backend half: each backend's own Bindgen::emit arms are searched under catch_unwind, not proved"]
    c.cov["search"] = "every abi entry point under catch_unwind on seeded worlds; backend half: every generator under catch_unwind"
    c.assumptions += ["what counts as 'used by backends' for Generator::call is the set of (variant, direction, async) combinations read off the 13 abi::call call sites of crates/*/src (abi_common.USED_CALLS: import-lower-sync, export-lift-sync, GuestExportAsync-lift-async, C#'s GuestExport-lift-async); hand-maintained, not extracted"]
    bp = os.path.join(os.path.dirname(__file__), "c16_backends.py")
    if os.path.exists(bp):
        spec = importlib.util.spec_from_file_location("c16_backends", bp)
        mod = importlib.util.module_from_spec(spec); spec.loader.exec_module(mod)
        mod.run_backends(c)
    else:
        c.notes.append("backend half (checks/c16_backends.py) not present in this commit")
