"""C31 — generated C++ bindings are well-formed C++ (claimed PARTIALLY, DESIGN §11).
Theorems (lean/Witverif/Props/C31.lean) cover keyword escaping and injectivity of the C++ identifier / namespace mangling,
over the escape table extracted from crates/c/src/lib.rs `to_c_ident` (imported by crates/cpp) on every run.
g++ 12 (-std=c++23 -fsyntax-only, helper-types + test_headers on the include path) is used only to validate the model's
prediction "identifier-clean => accepted" and to search for failing inputs:
  * ident-functions: real to_c_ident / heck / validate_id  vs  m_ident, exact
  * worlds: tests/codegen corpus minus async worlds and the crates/test/src/cpp.rs exclusions, systematic single-fault
    adversarial worlds (every C++ keyword in kebab and UPPER spelling), seeded adversarial worlds."""
import os, re, json, glob, subprocess, collections, time, shutil, hashlib
from vlib import run_lines, sh, VERIF, REPO, BUILD, HARNESS
import ident_common as ic
from ident_common import hx, unhx, identgen

WORK = os.path.join(BUILD, "ident-cpp", str(os.getpid()))       # per process: concurrent runs must not share files
INCLUDES = [os.path.join(REPO, "crates", "cpp", "helper-types"), os.path.join(REPO, "crates", "cpp", "test_headers")]
EXCLUDED = {"issue1514-6.wit", "named-fixed-length-list.wit"}       # crates/test/src/cpp.rs should_fail_verify
OPTS = ["-", "own=borrowing"]

def gpp(dirpath, main_cpp):
    cmd = ["g++", "-std=c++23", "-fsyntax-only", "-fmax-errors=5", "-w", "-I", dirpath] + sum((["-I", i] for i in INCLUDES), []) + [main_cpp]
    r = subprocess.run(cmd, capture_output=True, text=True, timeout=900)
    diags = []
    def src_line(path, ln):
        try: return open(path, errors="replace").read().split("\n")[int(ln) - 1]
        except Exception: return ""
    for l in r.stderr.split("\n"):
        m = re.match(r"(.*?):(\d+):(\d+): (fatal error|error|note): (.*)$", l)
        if not m: continue
        if m.group(4) == "note":
            # notes belong to the preceding error: the declaration / definition they point at is part of what it names
            if diags: diags[-1]["span_text"] = (diags[-1]["span_text"] + " | " + src_line(m.group(1), m.group(2)))[:800]
            continue
        msg = m.group(5)
        ids = re.findall(r"[‘'`]([^’'`]+)[’']", msg)
        diags.append({"file": os.path.basename(m.group(1)), "line": int(m.group(2)), "message": msg[:200], "idents": ids,
                      "span_text": src_line(m.group(1), m.group(2))[:400]})
    return r.returncode == 0, diags

def predict(scopes, M):
    R = []
    for s in scopes:
        kind, names = s["kind"], [n for n in s["names"] if n in M]
        if kind in ("ifaces", "pkgns", "pkgname", "world"):      # namespace components
            for n in names:
                cid = M[n]["c"]
                if cid in HELPER_NAMESPACES:
                    R.append({"reason": "cpp-namespace-shadows-helper-namespace", "ident": cid, "names": [n], "scope": s["owner"]})
                if cid in RUNTIME_SYMBOLS:
                    R.append({"reason": "cpp-namespace-clashes-with-runtime-symbol", "ident": cid, "names": [n], "scope": s["owner"]})
        if kind in ("pkgname",): continue
        snake_pos = kind in ("params", "fields", "ifaces", "pkgns", "world")
        if snake_pos:
            for n in names:
                if M[n].get("ckw") == "1":
                    cls = "cpp-ident-keyword-uppercase" if n != n.lower() else ("cpp-ident-keyword-kebab" if "-" in n else "cpp-ident-keyword-other")
                    R.append({"reason": cls, "ident": M[n]["c"], "names": [n], "scope": s["owner"]})
            groups = ic.dup_groups([(n, M[n]["c"]) for n in names])
        else:
            groups = ic.dup_groups([(n, M[n]["pascal"]) for n in names])
        for ident, ns in groups.items():
            modcase = len({x.lower() for x in ns}) > 1
            cls = ("cpp-dup-snake" if snake_pos else "cpp-pascal-digit-merge") if modcase else "case-only-collision"
            R.append({"reason": cls, "ident": ident, "names": sorted(set(ns)), "scope": s["owner"]})
        if snake_pos:
            for n in names:
                if M[n]["c"] in LIBC_MACROS:
                    R.append({"reason": "cpp-libc-macro-name", "ident": M[n]["c"], "names": [n], "scope": s["owner"]})
        if snake_pos:      # parameters, fields and every namespace component (interfaces, package namespace, world)
            for n in names:
                if M[n]["c"] in STD_TYPEDEFS:
                    R.append({"reason": "cpp-std-typedef-shadow", "ident": M[n]["c"], "names": [n], "scope": s["owner"]})
        if kind == "params" and "self" in names:
            # (the receiver of a method was already removed by the scope extraction: this is a declared parameter)
            R.append({"reason": "cpp-param-named-self", "ident": "this", "names": ["self"], "scope": s["owner"]})
        if kind == "params":
            for n in names:
                if M[n].get("ctemp") == "1":
                    R.append({"reason": "cpp-temp-clash", "ident": M[n]["c"], "names": [n], "scope": s["owner"]})
    return R

# <cstddef>/<cstdint> typedef names the generated code uses unqualified inside function bodies
STD_TYPEDEFS = {"size_t", "uint8_t", "int8_t", "uint16_t", "int16_t", "uint32_t", "int32_t", "uint64_t", "int64_t", "uintptr_t", "intptr_t", "ptrdiff_t"}

# namespaces the generated code names without a leading `::` (`wit::string`, `std::variant`): a namespace component of
# that name, enclosing the use, captures them
HELPER_NAMESPACES = {"wit", "std"}
# extern "C" symbols the generated translation unit declares at global scope
RUNTIME_SYMBOLS = {"cabi_realloc"}
# object-like macros of the C library headers the generated code includes (to_c_ident escapes stdin/stdout/stderr only)
LIBC_MACROS = {"errno"}

def mentions(diag, ident):
    """the predicted identifier occurs, as a whole token, in the message or in the source line the compiler points at"""
    pat = re.compile(r"(?<![A-Za-z0-9_])" + re.escape(ident) + r"(?![A-Za-z0-9_])")
    return any(ident == i or pat.search(i) for i in diag["idents"]) or bool(pat.search(diag.get("span_text", ""))) or bool(pat.search(diag["message"]))

def qualify_reasons(meta):
    """Namespace-qualification hazards of a multi-package world (identgen.multi_pkg_world), by the rule the generator's
    `qualify` follows: a reference from namespace path `cur` to `target` is spelled `target[same:]` (same = common prefix),
    with a leading `::` only if same == 0 and (target[0] occurs in cur, or cur starts with `exports`).  C++ looks the first
    spelled component X up from the innermost enclosing namespace outwards, so the spelling is wrong whenever an enclosing
    namespace cur[:k] with k > same has a member named X (a declared namespace path with prefix cur[:k] + [X])."""
    if "names" not in meta: return []
    snake = lambda n: n.replace("-", "_")
    A, B, C, C2, D, E, F, G, H, I = [snake(x) for x in meta["names"]]
    decl = [[A, B, C], [D, E, F]]
    decl.append((["exports"] if meta["export"] else []) + [A, B, C2])
    if meta.get("sibling"): decl.append([A, B, snake(meta["sibling"])])
    if meta["deep"]: decl.append([G, H, I])
    refs = [([A, B, C], [D, E, F]), (decl[2], [D, E, F])]
    # `rec` has a field of type G:H/I.t3: lifting / lowering code of the user's functions names it too
    if meta["deep"]: refs += [([D, E, F], [G, H, I]), ([A, B, C], [G, H, I]), (decl[2], [G, H, I])]
    R = []
    for cur, target in refs:
        same = 0
        for a, b in zip(cur, target):
            if a != b: break
            same += 1
        if same == 0 and (target[0] in cur or cur[0] == "exports"): continue          # root-qualified
        if same >= len(target): continue                                                  # target is a parent namespace of cur
        X = target[same]
        for k in range(same + 1, len(cur) + 1):
            if any(p[:k + 1] == cur[:k] + [X] for p in decl):
                R.append({"reason": "cpp-qualify-enclosing-namespace-member", "ident": X, "names": ["::".join(cur), "::".join(target)],
                          "scope": "::".join(cur[:k])})
                break
    return R

def stem(msg):
    m = re.sub(r"[‘'`][^’'`]*[’']", "_", msg)
    m = re.sub(r"\d+", "N", m)
    return re.sub(r"[^A-Za-z_]+", "-", m).strip("-")[:70]

def explain(diag, reasons):
    """the predicted reason that accounts for this diagnostic, if any: the first failing diagnostic must name the predicted
    identifier (in its message or in the source line it points at)"""
    msg = diag["message"]
    for kind, pat in (("keyword", None),
                      ("dup", r"redeclar|redefin|conflicting|duplicate|ambiguous|ambiguating|overloaded|previous"),
                      ("cpp-std-typedef-shadow", None), ("cpp-libc-macro-name", None), ("cpp-temp-clash", None),
                      ("cpp-qualify-enclosing-namespace-member", None), ("cpp-param-named-self", None),
                      ("cpp-namespace-shadows-helper-namespace", None), ("cpp-namespace-clashes-with-runtime-symbol", None)):
        for r in reasons:
            if kind == "keyword":
                if "keyword" not in r["reason"]: continue
            elif kind == "dup":
                if r["reason"] not in ("cpp-dup-snake", "cpp-pascal-digit-merge", "case-only-collision"): continue
                if not re.search(pat, msg): continue
            elif r["reason"] != kind: continue
            if mentions(diag, r["ident"]): return r
            if kind == "dup" and any(r["ident"] in i for i in diag["idents"]): return r     # `kA1`, `…::A1`
    return None

def systematic_worlds(rng, tier):
    out = []
    for i, k in enumerate(identgen.CPP_KEYWORDS):
        spellings = [k, k.upper()] if k not in ("char8-t", "char16-t", "char32-t") else [k]
        if tier == "quick" and i % 3 != 0: spellings = spellings[:1] if "-" in k or i % 3 == 1 else spellings[1:]
        for name in spellings:
            slots = ["param", "field", "iface", "pkgns", "wparam", "mparam", "func", "ecase", "world"]
            n = 1 if tier == "quick" else 3
            for t in range(n):
                slot = slots[(i + len(name) + 3 * t) % len(slots)]
                out.append(identgen.gen_world(rng, "cpp", force=[(slot, name, "kw" if name == k else "KW")], small=True))
    for i, k in enumerate(identgen.CPP_STD + identgen.CPP_LOCALS + identgen.CPP_SPECIAL):
        if tier == "quick" and i % 2 == 1 and k != "size-t": continue
        slot = ["param", "field", "rtype", "func", "wparam", "ecase", "iface", "method"][i % 8]
        out.append(identgen.gen_world(rng, "cpp", force=[(slot, k, "std")], small=True))
    return out

def run(c):
    c.level = "proof"
    c.rule = ("names: one evaluation = one name through the real to_c_ident/heck/validate_id and the model; worlds: one evaluation = one "
              "(world, option set) generated by the real C++ generator and checked by g++ -std=c++23 -fsyntax-only (non-trivial = world with an "
              "adversarial name or a corpus world with >= 5 naming scopes); distinct by request text")
    T0 = time.time(); phases = {}
    def phase(n):
        nonlocal T0
        phases[n] = round(time.time() - T0, 1); T0 = time.time()
    info = ic.run_translator(c, "cpp")
    ok = c.lake_build(["Witverif.Props.C31"])
    if ok: c.audit("Witverif.Props.C31")
    if c.tier == "thorough" and ok: c.leanchecker("Witverif.Props.C31")
    phase("lake build + audit")
    model = c.model_exe("m_ident")
    impl = c.cargo_build("ident-run")
    if not impl or not model: return
    phase("driver + harness build")
    names, iout, mout = ic.tie_names(c, impl, model, "cpp", 1500 if c.tier == "quick" else 20000)
    for n, o, m in zip(names, iout, mout):
        d = ic.parse_kv(o)
        verdict = m.split("\t")[1] if "\t" in m else "spec=missing"
        if d.get("valid") == "1" and "c-keyword" in verdict:
            cls = "cpp-ident-keyword-uppercase" if n != n.lower() else ("cpp-ident-keyword-kebab" if "-" in n else "cpp-ident-keyword-other")
            c.spec_violation(cls, "to_c_ident returns a C++23 keyword / alternative token for a valid WIT identifier",
                             {"name": n, "to_c_ident": unhx(d["c"]), "replay": f"echo {hx(n)} | ident-run rustid"})
    phase("ident-functions tie")
    shutil.rmtree(WORK, ignore_errors=True); os.makedirs(WORK)
    jobs = []
    cp = os.path.join(VERIF, "corpus", "C31.txt")
    if os.path.exists(cp):
        for l in open(cp):
            if l.strip() and not l.startswith("#"):
                d = json.loads(l); jobs.append({"wit": d["wit"], "opts": d.get("opts", "-"), "meta": {}, "origin": "corpus"})
    if c.replay and "witness" in c.replay and "wit" in c.replay["witness"]:
        jobs.insert(0, {"wit": c.replay["witness"]["wit"], "opts": c.replay["witness"].get("opts", "-"), "meta": {}, "origin": "replay"})
    codegen = sorted(os.listdir(os.path.join(REPO, "tests", "codegen")))
    skipped = collections.Counter()
    for k, name in enumerate(codegen):
        p = os.path.join(REPO, "tests", "codegen", name)
        if name in EXCLUDED: skipped["excluded by crates/test/src/cpp.rs"] += 1; continue
        if os.path.isfile(p):
            if "//@ async = true" in open(p).read(400) and name != "issue-1598.wit":
                skipped["async world"] += 1; continue
        else:
            p = os.path.join(p, "wit")
            if not os.path.isdir(p) or not os.listdir(p): skipped["empty directory"] += 1; continue
        for o in (OPTS if c.tier == "thorough" else [OPTS[k % 2] if k % 3 == 0 else OPTS[0]]):
            jobs.append({"path": p, "opts": o, "meta": {}, "origin": "codegen:" + name})
    sysw = systematic_worlds(c.rng, c.tier)
    for wit, meta in sysw: jobs.append({"wit": wit, "opts": "-", "meta": meta, "origin": "systematic"})
    for note, (wit, meta) in identgen.shadow_patterns():
        jobs.append({"wit": wit, "opts": "-", "meta": dict(meta, note=note), "origin": "ns-patterns"})
    n_multi = 40 if c.tier == "quick" else 800
    for i in range(n_multi):
        wit, meta = identgen.multi_pkg_world(c.rng)
        jobs.append({"wit": wit, "opts": c.rng.choice(OPTS), "meta": meta, "origin": "multi-package"})
    n_seeded = 40 if c.tier == "quick" else 1500
    for i in range(n_seeded):
        wit, meta = identgen.gen_world(c.rng, "cpp")
        jobs.append({"wit": wit, "opts": c.rng.choice(OPTS), "meta": meta, "origin": "seeded"})
    text_jobs = [j for j in jobs if "wit" in j]
    vout = run_lines([impl, "witvalid"], [hx(j["wit"]) for j in text_jobs], timeout=600)
    for j, v in zip(text_jobs, vout): j["valid"] = v.split(" ")[0] == "valid"
    scopes = ic.get_scopes(impl, [(j.get("wit"), j.get("path"), None) for j in jobs])
    allnames = set()
    for sc in scopes:
        for s in sc or []: allnames.update(s["names"])
    M = ic.model_lookup(model, allnames)
    gout = run_lines([impl, "cppgen"], [j["opts"] + " " + ("@" + hx(j["path"]) if "path" in j else hx(j["wit"])) + " -" for j in jobs], timeout=1200)
    phase("validity + scopes + model + generator")
    def work(i):
        j, g = jobs[i], gout[i]
        if scopes[i] is None or ("wit" in j and not j.get("valid")): return ("skip", "")
        files = ic.decode_files(g)
        if files is None: return ("gen-" + g.split(" ")[0], ic.gen_error(g))
        d = os.path.join(WORK, f"w{i}")
        os.makedirs(d)
        main = None
        for n, txt in files.items():
            if n.endswith(".o"): continue
            open(os.path.join(d, n), "w").write(txt)
            if n.endswith(".cpp"): main = os.path.join(d, n)
        if not main: return ("gen-nocpp", "")
        okc, diags = gpp(d, main)
        if okc: shutil.rmtree(d, ignore_errors=True)
        return ("ok" if okc else "rejected", diags)
    res = ic.parallel(work, range(len(jobs)))
    shutil.rmtree(WORK, ignore_errors=True)
    phase("g++")
    hist = collections.Counter()
    reqs, impl_ans, model_ans = [], [], []
    for i, (j, sc, (status, detail)) in enumerate(zip(jobs, scopes, res)):
        origin = j["origin"].split(":")[0]
        if sc is None: hist[f"{origin}:unparsable"] += 1; continue
        if "wit" in j and not j.get("valid"): hist[f"{origin}:outside-domain(invalid component WIT)"] += 1; continue
        reasons = predict(sc, M) + qualify_reasons(j["meta"])
        real = [r for r in reasons if r["reason"] != "case-only-collision"]
        req = json.dumps({"origin": j["origin"], "opts": j["opts"], "src": j.get("wit") or j.get("path")}, sort_keys=True)
        adv = j["meta"].get("adversarial", [])
        witness = {"wit": j.get("wit") or (open(j["path"]).read() if os.path.isfile(j.get("path", "")) else j.get("path")), "opts": j["opts"], "adversarial": adv}
        c.evaluations += 1
        if adv or len(sc) >= 5: c.nontrivial.add(hashlib.sha1(req.encode()).hexdigest())
        if status.startswith("gen-"):
            hist[f"{origin}:generator-{status[4:]}"] += 1
            c.spec_violation("cpp-generator-" + status[4:] + ":" + re.sub(r"[^a-zA-Z]+", "-", detail)[:60],
                             "the C++ generator fails on a world outside its declared exclusions", dict(witness, detail=detail))
            continue
        if status == "ok":
            hist[f"{origin}:accepted" + (":predicted-dirty" if real else "")] += 1
            if not real:
                reqs.append(req); impl_ans.append("accepted"); model_ans.append("accepted")
            continue
        first = detail[0] if detail else {"message": "?", "idents": [], "file": "?", "line": 0}
        if "No such file or directory" in first["message"]:
            hist[f"{origin}:outside-domain(needs a user-written resource header)"] += 1; continue
        if "loses precision" in first["message"] and all("loses precision" in d["message"] for d in detail):
            # pointer -> int32_t casts are exact on wasm32 (4-byte pointers); g++ runs natively with 8-byte pointers
            hist[f"{origin}:outside-domain(native 64-bit pointer artefact)"] += 1; continue
        r = explain(first, reasons)
        if r is not None:
            hist[f"{origin}:rejected:{r['reason']}"] += 1
            c.spec_violation(r["reason"], "g++ rejects generated C++ bindings (identifier hygiene)",
                             dict(witness, reason=r, gpp=first, replay="ident-run cppgen <opts> <hex wit> - ; g++ -std=c++23 -fsyntax-only -I crates/cpp/helper-types -I crates/cpp/test_headers <world>.cpp"))
        else:
            ident = (first["idents"] or ["?"])[0]
            cls = f"g++:{stem(first['message'])}"
            hist[f"{origin}:rejected:UNEXPLAINED"] += 1
            reqs.append(req); impl_ans.append("rejected:" + cls); model_ans.append("accepted" if not real else "rejected:" + real[0]["reason"])
            c.spec_violation(cls, "g++ rejects generated C++ bindings for a world the model predicts identifier-clean",
                             dict(witness, predicted_reasons=reasons, gpp=detail[:3], first_ident=ident))
    c.compare("g++-accepts-vs-model", reqs, impl_ans, model_ans)
    c.cov["worlds"] = dict(sorted(hist.items()))
    c.cov["corpus_skipped"] = dict(skipped)
    c.cov["phase_seconds"] = phases
    c.cov["jobs"] = {"total": len(jobs), "codegen_corpus_entries": len(codegen), "systematic": len(sysw), "seeded": n_seeded,
                     "namespace_patterns": len(identgen.shadow_patterns()), "multi_package": n_multi}
    c.sample({"wit": jobs[-1].get("wit", "")[:600], "opts": jobs[-1]["opts"], "g++": res[-1][0]})
    c.cov["search"] = ("g++ 12 -std=c++23 -fsyntax-only on the real C++ generator's output for every world of this run; "
                       "IdentSpec.notKeyword (Lean spec table CppKeywords.keywords23) on the real to_c_ident outputs")
    c.assumptions += [
        "acceptance is checked with g++ 12 -std=c++23 -fsyntax-only natively (not clang++ for wasm32 with -Wall -Wextra -Werror as crates/test does): the headline claim of C31 is validated on samples, not proved",
        "CppKeywords.keywords23 is a hand transcription of [lex.key] + alternative tokens (validated: g++ rejects each listed keyword in identifier position)",
        "worlds whose exported resources need a user-written implementation header are outside the checked domain (counted in the evidence)",
        "case-only collisions inside one scope are outside the domain: the component model rejects such packages (checked per world)",
    ]
