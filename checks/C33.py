"""C33 — CLI check mode (src/bin/wit-bindgen.rs, the `opt.check` branch of `main`).
Model: lean/Witverif/Text/CheckMode.lean, theorems: lean/Witverif/Props/C33.lean,
tie: the REAL CLI (harness/cli-run: bin target rooted at /repo/src/bin/wit-bindgen.rs, same deps/features as
/repo/Cargo.toml) run on scratch directories vs `m_checkmode`; spec monitor CheckSpec.checkRunOk evaluated on the
implementation's observed outcome and on a before/after snapshot of the whole work tree."""
import os, re, json, shutil, hashlib, subprocess, tempfile
from vlib import run_lines, VERIF, REPO, BUILD, sh

def hx(b): return b.hex() if b else "-"

BACKENDS = {
    "markdown": [], "c": [], "rust": [], "moonbit": [],
    "cpp": [], "go": [], "d": [], "csharp": ["--runtime", "native-aot"],
}
QUICK_BACKENDS = ["markdown", "c", "rust", "moonbit", "cpp", "csharp", "go", "d"]

TYPES = ["u8", "s32", "u64", "f32", "f64", "bool", "string", "char", "list<u8>", "option<string>",
         "result<u32, string>", "tuple<u8, string>", "list<string>", "option<u16>"]
IDS = ["alpha", "beta", "gamma", "delta", "item-list", "http-thing", "point", "shape", "mode", "perms", "fetch", "store"]

SCALARS = ["u8", "s32", "u64", "f32", "f64", "bool", "char"]

def gen_world(rng, k, scalar_only=False):
    """scalar_only: no strings/lists/records in signatures (the MoonBit backend is only deterministic on such worlds)"""
    if scalar_only:
        ids = rng.sample(IDS, 6)
        lines = [f"package probe:t{k};", "", "interface things {", f"  enum {ids[0]} {{ one, two, three }}"]
        for j in range(rng.randint(1, 3)):
            if rng.random() < 0.5: lines.append(f"  /// docs for {ids[1 + j]}")
            params = ", ".join(f"p{i}: {rng.choice(SCALARS + [ids[0]])}" for i in range(rng.randint(0, 3)))
            lines.append(f"  {ids[1 + j]}: func({params}) -> {rng.choice(SCALARS)};")
        lines += ["}", "", f"world w{k} {{", "  import things;", "  export run: func(a: u32) -> u32;", "}"]
        return "\n".join(lines) + "\n"
    ids = rng.sample(IDS, 8)
    lines = [f"package probe:t{k};", "", "interface things {"]
    lines.append(f"  record {ids[0]} {{ x: {rng.choice(TYPES)}, y: {rng.choice(TYPES)} }}")
    if rng.random() < 0.7: lines.append(f"  enum {ids[1]} {{ one, two, three }}")
    if rng.random() < 0.6: lines.append(f"  variant {ids[2]} {{ none, some({rng.choice(TYPES)}), other({ids[0]}) }}")
    if rng.random() < 0.5: lines.append(f"  flags {ids[3]} {{ read, write, exec }}")
    for j in range(rng.randint(1, 3)):
        if rng.random() < 0.5: lines.append(f"  /// docs for {ids[4 + j]}\n  /// second line")
        params = ", ".join(f"p{i}: {rng.choice(TYPES + [ids[0]])}" for i in range(rng.randint(0, 3)))
        ret = rng.choice(["", f" -> {rng.choice(TYPES + [ids[0]])}"])
        lines.append(f"  {ids[4 + j]}: func({params}){ret};")
    lines += ["}", "", f"world w{k} {{", "  import things;"]
    if rng.random() < 0.8: lines.append(f"  export run: func(s: string) -> list<u8>;")
    if rng.random() < 0.4: lines.append("  export things;")
    lines.append("}")
    return "\n".join(lines) + "\n"

CORPUS_WIT = """package probe:fixed;

interface things {
  enum mode { one, two, three }
  /// docs
  fetch: func(p0: u32, p1: mode) -> u64;
}

world fixed {
  import things;
  export run: func(a: u32) -> u32;
}
"""

def snapshot(root):
    """every path under root with type, size, mtime and content hash"""
    out = []
    for d, dirs, files in os.walk(root):
        dirs.sort()
        for n in sorted(dirs):
            p = os.path.join(d, n); st = os.lstat(p)
            out.append((os.path.relpath(p, root), "d", 0, st.st_mtime_ns, ""))
        for n in sorted(files):
            p = os.path.join(d, n); st = os.lstat(p)
            out.append((os.path.relpath(p, root), "f", st.st_size, st.st_mtime_ns, hashlib.sha256(open(p, "rb").read()).hexdigest()))
    return sorted(out)

def run_cli(binp, args, cwd):
    env = dict(os.environ); env.update({"RUST_BACKTRACE": "0", "NO_COLOR": "1"}); env.pop("RUST_LOG", None)
    p = subprocess.run([binp] + args, cwd=cwd, env=env, stdout=subprocess.PIPE, stderr=subprocess.PIPE, timeout=120)
    err = p.stderr.decode("utf-8", "replace")
    gens = re.findall(r'^Generating "(.*)"$', err, re.M)
    m = re.search(r"^Error: (.*)$", err, re.M)
    return p.returncode, gens, (m.group(1) if m else None), err

def rel(dst, prefix):
    if prefix and dst.startswith(prefix + "/"): return dst[len(prefix) + 1:]
    return dst

def classify(rc, gens, msg, prefix):
    """observed outcome token of a --check run, or None if the run failed for another reason"""
    if rc == 0: return "ok"
    if msg is None: return None
    m = re.match(r'failed to read "(.*)"$', msg)
    if m: return "read:" + hx(rel(m.group(1), prefix).encode())
    m = re.match(r"(.*) differs only in line endings \(CRLF vs\. LF\)", msg)
    if m: return "eol:" + hx(rel(m.group(1), prefix).encode())
    m = re.match(r"not up to date: (.*)$", msg)
    if m: return "stale:" + hx(rel(m.group(1), prefix).encode())
    return None

NONIDENT = ["missing", "missing", "dir", "alter", "alter", "flip", "truncate", "crlf_all", "crlf_all", "crlf_some",
            "crlf_some", "strip_final_nl", "add_final_nl", "crlf_ctrl", "invalid_utf8", "ff_inside", "lone_lead", "lone_cont",
            "trunc_multibyte", "crlf_invalid", "empty", "cr_only", "add_blank_line"]
MUTS = ["identical"] * 14 + NONIDENT

def mutate(rng, kind, b):
    if kind == "identical": return b
    if kind in ("missing", "dir"): return None
    if kind == "alter":
        if not b: return b"x"
        r = rng.random(); i = rng.randrange(len(b))
        if r < 0.4: return b[:i] + bytes([b[i] ^ 0x01]) + b[i + 1:]
        if r < 0.6: return b + b"x"
        if r < 0.8: return b[:i]
        return b"//x\n" + b
    if kind == "flip":                       # one byte changed (also for binary outputs)
        if not b: return b"x"
        i = rng.randrange(len(b)); return b[:i] + bytes([b[i] ^ 0x20]) + b[i + 1:]
    if kind == "truncate": return b[:len(b) // 2]
    if kind == "ff_inside":                  # one byte replaced by 0xFF: never valid UTF-8
        if not b: return b"\xff"
        i = rng.randrange(len(b)); return b[:i] + b"\xff" + b[i + 1:]
    if kind == "lone_lead": return b + b"\xc3"      # a lead byte without continuation
    if kind == "lone_cont": return b + b"\x80"      # a continuation byte without lead
    if kind == "trunc_multibyte": return b + "€".encode()[:2]   # a 3-byte sequence cut after 2 bytes
    if kind == "crlf_all": return b.replace(b"\n", b"\r\n")
    if kind == "crlf_some":
        parts = b.split(b"\n")
        return b"".join(p + (b"\r\n" if rng.random() < 0.5 else b"\n") for p in parts[:-1]) + parts[-1]
    if kind == "strip_final_nl": return b[:-1] if b.endswith(b"\n") else b
    if kind == "add_final_nl": return b + b"\n"
    if kind == "add_blank_line": return b + b"\r\n"
    if kind == "crlf_ctrl": return (b"\x01" + b).replace(b"\n", b"\r\n")
    if kind == "invalid_utf8": return b + b"\xff"
    if kind == "crlf_invalid": return b.replace(b"\n", b"\r\n") + b"\xff"
    if kind == "empty": return b""
    if kind == "cr_only": return b.replace(b"\n", b"\r")
    return b

def manifest_mirror_ok(c):
    """harness/cli-run must declare the dependencies and features of /repo/Cargo.toml"""
    def sect(path, name):
        txt = open(path).read()
        m = re.search(r"^\[" + re.escape(name) + r"\]\n(.*?)(?=^\[|\Z)", txt, re.M | re.S)
        return m.group(1) if m else ""
    def deps(s): return sorted(set(re.findall(r"^([A-Za-z0-9_-]+)\s*=", s, re.M)))
    def feats(s): return re.sub(r"\s+", "", re.sub(r"#.*", "", s))
    r, h = os.path.join(REPO, "Cargo.toml"), os.path.join(VERIF, "harness", "cli-run", "Cargo.toml")
    ok = deps(sect(r, "dependencies")) == deps(sect(h, "dependencies")) and feats(sect(r, "features")) == feats(sect(h, "features"))
    if not ok:
        c.broken.append(("corr:cli-run-manifest", "harness/cli-run/Cargo.toml no longer mirrors [dependencies]/[features] of /repo/Cargo.toml: "
                         f"{deps(sect(r, 'dependencies'))} vs {deps(sect(h, 'dependencies'))}"))
    return ok

def write_sites():
    """inventory of file-system write calls in the CLI and the generator crates"""
    pat = re.compile(r"fs::write|create_dir|File::create|OpenOptions|fs::remove|fs::rename|fs::copy|set_permissions")
    sites = []
    roots = [os.path.join(REPO, "src")] + [os.path.join(REPO, "crates", k, "src") for k in
             ("core", "c", "cpp", "rust", "csharp", "go", "moonbit", "markdown", "d")]
    for root in roots:
        for d, _, fs in os.walk(root):
            for f in sorted(fs):
                if not f.endswith(".rs"): continue
                p = os.path.join(d, f)
                for i, l in enumerate(open(p, errors="replace"), 1):
                    if pat.search(l) and not l.strip().startswith("//"):
                        sites.append(os.path.relpath(p, REPO) + ":" + l.strip()[:80])
    return sites

# write sites known not to be reachable from `wit-bindgen <backend> --check` (function they live in)
KNOWN_SITES = {
    "src/bin/wit-bindgen.rs": "the non-check branch of main (after `continue`)",
    "crates/csharp/src/csproj.rs": "CSProject*Builder::generate, only called by crates/test (the `test` subcommand)",
    "crates/rust/src/lib.rs": "Opts::generate_to_out_dir (build-script helper, not called by the CLI)",
}

def run(c):
    c.rule = ("(backend, generated world, directory scenario) triples: every generated file independently identical / missing / "
              "a directory / altered / CRLF (all or some lines) / final newline added or removed / CR only / CRLF plus control char / "
              "invalid UTF-8 / empty, plus unrelated extra files; with and without --out-dir; non-trivial = at least one file "
              "is not identical; distinct by (backend, world, scenario bytes)")
    ok = c.lake_build(["Witverif.Props.C33"])
    if ok: c.audit("Witverif.Props.C33")
    if c.tier == "thorough" and ok: c.leanchecker("Witverif.Props.C33")
    model = c.model_exe("m_checkmode")
    manifest_mirror_ok(c)
    binp = os.environ.get("VERIF_C33_IMPL") or c.cargo_build("cli-run", bin="wit-bindgen-real")
    if os.environ.get("VERIF_C33_IMPL"): c.notes.append("CLI binary overridden by VERIF_C33_IMPL (self-test of the check)")
    if not binp or not model:
        c.notes.append("CLI or model driver did not build: no correspondence / monitor evaluation possible")
        return
    # static part of "never writes": every fs write call in the CLI/generator crates is in a known, unreachable place
    sites = write_sites()
    unknown = [s for s in sites if s.split(":")[0] not in KNOWN_SITES]
    c.cov["write_sites"] = {"found": sites, "known_unreachable_from_check": KNOWN_SITES}
    if unknown:
        c.broken.append(("corr:write-sites", "file-system write calls outside the inventoried places (is --check still write-free?): " + "; ".join(unknown[:5])))
    # the check branch must still sit in front of the writes: `continue;` closes the `if opt.check` block
    src = open(os.path.join(REPO, "src", "bin", "wit-bindgen.rs")).read()
    c.cov["check_branch_shape"] = bool(re.search(r"if opt\.check \{.*?continue;\s*\}\s*if let Some\(parent\)", src, re.S))

    nworlds = 3 if c.tier == "quick" else 9
    nscen = 8 if c.tier == "quick" else 30
    work_root = os.path.join(BUILD, "tmp")
    os.makedirs(work_root, exist_ok=True)
    W = tempfile.mkdtemp(prefix="C33-", dir=work_root)
    stats = {"runs": 0, "outcomes": {}, "mutations": {}, "backends": {}, "files_per_run_max": 0, "with_out_dir": 0, "cwd_is_out_dir": 0,
             "nonutf8_expected_files": 0, "order_checked": 0, "strace_runs": 0}
    cases = []       # (request line, observed token, unchanged, meta)
    try:
        # corpus first: fixed world, explicit per-file mutation kinds (file i gets kinds[i mod len])
        plans = []
        cp = os.path.join(VERIF, "corpus", "C33.txt")
        corpus_plan = {}
        if os.path.exists(cp):
            for l in open(cp):
                l = l.strip()
                if l and not l.startswith("#"):
                    f = l.split()
                    corpus_plan.setdefault(f[0], []).append(f[1:])
        ncorpus = sum(len(v) for v in corpus_plan.values())
        if corpus_plan: plans.append(("corpus", CORPUS_WIT, corpus_plan))
        if c.replay and "witness" in c.replay and "wit" in c.replay["witness"]:
            w = c.replay["witness"]
            kinds = [w["mutations"][n] for n in sorted(w["mutations"], key=lambda s_: s_.encode())]
            plans.insert(0, ("replay", w["wit"], {w["backend"]: [kinds]}))
        for wk in range(nworlds):
            plans.append((wk, gen_world(c.rng, wk, scalar_only=(wk % 3 == 0)), {be: [None] * nscen for be in QUICK_BACKENDS}))
        for wk, wit, plan in plans:
            for be in plan:
                base = os.path.join(W, f"w{wk}-{be}")
                os.makedirs(os.path.join(base, "wit")); open(os.path.join(base, "wit", "world.wit"), "w").write(wit)
                rc, gens, msg, err = run_cli(binp, [be] + BACKENDS[be] + ["wit", "--out-dir", "out"], base)
                if rc != 0:
                    c.notes.append(f"generation failed for backend {be} world {wk}: {msg}")   # generator defect: other properties
                    stats["backends"][be + ":generation-failed"] = stats["backends"].get(be + ":generation-failed", 0) + 1
                    continue
                names0 = [rel(g, "out") for g in gens]
                if not names0: continue
                # determinism probe (C15 is a separate property): check-mode scenarios need "the files it would generate"
                nondet = set()
                for k2 in range(4):
                    pr = os.path.join(base, f"probe{k2}")
                    shutil.copytree(os.path.join(base, "wit"), os.path.join(pr, "wit"))
                    run_cli(binp, [be] + BACKENDS[be] + ["wit", "--out-dir", "out"], pr)
                    for n in names0:
                        a, b = os.path.join(base, "out", n), os.path.join(pr, "out", n)
                        if not os.path.isfile(b) or open(a, "rb").read() != open(b, "rb").read(): nondet.add(n)
                    shutil.rmtree(pr, ignore_errors=True)
                if nondet:
                    stats.setdefault("nondeterministic_generation_skipped", []).append({"backend": be, "world": wk, "files": sorted(nondet)[:6]})
                    shutil.rmtree(base, ignore_errors=True)
                    continue
                # sanity of the tree-change detector: a non-check run does change the tree
                local = []
                for s, fixed in enumerate(plan[be]):
                    sc = os.path.join(base, f"s{s}")
                    shutil.copytree(os.path.join(base, "wit"), os.path.join(sc, "wit"))
                    shutil.copytree(os.path.join(base, "out"), os.path.join(sc, "out"))
                    all_ident = c.rng.random() < 0.2 if fixed is None else all(k == "identical" for k in fixed)
                    # a third of the random scenarios perturb exactly one file, so that every output - text or
                    # binary, early or late in the iteration order - gets to decide the outcome on its own
                    only = c.rng.randrange(len(names0)) if (fixed is None and not all_ident and c.rng.random() < 0.4) else None
                    if only is not None: stats["single_file_scenarios"] = stats.get("single_file_scenarios", 0) + 1
                    muts = {}
                    for fi, n in enumerate(sorted(names0, key=lambda s_: s_.encode())):
                        if fixed is not None: kind = fixed[fi % len(fixed)]
                        elif all_ident: kind = "identical"
                        elif only is not None: kind = c.rng.choice(NONIDENT) if fi == only else "identical"
                        else: kind = c.rng.choice(MUTS)
                        p = os.path.join(sc, "out", n)
                        b = open(p, "rb").read()
                        nb = mutate(c.rng, kind, b)
                        if nb is None:
                            os.remove(p)
                            if kind == "dir": os.makedirs(p)
                        elif nb != b: open(p, "wb").write(nb)
                        else: kind = "identical"
                        muts[n] = kind
                        stats["mutations"][kind] = stats["mutations"].get(kind, 0) + 1
                    if c.rng.random() < 0.3 or fixed is not None:
                        open(os.path.join(sc, "out", "zz-unrelated.txt"), "w").write("keep me\n")
                        os.makedirs(os.path.join(sc, "out", "extra-dir"), exist_ok=True)
                    # what would be generated for THIS directory: a non-check run on a copy
                    ref = os.path.join(base, f"r{s}")
                    shutil.copytree(sc, ref)
                    for n in names0:   # a directory in the way would make the reference run fail: clear it in the copy
                        p = os.path.join(ref, "out", n)
                        if os.path.isdir(p): shutil.rmtree(p)
                    use_out = c.rng.random() < 0.8 or fixed is not None
                    args = [be] + BACKENDS[be] + (["wit", "--out-dir", "out"] if use_out else ["../wit"])
                    cwd_of = (lambda r: r) if use_out else (lambda r: os.path.join(r, "out"))
                    prefix = "out" if use_out else ""
                    before_ref = snapshot(ref)
                    rrc, rgens, rmsg, _ = run_cli(binp, args, cwd_of(ref))
                    if rrc != 0:
                        c.broken.append(("corr:cli-reference-run", f"non-check run failed in scenario copy: {rmsg}")); continue
                    if snapshot(ref) == before_ref and not all_ident:
                        c.broken.append(("corr:tree-detector", "a non-check run left the tree snapshot unchanged: detector is blind"))
                    names = [rel(g, prefix) for g in rgens]
                    if names != sorted(names, key=lambda s_: s_.encode()):
                        c.broken.append(("corr:cli-order", f"files are not visited in byte order of their names: {names}"))
                    stats["order_checked"] += 1
                    toks = []
                    for n in names:
                        exp = open(os.path.join(ref, "out", n), "rb").read()
                        p = os.path.join(sc, "out", n)
                        cur = open(p, "rb").read() if os.path.isfile(p) else None
                        try: exp.decode("utf-8")
                        except UnicodeDecodeError:
                            stats["nonutf8_expected_files"] += 1
                            if muts.get(n, "identical") != "identical":
                                stats["binary_outputs_perturbed"] = stats.get("binary_outputs_perturbed", 0) + 1
                        if cur is not None and cur != exp:
                            try: cur.decode("utf-8")
                            except UnicodeDecodeError: stats["nonutf8_existing_files"] = stats.get("nonutf8_existing_files", 0) + 1
                        toks.append(hx(n.encode()) + ":" + hx(exp) + ":" + ("!" if cur is None else hx(cur)))
                    before = snapshot(sc)
                    crc, cgens, cmsg, cerr = run_cli(binp, args + ["--check"], cwd_of(sc))
                    after = snapshot(sc)
                    obs = classify(crc, cgens, cmsg, prefix)
                    stats["runs"] += 1
                    stats["backends"][be] = stats["backends"].get(be, 0) + 1
                    stats["files_per_run_max"] = max(stats["files_per_run_max"], len(names))
                    stats["with_out_dir" if use_out else "cwd_is_out_dir"] += 1
                    meta = {"backend": be, "args": args + ["--check"], "wit": wit, "mutations": muts, "stderr": cerr[-600:],
                            "exit_code": crc, "tree_changed": [x for x in after if x not in before][:5] + [x for x in before if x not in after][:5]}
                    if obs is None:
                        c.broken.append(("corr:cli-output", f"--check run ended with an unrecognised result rc={crc} msg={cmsg!r}")); continue
                    # the visited prefix of files must be a prefix of the expected order
                    vis = [rel(g, prefix) for g in cgens]
                    if vis != names[:len(vis)]:
                        c.broken.append(("corr:cli-order", f"--check visited {vis}, expected a prefix of {names}"))
                    stats["outcomes"][obs.split(":")[0]] = stats["outcomes"].get(obs.split(":")[0], 0) + 1
                    # generation must have been the same in the reference run as in the first run (else: nondeterministic)
                    for n in names0:
                        if muts.get(n) == "identical" and n in names:
                            if open(os.path.join(ref, "out", n), "rb").read() != open(os.path.join(base, "out", n), "rb").read():
                                nondet.add(n)
                    local.append((" ".join(toks), obs, before == after, meta, sc, args, cwd_of, prefix))
                    shutil.rmtree(ref, ignore_errors=True)
                # model answers for this (backend, world); a disagreement is confirmed by re-running the same --check
                lm = run_lines([model], [r + "\t" + o + " " + ("1" if u else "0") for r, o, u, *_ in local], timeout=300)
                for (r, o, u, meta, sc, args, cwd_of, prefix), m in zip(local, lm):
                    if not m.endswith("spec=ok") or m.split(" ")[0] != o:
                        again = set()
                        for _ in range(3):
                            crc, cgens, cmsg, _e = run_cli(binp, args + ["--check"], cwd_of(sc))
                            again.add(classify(crc, cgens, cmsg, prefix))
                        if again != {o}:
                            nondet.add("(outcome of identical --check runs varies: " + ",".join(sorted(str(x) for x in again | {o})) + ")")
                if nondet:
                    stats.setdefault("nondeterministic_generation_skipped", []).append(
                        {"backend": be, "world": wk, "files": sorted(nondet)[:6], "discarded_runs": len(local)})
                else:
                    cases += [(r, o, u, meta, m) for (r, o, u, meta, *_), m in zip(local, lm)]
                for x in local: shutil.rmtree(x[4], ignore_errors=True)
                # thorough: system-call level confirmation that --check opens nothing for writing
                if c.tier == "thorough" and shutil.which("strace"):
                    sc = os.path.join(base, "st"); shutil.copytree(os.path.join(base, "out"), os.path.join(sc, "out"))
                    shutil.copytree(os.path.join(base, "wit"), os.path.join(sc, "wit"))
                    tr = os.path.join(base, "strace.txt")
                    p = subprocess.run(["strace", "-f", "-o", tr, "-e", "trace=openat,open,creat,mkdir,mkdirat,unlink,unlinkat,rename,renameat,renameat2,truncate,ftruncate,chmod,fchmodat,link,linkat,symlink,symlinkat",
                                        binp, be] + BACKENDS[be] + ["wit", "--out-dir", "out", "--check"], cwd=sc,
                                       stdout=subprocess.PIPE, stderr=subprocess.PIPE, env=dict(os.environ, RUST_BACKTRACE="0"))
                    if os.path.exists(tr) and p.returncode == 0:
                        stats["strace_runs"] += 1
                        bad = [l for l in open(tr) if re.search(r"O_WRONLY|O_RDWR|O_CREAT|O_TRUNC|mkdir|unlink|rename|truncate|chmod|link\(|symlink", l)
                               and "/dev/" not in l and "ENOENT" not in l]
                        if bad:
                            c.spec_violation("check-wrote", "a --check run performed a write-type system call",
                                             {"backend": be, "wit": wit, "syscalls": bad[:5]})
                    shutil.rmtree(sc, ignore_errors=True)
                shutil.rmtree(base, ignore_errors=True)
    finally:
        shutil.rmtree(W, ignore_errors=True)

    mm = [m for *_, m in cases]
    cases = [x[:4] for x in cases]
    c.cov["corpus_cases"] = ncorpus
    def nontriv(r, o): return o != "ok"
    c.compare("cli-check", [r for r, _, _, _ in cases], [o for _, o, _, _ in cases],
              [m.split("\t")[0].split(" ")[0] for m in mm], nontrivial=nontriv)
    for (r, o, u, meta), m in zip(cases, mm):
        verdict = m.split("\t")[1] if "\t" in m else "spec=missing"
        mo = m.split("\t")[0].split(" ")[0]
        if "writes=0" not in m:
            c.broken.append(("corr:model-effects", "the model's check branch logged a write: " + m))
        if verdict != "spec=ok":
            if not u: klass, what = "check-wrote", "a --check run changed the directory tree"
            elif o == "ok": klass, what = "check-ok-not-up-to-date", "--check succeeded although a generated file is missing or differs"
            elif mo == "ok": klass, what = "check-fails-up-to-date", "--check failed although every generated file exists with identical bytes"
            elif o.startswith("eol") or mo.startswith("eol"): klass, what = "check-eol-misreported", "a line-ending-only difference is not reported as such (or a different difference is reported as line endings)"
            else: klass, what = "check-wrong-report", "--check reports a different file or failure kind than the first file that is not up to date"
            c.spec_violation(klass, what, {"request": r, "observed": o, "unchanged": u, "expected_by_spec": mo, **meta})
    for (r, o, u, meta) in cases[:3]:
        c.sample({"backend": meta["backend"], "mutations": meta["mutations"], "observed": o, "tree_unchanged": u})
    c.cov["runs"] = stats
    c.cov["search"] = ("CheckSpec.checkRunOk (Lean, spec side: outcome = ok iff all files identical; first stale file and failure kind "
                       "as demanded, line-ending-only defined without str::lines; tree unchanged) on every real --check run of this run")
    c.assumptions += [
        "byte strings are modelled as decoded UTF-8 text or raw bytes (UTF-8 is injective, so equality agrees with Vec<u8> equality)",
        "the files a --check run would generate are obtained from a non-check run of the same CLI on a copy of the same directory; "
        "(backend, world) pairs whose generation is not reproducible across three processes are skipped and listed under "
        "coverage.runs.nondeterministic_generation_skipped (determinism is C15, not C33; MoonBit is nondeterministic on worlds with "
        "strings/lists/records, so it is exercised on scalar-only worlds)",
        "the generators (Opts::build, WorldGenerator::generate) write no files: validated by the before/after snapshot of the whole "
        "work tree (names, sizes, mtimes, hashes), by the inventory of fs write calls in the CLI and generator crates, and in the thorough "
        "tier by strace; not proved",
        "I/O errors other than a failing read of an expected file are outside the model",
    ]
