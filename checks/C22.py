"""C22 — the export task executor answers callbacks consistently and frees tasks once.
Theorems: lean/Witverif/Props/C22.lean over the executor LTS lean/Witverif/Async/Task.lean (all label sequences = all event
orders x all behaviours of the polled futures x all host answers; drivers start_task/callback and block_on; feature
inter-task-wakeup on/off; Tasks::poll_next of both spawn variants in Async/ExecScript.lean).
Tie: see checks/exec_common.py — three feature builds of the real runtime, exact trace equality, spec monitor on real traces."""
import exec_common


def run(c):
    c.rule = ("scripts of engine `exec`: driver start (real start_task + callback, the harness is the host; up to 2 component tasks) or "
              "block (real block_on; host directives inside waitable-set.wait); 0..3 import calls; 1..5 task bodies (root, spawned "
              "children, second task) over {create/poll/await/drop a call, suspend, yield_async, spawn_local, capture/wake/drop a waker, "
              "wake-on-drop guard, task.return}; host directives {callee advances, deliver subtask event, deliver stream-end event, wake / "
              "drop a captured waker from outside, start a task, EVENT_CANCEL}; three feature builds default / async-spawn / "
              "inter-task-wakeup; non-trivial = some callback answered WAIT or YIELD (or block_on waited); distinct by trace")
    n = 2500 if c.tier == "quick" else 150000
    maxbody = 10 if c.tier == "quick" else 16
    exec_common.run_exec(c, "C22", ["default", "async-spawn", "inter-task-wakeup"], n, maxbody, "Witverif.Props.C22")
    c.assumptions += [
        "FuturesUnordered is external: its model in Async/ExecScript.lean follows futures-util 0.3.32 (FIFO ready-to-run queue, `queued`/`woken` "
        "flags, AtomicWaker parent, forced yield after `len` polls or 2 self-wakes, `Ready(None)` only when empty, destruction from the head of the "
        "all-list); the executor theorems do not depend on it (they hold for every poll_next behaviour: 'polls some subset of its futures, reports "
        "Ready/Pending and is_empty()'), `tasks_ready_iff_empty` depends on `Ready(None)` only when empty; the model is validated by exact trace "
        "equality in the async-spawn build",
        "host rules: Appendix-B transcription in Async/Host.lean + Async/UnitHost.lean (waitable sets, context slot, unit stream); callback protocol "
        "as played by the harness (WAIT -> an event of a member of that set or EVENT_CANCEL, YIELD -> EVENT_NONE or EVENT_CANCEL)",
        "waitable-set indices below 2^28 (the canonical ABI's own bound) for callback_code_encoding",
        "operation kind driven on the real code: subtasks (import calls) and the internal unit stream; payload streams/futures are C19/C20",
        "native x86-64; wasm-only behaviour (a panic is a trap, no unwinding) is not executed: traces are compared up to the start of a panic",
        "the spec monitor's YIELD clause in the async-spawn build accepts a YIELD whenever a future was polled in the round "
        "(FuturesUnordered's fairness wake is not observable); exact in the other builds",
    ]
