"""C07 — Rust guest bindings keep resource and handle ownership exact.
Model + theorems: lean/Witverif/Abi/Resource.lean, lean/Witverif/Props/C07.lean.  Tie: harness/bind-native —
generated resource glue compiled natively; this check is the component-model host (handle table, scoped
borrows, dtor calls) over random host histories; every intrinsic call ([resource-new/rep/drop] through the
H3 symbols), every dtor export call and every user-level Drop is traced and replayed in Lean against the
host semantics (spec) and against the model of the glue (the trace must be a trace of the model).

Provenance of trace events: `drop`, `new`, `rep` are calls the GUEST makes (H3 symbols); `dtor` is this host calling
the guest's `[dtor]` export and `udrop` the stub's `Drop` running inside it.  `own+`, `bor+`, `call+/-`, `use` are
written by this host when it lowers values / starts calls, and `own-`, `lend` when it LIFTS the values the guest
passed (they are synthesised from observed values, not emitted by the guest)."""
import os, re, json
import bind_common as bc
from bind_common import parse, show, Crash
from vlib import VERIF

RES_DECL = ("  resource res { constructor(x: u32); m0: func(y: u32) -> u32; s0: static func(a: u8) -> res; }\n"
            # a resource with a FALLIBLE constructor (`Result<Self, E>` on the Rust side)
            "  resource fres { constructor(x: u32) -> result<fres, string>; get: func() -> u32; }\n"
            "  fpeek: func(x: borrow<fres>, y: option<fres>) -> u32;\n")
FIXED_I = """  record rr { a: res, n: u32 }
  variant vv { c0, c1(res), c2(list<res>) }
  take: func(a: res, b: list<res>, c: option<res>, d: rr, e: vv, f: tuple<res, u8>, g: result<res, string>);
  lend: func(a: borrow<res>, b: list<borrow<res>>, c: option<borrow<res>>) -> u32;
  give: func(n: u32) -> tuple<res, list<res>, option<res>, result<res, string>>;
"""
FIXED_J = FIXED_I + """  b0: func(x: borrow<ires>, y: borrow<ires>) -> u32;
  b1: func(x: ires, y: list<ires>) -> option<ires>;
"""


def gen_resource_world(rng, k, cfg):
    """import i (host implements `res`), export j (guest implements `res`, and also receives i's resource)"""
    feats = {"map", "flist", "resource"}
    if "own=borrowing" in cfg:
        # known finding rust-does-not-compile:borrowing-missing-lifetime (replayed from corpus/C07-nocompile.txt):
        # a record with an own handle and a field of a borrowed-form type; keep handles out of the random records
        feats = {"map", "flist"}
    stats = {}
    def rand_funcs(name, imported):
        txt = bc.gen_iface(rng, name, 3, feats, 3, 4, imported, "raw=1" in cfg, stats)
        body = txt.split("{", 1)[1].rsplit("}", 1)[0]
        return re.sub(r"\bf(\d+):", r"q\1:", body)
    i = f"interface i {{\n{RES_DECL}{FIXED_I}{rand_funcs('i', True)}}}\n"
    j = f"interface j {{\n  use i.{{res as ires}};\n{RES_DECL}{FIXED_J}{rand_funcs('j', False)}}}\n"
    # the same two resources reached through alias chains of length 1, 2 and 3 (`use`, `use` + `type`,
    # `use` of a `use`, `type` of a `type`), own and borrow, directly and nested
    def pick(funcs):
        """a random non-empty subset of the functions of an alias-chain interface (worlds differ in which
        nestings they combine)"""
        chosen = [f for f in funcs if rng.random() < 0.6] or [rng.choice(funcs)]
        return "".join("  " + f + "\n" for f in chosen)
    chains = (
        "interface k1 {\n  use j.{res};\n" + pick([
            "a0: func(x: borrow<res>) -> u32;",
            "a1: func(x: res, y: option<borrow<res>>) -> option<res>;"]) + "}\n"
        "interface k2 {\n  use j.{res};\n  type item = res;\n  record rk { a: item, n: u8 }\n" + pick([
            "b0: func(x: borrow<item>) -> u32;",
            "b1: func(x: option<borrow<item>>, y: list<item>, z: rk) -> list<item>;",
            "b2: func(x: list<borrow<item>>, y: result<item, u8>) -> u32;",
            "b3: func(x: option<borrow<item>>) -> u32;"]) + "}\n"
        "interface k3 {\n  use k1.{res};\n  type it2 = res;\n  type it3 = it2;\n  variant vk { c0, c1(it3) }\n" + pick([
            "c0: func(x: borrow<res>, y: borrow<it2>) -> u32;",
            "c1: func(x: borrow<it3>, y: it3, z: vk) -> it3;",
            "c2: func(x: tuple<borrow<it3>, u8>, y: option<borrow<it2>>) -> u32;",
            "c3: func(x: borrow<it3>) -> u32;"]) + "}\n"
        "interface i1 {\n  use i.{res};\n  type item = res;\n" + pick([
            "d0: func(x: borrow<item>, y: item) -> item;",
            "d1: func(x: list<borrow<item>>, y: option<item>) -> list<item>;"]) + "}\n"
        "interface k4 {\n  use i1.{item as iitem};\n  type ii2 = iitem;\n" + pick([
            "e0: func(x: borrow<ii2>, y: ii2) -> option<ii2>;",
            "e1: func(x: borrow<ii2>) -> u32;"]) + "}\n")
    return (f"package t:w{k};\n{i}{j}{chains}world w {{ import i; import i1; export j; export k1; export k2; export k3; export k4; }}\n",
            stats)


def strip_ann(t):
    return re.sub(r"@[^ )]*", "", t)


class Abort(Exception):
    """the history cannot go on (a finding has been recorded)"""


class ResHost:
    """the component-model host of one guest instance (one item of a batch)"""

    def __init__(self, c, runner, item, manifest, rng, cfg, wit):
        self.c, self.r, self.item, self.rng, self.cfg, self.wit = c, runner, item, rng, cfg, wit
        self.man = [m for m in manifest if m["item"] == item]
        self.exports = [m for m in self.man if m["dir"] == "export"]
        self.imports = [m for m in self.man if m["dir"] == "import"]
        # destructor exports by "<iface key>#<resource>"
        self.dtor = {m["key"].split("_", 1)[1].replace("#[dtor]", "#"): m["key"] for m in self.man if m["dir"] == "dtor"}
        self.exp_kind = {}        # rep -> "<iface>.<resource>" of every exported resource ever created
        self.payload = {}         # payload id -> "held" | ("slot", rep) | "dead"   (drop-count observable: udrop events)
        self.slot = {}            # rep -> payload id in its Option<T> slot, None once into_inner took it
        self.cur_payload = None   # the payload user code is about to wrap (last mk / take)
        self.pending_take = None  # `take:id` seen, the `[resource-rep]` of into_inner has not arrived yet
        self.in_dtor = None       # list collecting the payload drops of the destructor call in progress
        self.kept = []            # stash indices of payloads user code kept after into_inner
        self.exp_ifaces = {m["iface"].split("/")[1] for m in self.exports}
        self.table = {}
        self.next_h = rng.choice([1, 1, 7, 1000])
        self.next_obj = 1
        self.next_id = 100
        self.imp_objs = {}        # host-implemented resources: obj -> state
        self.exp_owned = {}       # rep -> id  (exported resources whose own handle the host holds)
        self.exp_live = {}        # rep -> id  (every exported resource not yet destroyed)
        self.stashed = []
        self.trace = []
        self.findings = []        # (class, what, detail)
        self.call_k = 0
        self.udrops = {}
        self.steps = 0
        self.kinds = {}

    # ------------------------------------------------------------ bookkeeping
    def fresh_h(self):
        h = self.next_h
        self.next_h += self.rng.choice([1, 1, 1, 3])
        return h

    def fail(self, cls, what, **detail):
        self.findings.append((cls, what, detail))

    def is_exp(self, atom):
        return atom.split("@")[1].split(".")[0] in self.exp_ifaces

    # ------------------------------------------------------------ intrinsics (H3 symbols) and nested imports
    def on_event(self, key, bits, out):
        module, _, name = key.partition("#")
        if name.startswith("[resource-drop]"):
            h = bits[0]
            self.trace.append(f"drop {h}")
            e = self.table.pop(h, None)
            if e is None:
                self.fail("resource:drop-of-handle-not-owned", "the guest called resource-drop on a handle it does not hold (double drop, drop after transfer, or drop of a borrow it was not given)", handle=h, function=out.get("key"), args=out.get("vals"))
            elif e["kind"] == "own" and e["res"][0] == "exp":
                self.call_dtor(module[len("[export]"):] + "#" + name[len("[resource-drop]"):], e["res"][1], out)
            elif e["kind"] == "own":
                self.imp_objs[e["res"][1]] = "destroyed"
            self.r.native.send("RETURN|0")
        elif name.startswith("[resource-new]"):
            rep = bits[0]
            h = self.fresh_h()
            pid = self.cur_payload
            self.trace.append(f"new {h} {rep} {pid}")
            if pid is None or self.payload.get(pid) != "held":
                self.fail("resource:new-without-payload", "resource-new although user code holds no payload to wrap", payload=pid)
            else:
                self.payload[pid] = ("slot", rep)
            self.slot[rep] = pid
            self.cur_payload = None
            if rep in self.exp_live:
                self.fail("resource:new-on-live-rep", "resource-new called with a representation that already backs a live resource", rep=rep)
            self.table[h] = {"kind": "own", "res": ("exp", rep)}
            self.exp_live[rep] = pid
            self.exp_kind[rep] = (module[len("[export]"):].split("/")[1] + "." + name[len("[resource-new]"):],
                                  module[len("[export]"):] + "#" + name[len("[resource-new]"):])
            self.r.native.send(f"RETURN|{h}")
        elif name.startswith("[resource-rep]"):
            h = bits[0]
            e = self.table.get(h)
            rep = e["res"][1] if e and e["kind"] == "own" and e["res"][0] == "exp" else 0
            self.trace.append(f"rep {h} {rep}")
            if self.pending_take is not None and rep != 0:
                i, self.pending_take = self.pending_take, None
                if self.slot.get(rep) != i:
                    self.fail("resource:into-inner-wrong-payload", "into_inner ran on a resource whose slot does not hold the payload user code expects", rep=rep, payload=i, slot=self.slot.get(rep))
                self.slot[rep] = None
                self.payload[i] = "held"
            if rep == 0:
                self.fail("resource:rep-of-handle-not-owned", "resource-rep called on a handle the guest does not own (e.g. a representation pointer used as a handle index)", handle=h, function=out.get("key"), args=out.get("vals"))
            self.r.native.send(f"RETURN|{rep}")
        else:
            out.setdefault("unexpected_imports", []).append(key)
            self.r.native.send("RETURN|0")

    def on_guest_event(self, text, out):
        """EVENT lines of the batch binary: payload created (mk), into_inner about to run (take), payload Drop ran
        (udrop), payload kept in the stash (kept)"""
        kind, _, rest = text.partition(":")
        if kind == "mk":
            i = int(rest)
            self.trace.append(f"mk {i}")
            if i in self.payload:
                self.fail("resource:payload-identity-reused", "the harness created two payloads with one identity", payload=i)
            self.payload[i] = "held"
            self.cur_payload = i
        elif kind == "take":
            i = int(rest)
            self.trace.append(f"take {i}")
            self.pending_take = i
            self.cur_payload = i
        elif kind == "udrop":
            i = int(rest)
            st = self.payload.get(i)
            if st == "dead" or st is None:
                self.fail("resource:payload-dropped-twice", "the Drop of a resource's Rust value ran a second time (or on a value that was never created)",
                          payload=i, function=out.get("key"), args=out.get("vals"))
            if self.in_dtor is not None:
                self.in_dtor.append(i)
                self.trace.append(f"dudrop {i}")
            else:
                if st not in ("held", "dead", None):
                    self.fail("resource:payload-dropped-while-in-slot", "user-level Drop of a value that is still inside a resource", payload=i)
                self.trace.append(f"udrop {i}")
            self.payload[i] = "dead"
        elif kind == "kept":
            i, k = rest.split(":")
            self.kept.append(int(k))

    def call_dtor(self, dtor_key, rep, out):
        """host calls the exported destructor (re-entrantly when triggered by a guest resource-drop)"""
        key = self.dtor.get(dtor_key)
        self.trace.append(f"dtor {rep}")
        if rep not in self.exp_live:
            self.fail("resource:dtor-on-dead-rep", "the host would run the destructor of an already destroyed resource", rep=rep)
            return
        self.exp_live.pop(rep)
        self.exp_owned.pop(rep, None)
        want = self.slot.pop(rep, None)      # the payload the slot still holds (None after into_inner)
        self.in_dtor = []
        self.r.native.send(f"CALL|{key}|{rep}")
        sub = {"key": key}
        ans = self.r.await_final(sub)
        dropped, self.in_dtor = self.in_dtor, None
        f = ans.split("|")
        rep_ = bc.parse_report(f[2:]) if f[0] == "ret" else {"notes": [], "errs": ["dtor call failed"], "frees": []}
        expect = [] if want is None else [want]
        if dropped != expect:
            self.fail("resource:dtor-payload-drops", "the destructor export must drop exactly the payload its slot holds (nothing after into_inner took it)",
                      rep=rep, slot=want, dropped=dropped)
        for e in rep_["errs"]:
            self.fail("allocator:" + e.split(":")[0], "allocator error inside the destructor", error=e)
        if f[0] == "ret" and sum(1 for x in rep_["frees"] if x["addr"] == rep) != 1:
            self.fail("resource:dtor-did-not-free-representation", "the destructor export did not free the block that holds the resource's representation exactly once", rep=rep)

    # ------------------------------------------------------------ handle values
    def gen_handles(self, ann_tree, direction, position, k):
        """callback for bind_common.gen_val: returns the handle term to send/script for an annotated atom"""
        def cb(atom):
            own = atom.startswith("own")
            exp = self.is_exp(atom)
            if direction == "export" and position == "arg":
                if exp and own:
                    rep = self.pick_exp_owned(atom, remove=True)
                    h = self.fresh_h()
                    self.table[h] = {"kind": "own", "res": ("exp", rep)}
                    self.trace.append(f"own+ {h} e:{rep}")
                    self.expect.append(self.slot.get(rep))
                    return f"(h {h})"
                if exp:
                    rep = self.pick_exp_owned(atom, remove=False)
                    self.trace.append(f"use {rep}")
                    self.expect.append(self.slot.get(rep))
                    return f"(h {rep})"
                obj = self.new_obj()
                h = self.fresh_h()
                if own:
                    self.table[h] = {"kind": "own", "res": ("imp", obj)}
                    self.trace.append(f"own+ {h} i:{obj}")
                else:
                    self.table[h] = {"kind": "borrow", "res": ("imp", obj), "scope": k}
                    self.trace.append(f"bor+ {h} i:{obj} {k}")
                self.expect.append(h)
                return f"(h {h})"
            if direction == "export" and position == "ret":
                if exp:
                    i = self.next_id; self.next_id += 1
                    self.expect.append(i)
                    return f"(h {i})"
                # the user function returns an imported resource it owns: it was given to the guest earlier
                obj = self.new_obj(); h = self.fresh_h()
                self.table[h] = {"kind": "own", "res": ("imp", obj)}
                self.trace.append(f"own+ {h} i:{obj}")
                self.expect.append(h)
                return f"(h {h})"
            # imports: only the imported resource occurs
            obj = self.new_obj(); h = self.fresh_h()
            self.table[h] = {"kind": "own", "res": ("imp", obj)}
            self.trace.append(f"own+ {h} i:{obj}")
            self.expect.append(h)
            return f"(h {h})"
        return cb

    def new_obj(self):
        o = self.next_obj; self.next_obj += 1
        self.imp_objs[o] = "live"
        return o

    def pick_exp_owned(self, atom, remove):
        """an exported resource of the atom's resource type whose own handle the host holds (constructing one first
        if there is none)"""
        kind = atom.split("@")[1]
        pool = [r for r in sorted(self.exp_owned) if self.exp_kind.get(r, ("",))[0] == kind]
        if not pool:
            self.construct(kind)
            pool = [r for r in sorted(self.exp_owned) if self.exp_kind.get(r, ("",))[0] == kind]
        if not pool:
            self.fail("resource:constructor-did-not-yield-resource", "after the exported constructor returned Ok the host holds no live resource of that type (handle not transferred, or the value was destroyed)", resource=kind)
            raise Abort()
        rep = self.rng.choice(pool)
        if remove:
            del self.exp_owned[rep]
        return rep

    # ------------------------------------------------------------ scenario steps
    def construct(self, kind):
        """host calls the exported constructor of resource `kind` ("<iface>.<res>"): the guest creates a resource,
        the host receives its handle; a fallible constructor is scripted to return Ok here"""
        iface, rname = kind.split(".")
        m = next(x for x in self.exports if x["kind"] == "constructor" and x["resource"] == rname and x["iface"].endswith("/" + iface))
        saved = self.expect        # we may be in the middle of generating the arguments of another call
        self.export_step(m, force_ok=True)
        self.expect = saved

    def handles_in(self, term, ann):
        """handle numbers of a value term in traversal order, with their annotated atoms"""
        out = []
        def walk(v, t):
            if isinstance(t, str):
                if t.startswith("own@") or t.startswith("borrow@"):
                    out.append((t, int(v[1])))
                return
            k = t[0]
            if k in ("list", "flist"):
                for x in v[1:]: walk(x, t[1])
            elif k == "map":
                for e in v[1:]: walk(e[1], t[1]); walk(e[2], t[2])
            elif k in ("record", "tuple"):
                for x, ft in zip(v[1:], t[1:]): walk(x, ft)
            elif k == "variant":
                if len(v) > 2: walk(v[2], t[1 + int(v[1])])
            elif k == "option":
                if len(v) > 2: walk(v[2], t[1])
            elif k == "result":
                if len(v) > 2: walk(v[2], t[1 + int(v[1])])
        walk(parse(term), parse(ann))
        return out

    def replace_handles(self, term, ann, values):
        """the same value with its handles (traversal order) replaced by `values`"""
        it = iter(values)
        def walk(v, t):
            if isinstance(t, str):
                if t.startswith("own@") or t.startswith("borrow@"):
                    return ["h", str(next(it))]
                return v
            k = t[0]
            if k in ("list", "flist"): return [v[0]] + [walk(x, t[1]) for x in v[1:]]
            if k == "map": return [v[0]] + [["r", walk(e[1], t[1]), walk(e[2], t[2])] for e in v[1:]]
            if k in ("record", "tuple"): return [v[0]] + [walk(x, ft) for x, ft in zip(v[1:], t[1:])]
            if k == "variant": return v if len(v) == 2 else [v[0], v[1], walk(v[2], t[1 + int(v[1])])]
            if k == "option": return v if len(v) == 2 else [v[0], v[1], walk(v[2], t[1])]
            if k == "result": return v if len(v) == 2 else [v[0], v[1], walk(v[2], t[1 + int(v[1])])]
            return v
        return show(walk(parse(term), parse(ann)))

    def seed_policy(self):
        self.r.native.rq(f"POLICY|{self.rng.getrandbits(62)}")

    def export_step(self, m, force_ok=False):
        self.seed_policy()
        self.call_k += 1
        k = self.call_k
        self.trace.append(f"call+ {k}")
        self.expect = arg_expect = []
        vals = [bc.gen_val(self.rng, parse(a), 0, False, self.gen_handles(a, "export", "arg", k)) for a in m["params_ann"]]
        self.expect = ret_expect = []
        ret = bc.gen_val(self.rng, parse(m["result_ann"]), 0, False, self.gen_handles(m["result_ann"], "export", "ret", k)) if m["result"] is not None else None
        if force_ok and ret is not None and ret.startswith("(var 1"):
            rt = parse(m["result_ann"])
            self.expect = ret_expect = []
            ret = f"(var 0 {bc.gen_val(self.rng, rt[1], 1, False, self.gen_handles(m['result_ann'], 'export', 'ret', k))})"
        o = self.r.export_call(m, vals, ret)
        self.kinds["export:" + m["kind"]] = self.kinds.get("export:" + m["kind"], 0) + 1
        if "error" in o:
            self.fail("call-failed", "export call did not complete: " + o["error"][:200], function=m["key"])
            return o
        pt_ann = "(tuple" + "".join(" " + a for a in m["params_ann"]) + ")"
        want = bc.canon_str(self.replace_handles(bc.vals_term(vals), pt_ann, arg_expect), bc.params_ty(m))
        got = bc.canon_str(o["observed"], bc.params_ty(m)) if o.get("observed") else None
        model = bc.canon_str(self.replace_handles(o["model_observed"], pt_ann, arg_expect), bc.params_ty(m)) if o.get("model_observed") else None
        self.corr.append((f"export-args {m['key']} {bc.vals_term(vals)}", got, model))
        if got != want and bc.diff_class(want, got, bc.params_ty(m)) is None:
            self.fail("resource:value-changed", "values (with their handles / resource identities) arrived changed in the user function", function=m["key"], sent=want, observed=got)
        # scoped borrows must be gone when the call returns
        left = [h for h, e in self.table.items() if e["kind"] == "borrow" and e.get("scope") == k]
        self.trace.append(f"call- {k}")
        if left:
            self.fail("resource:borrow-outlives-call", "a borrowed handle the export received is still in the guest's table when the export returns", handles=left, function=m["key"])
            for h in left: del self.table[h]
        # own handles the guest received must have been dropped by the stub (it drops every argument)
        for atom, h in self.handles_in(bc.vals_term(vals), pt_ann):
            if atom.startswith("own") and h in self.table:
                self.fail("resource:received-own-not-dropped", "an owned handle received by the export was not dropped although its Rust value was dropped", handle=h, function=m["key"])
                del self.table[h]
        if m["result"] is not None:
            lifted = o.get("lifted")
            if lifted is None:
                self.fail("resource:value-changed", "the host traps lifting the export's result", function=m["key"])
                return o
            hs = self.handles_in(lifted, m["result_ann"])
            sent_hs = self.handles_in(ret, m["result_ann"])
            want_vals = []
            for (atom, h), exp in zip(hs, ret_expect):
                e = self.table.get(h)
                self.trace.append(f"own- {h}")
                if e is None or e["kind"] != "own":
                    self.fail("resource:transfer-of-handle-not-owned", "the export returned an owned handle the guest does not hold (transferred twice or never received)", handle=h, function=m["key"])
                    want_vals.append(h)
                    continue
                del self.table[h]
                if e["res"][0] == "exp":
                    rep = e["res"][1]
                    self.exp_owned[rep] = exp
                    if self.slot.get(rep) != exp:
                        self.fail("resource:value-changed", "the resource returned by the export does not hold the value the user function wrapped", rep=rep, want=exp, slot=self.slot.get(rep))
                want_vals.append(h)
            if len(hs) != len(ret_expect):
                self.fail("resource:value-changed", "the number of handles in the lifted result differs from what the user function returned", function=m["key"])
            else:
                # non-handle parts must be unchanged; handles: exported = fresh table indices, imported = the same index
                a = bc.canon_str(self.replace_handles(lifted, m["result_ann"], [0] * len(hs)), m["result"])
                b = bc.canon_str(self.replace_handles(ret, m["result_ann"], [0] * len(hs)), m["result"])
                if a != b:
                    self.fail("resource:value-changed", "the result of the export arrived changed at the host", function=m["key"], returned=b, lifted=a)
                for (atom, h), (_, s) in zip(hs, sent_hs):
                    if not self.is_exp(atom) and h != s:
                        self.fail("resource:value-changed", "an imported resource's handle changed on its way back to the host", function=m["key"], returned=s, lifted=h)
        self.ledger(m, o)
        return o

    def import_step(self, m, keep=False):
        self.seed_policy()
        self.expect = []
        vals = [bc.gen_val(self.rng, parse(a), 0, False, self.gen_handles(a, "import", "arg", 0)) for a in m["params_ann"]]
        self.expect = []
        ret = bc.gen_val(self.rng, parse(m["result_ann"]), 0, False, self.gen_handles(m["result_ann"], "import", "ret", 0)) if m["result"] is not None else None
        # handles in the result are created when the host answers; undo the table entries until then
        ret_handles = self.handles_in(ret, m["result_ann"]) if ret is not None else []
        pending = {}
        for _, h in ret_handles:
            pending[h] = self.table.pop(h)
            self.trace.pop()      # its own+ line is re-emitted at the time of the answer
        pt_ann = "(tuple" + "".join(" " + a for a in m["params_ann"]) + ")"
        arg_handles = self.handles_in(bc.vals_term(vals), pt_ann)
        host = self

        def before_return(out):
            # the guest has called the import: ownership of own arguments moves to the host now
            for atom, h in arg_handles:
                if atom.startswith("own"):
                    host.trace.append(f"own- {h}")
                    e = host.table.pop(h, None)
                    if e is None or e["kind"] != "own":
                        host.fail("resource:transfer-of-handle-not-owned", "an owned handle passed to an import is not held by the guest", handle=h, function=m["key"])
                    else:
                        host.imp_objs[e["res"][1]] = "returned"
                else:
                    host.trace.append(f"lend {h}")
                    if h not in host.table:
                        host.fail("resource:lend-of-handle-not-owned", "a borrowed handle passed to an import is not held by the guest", handle=h, function=m["key"])
            for h, e in pending.items():
                host.table[h] = e
                host.trace.append(f"own+ {h} i:{e['res'][1]}")

        o = self.r.import_call(m, vals, ret, before_return=before_return, keep=keep)
        self.kinds["import:" + m["kind"]] = self.kinds.get("import:" + m["kind"], 0) + 1
        if "error" in o:
            self.fail("call-failed", "import call did not complete: " + o["error"][:200], function=m["key"])
            return o
        fs = bc.value_findings(m, o)
        for cls, what, d in fs:
            if cls != "flags-lift-sign-extends-word":
                self.fail("resource:value-changed", what, function=m["key"], **d)
        i_, m_ = bc.value_corr(m, o)
        self.corr.append((f"import {m['key']} {bc.vals_term(vals)} -> {ret}", i_, m_))
        if keep and o.get("stash") is not None:
            self.stashed.append((o["stash"], [h for _, h in ret_handles]))
        else:
            for _, h in ret_handles:
                if h in self.table:
                    self.fail("resource:received-own-not-dropped", "an owned handle returned by an import was not dropped although its Rust value was dropped", handle=h, function=m["key"])
                    del self.table[h]
        # the driver owned the resources it lent: they are dropped when the driver releases its arguments
        for atom, h in arg_handles:
            if atom.startswith("borrow") and h in self.table:
                self.fail("resource:owner-of-lent-handle-not-dropped", "the Rust value that owned a handle lent to an import was dropped without resource-drop", handle=h, function=m["key"])
                del self.table[h]
        self.ledger(m, o)
        return o

    def ledger(self, m, o):
        """heap monitors that stay meaningful in resource worlds: allocator errors (double free, wrong layout, writes
        outside blocks); block-level balance is C06's subject and is perturbed here by representations that
        legitimately outlive calls"""
        for rep in [o.get("call_report"), o.get("post_report")]:
            for e in (rep or {}).get("errs", []):
                self.fail("allocator:" + e.split(":")[0], "allocator error during a call in a resource world", function=m["key"], error=e)

    def unkeep_step(self):
        """user code drops a payload it kept after into_inner"""
        if not self.kept: return
        k = self.kept.pop(self.rng.randrange(len(self.kept)))
        self.r.native.send(f"UNSTASH|{k}")
        self.r.await_final({})

    def unstash_step(self):
        if not self.stashed: return
        idx, hs = self.stashed.pop(self.rng.randrange(len(self.stashed)))
        self.r.native.send(f"UNSTASH|{idx}")
        self.r.await_final({})
        for h in hs:
            if h in self.table:
                self.fail("resource:received-own-not-dropped", "an owned handle held by a stashed Rust value was not dropped when the value was dropped", handle=h)
                del self.table[h]

    def host_drop_step(self):
        """the host drops an exported resource it owns: the destructor runs"""
        if not self.exp_owned: return
        rep = self.rng.choice(sorted(self.exp_owned))
        self.call_dtor(self.exp_kind[rep][1], rep, {})

    def run(self, steps):
        self.corr = []
        free_exports = [m for m in self.exports]
        for _ in range(steps):
            self.steps += 1
            x = self.rng.random()
            try:
                if x < 0.45:
                    self.export_step(self.rng.choice(free_exports))
                elif x < 0.85:
                    self.import_step(self.rng.choice(self.imports), keep=self.rng.random() < 0.3)
                elif x < 0.90:
                    self.unstash_step()
                elif x < 0.94:
                    self.unkeep_step()
                else:
                    self.host_drop_step()
            except Crash as e:
                self.fail("call-failed", f"batch binary died ({e})")
                self.r.restart_native()
                return
            except Abort:
                return
        # wind down: the guest drops what it still holds, the host drops what it owns
        while self.stashed: self.unstash_step()
        while self.kept: self.unkeep_step()
        while self.exp_owned: self.host_drop_step()
        self.trace.append("end")
        if self.table:
            self.fail("resource:handle-leaked", "handles remain in the guest's table after every Rust value was dropped", handles=sorted(self.table))
        alive = sorted(i for i, st in self.payload.items() if st != "dead")
        if alive:
            self.fail("resource:payload-never-dropped", "Rust values of exported resources were never dropped although every handle and every kept value is gone", payloads=alive)
        if self.exp_live:
            self.fail("resource:exported-resource-never-destroyed", "exported resources were never destroyed although every handle to them is gone", reps=sorted(self.exp_live))


def run(c):
    quick = c.tier == "quick"
    c.rule = ("one evaluation = one host history (40 quick / 120 thorough steps: export calls incl. constructors, methods, statics, "
              "exports receiving own/borrowed handles of the exported and of an imported resource nested in records, variants, options, "
              "results, lists, tuples; import calls taking/lending/returning handles; delayed drops of stashed results; host drops) "
              "traced (intrinsic calls, dtor calls, user-level drops) and replayed in Lean; non-trivial = the history transfers, lends and "
              "drops handles of both kinds; distinct by (world, history)")
    ok = c.lake_build(["Witverif.Props.C07"])
    if ok: c.audit("Witverif.Props.C07")
    if not quick and ok: c.leanchecker("Witverif.Props.C07")
    emitter, host = bc.prepare(c)
    if not emitter or not host:
        return
    n_worlds = 10 if quick else 80
    steps = 40 if quick else 120
    items = []
    stats = {}
    for k in range(n_worlds):
        cfg = bc.random_config(c.rng)
        if k < 3: cfg = bc.config_str(own=bc.OWN[k])
        wit, st = gen_resource_world(c.rng, k, cfg)
        for a, b in st.items(): stats[a] = stats.get(a, 0) + b
        items.append((cfg, wit))
    batches, dropped = bc.build_all(c, items, emitter, batch_size=12)
    for k, e in dropped.items():
        c.spec_violation(bc.classify_compile_error(e), "generated Rust bindings of a resource world do not compile (" + e + ")",
                         {"config": items[k][0], "wit": items[k][1], "rustc": e})
    nc = bc.load_corpus(os.path.join(VERIF, "corpus", "C07-nocompile.txt"))
    nc_items = [(cfg, text.replace("t:wX", f"t:w{900 + k}")) for k, (cfg, text) in enumerate(nc)]
    if nc_items:
        _, nc_dropped = bc.build_all(c, nc_items, emitter)
        for k, e in nc_dropped.items():
            c.spec_violation(bc.classify_compile_error(e), "generated Rust bindings of a resource world do not compile (" + e + ")",
                             {"config": nc_items[k][0], "wit": nc_items[k][1], "rustc": e})
        c.cov["nocompile_corpus"] = {"worlds": len(nc_items), "still_failing": len(nc_dropped)}
    reqs, impl, model = [], [], []
    treqs, timpl, tmodel = [], [], []
    kinds, nsteps, nevents, evkinds = {}, 0, 0, {}
    hostp = bc.Proc([host])
    for batch, gmap in batches:
        for m in batch.manifest:
            if m["dir"] == "item" and m["status"] != "ok":
                c.spec_violation("rust-generator-failed", f"the Rust generator {m['status']}s on a valid resource world: {m.get('message', '')[:300]}",
                                 {"config": m["config"], "wit": items[gmap[m['item']]][1]})
        fr = bc.flags_lift_rendering(batch)
        bc.Runner.flags_mode = fr if fr in ("zext", "sext") else "zext"
        r = bc.Runner(batch.binary, host)
        try:
            for it in sorted({m["item"] for m in batch.manifest if m["dir"] == "item" and m["status"] == "ok"}):
                cfg, wit = items[gmap[it]]
                h = ResHost(c, r, it, batch.manifest, c.rng, cfg, wit)
                r.import_handler = h.on_event
                r.event_handler = h.on_guest_event
                h.run(steps)
                nsteps += h.steps; nevents += len(h.trace)
                for ev in ("take", "mk", "udrop", "dudrop", "dtor", "own-", "lend"):
                    evkinds[ev] = evkinds.get(ev, 0) + sum(1 for t in h.trace if t.startswith(ev + " "))
                for a, b in h.kinds.items(): kinds[a] = kinds.get(a, 0) + b
                for q, i_, m_ in h.corr:
                    reqs.append(q); impl.append(str(i_)); model.append(str(m_))
                # Lean: host semantics (spec) + the trace is a trace of the glue model
                ans = hostp.rq("resource|" + ";".join(h.trace)) or "m_host died"
                treqs.append(f"w{gmap[it]} " + ";".join(h.trace)[:4000])
                timpl.append("accepted" if not any(f[0].startswith("resource:") for f in h.findings) else "rejected")
                tmodel.append("accepted" if ans == "ok" else "rejected")
                c.evaluations += 1
                if any(t.startswith("own- ") for t in h.trace) and any(t.startswith("lend ") for t in h.trace) and any(t.startswith("dtor ") for t in h.trace):
                    c.nontrivial.add(treqs[-1])
                if ans != "ok":
                    h.fail("resource:trace-rejected-by-lean", "the traced history is rejected by the Lean host semantics / is not a trace of the glue model: " + ans)
                for cls, what, d in h.findings:
                    c.spec_violation(cls, what, {"config": cfg, "wit": wit, "trace_tail": h.trace[-30:], **d})
                if len(c.samples) < 3:
                    c.sample({"config": cfg, "trace_head": h.trace[:25], "lean": ans})
        finally:
            r.close()
    hostp.close()
    c.compare("values-in-resource-worlds", reqs, impl, model)
    c.compare("history-accepted", treqs, timpl, tmodel, nontrivial=lambda r, o: False)
    c.cov["worlds"] = {"generated": len(items), "compiled": sum(len(g) for _, g in batches), "dropped_not_compiling": len(dropped)}
    c.cov["histories"] = {"steps": nsteps, "trace_events": nevents, "step_kinds": kinds, "event_kinds": evkinds}
    c.cov["type_constructors_generated"] = stats
    c.cov["search"] = "host-side monitors (table discipline, scoped borrows, dtor/user-drop counts, final emptiness) and Lean replay on every history of this run"
    c.assumptions += [
        "native execution at pointer width 8; the arena of the batch binary lies below 4 GiB so that representations survive the `as u32` casts the generated code performs (lossless on wasm32)",
        "the host is this check's handle table (monotonic indices, so any use after transfer hits a dead index) validated against the Lean host semantics on every trace",
        "user code = emitted stubs: they drop every received value at once; results of imports are dropped at once or stashed and dropped later",
        "error-context handles are not exercised (they need the async runtime of guest-rust: C18-C23)",
        "trace events own+/bor+/call+-/use (host lowers) and own-/lend (host lifts what the guest passed) are written by this check's host from the values it sends and observes; only drop/new/rep (H3 symbols), dtor (export call) and udrop (stub Drop) originate in the guest",
        f"tier {c.tier}: {n_worlds} histories of {steps} steps each are replayed (quick: 10 x 40)",
        "fallible constructors: every world has a resource `fres` whose constructor returns result<fres, string> (imported and exported), scripted to return both Ok and Err",
    ]
