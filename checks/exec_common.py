"""Shared part of the checks C22 (export task executor) and C23 (cross-task wakeups).
Models: lean/Witverif/Async/{Task,Wakeup}.lean (executor LTS, the object of the theorems),
Async/ExecScript.lean (script interpreter: task bodies, Tasks::poll_next / FuturesUnordered, several tasks,
block_on) + Async/UnitHost.lean (mock host incl. the unit stream); spec monitor Async/TaskSpec.lean.
Tie: harness/rt-native engine `exec` — the REAL runtime linked natively (hook H1) in the feature builds
default / async-spawn / inter-task-wakeup, real `start_task` / `callback` / `block_on` / `spawn_local` /
wakers — vs m_exec: EXACT trace equality (up to the point where a Rust panic starts, marked `@panic` by the
harness's panic hook: what follows is unwinding), and the Lean specification monitor evaluated on the REAL traces."""
import os, collections, re
from vlib import run_lines, VERIF, sh
import rtlib, execlib

# ---- which monitor classes belong to which property (generic ones are reported by both) -------------------
C23_CLASSES = ("wake-", "wakeup-", "cancel-read-in-set", "panic:wake-after-cancelled-sleep")
GENERIC = ("panic", "anomaly:", "leak", "alloc-errors", "host:", "malformed", "missing")

# documented, intended panics of the runtime (not inputs of the properties): recognised by their message
DOCUMENTED_PANICS = (
    ("cannot sleep waiting only on Rust-originating events", "task sleeps on a Rust-only event without the inter-task-wakeup feature (documented panic)"),
    ("Cannot support cross-component-model-task wakeup", "cross-task wake without the inter-task-wakeup feature (documented panic)"),
)

# classes with a precise classifier (known findings, and repaired defects whose reappearance must be named)
KNOWN_WHAT = {
    "wake-after-cancelled-sleep":
        "a task cancelled (EVENT_CANCEL) while asleep keeps sleep state SLEEPING: a later wake (a waker held elsewhere, or a "
        "destructor of its own futures) writes to the dead wake-up stream and `assert_eq!(rc, COMPLETED|1<<4)` panics in the "
        "waker's caller (without the feature: the cross-task-wakeup panic fires inside the task's destructor)",
    "block-on-yield-without-waitable-set":
        "block_on panics (`Option::unwrap()` on `None`, async_support.rs block_on/Yield arm) when the future yields before any "
        "waitable was registered: the waitable set does not exist yet",
}
# monitor classes that are consequences of a known defect in the same script
CONSEQUENCES = {
    "wake-after-cancelled-sleep": {"panic:wake-after-cancelled-sleep", "wake-after-exit-not-noop", "wakeup-write-failed"},
    "block-on-yield-without-waitable-set": {"panic:block-on-yield-without-waitable-set"},
}


def owns(pid, cls):
    is23 = cls.startswith(C23_CLASSES)
    if cls.startswith(GENERIC) and not cls.startswith("panic:"):
        return True
    if pid == "C23":
        return is23
    # C22: everything that is not a pure wake-up-stream class; the cancelled-sleep panic also breaks
    # "the task and its destructors are released exactly once" (the destructor run panics)
    # … and answering WAIT although the task was woken during the poll is an inconsistent answer
    return not is23 or cls in ("panic:wake-after-cancelled-sleep", "wake-during-poll-lost")


def build_exec(c, build):
    """Build rt-native in the given feature build and return a private copy of the executable.
    Like rtlib.build_rt, but (a) the copy is installed by an atomic rename (another check may be executing the old
    copy), (b) the copy's features are probed: several builders share one cargo target directory and build the same
    package with different features, so the artefact may have been replaced between `cargo build` and the copy."""
    from vlib import HARNESS, BUILD, REPO
    import shutil, subprocess
    features = execlib.BUILDS[build]
    cmd = ["cargo", "build", "-p", "rt-native"]
    if features:
        cmd += ["--features", features]
    # one target directory per feature build: no rebuild ping-pong between the three builds (and with other checks)
    env, mut = {}, os.path.realpath(REPO) != "/repo"
    target = os.path.join(BUILD, "target-rt-" + build + ("-mut" if mut else ""))
    cmd += ["--target-dir", target]
    if mut:
        cmd += ["--config", 'paths=["%s/crates/guest-rust"]' % REPO]
        env["VERIF_REPO"] = REPO
        if not any("repo copy" in x for x in c.notes):
            c.notes.append(f"rt-native built against the repo copy {REPO}")
    dst = os.path.join(BUILD, "rt-exec-" + build + ("-mut" if mut else ""))
    last = ""
    for attempt in range(4):
        rc, out = sh(cmd, cwd=HARNESS, timeout=3000, env=env)
        if rc != 0:
            c.broken.append((f"harness build rt-native ({build})", out[-3000:]))
            return None
        tmp = dst + ".tmp%d" % os.getpid()
        shutil.copy2(os.path.join(target, "debug", "rt-native"), tmp)
        probe = subprocess.run([tmp, "exec"], input="start |  | s1 ; |\nstart |  | k0 w | X1\n", capture_output=True, text=True).stdout
        has_spawn = " sp1 " in probe
        has_itw = "us.new=" in probe
        if has_spawn == (build == "async-spawn") and has_itw == (build == "inter-task-wakeup"):
            os.replace(tmp, dst)
            return dst
        os.remove(tmp)
        last = probe[:300]
    c.broken.append((f"harness build rt-native ({build})", "the built executable does not have the requested features (concurrent builds?): " + last))
    return None


def cut(trace):
    """comparison form: everything up to and including the first `@panic`"""
    i = trace.find("@panic")
    return trace if i < 0 else trace[:i + len("@panic")]


def load_corpus(pid, builds):
    reqs = []
    p = os.path.join(VERIF, "corpus", pid + ".txt")
    if os.path.exists(p):
        for l in open(p):
            l = l.rstrip("\n")
            if not l.strip() or l.startswith("#"):
                continue
            b, _, script = l.partition("\t")
            if b in builds:
                reqs.append((b, script))
    return reqs


def run_exec(c, pid, builds, n_per_build, maxbody, props_module):
    rc, out = sh(["python3", os.path.join(VERIF, "tools", "gen_limits.py")])
    c.cov["translator"] = out.strip()
    if rc != 0:
        c.broken.append(("translator gen_limits", out[-500:]))
    ok = c.lake_build([props_module])
    if ok:
        c.audit(props_module)
    if c.tier == "thorough" and ok:
        c.leanchecker(props_module)
    model = c.model_exe("m_exec")
    corpus = load_corpus(pid, builds)
    if c.replay and "witness" in c.replay and "request" in c.replay["witness"]:
        w = c.replay["witness"]
        corpus.insert(0, (w.get("build", builds[0]), w["request"]))
    stats = collections.Counter()
    events, shapes, skipped, classes_seen = collections.Counter(), set(), collections.Counter(), collections.Counter()
    per_build = {}
    samples = 0
    for b in builds:
        exe = build_exec(c, b)
        reqs = [s for (bb, s) in corpus if bb == b]
        ncorpus = len(reqs)
        bstats = collections.Counter()
        for _ in range(n_per_build):
            reqs.append(execlib.gen_exec_script(c.rng, b, 3, maxbody, bstats))
        for k, v in bstats.items():
            stats[k] += v
        if not exe or not model:
            continue
        iout = run_lines([exe, "exec"], reqs[:ncorpus], timeout=300) + run_lines([exe, "exec"], reqs[ncorpus:], timeout=1800)
        itrace = [o.split("\t")[0] for o in iout]
        mout = run_lines([model], [b + "\t" + r + "\t" + o for r, o in zip(reqs, itrace)], timeout=1800)
        mtrace = [m.split("\t")[0] for m in mout]

        def nontriv(r, o):
            return "cb=wait" in o or "ws.wait" in o or "cb=yield" in o
        c.compare(f"exec-{b}", [b + "\t" + r for r in reqs], [cut(x) for x in itrace], [cut(x) for x in mtrace], nontrivial=nontriv)
        per_build[b] = {"corpus": ncorpus, "seeded": n_per_build, "panicked": 0, "multi_task": 0, "spawned": 0, "slept": 0}
        for idx, (r, o, m) in enumerate(zip(reqs, itrace, mout)):
            shapes.add(b + "|" + o)
            toks = o.split(" ")
            for t in toks:
                name = re.split(r"[0-9(=:]", t, maxsplit=1)[0]
                if name: events[name] += 1
            if "@panic" in toks: per_build[b]["panicked"] += 1
            if "T2" in toks: per_build[b]["multi_task"] += 1
            if any(t.startswith("sp") and t[2:].isdigit() for t in toks): per_build[b]["spawned"] += 1
            if any(t.startswith("us.read(") for t in toks): per_build[b]["slept"] += 1
            if samples < 3 and idx >= ncorpus and nontriv(r, o):
                c.sample({"build": b, "script": r, "impl_trace": o})
                samples += 1
            verdict = m.split("\t")[1] if "\t" in m else "spec=missing"
            if verdict == "spec=ok":
                continue
            pmsg = (iout[idx].split("\t") + [""])[1]
            fails = verdict.split(":", 1)[1].split(",") if verdict.startswith("spec=fail:") else ["missing"]
            fails = [f.split("@")[0] for f in fails]
            # the monitor only suspects a `block_on`-YIELD panic from the shape of the trace; the panic message decides
            if "panic:block-on-yield-without-waitable-set" in fails and "Option::unwrap()" not in pmsg:
                fails = ["panic" if f == "panic:block-on-yield-without-waitable-set" else f for f in fails]
            if "panic:wake-after-cancelled-sleep" in fails and not ("Cannot support cross-component-model-task wakeup" in pmsg
                                                                     or "inter_task_wakeup.rs" in pmsg):
                fails = ["panic" if f == "panic:wake-after-cancelled-sleep" else f for f in fails]
            # scripts outside the properties' domain
            if "deadlock" in toks:
                skipped["block_on script deadlocks (nobody left to wake the task): host escape hatch"] += 1
                continue
            if "panic" in fails:
                doc = next((why for msg, why in DOCUMENTED_PANICS if msg in pmsg), None)
                if doc:
                    skipped[doc] += 1
                    fails = [f for f in fails if f != "panic"]
            mine = [f for f in fails if owns(pid, f)]
            known = [k for k, cons in CONSEQUENCES.items() if ("panic:" + k) in fails]
            explained = set().union(*[CONSEQUENCES[k] for k in known]) if known else set()
            for k in known:
                if owns(pid, "panic:" + k):
                    classes_seen[k] += 1
                    c.spec_violation(k, KNOWN_WHAT[k], {"build": b, "request": r, "impl": o, "verdict": verdict, "panic": pmsg})
            for f in sorted(set(mine) - explained):
                key = "exec-" + re.sub(r"[^a-z!:-]+", "-", f).strip("-")[:70]
                classes_seen[key] += 1
                c.spec_violation(key, "the real trace violates the %s specification monitor (%s)" % (pid, f),
                                 {"build": b, "request": r, "impl": o, "model": m.split("\t")[0], "verdict": verdict, "panic": pmsg})
    c.cov["input_distribution"] = dict(sorted(stats.items()))
    c.cov["trace_events"] = dict(sorted(events.items()))
    c.cov["per_build"] = per_build
    c.cov["distinct_traces"] = len(shapes)
    c.cov["scripts_not_applicable"] = dict(skipped)
    c.cov["spec_classes_seen"] = dict(classes_seen)
    c.cov["search"] = ("TaskSpec monitor (per task: exit/wait/yield clauses, context-slot sequence, body life cycle, task.return/task.cancel, "
                       "wake-up stream: one item per sleep, coalescing, read cancelled before poll/drop, wake after exit) + legality of recorded "
                       "subtask answers + anomalies/leaks, evaluated by the Lean driver on the implementation's trace of every script of this run")
