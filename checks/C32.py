"""C32 — the generate! macro tracks every WIT file it reads.
Model + spec: lean/Witverif/Text/MacroDeps.lean, theorems: lean/Witverif/Props/C32.lean, driver m_macrodeps.
Tie (real code, natively): a scratch cargo workspace (under /verif/.build/macrodeps-ws, target dir
/verif/.build/macrodeps) of small crates that invoke `wit_bindgen::generate!` (path dep on
/repo/crates/guest-rust, feature `macros`) on seeded package layouts x invocation forms.  Observed:
  D  = the crate's cargo dep-info (.d) file                      (what rustc/cargo track)
  R  = regular files under the case directory opened while `cargo check` ran under strace -f
  rebuild-on-touch: every file of R ∪ D is touched in turn, cargo must rebuild the crate
Compared: success/failure, D and R against the model's tracked / reads sets (exact, as sets);
the C32 monitor `readSubsetTracked` (Lean, spec side) is evaluated on the observed (R, D)."""
import os, json, shutil, subprocess, re, time, collections
from vlib import run_lines, sh, VERIF, REPO, BUILD

WS = os.path.join(BUILD, "macrodeps-ws")
TGT = os.path.join(BUILD, "macrodeps")
GARBAGE = "this is not WIT {{{\n"

def hx(s): return s.encode().hex() if s else "-"
def unhx(h): return "" if h == "-" else bytes.fromhex(h).decode()

# ------------------------------------------------------------------ case generation
def dep_pkg(i): return f"package t:d{i};\ninterface i{i} {{ f{i}: func(); }}\n"

def gen_case(rng, idx, st):
    """A case: files (relative to the case directory; the crate is `crate/`), an invocation, expectation flags."""
    files = {}          # rel path -> (kind, text)   kind: w valid WIT text | b rejected | p wasm-encoded (text = WIT to encode)
    dirs = set()
    form = rng.choice(["bare", "bare-w", "bare-in", "bare-in", "braces-path", "braces-path", "braces-paths", "braces-paths",
                       "braces-paths", "inline-none", "inline-default", "inline-path", "path-inline", "braces-default"])
    st["form:" + form] += 1
    # where the main package lives
    loc = rng.choice(["crate/wit", "crate/wit", "crate/wit", "crate/my-wit", "shared/pkg", "crate/a/b/wit"])
    if form in ("bare", "bare-w", "inline-default", "braces-default"): loc = "crate/wit"
    if form == "inline-none": loc = None
    single_file_main = form in ("bare-in", "braces-path") and rng.random() < 0.2
    can_import = form not in ("bare", "bare-w", "bare-in")      # generate_all only exists in the braced form
    ndeps = rng.choice([0, 1, 1, 2, 2, 3, 4]) if loc else 0
    imports = []
    deps_present = []
    if loc:
        for i in range(ndeps):
            shape = rng.choice(["dir", "dir", "dir2", "file", "file", "wasm", "wasm-named-text", "wat-named-text"])
            if single_file_main: shape = rng.choice(["dir", "file"])
            st["dep:" + shape] += 1
            d = f"{loc}/deps"
            usable = True
            if shape == "dir":
                files[f"{d}/d{i}/i.wit"] = ("w", dep_pkg(i))
            elif shape == "dir2":
                files[f"{d}/d{i}/a.wit"] = ("w", dep_pkg(i))
                files[f"{d}/d{i}/b.wit"] = ("w", f"package t:d{i};\ninterface extra{i} {{ }}\n")
            elif shape == "file":
                files[f"{d}/d{i}.wit"] = ("w", dep_pkg(i))
            elif shape == "wasm":
                files[f"{d}/d{i}.wasm"] = ("p", dep_pkg(i))
            elif shape == "wasm-named-text":
                files[f"{d}/d{i}.wasm"] = ("w", dep_pkg(i))
            elif shape == "wat-named-text":
                files[f"{d}/d{i}.wat"] = ("w", dep_pkg(i))
            if single_file_main: usable = False       # deps/ is not consulted for a single-file path
            if usable: deps_present.append(i)
            # things wit-parser must ignore (rejected content: reading them would turn the case into an error)
            if shape in ("dir", "dir2") and rng.random() < 0.5:
                k = rng.choice(["nested-deps", "junk", "upper", "subdir"])
                st["ignored:" + k] += 1
                if k == "nested-deps": files[f"{d}/d{i}/deps/n/n.wit"] = ("b", GARBAGE)
                elif k == "junk": files[f"{d}/d{i}/notes.txt"] = ("b", GARBAGE)
                elif k == "upper": files[f"{d}/d{i}/X.WIT"] = ("b", GARBAGE)
                else: files[f"{d}/d{i}/sub/s.wit"] = ("b", GARBAGE)
        if ndeps and rng.random() < 0.4:
            k = rng.choice(["deps-txt", "deps-hidden-wit", "deps-noext", "deps-witx"])
            st["ignored:" + k] += 1
            files[f"{loc}/deps/" + {"deps-txt": "README.txt", "deps-hidden-wit": ".wit", "deps-noext": "wit",
                                    "deps-witx": "x.witx"}[k]] = ("b", GARBAGE)
        if can_import:
            imports = [i for i in deps_present if rng.random() < 0.8]
    # main package
    world_body = "".join(f" import t:d{i}/i{i};" for i in imports)
    extra_paths = []
    if form == "braces-paths":
        k = rng.choice(["file-first", "dir-first", "file-after"])
        st["paths:" + k] += 1
        if k == "file-first":
            files["shared/s.wit"] = ("w", "package t:sh;\ninterface s { g: func(); }\n")
            extra_paths = [("../shared/s.wit", True)]; world_body += " import t:sh/s;"
        elif k == "dir-first":
            files["other/wit/o.wit"] = ("w", "package t:oth;\ninterface o { g: func(); }\n")
            files["other/wit/deps/od.wit"] = ("w", "package t:od;\ninterface odi { g: func(); }\n")
            extra_paths = [("../other/wit", True)]; world_body += " import t:oth/o;"
        else:
            files["shared/s.wit"] = ("w", "package t:sh;\ninterface s { g: func(); }\n")
            extra_paths = [("../shared/s.wit", False)]
    main_text = f"package t:main;\nworld w {{{world_body} }}\n"
    if loc:
        if single_file_main:
            files[f"{loc}/w.wit"] = ("w", main_text)
        else:
            files[f"{loc}/w.wit"] = ("w", main_text)
            if rng.random() < 0.4:
                st["main:second-file"] += 1
                files[f"{loc}/types.wit"] = ("w", "package t:main;\ninterface types { type t = u32; }\n")
            if rng.random() < 0.25:
                st["main:hidden-dot-wit"] += 1
                files[f"{loc}/.wit"] = ("w", "interface hidden { }\n")
            if rng.random() < 0.4:
                k = rng.choice(["junk", "witx", "dir-named-wit", "upper"])
                st["ignored:main-" + k] += 1
                if k == "junk": files[f"{loc}/README.md"] = ("b", GARBAGE)
                elif k == "witx": files[f"{loc}/old.wit.bak"] = ("b", GARBAGE)
                elif k == "dir-named-wit": files[f"{loc}/d.wit/inner.wit"] = ("b", GARBAGE)
                else: files[f"{loc}/W.WIT"] = ("b", GARBAGE)
    # error injection
    err = None
    later_ok = True
    inline_ok = True
    r = rng.random()
    if r < 0.22:
        err = rng.choice(["bad-main", "bad-dep", "missing-path", "empty-dep-dir", "deps-is-file", "later", "inline-bad",
                          "second-source", "not-a-dir-step"])
        if err in ("bad-main", "empty-dep-dir", "deps-is-file") and not loc: err = "later"
        if err == "bad-dep" and not (loc and any(p.startswith(f"{loc}/deps/") and files[p][0] != "b" for p in files)): err = "later"
        if err == "inline-bad" and not form.startswith(("inline", "path-inline")): err = "later"
        if err in ("missing-path", "not-a-dir-step") and form in ("bare", "bare-w", "inline-default", "inline-none", "braces-default"):
            err = "later"
        if single_file_main and err in ("bad-dep", "empty-dep-dir", "deps-is-file"): err = "later"
        st["error:" + err] += 1
        if err == "bad-main":
            files[f"{loc}/broken.wit"] = ("b", GARBAGE)
            if single_file_main: files[f"{loc}/w.wit"] = ("b", GARBAGE)
        elif err == "bad-dep":
            p = rng.choice(sorted(p for p in files if p.startswith(f"{loc}/deps/") and files[p][0] != "b"))
            files[p] = ("b", GARBAGE)
        elif err == "empty-dep-dir":
            dirs.add(f"{loc}/deps/zz-empty")
        elif err == "deps-is-file":
            for p in [p for p in files if p.startswith(f"{loc}/deps/")]: del files[p]
            files[f"{loc}/deps"] = ("b", GARBAGE)
            main_text = "package t:main;\nworld w { }\n"; files[f"{loc}/w.wit"] = ("w", main_text)
        elif err == "later":
            later_ok = False
        elif err == "inline-bad":
            inline_ok = False
    else:
        st["error:none"] += 1
    # the invocation
    def relpath(loc):
        if loc.startswith("crate/"): base = loc[len("crate/"):]
        else: base = "../" + loc
        style = rng.choice(["plain", "plain", "dot", "dotdot", "abs"])
        st["pathstyle:" + style] += 1
        if style == "dot": return "./" + base
        if style == "dotdot" and base.startswith("wit"): return "wit/../" + base
        if style == "abs": return "@ABS@/" + loc
        return base
    world = "t:main/w" if form == "braces-paths" else ("w" if rng.random() < 0.5 or form in ("bare-w", "bare-in") else None)
    if not later_ok: world = "nonexistent-world"
    inv = {"form": form, "world": world, "opts": []}
    target = None
    if loc:
        target = loc + ("/w.wit" if single_file_main else "")
    if err == "missing-path": target = (loc or "crate/wit") + "-missing"
    if err == "not-a-dir-step": target = f"{loc}/w.wit/.." if not single_file_main else f"{loc}/w.wit/../w.wit"
    inline_text = "package t:inl;\nworld w {" + "".join(f" import t:d{i}/i{i};" for i in imports) + " }\n"
    if not inline_ok: inline_text = "package t:inl;\nworld w { import nonexistent:pkg/i; }\n"
    if form == "bare-in": inv["in"] = relpath(target)
    elif form == "braces-path": inv["opts"] = [["path", [relpath(target)]]]
    elif form == "braces-paths":
        main = relpath(target)
        ps = [p for p, first in extra_paths if first] + [main] + [p for p, first in extra_paths if not first]
        inv["opts"] = [["path", ps]]
    elif form in ("inline-none", "inline-default"): inv["opts"] = [["inline", inline_text]]
    elif form == "inline-path": inv["opts"] = [["inline", inline_text], ["path", [relpath(target)]]]
    elif form == "path-inline": inv["opts"] = [["path", [relpath(target)]], ["inline", inline_text]]
    if err == "second-source":
        inv["form"] = "braces-path"
        k = rng.choice(["path-path", "inline-inline", "inline-path-path", "path-inline-inline"])
        P, I = ["path", ["wit"]], ["inline", inline_text]
        inv["opts"] = {"path-path": [P, P], "inline-inline": [I, I], "inline-path-path": [I, P, P],
                       "path-inline-inline": [P, I, I]}[k]
    return {"name": f"c{idx:03d}", "files": {k: list(v) for k, v in files.items()}, "dirs": sorted(dirs), "inv": inv,
            "inline_ok": inline_ok, "later_ok": later_ok, "note": err or ""}

def lib_rs(case, absroot):
    inv = case["inv"]
    def q(p): return json.dumps(p.replace("@ABS@", absroot), ensure_ascii=False)
    if inv["form"] in ("bare", "bare-w", "bare-in") and not inv["opts"]:
        if inv["form"] == "bare" and case["later_ok"]: return "wit_bindgen::generate!();\n"
        w = inv["world"] or "w"
        if inv["form"] == "bare-in": return f"wit_bindgen::generate!({json.dumps(w)} in {q(inv['in'])});\n"
        return f"wit_bindgen::generate!({json.dumps(w)});\n"
    parts = []
    for o in inv["opts"]:
        if o[0] == "path":
            parts.append("path: " + (q(o[1][0]) if len(o[1]) == 1 else "[" + ", ".join(q(p) for p in o[1]) + "]"))
        else:
            parts.append('inline: r#"' + o[1] + '"#')
    if inv["world"]: parts.append("world: " + json.dumps(inv["world"]))
    parts.append("generate_all")
    return "wit_bindgen::generate!({\n    " + ",\n    ".join(parts) + ",\n});\n"

def model_request(case, casedir):
    ents = []
    seen = set()
    def add_dirs(p):
        parts = p.strip("/").split("/")
        for i in range(1, len(parts) + 1):
            d = "/" + "/".join(parts[:i])
            if d not in seen:
                seen.add(d); ents.append("d:" + hx(d))
    add_dirs(casedir + "/crate/src")
    for d in case["dirs"]: add_dirs(casedir + "/" + d)
    for rel, (k, _) in case["files"].items():
        add_dirs(os.path.dirname(casedir + "/" + rel))
        ents.append(k + ":" + hx(casedir + "/" + rel))
    ents.append("b:" + hx(casedir + "/crate/src/lib.rs"))
    ents.append("b:" + hx(casedir + "/crate/Cargo.toml"))
    inv = case["inv"]
    A = lambda p: hx(p.replace("@ABS@", casedir))
    if inv["form"] in ("bare", "bare-w", "bare-in") and not inv["opts"]:
        invs = "bare:" + A(inv["in"]) if inv["form"] == "bare-in" else "bare"
    else:
        os_ = []
        for o in inv["opts"]:
            if o[0] == "path": os_.append("p:" + ",".join(A(p) for p in o[1]))
            else: os_.append("i1" if case["inline_ok"] else "i0")
        invs = "braces:" + ";".join(os_)
    return "\t".join(["root=" + hx(casedir + "/crate"), "inv=" + invs, "later=" + ("1" if case["later_ok"] else "0"),
                      "fs=" + ",".join(ents)])

# ------------------------------------------------------------------ real runs
CARGO_TOML = """[package]
name = "{name}"
version = "0.0.0"
edition = "2021"
[lib]
path = "src/lib.rs"
[dependencies]
wit-bindgen = {{ path = "{repo}/crates/guest-rust", default-features = false, features = ["macros", "realloc", "std"] }}
"""

def write_ws(cases, witpkg):
    shutil.rmtree(WS, ignore_errors=True)
    os.makedirs(os.path.join(WS, ".cargo"))
    open(os.path.join(WS, ".cargo", "config.toml"), "w").write(
        f'[net]\noffline = true\n[build]\ntarget-dir = "{TGT}"\n')
    shutil.copy(os.path.join(REPO, "Cargo.lock"), os.path.join(WS, "Cargo.lock"))
    open(os.path.join(WS, "Cargo.toml"), "w").write(
        '[workspace]\nresolver = "2"\nmembers = [' + ", ".join(f'"{c["name"]}/crate"' for c in cases) + "]\n")
    # wasm-encoded packages through the real encoder
    need = sorted({t for c in cases for (k, t) in c["files"].values() if k == "p"})
    enc = {}
    if need:
        outs = run_lines([witpkg, "witpkg"], [hx(t) for t in need], timeout=120)
        for t, o in zip(need, outs):
            if not o.startswith("ok "): raise RuntimeError("witpkg failed: " + o)
            enc[t] = bytes.fromhex(o[3:])
    for c in cases:
        cd = os.path.join(WS, c["name"])
        os.makedirs(os.path.join(cd, "crate", "src"))
        for d in c["dirs"]: os.makedirs(os.path.join(cd, d), exist_ok=True)
        for rel, (k, text) in c["files"].items():
            p = os.path.join(cd, rel)
            os.makedirs(os.path.dirname(p), exist_ok=True)
            if k == "p": open(p, "wb").write(enc[text])
            else: open(p, "w").write(text)
        open(os.path.join(cd, "crate", "Cargo.toml"), "w").write(CARGO_TOML.format(name=c["name"], repo=REPO))
        open(os.path.join(cd, "crate", "src", "lib.rs"), "w").write(lib_rs(c, cd))
    # stale dep-info of earlier runs
    dd = os.path.join(TGT, "debug", "deps")
    if os.path.isdir(dd):
        for f in os.listdir(dd):
            if re.match(r"(lib)?c\d{3}-[0-9a-f]+\.(d|rmeta)$", f): os.unlink(os.path.join(dd, f))

def cargo_check(strace_out=None):
    cmd = ["cargo", "check", "--workspace", "--keep-going", "--message-format=json", "-q"]
    if strace_out:
        cmd = ["strace", "-f", "-qq", "-e", "trace=openat,open", "-e", "signal=none", "-o", strace_out] + cmd
    env = dict(os.environ, CARGO_NET_OFFLINE="true", CARGO_TARGET_DIR=TGT)
    env.pop("RUSTFLAGS", None)
    p = subprocess.run(cmd, cwd=WS, env=env, stdout=subprocess.PIPE, stderr=subprocess.PIPE, text=True, timeout=3000)
    built = {}      # package name -> fresh flag
    errors = collections.defaultdict(list)
    for line in p.stdout.split("\n"):
        if not line.startswith("{"): continue
        try: m = json.loads(line)
        except Exception: continue
        if m.get("reason") == "compiler-artifact":
            built[m["target"]["name"]] = m.get("fresh", False)
        elif m.get("reason") == "compiler-message" and m["message"].get("level") == "error":
            errors[m["target"]["name"]].append(m["message"]["message"][:300])
    return built, errors, p.stderr[-2000:]

def read_depinfo(name):
    dd = os.path.join(TGT, "debug", "deps")
    c = [f for f in os.listdir(dd) if re.match(re.escape(name) + r"-[0-9a-f]+\.d$", f)]
    if not c: return None
    c.sort(key=lambda f: os.path.getmtime(os.path.join(dd, f)))
    txt = open(os.path.join(dd, c[-1])).read()
    first = txt.split("\n")[0]
    rhs = first.split(": ", 1)[1] if ": " in first else ""
    toks = [t.replace("\\ ", " ") for t in re.split(r"(?<!\\) ", rhs) if t]
    return [t if os.path.isabs(t) else os.path.normpath(os.path.join(WS, t)) for t in toks]

def strace_reads(path):
    """regular files opened successfully (not O_DIRECTORY), by absolute path"""
    opened = set()
    full = re.compile(r'^(\d+)\s+open(?:at)?\((?:AT_FDCWD, )?"((?:[^"\\]|\\.)*)", ([A-Z_|0-9a-zx]+)[^)]*\)\s+= (-?\d+)')
    unfin = re.compile(r'^(\d+)\s+open(?:at)?\((?:AT_FDCWD, )?"((?:[^"\\]|\\.)*)", ([A-Z_|0-9a-zx]+).*<unfinished \.\.\.>')
    resumed = re.compile(r'^(\d+)\s+<\.\.\. open(?:at)? resumed>.*\)\s+= (-?\d+)')
    pend = {}
    def unesc(t):
        out, i = bytearray(), 0
        b = t.encode()
        while i < len(b):
            if b[i] == 0x5c and i + 1 < len(b):
                m = re.match(rb"[0-7]{1,3}", b[i + 1:i + 4])
                if m: out.append(int(m.group(0), 8)); i += 1 + len(m.group(0)); continue
                out += {ord("n"): b"\n", ord("t"): b"\t", ord("r"): b"\r"}.get(b[i + 1], bytes([b[i + 1]])); i += 2; continue
            out.append(b[i]); i += 1
        return out.decode(errors="replace")
    def add(p, flags, ret):
        if int(ret) < 0 or "O_DIRECTORY" in flags: return
        p = unesc(p)
        if not os.path.isabs(p): p = os.path.join(WS, p)
        p = os.path.normpath(p)
        if p.startswith(WS + "/"): opened.add(p)
    for line in open(path, errors="replace"):
        m = full.match(line)
        if m: add(m.group(2), m.group(3), m.group(4)); continue
        m = unfin.match(line)
        if m: pend[m.group(1)] = (m.group(2), m.group(3)); continue
        m = resumed.match(line)
        if m and m.group(1) in pend:
            p, fl = pend.pop(m.group(1)); add(p, fl, m.group(2))
    return opened

def classify(case, casedir, path):
    rel = os.path.relpath(path, casedir)
    k = case["files"].get(rel, ["?"])[0]
    if k == "p" and os.path.basename(os.path.dirname(rel)) == "deps":
        return "macro-deps-wasm-encoded-dep-untracked"
    return "macro-deps-untracked-read"

# ------------------------------------------------------------------ the check
def run(c):
    c.rule = ("one evaluation = one crate using generate! on a seeded package layout x invocation form, observed through "
              "cargo dep-info + strace + rebuild-on-touch; non-trivial = the expansion succeeded and read at least two files "
              "or exercised an ignored entry / error path; distinct by (layout, invocation) text")
    ok = c.lake_build(["Witverif.Props.C32"])
    if ok: c.audit("Witverif.Props.C32")
    if c.tier == "thorough" and ok: c.leanchecker("Witverif.Props.C32")
    model = c.model_exe("m_macrodeps")
    witpkg = c.cargo_build("ident-run")
    if not witpkg: return
    n = 90 if c.tier == "quick" else 420
    st = collections.Counter()
    cases = []
    cp = os.path.join(VERIF, "corpus", "C32.txt")
    if os.path.exists(cp):
        for l in open(cp):
            if l.strip() and not l.startswith("#"):
                cs = json.loads(l); cs["name"] = f"c{len(cases):03d}"; cs["corpus"] = True; cases.append(cs)
    if c.replay and "witness" in c.replay and "case" in c.replay["witness"]:
        cs = dict(c.replay["witness"]["case"]); cs["name"] = f"c{len(cases):03d}"; cases.insert(0, cs)
    while len(cases) < n:
        cases.append(gen_case(c.rng, len(cases), st))
    c.cov["generator"] = dict(sorted(st.items()))
    # the scratch workspace and its cargo target directory are shared state: serialise concurrent runs
    import fcntl
    os.makedirs(BUILD, exist_ok=True)
    lockf = open(os.path.join(BUILD, "macrodeps.lock"), "w")
    fcntl.flock(lockf, fcntl.LOCK_EX)
    t0 = time.time()
    write_ws(cases, witpkg)
    trace = os.path.join(BUILD, "macrodeps-strace.txt")
    built, errors, stderr = cargo_check(strace_out=trace)
    c.cov["first_cargo_check_s"] = round(time.time() - t0, 1)
    if "wit_bindgen" not in built and not any(b for b in built):
        c.broken.append(("cargo check of the generate! crates", stderr)); return
    opened = strace_reads(trace)
    try: os.unlink(trace)
    except OSError: pass
    reqs, obs = [], []
    for cs in cases:
        cd = os.path.join(WS, cs["name"])
        succeeded = cs["name"] in built
        dep = read_depinfo(cs["name"]) if succeeded else None
        own = {os.path.join(cd, "crate", "src", "lib.rs"), os.path.join(cd, "crate", "Cargo.toml")}
        D = sorted(set(dep or []) - own)
        R = sorted(p for p in opened if p.startswith(cd + "/") and p not in own)
        obs.append((succeeded, D, R))
        reqs.append(model_request(cs, cd) + "\tD=" + (",".join(hx(p) for p in D) or "-") + "\tR=" + (",".join(hx(p) for p in R) or "-"))
    if not model: return
    mout = run_lines([model], reqs, timeout=300)
    impl_ans, model_ans = [], []
    untracked = {}      # case index -> list of read-but-untracked paths
    hist = collections.Counter()
    for i, (cs, (succeeded, D, R), m) in enumerate(zip(cases, obs, mout)):
        parts = m.split("\t")
        mm = re.match(r"(ok|err) tracked=(\S+) reads=(\S+) listed=(\S+)$", parts[0])
        if not mm:
            model_ans.append(parts[0]); impl_ans.append("?"); continue
        mstat, mtr, mrd = mm.group(1), mm.group(2), mm.group(3)
        canon = lambda s: ",".join(sorted(set(unhx(x) for x in s.split(",")))) if s != "-" else ""
        if cs.get("raw_unsafe"):
            # declared domain boundary: a tracked path contains `"#` (precondition `rawSafe` of
            # expand_emits_one_include_per_tracked is violated); the real macro must fail loudly
            model_ans.append("err")
        elif mstat == "ok":
            model_ans.append("ok tracked=" + canon(mtr) + " reads=" + canon(mrd))
        else:
            model_ans.append("err")
        impl_ans.append(("ok tracked=" + ",".join(D) + " reads=" + ",".join(R)) if succeeded else "err")
        hist["impl:" + ("ok" if succeeded else "err")] += 1
        hist["tracked-files:%d" % min(len(D), 6)] += 1
        if succeeded:
            verdict = parts[1] if len(parts) > 1 else "spec=missing"
            if verdict != "spec=ok":
                bad = [p for p in R if p not in D]
                untracked[i] = bad
                for p in bad:
                    c.spec_violation(classify(cs, os.path.join(WS, cs["name"]), p),
                                     "generate! read a file it does not record as a dependency",
                                     {"case": cs, "lib_rs": lib_rs(cs, "<case dir>"), "read_but_untracked": os.path.relpath(p, os.path.join(WS, cs["name"])),
                                      "dep_info": [os.path.relpath(x, os.path.join(WS, cs["name"])) for x in D], "verdict": verdict})
    def nontriv(r, a):
        return a.startswith("err") or a.count("/crate") + a.count("/shared") + a.count("/other") >= 4
    c.compare("macrodeps", [json.dumps({k: v for k, v in cs.items() if k != "name"}, sort_keys=True) for cs in cases],
              impl_ans, model_ans, nontrivial=nontriv)
    # ---------------- rebuild on touch
    rounds = 0
    touched_total = rebuilt_total = 0
    pending = {}
    for i, (cs, (succeeded, D, R)) in enumerate(zip(cases, obs)):
        if succeeded:
            u = sorted(set(D) | set(R))
            lim = 3 if c.tier == "quick" else 8
            keep = [p for p in u if p in untracked.get(i, [])] + [p for p in u if p not in untracked.get(i, [])][:lim]
            pending[i] = keep
    # settle: everything fresh before touching
    built0, _, _ = cargo_check()
    while any(pending.values()):
        rounds += 1
        time.sleep(0.05)
        touched = {}
        now = time.time()
        for i, lst in pending.items():
            if lst:
                p = lst.pop(0); os.utime(p, (now, now)); touched[i] = p
        built, _, _ = cargo_check()
        for i, p in touched.items():
            cs = cases[i]
            touched_total += 1
            fresh = built.get(cs["name"], None)
            if fresh is False:
                rebuilt_total += 1
            else:
                cd = os.path.join(WS, cs["name"])
                c.spec_violation(classify(cs, cd, p),
                                 "editing a file that generate! read does not trigger recompilation",
                                 {"case": cs, "lib_rs": lib_rs(cs, "<case dir>"), "touched": os.path.relpath(p, cd), "cargo_fresh": fresh})
        for i in range(len(cases)):
            if i not in touched and obs[i][0] and built.get(cases[i]["name"]) is False:
                c.notes.append(f"case {cases[i]['name']} rebuilt although none of its files was touched (round {rounds})")
    c.evaluations += touched_total
    # informational probe (outside C32's statement): a NEW *.wit file in a listed directory
    probe = []
    for i, (cs, (succeeded, D, R)) in enumerate(zip(cases, obs)):
        if succeeded and len(probe) < 6 and any(p.endswith("/w.wit") for p in D):
            d = os.path.dirname([p for p in D if p.endswith("/w.wit")][0])
            open(os.path.join(d, "zz-new.wit"), "w").write("interface zznew { }\n")
            probe.append(i)
    if probe:
        built, _, _ = cargo_check()
        c.cov["new_file_in_listed_directory_probe"] = {
            "what": "a new *.wit file was added to a directory the macro had listed (read_dir); directory listings are not "
                    "file reads and are not tracked, so cargo is not expected to rebuild (limitation outside C32's statement)",
            "cases": len(probe), "rebuilt": sum(1 for i in probe if built.get(cases[i]["name"]) is False)}
    hist["touch-rounds"] = rounds
    c.cov["rebuild_on_touch"] = {"touched": touched_total, "rebuilt": rebuilt_total}
    c.cov["observed"] = dict(sorted(hist.items()))
    for cs, (succeeded, D, R) in list(zip(cases, obs))[:3]:
        cd = os.path.join(WS, cs["name"])
        c.sample({"invocation": lib_rs(cs, "<case dir>").strip(), "files": sorted(cs["files"]),
                  "dep_info": [os.path.relpath(p, cd) for p in D], "opened": [os.path.relpath(p, cd) for p in R], "ok": succeeded})
    c.cov["search"] = ("MacroDepsSpec.readSubsetTracked (Lean, spec side) on the (strace reads, dep-info) of every real expansion, "
                       "and cargo's rebuild decision after touching each read-or-tracked file")
    c.assumptions += [
        "wit-parser 0.257 (external crate) is modelled from its source: which files push_path reads and which it reports in PackageSourceMap::paths; validated by the dep-info/strace comparison of this run, not proved of the crate",
        "file contents are abstracted to {valid WIT text, rejected, wasm-encoded package}; name resolution between packages is assumed to succeed when all files parse (the generator only builds resolvable layouts)",
        "no symbolic links; path arguments are UTF-8 without trailing slashes; directory listings (read_dir) and existence probes are not file reads: adding a new file to a listed directory is outside C32's statement and does not trigger a rebuild",
        "cargo/rustc turn every include_bytes! into a dep-info entry and rebuild when its mtime changes (observed, not modelled)",
    ]
    c.trusted.append("strace -f openat/open records as the observation of 'files read'; cargo dep-info (.d) and cargo's fresh/dirty decision")
