"""C19 — stream writes and reads transfer each value exactly once, in order.
Models: lean/Witverif/Async/{AbiBuffer,StreamOp,Chan,ChanScript}.lean (+ Waitable, Host.End rules), spec
monitor Async/ChanSpec.lean, theorems lean/Witverif/Props/C19.lean.  Tie: see checks/chan_common.py."""
import chan_common

WHAT = {
    "fifo": "transferred items are not exactly the next unsent items, in order",
    "count": "a write/read result reports a count different from what the host moved",
    "return": "values handed back (into_vec / write_all / write_one / read results) are not exactly the untransferred / received ones",
    "value": "a payload value dropped twice, never dropped, or lowered/lifted out of order",
    "lists": "dealloc_lists not exactly once per transferred item",
    "slab": "a lowering slab released twice, early or never",
    "stream-op-after-dropped-zero": "after StreamResult::Dropped (code DROPPED|0) the end's `done` flag is not set: the next read/write "
                                    "reaches the host on an end that is done (host trap, Appendix B)",
    "stream-op-after-dropped-nonzero": "after DROPPED|k (k>0) the end's `done` flag is not set: the next operation traps in the host",
}


def run(c):
    c.rule = ("scripts: 1..3 stream channels (guest holds the writable or the readable end, the host is the peer; payload kinds "
              "canonical u8 / lowered without lists / lowered with an owned list; scripted answer to a cancel race), a task body over "
              "{open, write n, write_buf, into_vec, write_all n, write_one, read n, next, collect, poll, await, cancel, drop op, drop end, "
              "suspend, yield} and peer directives {transfer up to m, drop, deliver}; task cancel when directives run out; modes cabi1/"
              "cabi2 (exact trace equality with the model) and export (real executor, spec side only); builds default and futures-stream "
              "(reader wrapped in the futures::Stream adapter); non-trivial = an operation blocked; distinct by normalised trace")
    chan_common.run_chan(c, "C19", "S", True, WHAT)
    c.assumptions += [
        "host rules are the Appendix-B transcription in Async/Host.lean (`Host.End`); `cancel traps while the end is in a set` is (R)",
        "the peer of every guest end is the host (same-component transfers are not exercised); cancel is the synchronous form",
        "std's Vec growth policy (RawVec amortised doubling, minimum 8 for 1-byte elements else 4) is modelled in `growCap` (collect)",
        "`Vec::with_capacity(n)` yields capacity exactly n (the harness flags `!capacity` otherwise; `next()` relies on it)",
        "one component task per script in the exact comparison; cross-task moves of an operation are C18 (the engine supports `t<n>`)",
        "native x86-64; export-mode traces are checked against the spec side only (executor model: C22)",
        "traces are compared up to the first host trap (the mock lets the guest continue, a real host does not)",
    ]
