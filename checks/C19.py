"""C19 — stream writes and reads transfer each value exactly once, in order.
Models: lean/Witverif/Async/{AbiBuffer,StreamOp,Chan,ChanScript}.lean (+ Waitable, Host.End rules), spec
monitor Async/ChanSpec.lean, theorems lean/Witverif/Props/C19.lean.  Tie: see checks/chan_common.py."""
import chan_common

WHAT = {
    "fifo": "transferred items are not exactly the next unsent items, in order (or the pointer handed to the host is not base + "
            "elements already transferred x element size)",
    "count": "a write/read result reports a count different from what the host moved",
    "return": "values handed back (into_vec / write_all / write_one / read results) are not exactly the untransferred / received ones",
    "value": "a payload value dropped twice, never dropped, or lowered/lifted out of order",
    "lists": "dealloc_lists not exactly once per transferred item",
    "slab": "a lowering slab released twice, early or never",
    "stream-op-after-dropped-zero": "(repaired in /repo 44e42ba; a regression if seen) after StreamResult::Dropped (code DROPPED|0) the end's `done` flag is not set: the next read/write "
                                    "reaches the host on an end that is done (host trap, Appendix B)",
    "stream-op-after-dropped-nonzero": "after DROPPED|k (k>0) the end's `done` flag is not set: the next operation traps in the host",
}


def run(c):
    c.rule = ("scripts: 1..3 stream channels (guest holds the writable or the readable end, the host is the peer; payload kinds "
              "canonical of element size 1, 2, 4, 8 (u8, u16, u32, u64) and a tuple (u32,u32) / lowered without lists / lowered with an owned list; scripted answer to a cancel race), a task body over "
              "{open, write n, write_buf, into_vec, write_all n, write_one, read n, next, collect, poll, await, cancel, drop op, drop end, "
              "suspend, yield, move to the other task (cabi2)} and peer directives {transfer up to m, drop, deliver}; task cancel when directives run out; modes cabi1/"
              "cabi2 (exact trace equality with the model) and export (real executor, spec side only); builds default and futures-stream "
              "(reader wrapped in the futures::Stream adapter); non-trivial = an operation blocked; distinct by normalised trace")
    chan_common.run_chan(c, "C19", "S", True, WHAT)
    c.cov["partial_obligations"] = [
        "FIFO for the guest-WRITER stream channel is a theorem (stream_writer_fifo: every legal step hands the reader exactly the next "
        "values the guest exposes and the buffer then exposes exactly the rest; stream_writer_receives_in_order_once; no extra hypothesis), "
        "with the host as the reader. NOT theorems: the same for the guest-READER direction (below); acceptance of the "
        "whole ChanSpec monitor (count-*, return-*, value-*, lists-*, slab-* clauses) by every model trace of a stream channel (it is for "
        "the future channels, C20) — enforced by exact trace equality model vs real runtime + the monitors + Host.End legality on the REAL "
        "traces of every script of the run",
        "guest-READER stream channel (read / next / collect / futures::Stream adapter) as a transition system: invariant stated "
        "(Proofs/StreamRead.lean: shapes, closed/idle cases proved), the step-safety induction is not finished; operation level proved "
        "(counts_are_hosts_read, dropped_sets_done); validated as above",
        "write_all_terminates_when_host_progresses: induction over hosts that answer every write at once (COMPLETED|k, any legal k per "
        "write); schedules mixing BLOCKED + later delivery are covered step-wise by stream_never_traps (no termination measure "
        "proved over them) and by the scripts",
    ]
    c.assumptions += [
        "host rules are the Appendix-B transcription in Async/Host.lean (`Host.End`); `cancel traps while the end is in a set` is (R)",
        "the peer of every guest end is the host (same-component transfers are not exercised); cancel is the synchronous form",
        "std's Vec growth policy (RawVec amortised doubling, minimum 8 for 1-byte elements else 4) is modelled in `growCap` (collect)",
        "`Vec::with_capacity(n)` yields capacity exactly n (the harness flags `!capacity` otherwise; `next()` relies on it)",
        "cabi2 (v2 task ABI) scripts move the body between two harness tasks (`t<n>`) while stream/future operations are registered; with "
        "the v1 ABI (cabi1) a move leaves a stale registration behind — C18's known finding waitable-v1-cross-task, judged there, not "
        "generated here; the transition-system theorems are about one task",
        "the byte offset of a stream.write / stream.read pointer is taken relative to the base of the live heap block the pointer lies in "
        "(checking allocator; the vector's storage or the slab), looked up at most 4096 bytes back; the host decodes the ids of the items "
        "from the bytes at the pointer it was given (values of the wide canonical kinds are patterns in which every byte depends on the id)",
        "native x86-64; export-mode traces are checked against the spec side only (executor model: C22)",
        "traces are compared up to the first host trap (the mock lets the guest continue, a real host does not); the spec side judges "
        "the trace BEFORE a trap / the start of a panic as a prefix (run-level clauses, host legality, waitable rules, anomalies; no "
        "end-of-trace clauses) and classifies the trap / panic itself",
    ]
