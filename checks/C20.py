"""C20 — futures deliver exactly one value and never strand a writer.
Models: lean/Witverif/Async/{FutureOp,Chan,ChanScript}.lean (+ Waitable, Host.End rules), spec monitor
Async/ChanSpec.lean, theorems lean/Witverif/Props/C20.lean.  Tie: see checks/chan_common.py."""
import chan_common

WHAT = {
    "writer": "future.drop-writable before the value went through or DROPPED was observed, or the writer was never dropped",
    "reader": "a future delivered more than one value / the reader got a value twice",
    "cancel": "a cancel / write outcome differs from the code the host produced",
    "value": "a payload value dropped twice, never dropped, or lowered/lifted out of order",
    "lists": "dealloc_lists not exactly once for the sent value",
    "slab": "the slab of the lowered value released twice, early or never",
}


def run(c):
    c.rule = ("scripts: 1..3 channels, the first a future (guest holds the writable or the readable end, payload lowered without / with an "
              "owned list, scripted answer to a cancel race), the others futures or streams; body over {open, write(fresh value) / "
              "into_future, poll, await, cancel, drop op, drop end, suspend, yield, move to the other task (cabi2), + the stream instructions} and peer directives "
              "{transfer, drop, deliver}; background default writes are completed by the peer after the body is gone; modes cabi1/cabi2 "
              "(exact trace equality) and export (spec side only); non-trivial = an operation blocked")
    chan_common.run_chan(c, "C20", "F", False, WHAT)
    c.cov["partial_obligations"] = [
        "`exactly one value`: proved are AT MOST one (reader_gets_value_at_most_once_peer/_guest, every reachable state) and `the writable "
        "end is dropped only after COMPLETED or DROPPED, and is never stranded` (writer_never_dropped_unwritten, writer_never_stranded); "
        "that a value IS eventually delivered needs a fairness assumption on the host / the body (liveness) and is not stated",
        "the real export executor is not modelled: its traces are judged by the monitors only; on them the run reproduces the known "
        "finding future-default-write-stranded-on-task-cancel",
        "RawFutureWriter (no default value) is outside the statements; one component task in the theorems (cabi2 scripts do move "
        "operations between two tasks on the real code)",
    ]
    c.assumptions += [
        "typed API (FutureWriter / FutureWrite / FutureReader); RawFutureWriter (no default) is modelled only as the building block",
        "a future's writer cannot be dropped by the peer before it wrote (so a guest reader never sees DROPPED): the host rule of Appendix B",
        "host rules are the Appendix-B transcription in Async/Host.lean (`Host.End`)",
        "cabi2 scripts move the body between two harness tasks while operations are registered; v1 (cabi1) moves are C18's known finding "
        "waitable-v1-cross-task and are not generated here",
        "a failure is filed under future-default-write-stranded-on-task-cancel by its CAUSE in the trace (export task cancelled by the "
        "host and exited while a default write — made before or by the cancel — is blocked and its writable end never dropped): then every "
        "end-of-trace symptom (not produced when the same trace is judged up to the task's exit without the end-of-trace rules) about "
        "that channel, its writable handle, its ledger entries, the host's leftovers if exactly one end per such channel, and the byte "
        "leak belong to the finding; run-level failures and symptoms at other channels / handles stay reportable; the trace before a "
        "host trap / the start of a panic is judged as a prefix",
        "native x86-64; export-mode traces are checked against the spec side only (executor model: C22)",
    ]
