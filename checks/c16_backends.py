"""C16, backend half — generators handle every valid world without panicking, except on the features a
backend declares unsupported; the Markdown generator supports every WIT type.

    from c16_backends import run_backends;  run_backends(c)        (called by checks/C16.py)
    ./check C16B quick                                             (this half alone, evidence/C16B.json)

1. translator  tools/gen_panic_arms.py  ->  lean/Witverif/Generated/PanicArms.lean (+ .build/panic_arms.json)
2. proofs      lean/Witverif/Props/C16Backends.lean : every obligated panicking arm of every backend is declared
               unsupported / unreachable by validity / reviewed (re-proved against the regenerated table)
3. search      gen-run `backends`: EVERY backend (rust, c, cpp, csharp, go, moonbit, d, markdown) x its option
               variants, in-process under catch_unwind, on seeded worlds that use NO feature the backend declares
               unsupported (tools/witgen2.py: every constructor in params/results/fields/payloads/aliases/world items,
               resources with constructor/methods/statics, async functions, futures/streams).  A panic there is a
               violation of C16 with the (shrunk) world as replay; class key = crate|file|function|normalised message.
               Panics on worlds that do use a declared-unsupported feature are counted, not reported.
               Reaching an arm that the table classifies as unreachable is a violation of its own class.
"""
import os, re, json, subprocess, collections, sys
from vlib import VERIF, REPO, sh
import witgen2

def hx(s): return s.encode().hex() if s else "-"
def unhx(h): return "" if h == "-" else bytes.fromhex(h).decode(errors="replace")

VARIANTS = {
    "rust": ["default", "borrowed", "borrowed-duplicate", "async", "no-std", "merge-equal", "hashmap"],
    "c": ["default", "no-sig-flattening", "autodrop", "async"],
    "cpp": ["default"],
    "csharp": ["default", "no-stub"],
    "go": ["default", "async"],
    "moonbit": ["default", "async"],
    "d": ["default"],
    "markdown": ["default"],
}
QUICK_VARIANTS = {"rust": ["default", "borrowed", "async", "merge-equal"], "c": ["default", "autodrop", "async"]}

# declared feature (translator vocabulary) -> generator features (tools/witgen2.py) it rules out
FEATURE_MAP = {
    "errctx": {"errctx"}, "flist": {"flist"}, "map": {"map"},
    "future": {"future", "typedef-future"}, "stream": {"stream", "typedef-stream"},
    "async": {"async", "future", "stream", "typedef-future", "typedef-stream"}, "async-func": {"async"},
}


def run_lines2(cmd, lines, timeout=300):
    """like vlib.run_lines, but stderr is discarded (csharp's generator has a dbg!() that writes to it)"""
    if not lines: return []
    try:
        p = subprocess.run(cmd, input="\n".join(lines) + "\n", timeout=timeout, stdout=subprocess.PIPE,
                           stderr=subprocess.DEVNULL, text=True)
        ans = p.stdout.split("\n")
        if ans and ans[-1] == "": ans.pop()
        if p.returncode == 0 and len(ans) == len(lines): return ans
        bad = "crash"
    except subprocess.TimeoutExpired:
        bad = "timeout"
    if len(lines) == 1: return [bad]
    mid = len(lines) // 2
    t = max(10, timeout // 2)
    return run_lines2(cmd, lines[:mid], t) + run_lines2(cmd, lines[mid:], t)


_src_cache = {}
def enclosing_fn(relfile, line):
    """name of the function containing `line` of a repo source file (best effort, textual)"""
    try:
        if relfile not in _src_cache:
            _src_cache[relfile] = open(os.path.join(REPO, relfile)).read().split("\n")
        ls = _src_cache[relfile]
        for i in range(min(line, len(ls)) - 1, -1, -1):
            m = re.match(r"\s*(?:pub(?:\([^)]*\))?\s+)?(?:const\s+|async\s+|unsafe\s+)*fn\s+(?:r#)?(\w+)", ls[i])
            if m: return m.group(1)
    except OSError:
        pass
    return "?"


def norm_msg(msg):
    m = msg.split("\n")[0]
    m = re.sub(r"\{.*", "{…}", m)
    m = re.sub(r"\(.*", "(…)", m)
    m = re.sub(r"`[^`]*`", "`…`", m)
    m = re.sub(r"\d+", "N", m)
    m = re.sub(r" - \S+$", "", m)
    return m.strip()[:70]


def class_key(msg, loc):
    if "items remaining" in msg and "stack has" in msg:
        return "core-dealloc-flags-wide"
    rel = loc.replace(REPO + "/", "")
    f, _, line = rel.rpartition(":")
    mm = re.match(r"crates/([\w-]+)/", f)
    crate = mm.group(1) if mm else ("ext" if not f.startswith("crates") else "?")
    if not f.startswith("crates/"):
        f = re.sub(r".*/registry/src/[^/]+/", "", f)
    fn = enclosing_fn(f, int(line)) if line.isdigit() and f.startswith("crates/") else "?"
    return f"{crate}|{f}|{fn}|{norm_msg(msg)}"


def allowed_features(declared, variant):
    ruled = set()
    for f in declared:
        base, _, var = f.partition("@")
        if var and var != variant: continue
        ruled |= FEATURE_MAP.get(base, set())
    return frozenset(witgen2.ALL_FEATURES - ruled)


def uses_declared(text, declared, variant):
    used = witgen2.features_of(text)
    ruled = set(witgen2.ALL_FEATURES) - set(allowed_features(declared, variant))
    return sorted(used & ruled)


# ------------------------------------------------------------------ deterministic boundary worlds
BOUNDARY_SHAPES = [
    ("u32", "u32"), ("bool", "bool"), ("f64", "f64"), ("char", "char"), ("string", "string"), ("list-u8", "list<u8>"),
    ("list-string", "list<string>"), ("record", "rec"), ("tuple2", "tuple<u8, string>"), ("tuple1", "tuple<u32>"),
    ("option-u32", "option<u32>"), ("option-string", "option<string>"), ("option-option", "option<option<u8>>"),
    ("result-t-e", "result<u32, string>"), ("result-t", "result<u32>"), ("result-e", "result<_, u32>"), ("result", "result"),
    ("result-list", "result<list<u8>>"), ("result-e-string", "result<_, string>"), ("result-string", "result<string>"),
    ("result-record", "result<rec>"), ("result-rec-enum", "result<rec, en>"), ("option-result", "option<result<u8>>"),
    ("result-result", "result<result<u8>, result>"), ("enum", "en"), ("flags", "fl"), ("variant", "va"),
    ("own", "res"), ("borrow", "borrow<res>"), ("result-own", "result<res>"), ("list-own", "list<res>"),
    ("flist", "list<u8, 4>"), ("flist-string", "list<string, 2>"), ("result-flist", "result<list<u32, 2>>"),
    ("map", "map<string, u32>"), ("future", "future<u32>"), ("future0", "future"), ("stream", "stream<u8>"),
    ("result-stream", "result<stream<u8>>"), ("errctx", "error-context"), ("result-errctx", "result<_, error-context>"),
    ("nothing", None),
]


def boundary_worlds():
    """[(name, blocks)]: one small world per (shape, direction, sync/async): an interface whose two functions
    return DIRECTLY the shape / take it as the only parameter, imported or exported.  No randomness."""
    out = []
    for name, ty in BOUNDARY_SHAPES:
        for direction in ("import", "export"):
            for asy in ("", "async "):
                defs = [["  record rec {", "    a: u8,", "    b: string,", "  }"], ["  enum en {", "    x,", "    y,", "  }"],
                        ["  flags fl {", "    p,", "    q,", "  }"], ["  variant va {", "    n,", "    s(string),", "  }"]]
                if ty and "res" in ty.replace("result", ""):
                    defs.append(["  resource res {", "  }"])
                funcs = []
                if ty is None:
                    funcs.append([f"  r: {asy}func();"])
                else:
                    if not ty.startswith("borrow"):          # a borrow cannot be returned
                        funcs.append([f"  r: {asy}func() -> {ty};"])
                    funcs.append([f"  p: {asy}func(x: {ty});"])
                blocks = [["package t:t;"], ["interface i {"]] + defs + funcs + [["}"], ["world w {"], [f"  {direction} i;"], ["}"]]
                out.append((f"{name}:{direction}:{'async' if asy else 'sync'}", blocks))
    return out


def run_backends(c):
    # ------------------------------------------------------------------ 1. translator
    rc, out = sh([sys.executable, os.path.join(VERIF, "tools", "gen_panic_arms.py")], cwd=VERIF, timeout=300)
    c.checker_cmds.append("python3 tools/gen_panic_arms.py")
    if rc != 0:
        c.broken.append(("translator gen_panic_arms (round-trip / parse guard)", out[-1500:]))
    tpath = os.path.join(VERIF, ".build", "panic_arms.json")
    table = json.load(open(tpath)) if os.path.exists(tpath) else {"arms": [], "declared": {}}
    declared = {b: table["declared"].get(b, {}).get("features", []) for b in VARIANTS}
    # ------------------------------------------------------------------ 2. proofs over the regenerated table
    ok = c.lake_build(["Witverif.Props.C16Backends"])
    if ok: c.audit("Witverif.Props.C16Backends")
    if c.tier == "thorough" and ok: c.leanchecker("Witverif.Props.C16Backends")
    # ------------------------------------------------------------------ 3. search
    impl = c.cargo_build("gen-run")
    if not impl:
        return
    cmd = [impl, "backends"]
    quick = c.tier == "quick"
    configs = [(b, v) for b, vs in VARIANTS.items() for v in (QUICK_VARIANTS.get(b, vs) if quick else vs)]
    stats = collections.Counter()
    known = {k["class"]: k for k in c.known_findings()}

    def run_one(b, v, text):
        a = run_lines2(cmd, [f"{b} {v} {hx(text)}"], timeout=120)[0].split(" ")
        if a[0] == "panic": return ("panic", unhx(a[1]), unhx(a[2]))
        if a[0] in ("crash", "timeout"): return (a[0], a[0], "?:0")
        return (a[0], unhx(a[1]) if len(a) > 1 and a[0] in ("err", "bad-wit") else "", "")

    def key_of(r):
        if r[0] == "panic": return class_key(r[1], r[2])
        if r[0] in ("crash", "timeout"): return f"process-{r[0]}"
        return None

    # --- replay the witnesses of the known findings first (they must still fail in their class)
    for cls, k in known.items():
        w = k.get("witness", {})
        if "wit" not in w or "backend" not in w: continue
        r = run_one(w["backend"], w.get("variant", "default"), w["wit"])
        stats["known-finding witnesses replayed"] += 1
        if key_of(r) == cls:
            c.spec_violation(cls, k.get("what", cls), w)
            c.evaluations += 1

    # --- seeded worlds per feature profile
    profiles = collections.defaultdict(list)
    for b, v in configs:
        profiles[allowed_features(declared[b], v)].append((b, v))
    n_per = 60 if quick else 400
    found = {}          # class -> (b, v, blocks, result)
    panics_declared = collections.Counter()
    reached_lines = collections.Counter()
    # --- boundary worlds first: every backend x variant, every shape the backend does not declare unsupported
    bw = boundary_worlds()
    breqs, bmeta = [], []
    for (b, v) in configs:
        for name, blocks in bw:
            text = witgen2.render(blocks)
            if uses_declared(text, declared[b], v):
                stats["boundary:skipped (declared unsupported)"] += 1; continue
            breqs.append(f"{b} {v} {hx(text)}"); bmeta.append((b, v, name, blocks, text))
    for (b, v, name, blocks, text), a in zip(bmeta, run_lines2(cmd, breqs, timeout=900)):
        t = a.split(" ")
        c.evaluations += 1
        stats[f"boundary:{t[0]}"] += 1
        if t[0] == "bad-wit":
            c.broken.append((f"boundary world {name} is not valid WIT", unhx(t[1])[:300] + "\n" + text)); continue
        c.nontrivial.add(f"{b}:{v}:boundary:{name}")
        if t[0] in ("ok", "err"): continue
        r = ("panic", unhx(t[1]), unhx(t[2])) if t[0] == "panic" else (t[0], t[0], "?:0")
        cls = key_of(r)
        if r[0] == "panic":
            reached_lines[r[2].replace(REPO + "/", "")] += 1
        stats["panic-on-supported-world:" + cls] += 1
        if cls not in found:
            found[cls] = (b, v, blocks, r)
    for prof, cfgs in sorted(profiles.items(), key=lambda kv: sorted(kv[0])):
        worlds = []
        opt = sorted(prof)
        for i in range(n_per):
            if i % 2 == 0: feats = set(prof)
            else: feats = {f for f in opt if c.rng.random() < 0.35}
            blocks, st = witgen2.gen_world2(c.rng, features=feats | {"_"}, max_ifaces=c.rng.choice([1, 1, 2]),
                                            nfuncs=c.rng.choice([1, 2, 3]), max_depth=c.rng.choice([1, 2, 3]), direct_result=True)
            for k2, v2 in st.items(): stats["ty:" + k2] += v2
            worlds.append(blocks)
        texts = [witgen2.render(bk) for bk in worlds]
        reqs, meta = [], []
        for (b, v) in cfgs:
            for i, t in enumerate(texts):
                reqs.append(f"{b} {v} {hx(t)}"); meta.append((b, v, i))
        ans = run_lines2(cmd, reqs, timeout=900)
        for (b, v, i), a in zip(meta, ans):
            t = a.split(" ")
            c.evaluations += 1
            stats[f"run:{b}:{t[0]}"] += 1
            if t[0] == "bad-wit":
                c.broken.append(("generator of worlds produced invalid WIT", unhx(t[1])[:300] + "\n" + texts[i][:1200])); continue
            c.nontrivial.add(f"{b}:{v}:{hash(texts[i])}")
            if t[0] in ("ok", "err"): continue
            r = ("panic", unhx(t[1]), unhx(t[2])) if t[0] == "panic" else (t[0], t[0], "?:0")
            cls = key_of(r)
            ud = uses_declared(texts[i], declared[b], v)
            if ud:      # cannot happen for worlds generated under the profile; kept as a guard
                panics_declared[cls] += 1; continue
            if r[0] == "panic":
                reached_lines[r[2].replace(REPO + "/", "")] += 1
            stats["panic-on-supported-world:" + cls] += 1
            if cls not in found:
                found[cls] = (b, v, worlds[i], r)

    # --- worlds WITH the declared-unsupported features: panics are expected there, but must not reach an
    #     counted for the evidence only
    n_decl = 24 if quick else 200
    dworlds = [witgen2.gen_world2(c.rng, features=set(witgen2.ALL_FEATURES), max_ifaces=1, nfuncs=2, max_depth=2)[0]
               for _ in range(n_decl)]
    dtexts = [witgen2.render(bk) for bk in dworlds]
    reqs, meta = [], []
    for b in VARIANTS:
        if not declared[b]: continue
        for i, t in enumerate(dtexts):
            reqs.append(f"{b} default {hx(t)}"); meta.append((b, i))
    for (b, i), a in zip(meta, run_lines2(cmd, reqs, timeout=900)):
        t = a.split(" ")
        c.evaluations += 1
        if t[0] != "panic": continue
        if uses_declared(dtexts[i], declared[b], "default"):
            panics_declared[class_key(unhx(t[1]), unhx(t[2]))] += 1

    # --- report every class found on supported worlds
    for cls, (b, v, blocks, r) in sorted(found.items()):
        if cls in known:
            # witness already replayed above; if that replay did not reproduce, report this one
            if not any(x["class"] == cls for x in c.violations):
                c.spec_violation(cls, known[cls].get("what", cls), {"wit": witgen2.render(blocks), "backend": b, "variant": v,
                                                                   "message": r[1][:300], "location": r[2]})
            continue
        def failing(bk, b=b, v=v, cls=cls):
            return key_of(run_one(b, v, witgen2.render(bk))) == cls
        small, nev = witgen2.shrink_blocks(blocks, failing, budget=100 if quick else 400)
        text = witgen2.render(small)
        r2 = run_one(b, v, text)
        others = sorted({f"{b2}:{v2}" for (b2, v2) in configs if (b2, v2) != (b, v) and key_of(run_one(b2, v2, text)) == cls})
        c.spec_violation(cls, f"{b} generator ({v}) panics on a world that uses no feature it declares unsupported: "
                              f"{r2[1][:120]!r} at {r2[2].replace(REPO + '/', '')}",
                         {"wit": text, "backend": b, "variant": v, "message": r2[1][:400], "location": r2[2].replace(REPO + "/", ""),
                          "features_used": sorted(witgen2.features_of(text)), "declared_unsupported": declared[b],
                          "same_class_in": others, "shrink_evaluations": nev})

    # --- arms classified unreachable must never be reached by a supported world (a wildcard arm counts
    #     only if every kind it stands for is classified unreachable, or it is an `unreachable!`)
    groups = collections.defaultdict(list)
    for e in table["arms"]:
        groups[(e["file"], e["line"])].append(e)
    def unreach(e):
        q = e["enum"] + "::" + e["kind"]
        return q == "TypeDefKind::Unknown" or (q == "TypeDefKind::Resource" and e["position"] == "use")
    unreachable_arms = [g[0] for g in groups.values() if g[0]["macro"] == "unreachable" or all(unreach(e) for e in g)]
    for loc, n in reached_lines.items():
        f, _, line = loc.rpartition(":")
        if not line.isdigit(): continue
        for e in unreachable_arms:
            if e["file"] == f and e["line"] <= int(line) <= e.get("end_line", e["line"]):
                c.spec_violation("unreachable-arm-reached|" + e["fingerprint"],
                                 f"an arm classified unreachable was reached: {e['backend']} {e['function']} {e['enum']}::{e['kind']} ({e['macro']}!) at {loc}",
                                 {"arm": e, "hits": n})
                break

    c.cov["c16_backends"] = {
        "arms_inventoried": len(table["arms"]),
        "arms_obligated": sum(1 for e in table["arms"] if e["direct"] and e["macro"] != "unreachable"),
        "declared_unsupported": declared,
        "configs_run": [f"{b}:{v}" for b, v in configs],
        "feature_profiles": {",".join(sorted(set(witgen2.ALL_FEATURES) - set(p))) or "(none ruled out)": [f"{b}:{v}" for b, v in cf]
                             for p, cf in profiles.items()},
        "worlds_per_profile": n_per,
        "boundary_worlds": len(bw),
        "panic_classes_on_supported_worlds": sorted(found),
        "panics_on_declared_unsupported_worlds": dict(panics_declared),
        "distribution": dict(sorted(stats.items())),
    }
    c.assumptions += [
        "backend half of C16: the arm inventory is syntactic (match arms over TypeDefKind/Type and type_* callbacks); an arm that "
        "panics only for a position combination, and panics outside kind matches, are found by the search, not by the theorem",
        "declared-unsupported features are read from crates/test/src/<lang>.rs::should_fail_verify (config flags; named codegen tests "
        "mapped to the features only excluded tests use); exclusions of single test files that are not characterised by a feature "
        "(e.g. issue1514-6.wit for C++) are not generalised",
        "Markdown's Opts.html_in_md and backend options not listed in crates/test (e.g. C string encodings, rename) are not varied",
    ]
