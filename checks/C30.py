"""C30 — MoonBit output forms a consistent package graph.
Model: lean/Witverif/Text/MoonPkg.lean (reusing Text/Ns.lean, C26); theorems: lean/Witverif/Props/C30.lean.
Tie (a) direct drive: harness/moon-run `#[path]`-includes the real crates/moonbit/src/pkg.rs and replays
sequences of qualify_package(this, name); exact comparison with m_moonpkg + the history monitor
(MoonSpec.historyOk, Lean) on the implementation's outputs.
Tie (b) end-to-end: the real MoonBit generator (gen-run pkggen moonbit) on random multi-package worlds,
sync/async/option variants; every moon.pkg.json and every `@alias.` use is parsed and checked with the
Lean monitors packageOk / graphOk / pathPreserves."""
import os, re, json
from vlib import run_lines, VERIF

def hx(s): return s.encode().hex() if s else "-"
def unhx(h): return "" if h == "-" else bytes.fromhex(h).decode()

# ------------------------------------------------------------------ (a) qualify_package histories
THIS_POOL = ["world.w", "gen", "gen.world.w", "interface.a.b.types", "interface.a-ns.pkg-a.types", "gen.interface.a.b.api",
             "async-core", "", "w"]
NAME_POOL = ["interface.a.b.types", "interface.c.d.types", "interface.a.b.types0", "interface.a.b.types1",
             "interface.a-ns.pkg-a.types", "interface.a-ns.pkg-a.types0", "interface.b-ns.pkg-b.more-api",
             "interface.b-ns.pkg-b.http-types", "gen.interface.a.b.api", "gen.interface.c.d.api", "async-core",
             "world.w", "gen.world.w", "types", "types0", "types00", "api", "", "x.", "a..b", ".", "interface.é.ü.types",
             "interface.a.b.Types", "gen", "w"]

def gen_history(rng, maxlen):
    n = rng.randint(1, maxlen)
    thises = rng.sample(THIS_POOL, rng.randint(1, 3))
    names = rng.sample(NAME_POOL, rng.randint(1, 8)) + thises[:1]
    calls = []
    for _ in range(n):
        calls.append((rng.choice(thises), rng.choice(names)))
    return " ".join(f"{hx(a)}:{hx(b)}" for a, b in calls)

def decode_history(r):
    return [tuple(unhx(x) for x in t.split(":")) for t in r.split(" ") if t]

# ------------------------------------------------------------------ (b) random worlds
NS_POOL = ["a-ns", "b-ns", "wasi", "my-org"]
PKG_POOL = ["pkg-a", "pkg-b", "http", "io-streams", "types"]
IFACE_POOL = ["types", "api", "more-api", "types0", "http-types", "leaf-interface", "handler"]
PRIMS = ["u8", "u16", "u32", "u64", "s8", "s16", "s32", "s64", "f32", "f64", "bool", "char", "string"]
VERS = [None, "1.0.0", "2.0.0", "0.2.1", "1.0.0-rc.1"]

class World:
    pass

def gen_world(rng, want_async):
    """returns (wit text, world name, info) — info: expected dotted package names of the generated graph"""
    w = World()
    # packages: (ns, name, version) distinct; sometimes two versions of the same package
    pkgs = []
    npk = rng.randint(1, 4)
    nss = rng.sample(NS_POOL, rng.randint(1, 3))
    pnames = rng.sample(PKG_POOL, rng.randint(1, 3))      # few names: several versions / namespaces of one name
    ipool = rng.sample(IFACE_POOL, rng.randint(2, 4))     # few interface names: coinciding last segments
    tries = 0
    while len(pkgs) < npk and tries < 50:
        tries += 1
        ns, nm = rng.choice(nss), rng.choice(pnames)
        ver = rng.choice(VERS)
        if any(p[:2] == (ns, nm) for p in pkgs):
            # a second version of an existing package needs versions on both
            others = [p for p in pkgs if p[:2] == (ns, nm)]
            if any(p[2] is None for p in others) or ver is None or any(p[2] == ver for p in others): continue
        pkgs.append((ns, nm, ver))
    root = ("root-ns", "root-pkg", rng.choice([None, "0.1.0"]))
    # interfaces in dependency order: each may `use` types of earlier ones
    ifaces = []      # dict(pkg, name, types: [(name, kind)], funcs, uses)
    for p in pkgs + [root]:
        names = rng.sample(ipool, rng.randint(1, min(3, len(ipool))))
        for nm in names:
            ifaces.append({"pkg": p, "name": nm, "types": [], "uses": [], "body": []})
    tcount = [0]
    def fresh(prefix):
        tcount[0] += 1
        return f"{prefix}{tcount[0]}"
    def ty(rng, avail, depth=0, allow_async=False):
        r = rng.random()
        if avail and r < 0.45: return rng.choice(avail)
        if depth < 2:
            if r < 0.55: return f"list<{ty(rng, avail, depth + 1)}>"
            if r < 0.62: return f"option<{ty(rng, avail, depth + 1)}>"
            if r < 0.69: return f"result<{ty(rng, avail, depth + 1)}, {ty(rng, avail, depth + 1)}>"
            if r < 0.74: return f"tuple<{ty(rng, avail, depth + 1)}, {ty(rng, avail, depth + 1)}>"
            if allow_async and r < 0.86: return rng.choice(["future", "stream"]) + f"<{ty(rng, avail, depth + 1)}>"
        return rng.choice(PRIMS)
    for idx, it in enumerate(ifaces):
        avail = []          # value types usable here
        resources = []
        # use from earlier interfaces (other packages or the same one)
        for src in rng.sample(ifaces[:idx], min(idx, rng.randint(0, 3))):
            cands = [t for t in src["types"]]
            if not cands: continue
            picked = rng.sample(cands, rng.randint(1, min(2, len(cands))))
            items = []
            for (tn, kind) in picked:
                local = tn
                if any(tn == x for x, _ in it["types"]) or rng.random() < 0.3:
                    local = fresh("renamed-t")
                    items.append(f"{tn} as {local}")
                else:
                    items.append(tn)
                it["types"].append((local, kind))
                (resources if kind == "resource" else avail).append(local)
            it["uses"].append((src, items))
        for _ in range(rng.randint(0, 3)):
            k = rng.random()
            tn = fresh(rng.choice(["rec-t", "my-type", "t", "http-error", "item"]))
            if k < 0.35:
                it["body"].append(f"record {tn} {{ a: {ty(rng, avail)}, b-field: {ty(rng, avail)} }}"); kind = "value"
            elif k < 0.5:
                it["body"].append(f"enum {tn} {{ first-case, second }}"); kind = "value"
            elif k < 0.65:
                it["body"].append(f"variant {tn} {{ none-case, some-case({ty(rng, avail)}) }}"); kind = "value"
            elif k < 0.75:
                it["body"].append(f"flags {tn} {{ f-one, f-two }}"); kind = "value"
            elif k < 0.85:
                it["body"].append(f"type {tn} = {ty(rng, avail)};"); kind = "value"
            else:
                meths = []
                if rng.random() < 0.7: meths.append("constructor();")
                if rng.random() < 0.7: meths.append(f"get-it: func() -> {ty(rng, avail)};")
                if rng.random() < 0.4: meths.append(f"make: static func(x: {ty(rng, avail)}) -> {tn};")
                it["body"].append(f"resource {tn} {{ {' '.join(meths)} }}"); kind = "resource"
            it["types"].append((tn, kind))
            (resources if kind == "resource" else avail).append(tn)
        for _ in range(rng.randint(0, 3)):
            fn = fresh("do-thing")
            params = [f"p{i}: {ty(rng, avail)}" for i in range(rng.randint(0, 2))]
            if resources and rng.random() < 0.5:
                r = rng.choice(resources)
                params.append(f"h: {rng.choice(['borrow<' + r + '>', r])}")
            res = ""
            if rng.random() < 0.8:
                res = " -> " + (rng.choice(resources) if resources and rng.random() < 0.2 else ty(rng, avail, allow_async=want_async))
            asy = "async " if want_async and rng.random() < 0.5 else ""
            it["body"].append(f"{fn}: {asy}func({', '.join(params)}){res};")
    def ref(it, frm=None):
        ns, nm, ver = it["pkg"]
        if frm is not None and frm == it["pkg"]: return it["name"]
        return f"{ns}:{nm}/{it['name']}" + (f"@{ver}" if ver else "")
    def iface_text(it):
        lines = []
        for src, items in it["uses"]:
            lines.append(f"use {ref(src, it['pkg'])}.{{{', '.join(items)}}};")
        return f"interface {it['name']} {{\n    " + "\n    ".join(lines + it["body"]) + "\n  }"
    # world
    wname = rng.choice(["http-proxy", "w", "my-world", "runner"])
    imports = [it for it in ifaces if rng.random() < 0.6]
    exports = [it for it in ifaces if rng.random() < 0.3]
    if rng.random() < 0.75:
        # wit-parser rejects worlds in which an exported interface reaches another exported interface both directly
        # and through an imported one; mostly keep exports independent of each other
        exports = [it for it in exports if not any(src in exports for src, _ in it["uses"])]
    if not imports and not exports: imports = [ifaces[0]]
    wl = []
    for it in imports: wl.append(f"import {ref(it, root)};")
    for it in exports: wl.append(f"export {ref(it, root)};")
    wavail = []
    if rng.random() < 0.5:
        src = rng.choice(ifaces)
        vals = [t for t, k in src["types"] if k == "value"]
        if vals:
            t = rng.choice(vals); wl.append(f"use {ref(src, root)}.{{{t}}};"); wavail.append(t)
    if rng.random() < 0.4:
        wl.append("record world-rec { x: u32 }"); wavail.append("world-rec")
    if rng.random() < 0.5:
        wl.append(f"import host-fn: func(x: {ty(rng, wavail)}) -> {ty(rng, wavail, allow_async=want_async)};")
    if rng.random() < 0.5:
        asy = "async " if want_async and rng.random() < 0.5 else ""
        wl.append(f"export run-it: {asy}func(x: {ty(rng, wavail)}) -> {ty(rng, wavail, allow_async=want_async)};")
    if rng.random() < 0.25:
        wl.append(f"import inline-iface: interface {{ ping: func() -> u32; }}")
    out = [f"package {root[0]}:{root[1]}" + (f"@{root[2]}" if root[2] else "") + ";"]
    for it in ifaces:
        if it["pkg"] == root: out.append(iface_text(it).replace("\n  ", "\n"))
    out.append(f"world {wname} {{\n  " + "\n  ".join(wl) + "\n}")
    for p in pkgs:
        ns, nm, ver = p
        out.append(f"package {ns}:{nm}" + (f"@{ver}" if ver else "") + " {")
        for it in ifaces:
            if it["pkg"] == p: out.append("  " + iface_text(it))
        out.append("}")
    info = {"world": wname, "root": root,
            "ifaces": sorted({(it["pkg"][0], it["pkg"][1], it["name"]) for it in ifaces}),
            "packages": [f"{a}:{b}" + (f"@{c}" if c else "") for a, b, c in pkgs],
            "n_ifaces": len(ifaces), "n_imports": len(imports), "n_exports": len(exports),
            "multi_version": len({p[:2] for p in pkgs}) < len(pkgs),
            "same_last_segment": len({it["name"] for it in ifaces}) < len(ifaces)}
    return "\n".join(out) + "\n", wname, info

# ------------------------------------------------------------------ parsing the generated tree
STR_RE = re.compile(r'"(?:\\.|[^"\\])*"')
ALIAS_RE = re.compile(r"@([A-Za-z_][A-Za-z0-9_\-]*(?:/[A-Za-z0-9_\-]+)*)\.")
DECL_RE = re.compile(r'\{\s*"path"\s*:\s*"([^"]*)"\s*,\s*"alias"\s*:\s*"([^"]*)"\s*\}')

def strip_code(text):
    out = []
    for line in text.split("\n"):
        if line.lstrip().startswith("#|"): continue            # multi-line string literal line
        line = STR_RE.sub('""', line)
        i = line.find("//")
        if i >= 0: line = line[:i]
        out.append(line)
    return "\n".join(out)

def parse_tree(files):
    """package dir -> (decl [(path, alias)], used aliases [in order, distinct])"""
    pk = {}
    for path, content in files.items():
        d, _, base = path.rpartition("/")
        if base in ("moon.pkg.json", "moon.pkg"):
            m = re.search(r'"import"\s*:\s*\[(.*?)\]', content, re.S)
            decl = DECL_RE.findall(m.group(1)) if m else []
            n_obj = m.group(1).count("{") if m else 0
            pk.setdefault(d, {"decl": None, "used": [], "malformed": False})
            pk[d]["decl"] = decl
            if n_obj != len(decl): pk[d]["malformed"] = True
    for path, content in files.items():
        d, _, base = path.rpartition("/")
        if base.endswith(".mbt"):
            e = pk.setdefault(d, {"decl": None, "used": [], "malformed": False})
            for a in ALIAS_RE.findall(strip_code(content)):
                if a not in e["used"]: e["used"].append(a)
    return pk

def expected_names(info, gen_dir):
    """dotted names the generator may create packages for (before the digit suffix of interface_ns.tmp)"""
    base = {"world." + info["world"], gen_dir + ".world." + info["world"], gen_dir, "async-core"}
    for ns, p, i in info["ifaces"]:
        base.add(f"interface.{ns}.{p}.{i}"); base.add(f"{gen_dir}.interface.{ns}.{p}.{i}")
    base.add("interface.inline-iface"); base.add(gen_dir + ".interface.inline-iface")
    return base

def match_expected(rel, exp):
    """the expected dotted name (plus digit suffix) whose directory `rel` should be, or None"""
    dotted = rel.replace("/", ".")
    best = None
    for b in exp:
        if dotted.startswith(b) and (dotted[len(b):] == "" or dotted[len(b):].isdigit()):
            if best is None or len(b) > len(best): best = b
    return None if best is None else best + dotted[len(best):]

# ------------------------------------------------------------------ the check
def run(c):
    c.rule = ("(a) histories of qualify_package(this, name) over dotted names with coinciding last segments, digit-suffixed "
              "segments, kebab-case, empty and non-ASCII names; non-trivial = some alias differs from the last segment of its "
              "name (a collision was resolved). (b) random worlds: 1-4 dependency packages over 1-4 namespaces (+ root), "
              "1-3 interfaces each named from a 7-name pool, cross-package `use`, resources, world-level types/functions, "
              "two versions of one package, sync and async variants, option variants; non-trivial = the generated graph has "
              "a package that imports two packages with the same last path segment. Distinct by request text.")
    ok = c.lake_build(["Witverif.Props.C30"])
    if ok: c.audit("Witverif.Props.C30")
    if c.tier == "thorough" and ok: c.leanchecker("Witverif.Props.C30")
    model = c.model_exe("m_moonpkg")
    quick = c.tier == "quick"

    # ---------------- (a) direct drive of pkg.rs
    impl = c.cargo_build("moon-run")
    reqs = []
    cp = os.path.join(VERIF, "corpus", "C30.txt")
    corpus_worlds = []
    if os.path.exists(cp):
        for l in open(cp):
            l = l.rstrip("\n")
            if not l.strip() or l.startswith("#"): continue
            if l.startswith("q "): reqs.append(l[2:])
            elif l.startswith("world "): corpus_worlds.append(l[6:])
    if c.replay and "witness" in c.replay and "request" in c.replay["witness"]:
        reqs.insert(0, c.replay["witness"]["request"])
    reqs += [gen_history(c.rng, 12 if quick else 40) for _ in range(3000 if quick else 60000)]
    if impl:
        iout = run_lines([impl, "qualify"], reqs, timeout=300)
        def nontriv(r, o):
            calls = decode_history(r)
            outs = o.split("\t")[0].split(" ")
            return any(t.startswith("a:") and unhx(t[2:]) != nm.split(".")[-1] for (_, nm), t in zip(calls, outs))
        if model:
            mout = run_lines([model], ["q " + r + "\t" + o for r, o in zip(reqs, iout)], timeout=300)
            c.compare("qualify_package", reqs, iout, ["\t".join(m.split("\t")[:2]) for m in mout], nontrivial=nontriv)
            for r, o, m in zip(reqs, iout, mout):
                verdict = m.split("\t")[2] if m.count("\t") >= 2 else "spec=missing"
                if verdict != "spec=ok":
                    c.spec_violation("moonpkg-history-monitor",
                                     "qualify_package returned aliases violating the C30 history monitor (unstable / duplicate / undeclared alias, or no answer)",
                                     {"request": r, "calls": decode_history(r), "impl": o, "model": m.split("\t")[:2], "verdict": verdict,
                                      "replay": "echo '<request>' | .build/target/debug/moon-run qualify"})
        hist = {"histories": len(reqs), "calls": sum(len(r.split(" ")) for r in reqs),
                "with_resolved_collision": sum(1 for r, o in zip(reqs, iout) if nontriv(r, o)),
                "self_references": sum(o.split("\t")[0].split(" ").count("s") for o in iout)}
        c.cov["direct_drive"] = hist
        for r, o in list(zip(reqs, iout))[:2]:
            c.sample({"calls": decode_history(r), "impl_outs": o.split("\t")[0]})

    # ---------------- (b) end-to-end
    genrun = c.cargo_build("gen-run")
    if not genrun: return
    VARIANTS = [[], ["async=" + hx("all")], ["derive"], ["project=" + hx("my-org/my-proj")], ["gen-dir=" + hx("out-gen")],
                ["ignore-module"], ["ignore-stub"], ["async=" + hx("all"), "derive", "project=" + hx("proj")]]
    cases = []
    for w in corpus_worlds:
        d = json.loads(w)
        cases.append((d["wit"], d["world"], d["info"], d.get("opts", [])))
    nworlds = 250 if quick else 4000
    for i in range(nworlds):
        want_async = c.rng.random() < 0.5
        wit, wname, info = gen_world(c.rng, want_async)
        opts = list(c.rng.choice(VARIANTS))
        if want_async and c.rng.random() < 0.5 and not any(o.startswith("async=") for o in opts):
            opts.append("async=" + hx("all"))
        cases.append((wit, wname, info, opts))
    greqs = [f"moonbit {hx(wit)} {wname} {' '.join(opts)}".rstrip() for wit, wname, info, opts in cases]
    gout = run_lines([genrun, "pkggen"], greqs, timeout=1200)
    dist = {"worlds": len(cases), "generated": 0, "generator_err": 0, "generator_panic": 0, "wit_rejected": 0,
            "async_variant": 0, "packages_checked": 0, "packages_without_moon_pkg": 0, "declared_imports": 0, "alias_uses": 0,
            "aliases_with_digit_suffix": 0, "kebab_aliases": 0, "packages_importing_same_last_segment": 0,
            "multi_version_worlds": 0, "external_imports": 0, "options": {}, "err_samples": []}
    lreqs, lmeta = [], []
    for (wit, wname, info, opts), g, rq in zip(cases, gout, greqs):
        for o in opts: dist["options"][o.split("=")[0]] = dist["options"].get(o.split("=")[0], 0) + 1
        if any(o.startswith("async=") for o in opts) or "async func" in wit or "future<" in wit or "stream<" in wit:
            dist["async_variant"] += 1
        if not g.startswith("ok"):
            kind = g.split(" ")[0]
            msg = unhx(g.split(" ")[1]) if " " in g and kind in ("err", "panic") else g
            if kind == "err" and ("case.wit" in msg or "-->" in msg or "transitively depends" in msg): dist["wit_rejected"] += 1
            elif kind == "err": dist["generator_err"] += 1
            else: dist["generator_panic"] += 1
            if len(dist["err_samples"]) < 6: dist["err_samples"].append(f"{kind}: {msg[:160]}")
            continue
        dist["generated"] += 1
        if info.get("multi_version"): dist["multi_version_worlds"] += 1
        files = {unhx(t.split(":")[0]): unhx(t.split(":")[1]) for t in g.split(" ")[1:]}
        gen_dir = next((unhx(o[8:]) for o in opts if o.startswith("gen-dir=")), "gen")
        project = next((unhx(o[8:]) for o in opts if o.startswith("project=")), f"{info['root'][0]}/{info['root'][1]}")
        pk = parse_tree(files)
        # a generated package = a directory with a moon.pkg.json; with `ignore-stub` the descriptors of the export
        # side (gen/…) are the user's (kept from an earlier run), so there a directory with sources counts as well
        ignore_stub = "ignore-stub" in opts
        dirs = sorted(d for d, e in pk.items() if e["decl"] is not None or ignore_stub)
        exp = expected_names(info, gen_dir)
        parts = []
        meta = {"request": rq, "wit": wit, "world": wname, "opts": [o if "=" not in o else o.split("=")[0] + "=" + unhx(o.split("=")[1]) for o in opts],
                "project": project, "pk": {}}
        nontrivial = False
        for d in sorted(pk):
            e = pk[d]
            if e["decl"] is None:
                dist["packages_without_moon_pkg"] += 1
                if not ignore_stub:
                    c.spec_violation("moonpkg-package-without-descriptor", "a generated MoonBit package directory has sources but no moon.pkg.json",
                                     {"request": rq, "wit": wit, "world": wname, "package_dir": d})
                continue
            dist["packages_checked"] += 1
            dist["declared_imports"] += len(e["decl"]); dist["alias_uses"] += len(e["used"])
            inproj = [(p, a) for p, a in e["decl"] if p.startswith(project + "/")]
            ext = [(p, a) for p, a in e["decl"] if not p.startswith(project + "/")]
            dist["external_imports"] += len(ext)
            lasts = [p.rsplit("/", 1)[-1] for p, _ in inproj]
            if len(set(lasts)) < len(lasts):
                dist["packages_importing_same_last_segment"] += 1; nontrivial = True
            dist["aliases_with_digit_suffix"] += sum(1 for p, a in inproj if a != p.rsplit("/", 1)[-1])
            dist["kebab_aliases"] += sum(1 for p, a in e["decl"] if "-" in a)
            exps = []
            for p, a in inproj:
                rel = p[len(project) + 1:]
                nm = match_expected(rel, exp)
                exps.append((nm if nm is not None else "?no-such-wit-name?", rel))
            # external imports (the static async-core package imports moonbitlang/core/*) are outside the generated
            # graph: they must at least be core packages; they take part in the alias checks
            bad_ext = [p for p, _ in ext if not p.startswith("moonbitlang/core/")]
            meta["pk"][d] = {"decl": e["decl"], "used": e["used"], "expected": exps, "bad_external": bad_ext, "malformed": e["malformed"]}
            parts.append(hx(d) + "=" + ",".join(f"{hx(p)}:{hx(a)}" for p, a in inproj) + "|" + ",".join(hx(a) for a in e["used"])
                         + "|" + ",".join(f"{hx(n)}:{hx(r)}" for n, r in exps) + "|" + ",".join(f"{hx(p)}:{hx(a)}" for p, a in ext))
        lreqs.append(f"g {hx(project)} {','.join(hx(d) for d in dirs)} {';'.join(parts)}")
        lmeta.append(meta)
        if nontrivial: c.nontrivial.add("e2e\0" + rq)
    lout = run_lines([model], lreqs, timeout=600) if model else [None] * len(lreqs)
    for meta, lo in zip(lmeta, lout):
        c.evaluations += 1
        flags = {}
        if lo is not None:
            if " all=" not in lo:
                c.broken.append(("corr:e2e monitor request malformed", lo + " :: " + meta["request"][:200])); continue
            for t in lo.split(" "):
                if "=" in t and not t.startswith("all="): flags[unhx(t.split("=")[0])] = t.split("=")[1]
        for d, e in meta["pk"].items():
            decl, used = e["decl"], e["used"]
            f = flags.get(d)
            if f is None:        # model unavailable: python transcription of the monitors
                aliases = [a for _, a in decl]; paths = [p for p, _ in decl]
                p_ok = len(set(aliases)) == len(aliases) and len(set(paths)) == len(paths) and all(a in aliases for a in used)
                g_ok = all(p[len(meta["project"]) + 1:] in meta["pk"] for p, _ in decl if p.startswith(meta["project"] + "/"))
                k_ok = all(n.replace(".", "/") == r for n, r in e["expected"])
                f = "".join("1" if x else "0" for x in (p_ok, g_ok, k_ok))
            wit = {"request": meta["request"], "wit": meta["wit"], "world": meta["world"], "opts": meta["opts"], "package_dir": d,
                   "declared": decl, "used_aliases": used,
                   "replay": "echo '<request>' | .build/target/debug/gen-run pkggen   (then inspect <package_dir>/moon.pkg.json and *.mbt)"}
            if f[0] == "0":
                aliases = [a for _, a in decl]
                missing = [a for a in used if a not in aliases]
                if missing:
                    c.spec_violation("moonpkg-alias-used-not-declared", "a generated MoonBit package uses `@alias.` without declaring that alias in its moon.pkg.json",
                                     dict(wit, undeclared=missing))
                elif len(set(aliases)) != len(aliases):
                    c.spec_violation("moonpkg-duplicate-alias", "a generated moon.pkg.json declares the same alias twice", wit)
                else:
                    c.spec_violation("moonpkg-duplicate-path", "a generated moon.pkg.json declares the same package twice", wit)
            if f[1] == "0":
                c.spec_violation("moonpkg-import-missing-package", "a generated moon.pkg.json imports a project package that was not generated",
                                 dict(wit, missing=[p for p, _ in decl if p.startswith(meta["project"] + "/") and p[len(meta["project"]) + 1:] not in meta["pk"]]))
            if f[2] == "0":
                c.spec_violation("moonpkg-kebab-not-preserved", "a declared import path is not the WIT package/interface name with '.' -> '/' (kebab-case not preserved)",
                                 dict(wit, expected=e["expected"]))
            if e["bad_external"]:
                c.spec_violation("moonpkg-import-missing-package", "a generated moon.pkg.json imports a path outside the project that is not a moonbitlang/core package",
                                 dict(wit, external=e["bad_external"]))
            if e["malformed"]:
                c.spec_violation("moonpkg-import-list-unparsable", "the import array of a generated moon.pkg.json has entries that are not {path, alias} objects", wit)
    c.cov["end_to_end"] = dist
    if lmeta:
        m0 = lmeta[0]
        c.sample({"world": m0["world"], "opts": m0["opts"], "packages": {d: e["decl"] for d, e in list(m0["pk"].items())[:4]}})
    if dist["generated"] < 0.6 * max(1, dist["worlds"]):
        c.broken.append(("corr:e2e world generator", f"only {dist['generated']} of {dist['worlds']} worlds were generated: {dist['err_samples'][:3]}"))
    c.cov["search"] = ("MoonSpec.historyOk (Lean) on the outputs of the real qualify_package for every history; MoonSpec.packageOk/graphOk/"
                       "pathPreserves (Lean) on every package of every generated tree of this run")
    c.assumptions += [
        "HashMap modelled as association list (observed through get / insert-if-absent / sorted iteration)",
        "Ns as in C26 (usize counter as Nat)",
        "end-to-end: aliases are recognised syntactically as `@name.` outside string literals and `//` comments of *.mbt files; "
        "MoonBit's own resolution of package aliases is not modelled (no MoonBit toolchain here)",
        "imports of moonbitlang/core/* by the static async-core package are external to the generated graph",
    ]
