"""C09 — generated Rust builds and componentizes as exactly the requested world (claimed PARTIALLY, DESIGN §11).
Theorems (lean/Witverif/Props/C09.lean) cover the identifier-hygiene conditions the statement names, over the
escape table extracted from crates/rust/src/lib.rs by tools/gen_ident_tables.py on every run.
rustc (native x86_64, --edition 2024 --emit=metadata -Dwarnings, like crates/test/src/rust.rs `verify`) is used only
to validate the model's prediction "identifier-clean => accepted" and to search for failing inputs:
  * ident-functions: real to_rust_ident / heck / validate_id  vs  m_ident, exact, on pools + seeded WIT names
  * worlds: tests/codegen corpus x option matrix, systematic single-fault adversarial worlds, seeded adversarial worlds
Not covered: wasm32 (target not installed), wit-component acceptance of the linked module."""
import os, re, json, glob, subprocess, collections, time
from vlib import run_lines, sh, VERIF, REPO, BUILD, HARNESS
import ident_common as ic
from ident_common import hx, unhx, identgen

RUSTLIB = os.path.join(HARNESS, "ident-run", "rustlib")
LIBTGT = os.path.join(BUILD, "identlib")
WORK = os.path.join(BUILD, "ident-rust", str(os.getpid()))      # per process: concurrent runs must not share files
OPTS = ["stubs", "stubs,own=borrowing", "stubs,std", "stubs,merge", "stubs,raw",
        "stubs,map=" + hx("std::collections::HashMap")]
OPTS_THOROUGH_CORPUS = OPTS + ["stubs,own=borrowing-dup"]     # the mode crates/test declares partly broken; corpus only
# crates/test/src/rust.rs should_fail_verify
EXPECTED_FAIL = {("wasi-http", "stubs,own=borrowing-dup"), ("more-variants.wit", "stubs,own=borrowing-dup")}
DUP_CODES = {"E0428", "E0415", "E0416", "E0124", "E0592", "E0201", "E0119", "E0034", "E0204", "E0252", "E0255", "E0260"}

def build_rustlib(c):
    env = {"CARGO_TARGET_DIR": LIBTGT, "RUSTFLAGS": ""}
    lock = os.path.join(RUSTLIB, "Cargo.lock")
    if not os.path.exists(lock):
        import shutil; shutil.copy(os.path.join(REPO, "Cargo.lock"), lock)
    p = subprocess.run(["cargo", "check", "--offline", "--message-format=json"], cwd=RUSTLIB,
                       env=dict(os.environ, **env), stdout=subprocess.PIPE, stderr=subprocess.PIPE, text=True, timeout=3000)
    rmeta = None
    for l in p.stdout.split("\n"):
        if l.startswith("{"):
            try: m = json.loads(l)
            except Exception: continue
            if m.get("reason") == "compiler-artifact" and m["target"]["name"] == "wit_bindgen":
                rmeta = [f for f in m["filenames"] if f.endswith(".rmeta")][0]
    if p.returncode != 0 or not rmeta:
        c.broken.append(("build of /repo/crates/guest-rust (native, for --extern wit_bindgen)", p.stderr[-2000:]))
        return None
    return rmeta

def rustc(src_path, rmeta, edition="2024"):
    out = src_path[:-3] + ".rmeta"
    r = subprocess.run(["rustc", "--edition", edition, "--crate-type", "lib", "--emit=metadata", "-Dwarnings",
                        "--error-format=json", "--extern", "wit_bindgen=" + rmeta,
                        "-L", "dependency=" + os.path.join(LIBTGT, "debug", "deps"), "-o", out, src_path],
                       capture_output=True, text=True, timeout=600)
    try: os.unlink(out)
    except OSError: pass
    diags = []
    for l in r.stderr.split("\n"):
        if not l.startswith("{"): continue
        try: m = json.loads(l)
        except Exception: continue
        if m.get("level") != "error" or m["message"].startswith("aborting due to"): continue
        code = (m.get("code") or {}).get("code") or "syntax"
        ids = re.findall(r"`([^`]+)`", m["message"])
        sp = [s for s in m.get("spans", []) if s.get("is_primary")]
        line = sp[0]["line_start"] if sp else 0
        # the source text the compiler points at (primary span first, then the secondary ones)
        text = " ".join(t["text"] for s_ in sp + [x for x in m.get("spans", []) if not x.get("is_primary")] for t in s_.get("text", []))
        diags.append({"code": code, "message": m["message"][:160], "idents": ids, "line": line, "span_text": text[:600]})
    return r.returncode == 0, diags

def predict(scopes, M):
    """hygiene defects the model predicts for a world: list of dict(reason, ident, names)"""
    R = []
    for s in scopes:
        kind, conv, names = s["kind"], s["conv"], [n for n in s["names"] if n in M]
        if kind == "world": continue
        if kind in ("pkgns", "ifaces"):
            # top-level modules: a package namespace, or an interface the world names directly
            for n in names:
                if M[n]["rust"] == "wit_bindgen":
                    R.append({"reason": "rust-module-shadows-runtime-crate", "ident": "wit_bindgen", "names": [n], "scope": s["owner"]})
                if M[n]["rust"] == "exports":
                    R.append({"reason": "rust-top-level-module-exports", "ident": "exports", "names": [n], "scope": s["owner"]})
        if kind == "pkgname":
            for n in names:
                if M[n].get("skw") == "1":
                    R.append({"reason": "rust-module-keyword-package", "ident": M[n]["snake"], "names": [n], "scope": s["owner"]})
            continue
        key = {"snake": "rust", "camel": "rcamel", "shouty": "shouty"}[conv]
        for n in names:
            kw = M[n].get("rkw") == "1" if conv == "snake" else (M[n].get("rckw") == "1" if conv == "camel" else False)
            if kw:
                low = n.lower()
                cls = "rust-camel-keyword-self" if conv == "camel" else \
                      ("rust-ident-keyword-gen" if low == "gen" and n == low else
                       ("rust-ident-keyword-uppercase" if n != low else "rust-ident-keyword-other"))
                R.append({"reason": cls, "ident": M[n][key], "names": [n], "scope": s["owner"]})
        for ident, ns in ic.dup_groups([(n, M[n][key]) for n in names]).items():
            modcase = len({x.lower() for x in ns}) > 1
            cls = ("rust-camel-digit-merge" if conv == "camel" else "rust-dup-" + conv) if modcase else "case-only-collision"
            R.append({"reason": cls, "ident": ident, "names": sorted(set(ns)), "scope": s["owner"]})
        if kind == "methods":
            for n in names:
                if M[n].get("rfn") == "1":
                    R.append({"reason": "rust-resource-member-collision", "ident": M[n]["rust"], "names": [n], "scope": s["owner"]})
        if kind == "types":
            for n in names:
                if n == "guest":
                    R.append({"reason": "rust-guest-type-name", "ident": "Guest_", "names": [n], "scope": s["owner"]})
        if kind == "types":
            for n in names:
                if M[n].get("rpre") == "1":
                    R.append({"reason": "rust-prelude-shadow", "ident": M[n]["rcamel"], "names": [n], "scope": s["owner"]})
                if M[n].get("rgp") == "1":
                    R.append({"reason": "rust-generic-param-shadow", "ident": M[n]["rcamel"], "names": [n], "scope": s["owner"]})
        if kind == "params":
            for n in names:
                if M[n].get("rtemp") == "1":
                    R.append({"reason": "rust-temp-shadows-param", "ident": M[n]["rust"], "names": [n], "scope": s["owner"]})
    return R

def mentions(diag, ident):
    """the predicted identifier occurs, as a whole token, in the diagnostic message or in the source text it points at"""
    pat = re.compile(r"(?<![A-Za-z0-9_])" + re.escape(ident) + r"(?![A-Za-z0-9_])")
    return ident in diag["idents"] or bool(pat.search(diag.get("span_text", ""))) or bool(pat.search(diag["message"]))

def explain(diag, reasons):
    """the predicted reason that accounts for this diagnostic, if any.  Every rule requires the first failing
    diagnostic to name the predicted identifier (in its message or in the source span it points at)."""
    msg, code, ids = diag["message"], diag["code"], diag["idents"]
    if "expected identifier, found" in msg and "keyword" in msg:
        for r in reasons:
            if "keyword" in r["reason"] and r["ident"] in ids: return r
    if code in ("syntax", "E0642", "E0424", "E0433", "E0423", "E0531", "E0532"):
        # a keyword in identifier position derails the parser / resolver in other ways too (`mut: u32`, `ref: T`, `crate: u32`, `self`)
        for r in reasons:
            if "keyword" in r["reason"] and mentions(diag, r["ident"]): return r
    if code in DUP_CODES or "defined multiple times" in msg or "more than once" in msg or "duplicate definitions" in msg:
        for r in reasons:
            if r["reason"] in ("rust-camel-digit-merge", "rust-dup-snake", "rust-dup-shouty", "case-only-collision") and \
               any(r["ident"] in i for i in ids): return r
    if code in DUP_CODES:
        for r in reasons:
            if r["reason"] == "rust-resource-member-collision" and r["ident"] in ids: return r
    if code in ("E0405", "E0412", "E0404", "E0433", "E0425", "E0422", "E0574", "E0423"):
        for r in reasons:
            if r["reason"] == "rust-guest-type-name" and any(i.startswith("Guest") for i in ids): return r
    if code in DUP_CODES:
        for r in reasons:
            if r["reason"] == "rust-guest-type-name" and "Guest" in ids: return r
    if code in ("E0433", "E0432", "E0425", "E0423") or code in DUP_CODES:
        for r in reasons:
            if r["reason"] in ("rust-module-shadows-runtime-crate", "rust-top-level-module-exports") and mentions(diag, r["ident"]): return r
    if code == "unused_variables" or msg.startswith("unused variable"):
        for r in reasons:
            if r["reason"] == "rust-temp-shadows-param" and r["ident"] in ids: return r
    if code.startswith("E0"):
        # a captured prelude name surfaces as a resolution or type error where the generated code uses that name;
        # a shadowing temporary of another type as a type error where the parameter is used
        for r in reasons:
            if r["reason"] in ("rust-prelude-shadow", "rust-generic-param-shadow", "rust-temp-shadows-param") and mentions(diag, r["ident"]): return r
    return None

def systematic_worlds(rng):
    """single-fault worlds: every Rust keyword (lower + UPPER) in a value position and a module position;
    every generator temporary base as a parameter name after a string parameter"""
    out = []
    kws = identgen.RUST_KEYWORDS
    for i, k in enumerate(kws):
        for name in (k, k.upper()):
            slot = ["func", "param", "field", "iface", "pkgname", "pkgns", "wfunc", "method"][(i + len(name)) % 8]
            out.append(identgen.gen_world(rng, "rust", force=[(slot, name, "kw" if name == k else "KW")], small=True))
    for k in ["self", "SELF"]:
        out.append(identgen.gen_world(rng, "rust", force=[("rtype", k, "kw")], small=True))
        out.append(identgen.gen_world(rng, "rust", force=[("ecase", k, "kw")], small=True))
    for i, k in enumerate(identgen.RUST_SPECIAL):      # names of items the generator adds to a resource / module
        out.append(identgen.gen_world(rng, "rust", force=[(["sfunc", "method"][i % 2], k, "special")], small=True))
    return out

TYPE_SLOTS = ["rtype", "resource", "vtype", "etype", "ftype", "alias"]
PRELUDE_TYPES = ["option", "some", "none", "ok", "err", "vec", "string", "box", "result", "drop", "clone", "copy", "send", "sync",
                 "sized", "default", "into", "from", "iterator", "to-string", "to-owned", "eq", "ord", "debug", "partial-eq", "hash",
                 "display", "error", "str", "as-ref", "fn-once", "guest", "stub", "t", "self"]

def prelude_worlds(rng, tier):
    """every prelude / generator-known type name as a user type name (all kinds in thorough, two per name in quick)"""
    out = []
    for i, n in enumerate(PRELUDE_TYPES):
        slots = TYPE_SLOTS if tier == "thorough" else [TYPE_SLOTS[i % 6]]
        for sl in slots:
            out.append(identgen.gen_world(rng, "rust", force=[(sl, n, "prelude")], small=True))
    return out

def temp_worlds(bases):
    out = []
    for b in bases:
        if not re.fullmatch(r"[a-z][a-z0-9]*", b): continue
        for nm in (b + "0", b + "1", b + "2"):
            wit = (f"package t:tmp;\nworld w {{\n  import f: func(a: string, {identgen.esc(nm)}: u32, b: list<u8>);\n"
                   f"  import g: func({identgen.esc(nm)}: string, c: string) -> string;\n}}\n")
            out.append((wit, {"adversarial": [{"slot": "wparam", "name": nm, "pool": "temps"}]}))
    return out

SPECIAL_LEN = [9, 10, 13, 32, 32, 32, 34, 92, 127, 128]      # LEB length prefixes \t \n \r space " \ DEL and a 2-byte prefix

def kebab(rng, n):
    """a valid lower-case kebab identifier of exactly n characters"""
    cs = [rng.choice("abcdefghijklmnopqrstuvwxyz") for _ in range(n)]
    for k in range(2, n - 2):
        if rng.random() < 0.12 and cs[k - 1] != "-" and k + 1 < n: cs[k] = "-"
    for k in range(1, n):
        if cs[k] == "-" and (cs[k - 1] == "-" or k == n - 1): cs[k] = "x"
    return identgen.esc("".join(cs))

def meta_worlds(rng, n):
    """worlds whose encoded component type contains the bytes that need care in a Rust byte-string literal
    (0x09 0x0a 0x0d 0x20 0x22 0x5c 0x7f, >= 0x80) as name-length prefixes and item counts, at shifting offsets"""
    out = []
    for _ in range(n):
        L = lambda: rng.choice(SPECIAL_LEN)
        pad = kebab(rng, rng.randint(1, 60))
        ncase = rng.choice([9, 10, 13, 32, 34, 92, 33])
        nfield = rng.choice([9, 10, 13, 32, 34, 2])
        ver = rng.choice(["", "@0.2.0", "@1.0.0-rc.1"])
        iname = kebab(rng, rng.choice([L(), max(2, 32 - len("ns:pk/") - len(ver)), 7]))
        wit = (f"package ns:pk{ver};\ninterface {identgen.esc(iname)} {{\n"
               f"  enum e {{ " + ", ".join(f"c{k}" for k in range(ncase)) + " }\n"
               f"  record r {{ " + ", ".join(f"f{k}: u32" for k in range(nfield)) + " }\n"
               f"  {pad}x: func();\n"
               f"  {kebab(rng, L())}: func({kebab(rng, L())}: string, q: e) -> r;\n}}\n"
               f"world {kebab(rng, rng.choice([5, 9, 13, 32]))} {{\n  import {identgen.esc(iname)};\n"
               f"  export {kebab(rng, L())}: func({kebab(rng, L())}: list<u8>) -> string;\n}}\n")
        out.append((wit, {"adversarial": []}))
    return out

def section_literal(src):
    """(version, N, text following `*b"`) of the component-type static of a generated file, or None"""
    m = re.search(r'link_section = "component-type:wit-bindgen:([^:"]+):[^"]*"\)\]\s*(?:#\[[^\n]*\]\s*)*pub static __WIT_BINDGEN_COMPONENT_TYPE: \[u8; (\d+)\] = \*b"', src)
    if not m: return None
    n = int(m.group(2))
    return m.group(1), n, src[m.end():m.end() + 5 * n + 4000]

def run(c):
    c.level = "proof"
    c.rule = ("names: one evaluation = one name through the real to_rust_ident/heck/validate_id and the model (non-trivial = valid WIT "
              "name whose identifier differs from the name); worlds: one evaluation = one (world, option set) generated by the real "
              "generator and type-checked by rustc --edition 2024 -Dwarnings (non-trivial = world with at least one adversarial name or a corpus "
              "world with >= 5 naming scopes); distinct by request text")
    T0 = time.time(); phases = {}
    def phase(n):
        nonlocal T0
        phases[n] = round(time.time() - T0, 1); T0 = time.time()
    info = ic.run_translator(c, "rust")
    ok = c.lake_build(["Witverif.Props.C09"])
    if ok: c.audit("Witverif.Props.C09")
    if c.tier == "thorough" and ok: c.leanchecker("Witverif.Props.C09")
    phase("lake build + audit")
    model = c.model_exe("m_ident")
    impl = c.cargo_build("ident-run")
    if not impl: return
    phase("driver + harness build")
    # ---------------------------------------------------------------- A: the identifier functions
    if model:
        names, iout, mout = ic.tie_names(c, impl, model, "rust", 1500 if c.tier == "quick" else 20000)
        for n, o, m in zip(names, iout, mout):
            d = ic.parse_kv(o)
            verdict = m.split("\t")[1] if "\t" in m else "spec=missing"
            if d.get("valid") == "1" and "rust-keyword" in verdict:
                low = n.lower()
                cls = "rust-ident-keyword-gen" if n == "gen" else ("rust-ident-keyword-uppercase" if n != low else "rust-ident-keyword-other")
                c.spec_violation(cls, "to_rust_ident returns a Rust 2024 keyword for a valid WIT identifier",
                                 {"name": n, "to_rust_ident": unhx(d["rust"]), "replay": f"echo {hx(n)} | ident-run rustid"})
    phase("ident-functions tie")
    rmeta = build_rustlib(c)
    if not rmeta or not model: return
    phase("native wit-bindgen rmeta")
    # ---------------------------------------------------------------- B: worlds
    import shutil
    shutil.rmtree(WORK, ignore_errors=True); os.makedirs(WORK, exist_ok=True)
    jobs = []       # dict(wit|path, world, opts, meta, origin)
    cp = os.path.join(VERIF, "corpus", "C09.txt")
    if os.path.exists(cp):
        for l in open(cp):
            if l.strip() and not l.startswith("#"):
                d = json.loads(l); jobs.append({"wit": d["wit"], "opts": d.get("opts", "stubs"), "meta": d.get("meta", {}), "origin": "corpus"})
    if c.replay and "witness" in c.replay and "wit" in c.replay["witness"]:
        jobs.insert(0, {"wit": c.replay["witness"]["wit"], "opts": c.replay["witness"].get("opts", "stubs"), "meta": {}, "origin": "replay"})
    codegen = sorted(os.listdir(os.path.join(REPO, "tests", "codegen")))
    for k, name in enumerate(codegen):
        p = os.path.join(REPO, "tests", "codegen", name)
        is_async = False
        if os.path.isfile(p):
            head = open(p).read(400)
            is_async = "//@ async = true" in head
        else:
            p = os.path.join(p, "wit")          # crates/test: a directory test is its `wit` sub-directory
            if not os.path.isdir(p) or not os.listdir(p):
                continue                         # (wasi-* are empty placeholders in this checkout)
        opts_list = OPTS_THOROUGH_CORPUS if c.tier == "thorough" else ([OPTS[0]] if k % 2 else [OPTS[1 + (k // 2) % (len(OPTS) - 1)]])
        for o in opts_list:
            oo = o + (",async" if is_async and o != "-" else "")
            jobs.append({"path": p, "opts": oo, "meta": {}, "origin": "codegen:" + name})
    sysw = systematic_worlds(c.rng)
    for wit, meta in sysw: jobs.append({"wit": wit, "opts": "stubs", "meta": meta, "origin": "systematic"})
    prew = prelude_worlds(c.rng, c.tier)
    for k, (wit, meta) in enumerate(prew): jobs.append({"wit": wit, "opts": OPTS[k % 2], "meta": meta, "origin": "prelude-types"})
    bases = (info.get("rust") or {}).get("temp_bases", [])
    for wit, meta in temp_worlds(bases): jobs.append({"wit": wit, "opts": "stubs", "meta": meta, "origin": "temps"})
    metaw = meta_worlds(c.rng, 40 if c.tier == "quick" else 600)
    for wit, meta in metaw: jobs.append({"wit": wit, "opts": c.rng.choice(OPTS), "meta": meta, "origin": "meta-bytes"})
    n_seeded = 90 if c.tier == "quick" else 3000
    for i in range(n_seeded):
        wit, meta = identgen.gen_world(c.rng, "rust")
        jobs.append({"wit": wit, "opts": c.rng.choice(OPTS), "meta": meta, "origin": "seeded"})
    # domain: component-model validity of text worlds (wit-parser alone accepts case-only collisions)
    text_jobs = [j for j in jobs if "wit" in j]
    vout = run_lines([impl, "witvalid"], [hx(j["wit"]) for j in text_jobs], timeout=600)
    for j, v in zip(text_jobs, vout): j["valid"] = v.split(" ")[0] == "valid"; j["invalid_msg"] = unhx(v.split(" ")[1])[:200] if " " in v else ""
    scopes = ic.get_scopes(impl, [(j.get("wit"), j.get("path"), None) for j in jobs])
    allnames = set()
    for sc in scopes:
        for s in sc or []: allnames.update(s["names"])
    M = ic.model_lookup(model, allnames)
    gout = run_lines([impl, "rustgen"], [j["opts"] + " " + ("@" + hx(j["path"]) if "path" in j else hx(j["wit"])) + " -" for j in jobs], timeout=1200)
    phase("validity + scopes + model + generator")
    # ---------------------------------------------------------------- "exactly that world": the embedded metadata
    bytelit = c.model_exe("m_bytelit")
    lit_jobs = []
    for i, (j, g) in enumerate(zip(jobs, gout)):
        files = ic.decode_files(g)
        if not files: continue
        sl = section_literal(next(iter(files.values())))
        if sl is None:
            c.spec_violation("rust-component-type-literal:missing", "generated Rust has no __WIT_BINDGEN_COMPONENT_TYPE static",
                             {"wit": j.get("wit") or j.get("path"), "opts": j["opts"]}); continue
        lit_jobs.append((i, sl))
    if bytelit and lit_jobs:
        mouts = run_lines([impl, "rustmeta"], [("@" + hx(jobs[i]["path"]) if "path" in jobs[i] else hx(jobs[i]["wit"])) + " - " + sl[0] for i, sl in lit_jobs], timeout=600)
        lreq, limpl, lmodel = [], [], []
        breqs = []
        for (i, sl), mo in zip(lit_jobs, mouts):
            exp = mo.split(" ")[1] if mo.startswith("ok ") else "-"
            breqs.append(f"{sl[1]} {hx(sl[2])} {exp}")
        bouts = run_lines([bytelit], breqs, timeout=600)
        special = collections.Counter()
        for (i, sl), mo, bo in zip(lit_jobs, mouts, bouts):
            j = jobs[i]
            d = ic.parse_kv(bo.split("\t")[0]); verdict = bo.split("\t")[1] if "\t" in bo else "spec=missing"
            src_id = j.get("wit") or j.get("path")
            if mo.startswith("ok "):
                eb = bytes.fromhex(mo[3:]) if mo[3:] != "-" else b""
                for b in (9, 10, 13, 32, 34, 92, 127):
                    if b in eb: special["byte 0x%02x" % b] += 1
                if any(x >= 0x80 for x in eb): special["byte >= 0x80"] += 1
                lreq.append(json.dumps({"src": src_id, "opts": j["opts"]})); limpl.append("literal=model"); lmodel.append("literal=model" if d.get("model_eq") == "1" else "literal differs from sectionLiteral(metadata)")
            if verdict != "spec=ok":
                c.spec_violation("rust-component-type-literal:" + verdict.replace("spec=", ""),
                                 "the byte-string literal of __WIT_BINDGEN_COMPONENT_TYPE does not denote the N bytes of the world's encoded component type "
                                 "(the wasm32 build fails or the module would not componentize as that world)",
                                 {"wit": j.get("wit") or (open(j["path"]).read() if os.path.isfile(j.get("path", "")) else j.get("path")), "opts": j["opts"],
                                  "declared_N": sl[1], "decoded_length": d.get("n"), "verdict": verdict, "literal_head": sl[2][:400],
                                  "replay": "ident-run rustgen <opts> <hex wit> - ; lexer: m_bytelit; or rustc with the cfg(target_arch) attribute removed"})
        c.compare("component-type-literal", lreq, limpl, lmodel)
        c.cov["component_type_literals"] = {"checked": len(lit_jobs), "worlds_containing": dict(sorted(special.items()))}
    phase("component-type literal")
    def work(i):
        j, g = jobs[i], gout[i]
        files = ic.decode_files(g)
        if files is None: return ("gen-" + g.split(" ")[0], ic.gen_error(g))
        src = next(iter(files.values()))
        # the component-type static is `#[cfg(target_arch = "wasm32")]`: drop that cfg so that the native rustc
        # type-checks `[u8; N] = *b"…"` too (no wasm32 target is installed)
        src = re.sub(r'#\[cfg\(target_arch = "wasm32"\)\]\n(#\[unsafe\(link_section = "component-type)', r"\1", src)
        p = os.path.join(WORK, f"w{i}.rs")
        open(p, "w").write(src)
        okc, diags = rustc(p, rmeta)
        if okc: os.unlink(p)
        return ("ok" if okc else "rejected", diags)
    res = ic.parallel(work, range(len(jobs)))
    shutil.rmtree(WORK, ignore_errors=True)
    phase("rustc")
    c.cov["phase_seconds"] = phases
    hist = collections.Counter()
    reqs, impl_ans, model_ans = [], [], []
    for i, (j, sc, (status, detail)) in enumerate(zip(jobs, scopes, res)):
        origin = j["origin"].split(":")[0]
        if sc is None:
            hist[f"{origin}:unparsable"] += 1; continue
        if "wit" in j and not j.get("valid"):
            hist[f"{origin}:outside-domain(invalid component WIT)"] += 1; continue
        reasons = predict(sc, M)
        real = [r for r in reasons if r["reason"] != "case-only-collision"]
        req = json.dumps({"origin": j["origin"], "opts": j["opts"], "src": j.get("wit") or j.get("path")}, sort_keys=True)
        adv = j["meta"].get("adversarial", [])
        witness = {"wit": j.get("wit") or open(j["path"]).read() if ("wit" in j or os.path.isfile(j.get("path", ""))) else j.get("path"),
                   "opts": j["opts"], "adversarial": adv}
        c.evaluations += 1
        if adv or len(sc) >= 5:
            c.nontrivial.add(hashlib_sha(req))
        if status.startswith("gen-"):
            hist[f"{origin}:generator-{status[4:]}"] += 1
            key = (os.path.basename(j.get("path", "")), j["opts"].replace(",async", ""))
            if status == "gen-panic" or origin == "codegen":
                c.spec_violation("rust-generator-" + status[4:] + ":" + re.sub(r"[^a-zA-Z]+", "-", detail)[:60],
                                 "the Rust generator fails on a valid world", dict(witness, detail=detail))
            continue
        if status == "ok":
            hist[f"{origin}:accepted" + (":predicted-dirty" if real else "")] += 1
            # over-approximations that are legitimate: a temporary that shadows after the parameter was consumed
            # (a predicted defect need not surface: the type may be unused and not emitted, a temporary may shadow a
            #  parameter only after it was consumed — the model claims clean => accepted, not the converse)
            if not real:
                reqs.append(req); impl_ans.append("accepted"); model_ans.append("accepted")
            continue
        # rejected
        first = detail[0] if detail else {"code": "?", "message": "?", "idents": [], "line": 0}
        r = explain(first, reasons)
        if (os.path.basename(j.get("path", "")), j["opts"].replace(",async", "")) in EXPECTED_FAIL:
            hist[f"{origin}:rejected:declared-expected-failure"] += 1; continue
        if r is None and "raw" in j["opts"].split(",") and any("into_bytes" in d["message"] for d in detail):
            r = {"reason": "rust-raw-strings-string-lower", "ident": "into_bytes", "names": []}
        if r is None and "raw" in j["opts"].split(",") and first["code"] == "E0119" and \
           any(i in ("FuturePayload", "StreamPayload") for i in first["idents"]):
            r = {"reason": "rust-raw-strings-async-payload-impl-conflict", "ident": first["idents"][0], "names": []}
        if r is not None:
            hist[f"{origin}:rejected:{r['reason']}"] += 1
            c.spec_violation(r["reason"], "rustc rejects generated Rust bindings (identifier hygiene)",
                             dict(witness, reason=r, rustc=first, replay="ident-run rustgen <opts> <hex wit> - | rustc --edition 2024 --crate-type lib --emit=metadata -Dwarnings"))
        else:
            ident = (first["idents"] or ["?"])[0]
            cls = f"rustc:{first['code']}:{ident}"
            hist[f"{origin}:rejected:UNEXPLAINED"] += 1
            reqs.append(req); impl_ans.append("rejected:" + cls); model_ans.append("accepted" if not real else "rejected:" + real[0]["reason"])
            c.spec_violation(cls, "rustc rejects generated Rust bindings for a world the model predicts identifier-clean",
                             dict(witness, predicted_reasons=reasons, rustc=detail[:3]))
    c.compare("rustc-accepts-vs-model", reqs, impl_ans, model_ans)
    c.cov["worlds"] = dict(sorted(hist.items()))
    c.cov["jobs"] = {"total": len(jobs), "codegen_corpus_entries": len(codegen), "systematic": len(sysw), "seeded": n_seeded, "meta_bytes": len(metaw)}
    c.sample({"wit": jobs[-1].get("wit", "")[:600], "opts": jobs[-1]["opts"], "rustc": res[-1][0]})
    c.cov["search"] = ("rustc --edition 2024 --crate-type lib --emit=metadata -Dwarnings on the real generator's output for every world of this run; "
                       "IdentSpec.notKeyword (Lean spec table) on the real to_rust_ident outputs")
    c.assumptions += [
        "acceptance is checked natively (x86_64), metadata only: not wasm32 (target not installed), no linking, no wit-component run: the headline claim of C09 is validated on samples, not proved",
        "RustKeywords.keywords2024 is a hand transcription of the Rust Reference keyword list (validated: rustc rejects each listed keyword, accepts each escaped form)",
        "heck 0.5 is modelled for ASCII WIT identifiers (validated by the ident-functions correspondence)",
        "the inventory of generator locals is a syntactic scan of the code templates in bindgen.rs/interface.rs (tools/gen_ident_tables.py); the recogniser over-approximates (shadowing after the parameter was consumed is harmless)",
        "case-only collisions inside one scope are outside the domain: the component model rejects such packages (checked with wit-component + wasmparser per world)",
    ]

def hashlib_sha(s):
    import hashlib
    return hashlib.sha1(s.encode()).hexdigest()
