"""C01 — the shared ABI generator encodes and decodes every WIT value per the spec.
Theorems: Props/C01.lean.  Tie + search: see checks/abi_common.py."""
import abi_common as A

def classify(m, verdict):
    kind = m["kind"]
    tag = verdict.split(" ")[1] if " " in verdict else verdict
    return (f"{kind}:{tag}", f"the {kind} instruction stream does not implement the canonical ABI ({tag})")

def run(c):
    c.rule = ("seeded WIT worlds (all constructors, nesting <= tier depth, flags 0..65, enums/variants around 256 cases, "
              "fixed-length lists, maps, handles, futures/streams) + boundary corpus; per distinct type: flat_types at "
              "16/4/1, size/align at both widths, lower_flat / lower_to_memory / lift_from_memory trees for 2 canonical-list "
              "rules; per function: the call glue in both directions (flat lifting is only reachable through it). "
              "Monitors: machine(real tree)(value) vs Spec for seeded+boundary values at ptr 4 and 8. "
              "non-trivial = structured type; distinct by request text")
    model, exe = A.setup(c, "Witverif.Props.C01")
    if not exe: return
    tp = A.tier_params(c)
    paths, stats = A.gen_worlds(c, tp["n"], tp["depth"], tp["nfuncs"], tp["max_params"])
    cases, failed = A.trace(c, exe, paths)
    if failed: c.broken.append(("abi-trace failed on generated world", str(failed[:2])))
    sel = A.select(cases, {"flat", "sizealign", "lowerflat", "lowermem", "liftmem", "call"})
    if model:
        A.corr(c, "abi-trace:types+lower+lift+call", sel, model)
        reqs, meta = A.eval_requests(c, A.select(cases, {"lowerflat", "lowermem", "liftmem"}), tp["nvals"])
        A.run_monitors(c, model, reqs, meta, classify)
        creqs, cmeta = A.call_requests(c, A.select(cases, {"call"}), 1, A.USED_CALLS | A.HOST_CALLS)
        def classify_call(m, verdict):
            tag = verdict.split(" ")[1] if " " in verdict else verdict
            if tag.startswith("param-record-frees"):   # belongs to C02 (frees), not to value transport
                return ("c02:" + tag, "call glue does not free the parameter record exactly once (C02)")
            return (f"call-values:{m['variant']}:{m['dir']}:{tag}", "values do not cross the call glue unchanged")
        out = A.run_monitors(c, model, creqs, cmeta, classify_call)
        # frees of the parameter record are C02's claim; do not report them under C01
        c.violations = [v for v in c.violations if not v["class"].startswith("c02:")]
    c.cov["generated_types"] = stats
    c.cov["constructors_in_cases"] = A.constructor_histogram(sel)
    for k, v, _ in sel[:1] + [x for x in sel if x[0].startswith("lowermem") and "variant" in x[0]][:2]:
        c.sample({"request": k, "impl": v[:400]})
    c.cov["search"] = "Lean monitors checkLowerFlat/checkLowerMem/checkLiftMem/checkCall on the real trees, seeded+boundary values, ptr 4 and 8"
    c.cov["partial_obligations"] = [
        "flat lowering of strings/lists/maps (lower_flat on list-bearing parameters): theorem open; covered by correspondence + monitors (lowering them to memory and lifting them from memory are proved: store_correct_all, load_correct)"]
    c.assumptions += ["layout (alignment/elem_size/offsets) is the spec's, evaluated at both widths and compared with wit-parser's symbolic SizeAlign on every generated type (wit-parser itself is external)",
                      "the SSA -> tree canonicalisation in harness/abi-trace (inlining of pure single-assignment instructions)",
                      "instruction meanings (Abi/Sem.lean) follow the instruction documentation in abi.rs"]
