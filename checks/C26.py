"""C26 — fresh temporaries (wit_bindgen_core::Ns).  Model: lean/Witverif/Text/Ns.lean,
theorems: lean/Witverif/Props/C26.lean, tie: text-run ns  vs  m_ns, spec monitor NsSpec.check."""
import os, json
from vlib import run_lines, VERIF

def hx(s): return s.encode().hex() if s else "-"
def unhx(h): return "" if h == "-" else bytes.fromhex(h).decode()

BASES = ["a", "b", "a0", "a1", "a00", "ret", "ptr", "", "a10", "é", "1"]

def gen_history(rng, maxlen):
    n = rng.randint(1, maxlen)
    # a small alphabet so that collisions with base+digits are frequent
    pool = rng.sample(BASES, rng.randint(1, 4))
    extra = []
    ops = []
    for _ in range(n):
        r = rng.random()
        if r < 0.45:
            name = rng.choice(pool)
            ops.append("t:" + hx(name))
        elif r < 0.85:
            b = rng.choice(pool)
            name = b + str(rng.randint(0, 6)) if rng.random() < 0.6 else b
            ops.append("i:" + hx(name))
        else:
            ops.append("i:" + hx(rng.choice(pool) + rng.choice("xyz")))
    return " ".join(ops)

def run(c):
    c.rule = ("histories of insert/tmp over a small alphabet incl. base+digits names; non-trivial = "
              "at least one tmp had to skip a taken candidate (output differs from the requested base); distinct by request text")
    ok = c.lake_build(["Witverif.Props.C26"])
    if ok: c.audit("Witverif.Props.C26")
    if c.tier == "thorough" and ok: c.leanchecker("Witverif.Props.C26")
    model = c.model_exe("m_ns")
    impl = c.cargo_build("text-run")
    n = 3000 if c.tier == "quick" else 60000
    maxlen = 14 if c.tier == "quick" else 40
    reqs = []
    cp = os.path.join(VERIF, "corpus", "C26.txt")
    if os.path.exists(cp):
        reqs += [l.rstrip("\n") for l in open(cp) if l.strip() and not l.startswith("#")]
    if c.replay and "witness" in c.replay: reqs.insert(0, c.replay["witness"]["request"])
    reqs += [gen_history(c.rng, maxlen) for _ in range(n)]
    if not impl:
        return
    iout = run_lines([impl, "ns"], reqs, timeout=120)
    def nontriv(r, o):
        ops, outs = r.split(" "), o.split(" ")
        return any(op.startswith("t:") and out != "n:" + op[2:] for op, out in zip(ops, outs))
    if model:
        # second pass: model answers + spec monitor evaluated on the implementation's outputs
        mout = run_lines([model], [r + "\t" + o for r, o in zip(reqs, iout)], timeout=300)
        manswers = [m.split("\t")[0] for m in mout]
        c.compare("ns", reqs, iout, manswers, nontrivial=nontriv)
        for r, o, m in zip(reqs, iout, mout):
            verdict = m.split("\t")[1] if "\t" in m else "spec=missing"
            if verdict != "spec=ok":
                c.spec_violation("ns-history-monitor",
                                 "Ns handed out / accepted a name violating the C26 monitor (or did not answer)",
                                 {"request": r, "decoded": [t[:2] + unhx(t[2:]) for t in r.split(" ")],
                                  "impl": o, "model": m.split("\t")[0], "verdict": verdict})
    else:
        # model unavailable: python transcription of the monitor as the search fallback
        for r, o in zip(reqs, iout):
            c.evaluations += 1
            known, good = set(), True
            ops, outs = r.split(" "), o.split(" ")
            if len(ops) != len(outs): good = False
            else:
                for op, out in zip(ops, outs):
                    nm = op[2:]
                    if op.startswith("i:"):
                        good &= (out == "ok") == (nm not in known); known.add(nm)
                    else:
                        good &= out.startswith("n:") and out[2:] not in known; known.add(out[2:])
            if not good:
                c.spec_violation("ns-history-monitor", "Ns violates the C26 monitor", {"request": r, "impl": o})
    for r, o in list(zip(reqs, iout))[:3]:
        c.sample({"history": [t[:2] + unhx(t[2:]) for t in r.split(" ")], "impl": o})
    c.cov["search"] = "NsSpec.check (Lean, spec side) evaluated on the implementation's outputs for every history of this run"
    c.assumptions += ["usize counter modelled as Nat (no wrap after 2^64 temporaries)",
                      "HashSet modelled as a list observed only through contains/insert"]
