"""C06 — Rust guest bindings neither leak nor double-free heap memory.
Theorems: lean/Witverif/Props/C06.lean (ownership profile + ledger).  Tie: harness/bind-native with the
ledger allocator of bn-rt (every block: address, size, align, origin; redzones; poisoned frees), the
Lean host predicting the buffers reachable from every lowered value and the Lean model of
abi.rs::post_return (run in the reference machine on the guest's memory) predicting the exact frees."""
import os, json
import bind_common as bc
from vlib import VERIF

def run(c):
    quick = c.tier == "quick"
    c.rule = ("one evaluation = one call with its post-return: ledger of the guest heap before/after (all blocks with address, "
              "size, align, origin) against the host's buffers and the model's predicted frees; non-trivial = at least one heap "
              "block crosses the boundary; distinct by (world, function, values)")
    ok = c.lake_build(["Witverif.Props.C06"])
    if ok: c.audit("Witverif.Props.C06")
    if not quick and ok: c.leanchecker("Witverif.Props.C06")
    emitter, host = bc.prepare(c)
    if not emitter or not host:
        return
    corpus = bc.load_corpus(os.path.join(VERIF, "corpus", "C06.txt"))
    replay_item = None
    if c.replay and "witness" in c.replay and "wit" in c.replay["witness"]:
        replay_item = (c.replay["witness"]["config"], c.replay["witness"]["wit"])
    n_worlds = 40 - len(corpus) if quick else 200
    per_fn = 3 if quick else 6
    items, stats = bc.make_items(c.rng, max(n_worlds, 0), bc.BASE_FEATURES, corpus, replay_item)
    dropped = {}
    batches = bc.iter_batches(c, items, emitter, dropped)
    ncompiled = 0
    counts = {"calls": 0, "with-heap-blocks": 0, "host-blocks": 0, "result-blocks": 0, "post-returns": 0, "classes": {}}
    reqs, impl, model = [], [], []
    creqs, cimpl, cmodel = [], [], []
    for batch, gmap in batches:
        ncompiled += len(gmap)
        def on_outcome(m, o, batch=batch, gmap=gmap):
            if m is None:
                for e in o["verify"].split(","):
                    c.spec_violation("allocator:" + e.split(":")[0], "write outside a live block / after free detected by the final scan", {"error": e})
                return
            counts["calls"] += 1
            fs, corr = bc.ledger_findings(m, o)
            nb = len(bc.nz(o.get("hostblocks", []))) + len(bc.nz(o.get("result_blocks", [])))
            counts["host-blocks"] += len(bc.nz(o.get("hostblocks", [])))
            counts["result-blocks"] += len(bc.nz(o.get("result_blocks", [])))
            req = f"{m['dir']} {m['key']} {bc.vals_term(o['vals'])} -> {o['ret']}"
            if nb:
                counts["with-heap-blocks"] += 1
                c.nontrivial.add(req)
            c.evaluations += 1
            if corr is not None:
                counts["post-returns"] += 1
                reqs.append(req); impl.append(str(corr[0])); model.append(str(corr[1]))
            lc = bc.ledger_counts(o) if m["dir"] == "export" else bc.ledger_counts_import(o)
            if lc is not None:
                creqs.append(req); cimpl.append(json.dumps(lc[0], sort_keys=True)); cmodel.append(json.dumps(lc[1], sort_keys=True))
            wit, cfg = items[gmap[m["item"]]][1], items[gmap[m["item"]]][0]
            for cls, what, detail in fs:
                counts["classes"][cls] = counts["classes"].get(cls, 0) + 1
                c.spec_violation(cls, what, {"config": cfg, "wit": wit, "function": m["key"], "func": m["func"],
                                             "args": o["vals"], "ret": o["ret"], **detail})
            if len(c.samples) < 4 and nb and not fs:
                c.sample({"config": cfg, "function": m["key"], "type": m["func"], "host_blocks": bc.nz(o.get("hostblocks", []))[:6],
                          "result_blocks": bc.nz(o.get("result_blocks", []))[:6]})
        bc.run_calls(c, batch, host, c.rng, per_fn, on_outcome)
    c.compare("post-return-frees", reqs, impl, model, nontrivial=lambda r, o: o != "[]")
    c.compare("ledger-event-counts", creqs, cimpl, cmodel, nontrivial=lambda r, o: '"galloc": 0' not in o)
    c.cov["worlds"] = {"generated": len(items), "corpus": len(corpus), "compiled": ncompiled,
                       "dropped_not_compiling": len(dropped)}
    c.cov["type_constructors_generated"] = stats
    c.cov["ledger"] = counts
    c.cov["search"] = "ledger monitors (host buffers released exactly once, result buffers = lowering, post-return frees everything, no allocator error, redzone/poison scan) on every call of this run"
    c.assumptions += [
        "executed natively at pointer width 8 only; the allocator is bn-rt's bump ledger (never reuses memory) standing in for the guest's global allocator",
        "reads outside live blocks are only detected through garbage values (poison / redzone patterns), writes through the redzone and poison scans",
        "user code is the stub emitted by bind-native: it drops every argument it receives and returns freshly built values (some with spare capacity)",
        "host buffers are allocated with the size/alignment cabi_realloc would be asked for (Spec.store/lowerFlat block list)",
    ]
