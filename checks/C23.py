"""C23 — cross-task wakeups are never lost or duplicated.
Theorems: lean/Witverif/Props/C23.lean over lean/Witverif/Async/{Task,Wakeup}.lean (`wake` is a label accepted wherever code
outside the executor can run: same task while polled, C-ABI completion callback, destructors, other tasks / host while idle,
after exit; all label sequences).  Tie: see checks/exec_common.py — the real runtime with --features inter-task-wakeup and the
unit-stream built-ins in the mock host: exact trace equality, spec monitor (one item per sleep, coalescing, read cancelled after
leaving the set before poll/drop, wake after exit) on the real traces."""
import exec_common


def run(c):
    c.rule = ("scripts of engine `exec` in the inter-task-wakeup build: bodies that capture their waker and suspend on a Rust-only event, wakes "
              "from the same task (W<n>, yield), from a second real component task (its body wakes the captured waker inside its own callback), "
              "from outside any task (K<n>), from destructors during cancellation (g<n>), after exit, and in the window between a YIELD answer and the resuming callback (P); interleaved with import calls, "
              "subtask events, EVENT_CANCEL; driver start and block_on; non-trivial = some callback answered WAIT or YIELD; distinct by trace")
    n = 6000 if c.tier == "quick" else 400000
    maxbody = 10 if c.tier == "quick" else 16
    exec_common.run_exec(c, "C23", ["inter-task-wakeup"], n, maxbody, "Witverif.Props.C23")
    c.assumptions += [
        "unit stream host rules: Async/UnitHost.lean (a write meeting a pending read completes it with COMPLETED|1<<4 and queues the "
        "reader's event; otherwise BLOCKED; peer dropped -> DROPPED; cancel-read returns the queued code or CANCELLED; (R) cancel traps "
        "while the end is in a set); mock host harness/rt-native/src/unit_host.rs implements the same text",
        "liveness half of sleeping_wake_polls_again relies on the host's obligation to call back after WAIT when a member of the set "
        "is ready (the harness does; the theorem `every_callback_polls` covers the guest half)",
        "single-threaded runtime: between two program points of the executor that run no user code nothing else runs (LTS `userPc`)",
        "native x86-64; traces compared up to the start of a panic",
    ]
