"""Shared body of the C-backend native checks C10 (values) and C11 (ownership): one native run of
the generated C bindings against the Lean canonical-ABI host yields both kinds of observation.
Machinery: tools/cnative.py, harness/c-native (README.md there), lean/Drivers/CHost.lean."""
import os, json, collections, shutil
import cnative as cn
from vlib import VERIF, BUILD

CONFIGS = [(o, e) for o in ("default", "nosig", "autodrop") for e in ("utf8", "utf16")]

def corpus_worlds(pid):
    """corpus/<pid>.jsonl : {"name":…, "wit":…, "why":…}; every world is run under all six configurations"""
    p = os.path.join(VERIF, "corpus", pid + ".jsonl")
    out = []
    if os.path.exists(p):
        for line in open(p):
            line = line.strip()
            if line and not line.startswith("#"): out.append(json.loads(line))
    return out

def run_native(c, pid, nworlds, ncases):
    gen_bin = c.cargo_build("c-native")
    chost = c.model_exe("m_chost")
    if not gen_bin or not chost:
        return None
    workdir = os.path.join(BUILD, "c-native", pid)
    shutil.rmtree(workdir, ignore_errors=True)
    worlds, meta = [], []
    def add(name, wit, why):
        for o, e in CONFIGS:
            worlds.append(cn.WorldRun(f"{name}_{o}_{e}", wit, o, e, workdir))
            meta.append(why)
    if c.replay and "witness" in c.replay and "wit" in c.replay["witness"]:
        add("replay", c.replay["witness"]["wit"], "replay")
    for k, w in enumerate(corpus_worlds(pid)):
        add(f"corpus{k}", w["wit"], w.get("why", "corpus"))
    stats = collections.Counter()
    for i in range(nworlds):
        wit, st = cn.gen_world(c.rng, nfuncs=c.rng.choice([3, 4, 5]), max_depth=c.rng.choice([2, 3, 3, 4]),
                               kebab_res=(i % 3 == 0))
        for k, v in st.items(): stats[k] += v
        add(f"w{i}", wit, "seeded")
    live = cn.run_batch(worlds, gen_bin, chost, c.rng, ncases, jobs=int(os.environ.get("VERIF_JOBS", "16")))
    c.cov["worlds"] = {"distinct": nworlds + len(corpus_worlds(pid)), "configurations": len(CONFIGS),
                       "world_configurations_run": len(live), "generator_type_choices": dict(stats)}
    # machinery problems are broken correspondences (never silently skipped)
    for w in worlds:
        for kind, detail in w.errors:
            c.broken.append((f"corr:c-native:{kind}", json.dumps({"world": w.name, "wit": w.wit, "detail": detail[:1500]})))
    return live

def correspondence(c, live):
    """model vs. implementation comparisons that do not depend on values"""
    reqs, impl, model = [], [], []
    for w in live:
        for f in w.funcs:
            if "mcsig" not in f: continue
            proto = w.protos.get(f["c_name"])
            mc = f["mcsig"]
            # --- C signature structure
            n = len(f["params"])
            if proto:
                ret, ps, text = proto
                kinds = []
                for k, (ty, isptr, pn) in enumerate(ps):
                    if k >= n: kinds.append("o:" + pn)
                    elif isptr and pn.startswith("maybe_"): kinds.append("m")
                    elif isptr: kinds.append("p")
                    else: kinds.append("v")
                i = "ret=" + ("void" if ret == "void" else "bool" if ret == "bool" and mc["ret"].startswith("bool") else "value") + " " + ",".join(kinds)
            else:
                i = "no-prototype"
            names = iter(mc["names"])
            mk = [(k[0] if k[0] != "o" else "o:" + next(names, "?")) for k in mc["params"]]
            m = "ret=" + {"void": "void", "value": "value", "bool-option": "bool", "bool-result": "bool"}[mc["ret"]] + " " + ",".join(mk)
            reqs.append(f"csig {w.opts} {f['dir']} {f['term']} shapes={[p['shape'] for p in f['params']]} -> {f['result']['shape'] if f['result'] else '_'}")
            impl.append(i); model.append(m)
    c.compare("c-signature", reqs, impl, model,
              nontrivial=lambda r, o: "m" in o.split(" ")[1].split(",") or "o:" in o or "bool" in o)
    reqs, impl, model = [], [], []
    for w in live:
        for f in w.funcs:
            if "msig" not in f: continue
            s, ms = f["sig"], f["msig"]
            reqs.append(f"wasm-sig {f['dir']} {w.fn_term(f)}")
            impl.append(f"{s['params']} {s['results']} {s['indirect']} {s['retptr']}")
            model.append(f"{ms['params']} {ms['results']} {ms['indirect']} {ms['retptr']}")
    c.compare("wasm-signature", reqs, impl, model, nontrivial=lambda r, o: "True" in o)
    reqs, impl, model = [], [], []
    for w in live:
        for (key, pn, ty, dt) in getattr(w, "layout_items", []):
            ml = w.mlayout.get((key, pn))
            real = w.sizeof.get((key, pn))
            reqs.append(f"layout {w.tterm(dt)}")
            impl.append(f"{real}")
            model.append(f"{(ml[2], ml[3]) if ml else None}")
            if ml and (ml[0], ml[1]) != (ml[2], ml[3]):
                c.spec_violation("c-layout-differs-from-canonical",
                                 "the C struct layout of a generated type differs from the canonical ABI layout",
                                 {"type": w.tterm(dt), "canonical": ml[:2], "c_model": ml[2:], "wit": w.wit})
    c.compare("c-layout", reqs, impl, model, nontrivial=lambda r, o: "record" in r or "variant" in r or "tuple" in r)

def coverage(c, live):
    tot = collections.Counter()
    kinds = collections.Counter()
    shapes = collections.Counter()
    for w in live:
        for k, v in w.st.items(): tot[k] += v
        tot["resource_scenarios"] += w.nres
        for f in w.funcs:
            if "msig" in f:
                shapes["indirect-params" if f["msig"]["indirect"] else "flat-params"] += 1
                shapes["retptr" if f["msig"]["retptr"] else "flat-or-no-result"] += 1
                shapes["ret:" + f["mcsig"]["ret"]] += 1
                for k in f["mcsig"]["params"]: shapes["param:" + (k[0] if k[0] != "o" else k)] += 1
            ks = set()
            for d in f["dparams"]: cn.kinds(d, ks)
            if f["dresult"] is not None: cn.kinds(f["dresult"], ks)
            for k in ks: kinds[k] += 1
    c.cov["native"] = dict(tot)
    c.cov["function_shapes"] = dict(shapes)
    c.cov["type_constructors_in_signatures"] = dict(kinds)
