"""C27 — distinct packages get distinct module names (wit_bindgen_core::name_package_module).
Model: lean/Witverif/Text/PkgPath.lean over Text/Heck.lean; theorems: lean/Witverif/Props/C27.lean
(full statement refuted by concrete witnesses, partial theorems proved);
tie: text-run pkgpath (real `Resolve`s, direct arena + WIT source) vs m_pkgpath, glue: text-run heck
vs the Heck model; spec monitor PkgSpec.check (Lean) evaluated on the implementation's names;
end-to-end: the real Rust generator on one colliding world + rustc (E0428)."""
import os, re, json, subprocess, tempfile, shutil
from vlib import run_lines, VERIF, BUILD

def hx(s): return s.encode().hex() if s else "-"
def unhx(h): return "" if h == "-" else bytes.fromhex(h).decode()

# ------------------------------------------------------------------ python transcription (classifier only)
def pysnake(s):
    """heck 0.5 to_snake_case for ASCII strings (used only to *classify* collisions)."""
    words, cur = [], ""
    for ch in s:
        if ch.isascii() and ch.isalnum(): cur += ch
        else: words.append(cur); cur = ""
    words.append(cur)
    segs = []
    for w in words:
        init, mode, n = 0, 0, len(w)
        for i, c in enumerate(w):
            if i + 1 < n:
                nx = w[i + 1]
                nm = 1 if c.islower() else 2 if c.isupper() else mode
                if nm == 1 and nx.isupper():
                    segs.append(w[init:i + 1]); init = i + 1; mode = 0
                elif mode == 2 and c.isupper() and nx.islower():
                    segs.append(w[init:i]); init = i; mode = 0
                else:
                    mode = nm
            else:
                segs.append(w[init:])
    return "_".join(x.lower() for x in segs)

def rep(v): return re.sub(r"[.+-]", "_", v)
def collapse(v): return "_".join(w for w in rep(v).split("_") if w)

def version_class(v1, v2):
    """why two different version strings mangle to the same suffix (None = not explained)"""
    if v1 is None or v2 is None or v1 == v2: return None
    if v1.replace("+", "-") == v2.replace("+", "-"): return "pkgpath-prerelease-vs-build"
    if rep(v1) == rep(v2): return "pkgpath-version-dot-vs-hyphen"
    if collapse(v1) == collapse(v2): return "pkgpath-version-empty-segment"
    if collapse(v1).lower() == collapse(v2).lower(): return "pkgpath-version-case"
    if pysnake(rep(v1)) == pysnake(rep(v2)): return "pkgpath-version-camel-boundary"
    return None

WHAT = {
    "pkgpath-name-digit-version-concat": "the version is appended without a separator: base1+version1 = base2+version2 for different package names (foo@10.0.0 / foo1@0.0.0 -> foo10_0_0)",
    "pkgpath-name-equals-mangled": "a package that keeps its bare name (only version of its name) is named like another package's name+version (foo1-0-0 / foo@1.0.0 -> foo1_0_0)",
    "pkgpath-name-case": "package names differing only in case (WIT allows upper-case words) get the same snake_case module name (bar / BAR -> bar)",
    "pkgpath-prerelease-vs-build": "pre-release and build metadata are both joined with '_' (1.0.0-a / 1.0.0+a -> 1_0_0_a)",
    "pkgpath-version-dot-vs-hyphen": "'.' and '-' inside the version both become '_' (1.0.0-a.b / 1.0.0-a-b -> 1_0_0_a_b)",
    "pkgpath-version-empty-segment": "to_snake_case drops empty words of the version (1.0.0-- / 1.0.0 -> 1_0_0)",
    "pkgpath-version-case": "to_snake_case lower-cases the version (1.0.0-A / 1.0.0-a -> 1_0_0_a)",
    "pkgpath-version-camel-boundary": "to_snake_case splits the version at case changes (1.0.0-aB / 1.0.0-a.b -> 1_0_0_a_b)",
}

def classify(pkgs, i, j, names):
    """class of the collision between packages i and j (same namespace, different, same observed name)"""
    (ns1, n1, v1), (ns2, n2, v2) = pkgs[i], pkgs[j]
    cnt = lambda ns, n: sum(1 for (a, b, _) in pkgs if a == ns and b == n)
    def parts(ns, n, v):
        base = pysnake(n)
        suf = pysnake(rep(v)) if (cnt(ns, n) != 1 and v is not None) else ""
        return base, suf
    b1, s1 = parts(ns1, n1, v1)
    b2, s2 = parts(ns2, n2, v2)
    # the observed names must decompose the way the classifier assumes, otherwise it explains nothing
    if names[i] != b1 + s1 or names[j] != b2 + s2: return "pkgpath-unclassified"
    if n1 == n2:
        return version_class(v1, v2) or "pkgpath-unclassified"
    if b1 == b2:
        if n1.lower() != n2.lower(): return "pkgpath-unclassified"
        if s1 == "" and s2 == "": return "pkgpath-name-case"
        if v1 == v2 or version_class(v1, v2): return "pkgpath-name-case"
        return "pkgpath-unclassified"
    if len(b1) > len(b2): b1, s1, b2, s2 = b2, s2, b1, s1
    if not b2.startswith(b1): return "pkgpath-unclassified"
    return "pkgpath-name-equals-mangled" if s2 == "" else "pkgpath-name-digit-version-concat"

# ------------------------------------------------------------------ generators
STEMS = ["foo", "bar", "a", "http", "wasi-io", "x"]
NUMS = [0, 1, 2, 3, 10, 12, 23, 100]
PRE_POOL = ["", "", "", "a", "A", "a.b", "a-b", "aB", "rc.1", "rc1", "rc-1", "-", "a--b", "0", "5", "1.0", "x.7.z-92",
            "rc2.0.0", "alpha", "Alpha", "ab", "a.B", "a-", "-a", "0a", "b.a"]
BUILD_POOL = ["", "", "", "", "a", "A", "a.b", "a-b", "001", "5", "b.7", "aB", "-", "exp.sha.5114f85", "a.b.c"]

def gen_name(rng, valid_only):
    s = rng.choice(STEMS)
    r = rng.random()
    if r < 0.30: n = s
    elif r < 0.45: n = s + str(rng.choice([1, 2, 10, 12]))
    elif r < 0.55: n = s + "-" + str(rng.choice([1, 2, 10]))
    elif r < 0.65: n = s + rng.choice(["1-0-0", "1-2", "10-0-0", "1-0-0-rc", "2-0-0-a", "-1-0-0"])
    elif r < 0.73: n = s.upper()
    elif r < 0.80: n = s + "-" + rng.choice(["BAR", "bar", "B1", "b1", "v1", "V1"])
    elif r < 0.86: n = s + "-" + rng.choice(["b", "c-d", "1a", "a1"])
    elif r < 0.92: n = s + rng.choice(["a", "b", "0"])
    elif valid_only: n = s + "-x"
    else: n = s + rng.choice(["_b", "Bar", "B", "-é", "É", "__c", "-"])     # not WIT identifiers (direct mode only)
    return n

def gen_ident(rng):
    return "".join(rng.choice("abAB01-") for _ in range(rng.randint(1, 3)))

def fix_pre(p):
    """numeric pre-release identifiers must not have leading zeros"""
    out = []
    for w in p.split("."):
        if w.isdigit() and len(w) > 1 and w[0] == "0": w = w.lstrip("0") or "0"
        out.append(w)
    return ".".join(out)

def gen_version(rng):
    if rng.random() < 0.12: return None
    core = ".".join(str(rng.choice(NUMS if rng.random() < 0.7 else [0, 1])) for _ in range(3))
    if rng.random() < 0.75: pre = rng.choice(PRE_POOL)
    else: pre = fix_pre(".".join(gen_ident(rng) for _ in range(rng.randint(1, 3))))
    if rng.random() < 0.8: build = rng.choice(BUILD_POOL)
    else: build = ".".join(gen_ident(rng) for _ in range(rng.randint(1, 2)))
    return core + ("-" + pre if pre else "") + ("+" + build if build else "")

SEMVER = re.compile(r"^(0|[1-9]\d*)\.(0|[1-9]\d*)\.(0|[1-9]\d*)"
                    r"(?:-((?:0|[1-9]\d*|\d*[a-zA-Z-][0-9a-zA-Z-]*)(?:\.(?:0|[1-9]\d*|\d*[a-zA-Z-][0-9a-zA-Z-]*))*))?"
                    r"(?:\+([0-9a-zA-Z-]+(?:\.[0-9a-zA-Z-]+)*))?$")

def wit_name_ok(n):
    if not n or not n[0].isascii() or not n[0].isalpha(): return False
    for w in n.split("-"):
        if not w or not all(ch.isascii() and ch.isalnum() for ch in w): return False
        letters = [ch for ch in w if ch.isalpha()]
        if letters and not (all(ch.islower() for ch in letters) or all(ch.isupper() for ch in letters)): return False
    return True

def mutate(rng, pkg):
    """a sibling package likely to collide with `pkg` (one of the ways the mangling loses information)"""
    ns, name, v = pkg
    k = rng.randint(0, 6)
    if v is not None:
        core, _, tail = v.partition("-") if "-" in v.split("+")[0] else (v.split("+")[0], "", "")
        rest = v[len(core):]
        if k == 0 and rest:            # change one separator of the tail into another one
            idx = [i for i, ch in enumerate(rest) if ch in ".-+"]
            i = rng.choice(idx); r2 = rest[:i] + rng.choice(".-+") + rest[i + 1:]
            return (ns, name, core + r2)
        if k == 1 and rest:            # flip the case of one letter
            idx = [i for i, ch in enumerate(rest) if ch.isalpha()]
            if idx:
                i = rng.choice(idx); return (ns, name, core + rest[:i] + rest[i].swapcase() + rest[i + 1:])
        if k == 2 and rest:            # double a hyphen / add a trailing one
            idx = [i for i, ch in enumerate(rest) if ch == "-"]
            i = rng.choice(idx) if idx else len(rest)
            return (ns, name, core + rest[:i] + "-" + rest[i:])
        if k == 3 and rest:            # camel boundary <-> separator
            idx = [i for i in range(1, len(rest) - 1) if rest[i] in ".-" and rest[i - 1].islower() and rest[i + 1].islower()]
            if idx:
                i = rng.choice(idx); return (ns, name, core + rest[:i] + rest[i + 1].upper() + rest[i + 2:])
        major = core.split(".")[0]
        if k == 4 and len(major) > 1:  # move leading digits of the major version into the name
            j = rng.randint(1, len(major) - 1)
            m2 = major[j:].lstrip("0") or "0"
            if m2 == major[j:]:
                return (ns, name + major[:j], m2 + core[len(major):] + rest)
        if k == 5:                     # a package whose *name* is name+version
            return (ns, name + re.sub(r"[.+-]+", "-", v).strip("-"), None if rng.random() < 0.5 else "3.3.3")
    if k == 6 or v is None:
        ws = name.split("-"); i = rng.randrange(len(ws)); ws[i] = ws[i].swapcase()
        return (ns, "-".join(ws), v)
    return (ns, name, v)

def gen_case(rng, maxn):
    mode = "w" if rng.random() < 0.5 else "d"
    n = rng.randint(1, maxn)
    nss = ["t"] if rng.random() < 0.8 else ["t", "u"]
    # few distinct names per case so that several versions of one name are the rule
    names = [gen_name(rng, mode == "w") for _ in range(rng.randint(1, 3))]
    kind = rng.random()
    plain = kind < 0.4          # plain-only case: exercises the hypotheses of the partial theorem
    if plain:
        names = [rng.choice(["foo", "bar", "foo-bar", "http-2", "a-b-c", "x-1-y", "wasi-io"]) for _ in names]
    seen, pkgs = set(), []
    def add(p):
        if p in seen: return
        if p[2] is not None and not SEMVER.match(p[2]): return
        if mode == "w" and not wit_name_ok(p[1]): return
        seen.add(p); pkgs.append(p)
    for _ in range(n):
        ns, nm = rng.choice(nss), rng.choice(names)
        v = gen_version(rng)
        if plain and v is not None:
            core = v.split("-")[0].split("+")[0]
            v = core + rng.choice(["", "", "-rc.1", "-a", "-a.b", "-0", "-rc1", "-b.2.c"])
        add((ns, nm, v))
    if kind > 0.7 and pkgs:     # adversarial: siblings derived by information-losing edits
        for _ in range(rng.randint(1, 3)):
            base = rng.choice(pkgs)
            sib = mutate(rng, base)
            add(sib)
            if rng.random() < 0.7:      # make sure both names carry several versions
                add((base[0], base[1], "7.7.7")); add((sib[0], sib[1], "8.8.8") if sib[2] is not None else sib)
    if not pkgs: pkgs.append(("t", "foo", None))
    return mode, pkgs

def req(mode, pkgs):
    return mode + " " + " ".join(f"{hx(ns)}:{hx(n)}:{hx(v) if v is not None else '~'}" for ns, n, v in pkgs)

def parse_req(r):
    toks = r.split(" ")
    pk = []
    for t in toks[1:]:
        a, b, c = t.split(":")
        pk.append((unhx(a), unhx(b), None if c == "~" else unhx(c)))
    return toks[0], pk

HECK_ALPHA = "abcxyzABCXYZ019-_.+ " + "éÉßΣσςǅİ中٣²ªⅧⅷ" + "– "

def gen_heck(rng):
    r = rng.random()
    if r < 0.5:
        return "".join(rng.choice(HECK_ALPHA) for _ in range(rng.randint(0, 12)))
    if r < 0.8:   # case-boundary heavy
        return "".join(rng.choice("aAbB1Σσ_") for _ in range(rng.randint(1, 10)))
    return gen_name(rng, False) + "@" + (gen_version(rng) or "")

# ------------------------------------------------------------------ Rust generator end-to-end
RUST_E2E_WIT = """package verif:root;
world w {
  import t:foo/i@10.0.0;
  import t:foo/i@1.0.0;
  import t:foo1/i@0.0.0;
  import t:foo1/i@2.0.0;
}
package t:foo@10.0.0 { interface i { f: func() -> u32; } }
package t:foo@1.0.0 { interface i { f: func() -> u32; } }
package t:foo1@0.0.0 { interface i { f: func() -> u32; } }
package t:foo1@2.0.0 { interface i { f: func() -> u32; } }
"""

def module_paths(text):
    """full paths of all `pub mod x {` items of generated (prettyplease/Source-indented) Rust, by
    brace depth; returns the list of paths in order of appearance"""
    paths, stack, depth = [], [], 0
    for line in text.split("\n"):
        m = re.match(r"\s*pub mod (\w+) \{\s*$", line)
        if m:
            stack.append((m.group(1), depth)); paths.append("::".join(n for n, _ in stack))
        depth += line.count("{") - line.count("}")
        while stack and depth <= stack[-1][1]:
            stack.pop()
    return paths

def rust_e2e(c, genrun):
    res = {"wit": RUST_E2E_WIT}
    out = run_lines([genrun, "pkggen"], [f"rust {hx(RUST_E2E_WIT)} w"], timeout=120)[0]
    if not out.startswith("ok "):
        res["result"] = out[:200]; return res
    files = {unhx(t.split(":")[0]): unhx(t.split(":")[1]) for t in out.split(" ")[1:]}
    text = files.get("w.rs", "")
    paths = module_paths(text)
    dups = sorted({p for p in paths if paths.count(p) > 1})
    res["module_paths"] = paths
    res["modules_defined_twice"] = dups
    d = tempfile.mkdtemp(prefix="c27-", dir=BUILD)
    try:
        open(os.path.join(d, "w.rs"), "w").write(text)
        p = subprocess.run(["rustc", "--edition", "2021", "--crate-type", "lib", "--error-format", "short",
                            "-o", os.path.join(d, "w.rlib"), os.path.join(d, "w.rs")],
                           stdout=subprocess.PIPE, stderr=subprocess.STDOUT, text=True, timeout=120)
        res["rustc_E0428"] = [l for l in p.stdout.split("\n") if "E0428" in l][:3]
    except Exception as e:
        res["rustc_E0428"] = f"rustc not run: {e}"
    finally:
        shutil.rmtree(d, ignore_errors=True)
    return res

# ------------------------------------------------------------------ the check
def run(c):
    c.rule = ("package sets (1..7 packages, 1-2 namespaces, 1-3 names per set drawn from stems with digit/upper-case/"
              "version-like variants, semver with pre-release and build metadata, unversioned packages), built as real "
              "Resolves both directly in the arena and from WIT source; non-trivial = at least one name carries a mangled "
              "version (two packages share namespace+name); distinct by request text")
    ok = c.lake_build(["Witverif.Props.C27"])
    if ok: c.audit("Witverif.Props.C27")
    if c.tier == "thorough" and ok: c.leanchecker("Witverif.Props.C27")
    model = c.model_exe("m_pkgpath")
    impl = c.cargo_build("text-run")
    quick = c.tier == "quick"

    # ---- glue: Heck model vs the real heck crate (reported separately)
    strs = ["", "a", "A", "aB", "ABc", "ABcDE", "XΣXΣ baffle", "Σ", "aΣ", "ΣΣ", "İ", "aİb", "ǅa", "aǅB", "ABǅc",
            "a²B", "AⅧb", "1.0.0-rc.1+b", "XMLHttpRequest", "abc123DEf456", "ABC123dEEf456FOO", "FieldNamE11"]
    strs += [gen_heck(c.rng) for _ in range(4000 if quick else 100000)]
    if impl and model:
        hi = run_lines([impl, "heck"], [hx(s) for s in strs], timeout=300)
        hm = run_lines([model], ["h " + hx(s) for s in strs], timeout=300)
        c.compare("heck-glue", [hx(s) for s in strs], hi, hm,
                  nontrivial=lambda r, o: r != o)     # output differs from input
        c.cov["heck_glue"] = {"strings": len(strs), "alphabet": HECK_ALPHA,
                              "with_non_ascii": sum(1 for s in strs if not s.isascii()),
                              "changed_by_snake": sum(1 for s, o in zip(strs, hi) if hx(s) != o)}

    # ---- pkgpath correspondence + spec monitor
    reqs = []
    cp = os.path.join(VERIF, "corpus", "C27.txt")
    if os.path.exists(cp):
        reqs += [l.rstrip("\n") for l in open(cp) if l.strip() and not l.startswith("#")]
    ncorpus = len(reqs)
    if c.replay and "witness" in c.replay and "request" in c.replay["witness"]:
        reqs.insert(0, c.replay["witness"]["request"])
    n = 3000 if quick else 60000
    for _ in range(n):
        mode, pkgs = gen_case(c.rng, 7 if quick else 10)
        reqs.append(req(mode, pkgs))
    if not impl:
        return
    iout = run_lines([impl, "pkgpath"], reqs, timeout=600)
    dist = {"cases": len(reqs), "corpus": ncorpus, "mode_direct": 0, "mode_wit": 0, "rejected_by_wit_parser": 0,
            "sizes": {}, "branch_single_version_bare": 0, "branch_unversioned_among_many": 0, "branch_mangled": 0,
            "all_plain_sets": 0, "all_plain_sets_with_mangling": 0, "sets_with_collision": 0,
            "names_upper_case": 0, "versions_with_pre": 0, "versions_with_build": 0, "collisions_by_class": {}}
    live = []
    for r, o in zip(reqs, iout):
        mode, pkgs = parse_req(r)
        dist["mode_direct" if mode == "d" else "mode_wit"] += 1
        dist["sizes"][len(pkgs)] = dist["sizes"].get(len(pkgs), 0) + 1
        if o.startswith("err:"):
            dist["rejected_by_wit_parser"] += 1
            if mode == "d":
                c.broken.append(("corr:pkgpath generator produced an invalid version for direct mode", r + " " + unhx(o[4:])))
            continue
        if o in ("panic", "crash", "timeout", "bad-request"):
            c.spec_violation("pkgpath-no-answer", "name_package_module panicked / did not answer",
                             {"request": r, "packages": pkgs, "impl": o})
            continue
        live.append((r, o, pkgs))
    if model:
        mout = run_lines([model], [r + "\t" + o for r, o, _ in live], timeout=600)
    else:
        mout = [None] * len(live)
    def nontriv(r, o):
        _, pk = parse_req(r)
        return len({(a, b) for a, b, _ in pk}) < len(pk)
    if model:
        c.compare("pkgpath", [r for r, _, _ in live], [o for _, o, _ in live],
                  [m.split("\t")[0] for m in mout], nontrivial=nontriv)
    for (r, o, pkgs), m in zip(live, mout):
        names = [unhx(t) for t in o.split(" ")] if o else []
        if len(names) != len(pkgs):
            c.spec_violation("pkgpath-no-answer", "wrong number of names", {"request": r, "impl": o}); continue
        cnt = {}
        for ns, nm, v in pkgs: cnt[(ns, nm)] = cnt.get((ns, nm), 0) + 1
        for ns, nm, v in pkgs:
            if cnt[(ns, nm)] == 1: dist["branch_single_version_bare"] += 1
            elif v is None: dist["branch_unversioned_among_many"] += 1
            else: dist["branch_mangled"] += 1
            if nm != nm.lower(): dist["names_upper_case"] += 1
            if v and "-" in v.split("+")[0]: dist["versions_with_pre"] += 1
            if v and "+" in v: dist["versions_with_build"] += 1
        if m is not None:
            f = dict(x.split("=", 1) for x in m.split("\t")[1:] if "=" in x)
            verdict = f.get("spec", "missing")
            coll = [tuple(map(int, x.split("-"))) for x in f.get("coll", "").split(",") if x]
            plain = f.get("plain", "")
            valid = f.get("valid", "")
        else:
            # model unavailable: python transcription of the monitor as the search fallback
            coll = [(i, j) for i in range(len(pkgs)) for j in range(i + 1, len(pkgs))
                    if pkgs[i][0] == pkgs[j][0] and pkgs[i] != pkgs[j] and names[i] == names[j]]
            verdict = "fail" if coll else "ok"
            plain = "0" * len(pkgs); valid = "1" * len(pkgs)
        c.evaluations += 1
        if verdict not in ("ok", "fail"):
            c.spec_violation("pkgpath-no-answer", "monitor could not be evaluated", {"request": r, "impl": o, "model": m}); continue
        if plain and set(plain) == {"1"}:
            dist["all_plain_sets"] += 1
            if any(cnt[(ns, nm)] > 1 and v is not None for ns, nm, v in pkgs): dist["all_plain_sets_with_mangling"] += 1
        if coll: dist["sets_with_collision"] += 1
        for i, j in coll:
            if valid and not (valid[i] == "1" and valid[j] == "1"):
                continue        # not WIT/semver-valid package names: outside the property's quantifier
            if plain and plain[i] == "1" and plain[j] == "1":
                klass = "pkgpath-collision-under-partial-hypotheses"   # contradicts module_names_injective_partial
            else:
                klass = classify(pkgs, i, j, names)
            dist["collisions_by_class"][klass] = dist["collisions_by_class"].get(klass, 0) + 1
            c.spec_violation(klass, WHAT.get(klass, "two different packages of one namespace get the same module name (cause not among the known classes)"),
                             {"request": r, "packages": [f"{ns}:{nm}" + (f"@{v}" if v is not None else "") for ns, nm, v in pkgs],
                              "colliding": [i, j], "module_names": names,
                              "replay": "echo '<request>' | .build/target/debug/text-run pkgpath"})
    c.cov["input_distribution"] = dist
    for r, o, pkgs in live[:3]:
        c.sample({"packages": [f"{ns}:{nm}" + (f"@{v}" if v is not None else "") for ns, nm, v in pkgs],
                  "module_names": [unhx(t) for t in o.split(" ")]})

    # ---- the Rust generator on one colliding world (same class as the first known finding)
    genrun = c.cargo_build("gen-run")
    if genrun:
        e2e = rust_e2e(c, genrun)
        c.cov["rust_generator_end_to_end"] = e2e
        if e2e.get("modules_defined_twice"):
            c.spec_violation("pkgpath-name-digit-version-concat", WHAT["pkgpath-name-digit-version-concat"],
                             {"rust_generator": True, "wit": RUST_E2E_WIT, "modules_defined_twice": e2e["modules_defined_twice"],
                              "rustc": e2e.get("rustc_E0428")})
    c.cov["search"] = ("PkgSpec.check (Lean, spec side) evaluated on the implementation's names for every package set of this run; "
                       "every colliding pair of valid packages is classified by cause, pairs satisfying the hypotheses of "
                       "module_names_injective_partial or of unknown cause are violations")
    c.assumptions += [
        "Resolve::packages modelled as a list of PackageName; semver::Version as (major, minor, patch, pre, build) with Display = toStr",
        "heck::ToSnakeCase modelled for ASCII and a 14-character non-ASCII table (other non-ASCII characters are outside the model); validated by the heck-glue correspondence; WIT names and semver strings are ASCII",
        "u64 version numbers modelled as Nat",
    ]
