"""C11 — C guest bindings release exactly the memory and handles they own.
Theorems: lean/Witverif/Props/C11.lean.  Tie: native run of the REAL generator's bindings with an
allocation ledger (-Wl,--wrap=malloc,…) and counters on the resource intrinsics; the Lean models
`CProfile.cFrees` (define_dtor), `cDtorExportName` and the host image sizes are compared with what
the generated code does (harness/c-native/README.md)."""
import json
import c_common as cc
from vlib import run_lines

KNOWN = {"c-free-helper-skips-shared-anon-type", "c-dtor-export-snake-case"}

def run(c):
    try:
        _run(c)
    finally:
        # a run against a repo copy (VERIF_REPO) must not leave its tables in the shared Lean tree
        import os as _os, subprocess as _sp, sys as _sys
        from vlib import VERIF as _V, REPO as _R
        if _os.path.realpath(_R) != "/repo":
            _sp.run([_sys.executable, _os.path.join(_V, "tools", "gen_cdtor.py")], env=dict(_os.environ, VERIF_REPO="/repo"), stdout=_sp.DEVNULL, stderr=_sp.DEVNULL)

def _run(c):
    c.level = "proof"
    c.rule = ("one evaluation = one ownership obligation checked on one call: frees of the argument buffers by the generated "
              "helpers, frees by post-return, untouched import arguments, ledger balance, borrow drops, resource intrinsic / "
              "destructor counts; non-trivial = the call moved at least one heap buffer or handle; distinct by (world, "
              "configuration, function, values)")
    # translator: the destructor's export-name format string, regenerated from the working tree
    import subprocess, sys, os
    from vlib import VERIF
    t = subprocess.run([sys.executable, os.path.join(VERIF, "tools", "gen_cdtor.py")], stdout=subprocess.PIPE, stderr=subprocess.PIPE, text=True)
    c.checker_cmds.append("tools/gen_cdtor.py")
    if t.returncode != 0:
        c.broken.append(("translator gen_cdtor (the [dtor] export attribute of type_resource no longer has the expected shape)", t.stderr[-800:]))
    else:
        c.cov["translator"] = json.loads(t.stdout.strip().split("\n")[-1])
    ok = c.lake_build(["Witverif.Props.C11"])
    if ok: c.audit("Witverif.Props.C11")
    if c.tier == "thorough" and ok: c.leanchecker("Witverif.Props.C11")
    nworlds, ncases = (9, 2) if c.tier == "quick" else (60, 3)
    live = cc.run_native(c, "C11", nworlds, ncases)
    if live is None: return
    cc.coverage(c, live)
    chost = c.model_exe("m_chost")
    # ---- destructor export names: generated source vs model vs Resolve::wasm_export_name
    items = [(w, r) for w in live for r in w.gen["resources"] if r["dir"] == "export"]
    reqs = [f"dtor|{cc.cn.hx(r['iface'])}|{cc.cn.hx(r['name'])}" for w, r in items]
    ans = cc.cn.retry_timeouts([chost], reqs, run_lines([chost], reqs, timeout=300)) if chost and reqs else []
    impl, model = [], []
    for (w, r), a in zip(items, ans):
        real = w.dtor_exports.get(r["name"])
        m, spec = (cc.cn.unhx(x) for x in a.split(" ")) if " " in a else (a, a)
        impl.append(str(real)); model.append(m)
        if real != r["dtor_export_expected"] or spec != r["dtor_export_expected"]:
            c.spec_violation("c-dtor-export-snake-case" if real == f"{r['iface']}#[dtor]{r['name'].replace('-', '_')}" else "c-dtor-export-name",
                             "the destructor of an exported resource is exported under a name the component model does not bind",
                             {"wit": w.wit, "resource": r["name"], "exported_as": real, "expected": r["dtor_export_expected"], "spec_model": spec})
    c.compare("dtor-export-name", [f"{r['iface']} {r['name']}" for w, r in items], impl, model,
              nontrivial=lambda r, o: "-" in r.split(" ")[1])
    # ---- ownership observations
    n_ev = 0
    for w in live:
        for cls, what, wit in w.of:
            c.spec_violation(cls, what, wit)
        n_ev += w.st.get("frees_checked", 0) + w.st.get("drops_checked", 0) + 3 * w.nres + 2 * w.st.get("cases", 0)
        for case in w.cases:
            if case.pfree.get("0") and any(case.pfree["0"].values()) or getattr(case, "rfree", None):
                c.nontrivial.add(f"{w.name}|{case.fn['key']}|{case.cid}")
            elif any(isinstance(d, list) and d[0] in ("own", "borrow") for d in case.fn["dparams"]):
                c.nontrivial.add(f"{w.name}|{case.fn['key']}|{case.cid}")
    c.evaluations += n_ev
    unexplained = sum(1 for w in live for f in w.of if f[0] in ("free-helper-args", "free-helper-result", "post-return-frees", "param-record-free"))
    c.corr["freed-sizes:cFrees/cFreesLate/host-image vs ledger"] = {
        "cases": sum(w.st.get("frees_checked", 0) for w in live), "mismatches": unexplained, "first_mismatches": []}
    for w in live[:1]:
        for case in w.cases[:3]:
            o = w.obs.get(case.cid, {})
            c.sample({"world": w.name, "function": case.fn["key"], "params": [cc.cn.show(v) for v in case.params],
                      "ledger": (o.get("ledger") or {}).get("events", [])[:12]})
    c.cov["search"] = ("allocation ledger (wrapped malloc/free/realloc/calloc) per call and phase, byte snapshot of caller memory "
                       "around import calls, counters on [resource-drop]/[resource-new]/[resource-rep] and the user destructor; "
                       "freed block sizes compared with the Lean models cFrees / cFreesLate / host image")
    c.assumptions += [
        "native x86-64 execution (pointer width 8); allocator = glibc through the wrapped entry points",
        "the mock host's resource table is the identity (handle = representation); the [dtor] export is called directly "
        "(its *name* is compared with Resolve::wasm_export_name, and C12 checks what the component encoder binds)",
        "documented C ownership rules as stated in crates/c/README.md: callee owns export arguments and frees them with the "
        "generated *_free helpers; post-return frees returned buffers; import arguments are borrowed; *_free helpers do not drop handles",
        "defect model cFreesLate assumes every shared anonymous type was defined by an earlier pass (true for an interface that is "
        "also imported, and for the corpus witnesses)",
    ]
