import Witverif.Text.CIdent
import Witverif.Proofs.Heck
/-! C12: lemmas about the C identifier mangling model. -/
namespace Witverif.Text.CIdent
open Witverif.Text Witverif.Text.Heck Witverif.Text.CIdentSpec Witverif.Generated.CIdent

theorem escapes_safe_all :
    escapeTable.all (fun e => !cKeywords.contains e.2 && e.2 == e.1 ++ ['_']) = true := by
  decide +kernel

/-- every reserved word has an arm -/
theorem keywords_covered_all :
    cKeywords.all (fun kw => (lookup escapeTable kw).isSome) = true := by
  decide +kernel

theorem lookup_mem {t : List (List Char × List Char)} {name v : List Char} (h : lookup t name = some v) :
    ∃ e ∈ t, e.2 = v := by
  unfold lookup at h
  split at h
  · rename_i e he
    exact ⟨e, List.mem_of_find?_eq_some he, by simpa using h⟩
  · simp at h

theorem not_lod_underscore : lod '_' = false := by decide

/-- `to_c_ident` never yields a reserved word — any input whatsoever -/
theorem toCIdent_not_keyword (name : List Char) : toCIdent name ∉ cKeywords := by
  unfold toCIdent
  cases hl : lookup escapeTable (snake name) with
  | some v =>
    obtain ⟨e, he, rfl⟩ := lookup_mem hl
    have := List.all_eq_true.mp escapes_safe_all e he
    simp only [Bool.and_eq_true, Bool.not_eq_true', List.contains_eq_mem, decide_eq_false_iff_not] at this
    simpa using this.1
  | none =>
    simp only
    intro hk
    have := List.all_eq_true.mp keywords_covered_all _ hk
    simp [hl] at this

/-- kebab names: lower-case letters, digits and `-` -/
def kebab (s : List Char) : Prop := ∀ c ∈ s, lod c = true ∨ c = '-'

theorem sepU_inj_kebab {c d : Char} (hc : lod c = true ∨ c = '-') (hd : lod d = true ∨ d = '-')
    (h : sepU c = sepU d) : c = d := by
  have hdash : sepU '-' = '_' := by decide
  rcases hc with hc | rfl <;> rcases hd with hd | rfl
  · simpa [sepU, lod_alnum hc, lod_alnum hd] using h
  · rw [hdash] at h
    simp only [sepU, lod_alnum hc, if_true] at h
    subst h; simp [not_lod_underscore] at hc
  · rw [hdash] at h
    simp only [sepU, lod_alnum hd, if_true] at h
    subst h; simp [not_lod_underscore] at hd
  · rfl

theorem map_sepU_inj_kebab : ∀ (a b : List Char), kebab a → kebab b → a.map sepU = b.map sepU → a = b
  | [], [], _, _, _ => rfl
  | [], _ :: _, _, _, h => by simp at h
  | _ :: _, [], _, _, h => by simp at h
  | c :: cs, d :: ds, ha, hb, h => by
      simp only [List.map_cons, List.cons.injEq] at h
      have h1 := sepU_inj_kebab (ha c (by simp)) (hb d (by simp)) h.1
      have h2 := map_sepU_inj_kebab cs ds (fun x hx => ha x (by simp [hx])) (fun x hx => hb x (by simp [hx])) h.2
      rw [h1, h2]

theorem snake_inj (a b : List Char) (ha : simpleTail true a = true) (hb : simpleTail true b = true)
    (ka : kebab a) (kb : kebab b) (h : snake a = snake b) : a = b := by
  rw [snake_simple a ha, snake_simple b hb] at h
  exact map_sepU_inj_kebab a b ka kb h

theorem dotToUnderscore_kebab (a : List Char) (ka : kebab a) : dotToUnderscore (a.map sepU) = a.map sepU := by
  unfold dotToUnderscore
  rw [List.map_map]
  apply List.map_congr_left
  intro c hc
  have hdash : sepU '-' = '_' := by decide
  rcases ka c hc with h | rfl
  · have : sepU c = c := by simp [sepU, lod_alnum h]
    simp only [Function.comp, this]
    have : c ≠ '.' := by
      intro e; subst e; revert h; decide
    simp [this]
  · simp [Function.comp, hdash]

end Witverif.Text.CIdent
