import Witverif.Text.CIdent
import Witverif.Proofs.Heck
/-! C12: lemmas about the C identifier mangling model. -/
namespace Witverif.Text.CIdent
open Witverif.Text Witverif.Text.Heck Witverif.Text.CIdentSpec Witverif.Generated.CIdent

theorem escapes_safe_all :
    escapeTable.all (fun e => !cKeywords.contains e.2 && e.2 == e.1 ++ ['_']) = true := by
  decide +kernel

/-- every reserved word has an arm -/
theorem keywords_covered_all :
    cKeywords.all (fun kw => (lookup escapeTable kw).isSome) = true := by
  decide +kernel

theorem lookup_mem {t : List (List Char × List Char)} {name v : List Char} (h : lookup t name = some v) :
    ∃ e ∈ t, e.2 = v := by
  unfold lookup at h
  split at h
  · rename_i e he
    exact ⟨e, List.mem_of_find?_eq_some he, by simpa using h⟩
  · simp at h

theorem not_lod_underscore : lod '_' = false := by decide

/-- `to_c_ident` never yields a reserved word — any input whatsoever -/
theorem toCIdent_not_keyword (name : List Char) : toCIdent name ∉ cKeywords := by
  unfold toCIdent
  cases hl : lookup escapeTable (snake name) with
  | some v =>
    obtain ⟨e, he, rfl⟩ := lookup_mem hl
    have := List.all_eq_true.mp escapes_safe_all e he
    simp only [Bool.and_eq_true, Bool.not_eq_true', List.contains_eq_mem, decide_eq_false_iff_not] at this
    simpa using this.1
  | none =>
    simp only
    intro hk
    have := List.all_eq_true.mp keywords_covered_all _ hk
    simp [hl] at this

/-- kebab names: lower-case letters, digits and `-` -/
def kebab (s : List Char) : Prop := ∀ c ∈ s, lod c = true ∨ c = '-'

theorem sepU_inj_kebab {c d : Char} (hc : lod c = true ∨ c = '-') (hd : lod d = true ∨ d = '-')
    (h : sepU c = sepU d) : c = d := by
  have hdash : sepU '-' = '_' := by decide
  rcases hc with hc | rfl <;> rcases hd with hd | rfl
  · simpa [sepU, lod_alnum hc, lod_alnum hd] using h
  · rw [hdash] at h
    simp only [sepU, lod_alnum hc, if_true] at h
    subst h; simp [not_lod_underscore] at hc
  · rw [hdash] at h
    simp only [sepU, lod_alnum hd, if_true] at h
    subst h; simp [not_lod_underscore] at hd
  · rfl

theorem map_sepU_inj_kebab : ∀ (a b : List Char), kebab a → kebab b → a.map sepU = b.map sepU → a = b
  | [], [], _, _, _ => rfl
  | [], _ :: _, _, _, h => by simp at h
  | _ :: _, [], _, _, h => by simp at h
  | c :: cs, d :: ds, ha, hb, h => by
      simp only [List.map_cons, List.cons.injEq] at h
      have h1 := sepU_inj_kebab (ha c (by simp)) (hb d (by simp)) h.1
      have h2 := map_sepU_inj_kebab cs ds (fun x hx => ha x (by simp [hx])) (fun x hx => hb x (by simp [hx])) h.2
      rw [h1, h2]

theorem snake_inj (a b : List Char) (ha : simpleTail true a = true) (hb : simpleTail true b = true)
    (ka : kebab a) (kb : kebab b) (h : snake a = snake b) : a = b := by
  rw [snake_simple a ha, snake_simple b hb] at h
  exact map_sepU_inj_kebab a b ka kb h

theorem dotToUnderscore_kebab (a : List Char) (ka : kebab a) : dotToUnderscore (a.map sepU) = a.map sepU := by
  unfold dotToUnderscore
  rw [List.map_map]
  apply List.map_congr_left
  intro c hc
  have hdash : sepU '-' = '_' := by decide
  rcases ka c hc with h | rfl
  · have : sepU c = c := by simp [sepU, lod_alnum h]
    simp only [Function.comp, this]
    have : c ≠ '.' := by
      intro e; subst e; revert h; decide
    simp [this]
  · simp [Function.comp, hdash]

/-! ### version mangling -/

def foldRepl (rs : List (List Char × List Char)) (s : List Char) : List Char :=
  rs.foldl (fun s r => applyRepl r s) s

theorem applyRepl_append (r : List Char × List Char) (a b : List Char) :
    applyRepl r (a ++ b) = applyRepl r a ++ applyRepl r b := by simp [applyRepl]

theorem foldRepl_append : ∀ (rs : List (List Char × List Char)) (a b : List Char),
    foldRepl rs (a ++ b) = foldRepl rs a ++ foldRepl rs b
  | [], _, _ => rfl
  | r :: rs, a, b => by
      simp only [foldRepl, List.foldl_cons, applyRepl_append]
      exact foldRepl_append rs _ _

/-- the chain acts character by character -/
theorem foldRepl_flatMap (rs : List (List Char × List Char)) : ∀ s : List Char,
    foldRepl rs s = s.flatMap (fun c => foldRepl rs [c])
  | [] => by
      induction rs with
      | nil => rfl
      | cons r rs ih => simpa [foldRepl, applyRepl] using ih
  | c :: cs => by
      have := foldRepl_append rs [c] cs
      simp only [List.singleton_append] at this
      rw [this, foldRepl_flatMap rs cs]
      simp

/-- every semver character is mapped to C identifier characters by the extracted chain -/
theorem version_chars_all :
    semverChars.all (fun c => (foldRepl versionReplacements [c]).all cIdentChar) = true := by
  decide +kernel

theorem mangleVersion_ident (v : List Char) (hv : ∀ c ∈ v, c ∈ semverChars) :
    ∀ d ∈ mangleVersion v, cIdentChar d = true := by
  intro d hd
  have : mangleVersion v = foldRepl versionReplacements v := rfl
  rw [this, foldRepl_flatMap] at hd
  obtain ⟨c, hc, hdc⟩ := List.mem_flatMap.mp hd
  have h1 := List.all_eq_true.mp version_chars_all c (hv c hc)
  exact List.all_eq_true.mp h1 d hdc

theorem lod_cIdentChar {c : Char} (h : lod c = true) : cIdentChar c = true := by
  simp only [lod, Bool.or_eq_true] at h
  rcases h with h | h <;> simp [cIdentChar, h]

theorem sepU_cIdentChar (c : Char) (h : isAlnum c = true → lod c = true) : cIdentChar (sepU c) = true := by
  unfold sepU
  split
  · rename_i ha; exact lod_cIdentChar (h ha)
  · decide

/-- a simple (lower-case kebab) name snake-cases to identifier characters -/
theorem snake_simple_ident : ∀ (s : List Char) (b : Bool), simpleTail b s = true → ∀ d ∈ s.map sepU, cIdentChar d = true
  | [], _, _ => by simp
  | c :: cs, b, h => by
      intro d hd
      simp only [simpleTail] at h
      simp only [List.map_cons, List.mem_cons] at hd
      by_cases ha : isAlnum c = true
      · simp only [ha, if_true, Bool.and_eq_true] at h
        rcases hd with rfl | hd
        · exact sepU_cIdentChar c (fun _ => h.1)
        · exact snake_simple_ident cs false h.2 d hd
      · simp only [ha, Bool.false_eq_true, if_false, Bool.and_eq_true] at h
        rcases hd with rfl | hd
        · exact sepU_cIdentChar c (fun h' => absurd h' ha)
        · exact snake_simple_ident cs true h.2 d hd

theorem snake_ident (s : List Char) (h : simpleTail true s = true) : ∀ d ∈ snake s, cIdentChar d = true := by
  rw [snake_simple s h]; exact snake_simple_ident s true h

end Witverif.Text.CIdent
