import Witverif.Proofs.AbiLower2
/-! C01: the flat lowering emitted by the generator evaluates to `Spec.lowerFlat` (memory-free types). -/
namespace Witverif.Abi
open Spec

theorem hasTys_length : ∀ (ts : List Ty) (vs : List Val), hasTys ts vs = true → ts.length = vs.length := by
  intro ts
  induction ts with
  | nil => intro vs h; cases vs <;> simp [hasTys] at h ⊢
  | cons t ts ih =>
    intro vs h
    cases vs with
    | nil => simp [hasTys] at h
    | cons v vs => simp [hasTys] at h; simp [ih vs h.2]

theorem evalBlockAt_get (env : Env) (m : Mem) : ∀ (blocks : List (List Expr)) (i : Nat) (f : Frame) (b : List Expr),
    blocks[i]? = some b → evalBlockAt env m blocks i f = evalList (env.enter env.frames.length f) m b := by
  intro blocks
  induction blocks with
  | nil => intro i f b h; simp at h
  | cons b0 bs ih =>
    intro i f b h
    cases i with
    | zero => simp at h; subst h; simp [evalBlockAt]
    | succ i => simp at h; simp [evalBlockAt, ih i f b h]

theorem lowerArms_get (c : Cfg) (lvl : Nat) (results : List CoreTy) : ∀ (cs : List (Option Ty)) (i0 : Nat)
    (arms : List Block), lowerArms c lvl cs results i0 = .ok arms →
    ∀ (j : Nat) (cj : Option Ty), cs[j]? = some cj →
      ∃ arm, arms[j]? = some arm ∧ lowerArm c lvl cj results (i0 + j) = .ok arm := by
  intro cs
  induction cs with
  | nil => intro i0 arms _ j cj h; simp at h
  | cons o cs ih =>
    intro i0 arms h j cj hj
    simp only [lowerArms, bind_ok] at h
    obtain ⟨arm, harm, rest, hrest, hp⟩ := h
    simp [pure, Except.pure] at hp
    subst hp
    cases j with
    | zero => simp at hj; subst hj; exact ⟨arm, by simp, by simpa using harm⟩
    | succ j =>
      have ⟨a, ha, hl⟩ := ih (i0 + 1) rest hrest j cj (by simpa using hj)
      exact ⟨a, by simpa using ha, by rw [← hl]; congr 1; omega⟩

theorem enter_p (env : Env) (lvl : Nat) (f : Frame) : (env.enter lvl f).p = env.p := rfl

theorem enter_frames_length (env : Env) (lvl : Nat) (f : Frame) (h : env.frames.length = lvl) :
    (env.enter lvl f).frames.length = lvl + 1 := by
  simp [Env.enter, h]

theorem eval_pl_enter (env : Env) (m : Mem) (lvl : Nat) (f : Frame) (h : env.frames.length = lvl) :
    eval (env.enter lvl f) m (.pl lvl) = f.payload := by
  simp [eval, frameAt, Env.enter, h]

/-- value of the operands of one arm block under the frame binding the payload -/
def ArmSound (p : Nat) (c : Cfg) (o : Option Ty) (pv : Option Val) : Prop :=
  ∀ (lvl : Nat) (results : List CoreTy) (i : Nat) (env : Env) (m : Mem) (st : St) (arm : Block),
    env.p = p → env.frames.length = lvl + 1 →
    (∀ (k : Nat) (h : k < (flattenOpt o).length),
        ∃ h' : k < (results.drop 1).length, le ((flattenOpt o)[k]) ((results.drop 1)[k]) = true) →
    lowerArm c lvl o results i = .ok arm →
    evalList (env.enter (lvl + 1) { payload := pv.map MV.v }) m arm.2 =
      some ((ci32 i :: coercePayload (Spec.lowerOpt p o pv st).1 ((results.drop 1).map (CoreTy.erase p))).map MV.c)

def LowerSound (p : Nat) (c : Cfg) (t : Ty) (v : Val) : Prop :=
  ∀ (lvl : Nat) (x : Expr) (env : Env) (m : Mem) (st : St) (ss : List Stmt) (es : List Expr),
    env.p = p → env.frames.length = lvl + 1 → eval env m x = some (.v v) →
    lower c lvl t x = .ok (ss, es) →
    evalList env m es = some ((Spec.lowerFlat p t v st).1.map MV.c)

/-- a variant-like lowering whose active arm is sound is sound -/
theorem variant_lower_sound (p : Nat) (c : Cfg) (o : Op) (hop : ∀ env m bev i pv,
      opSem env m bev o [.v (.variant i pv)] = bev i { payload := pv.map MV.v })
    (results : List CoreTy) (arms : List Block) (hs : ∀ b ∈ arms, b.1 = [])
    (i : Nat) (pv : Option Val) (arm : Block) (harm : arms[i]? = some arm)
    (lvl : Nat) (x : Expr) (env : Env) (m : Mem) (hlvl : env.frames.length = lvl + 1)
    (hx : eval env m x = some (.v (.variant i pv)))
    (want : List CVal) (hwant : want.length = results.length)
    (hev : evalList (env.enter (lvl + 1) { payload := pv.map MV.v }) m arm.2 = some (want.map MV.c)) :
    evalList env m (finishLower o x arms results.length).2 = some (want.map MV.c) := by
  rw [finishLower_shape _ _ _ _ hs]
  simp only
  have hlen : (want.map MV.c).length = results.length := by simp [hwant]
  rw [← hlen]
  apply evalList_projN
  intro k hk
  have hb : (arms.map (·.2))[i]? = some arm.2 := by simp [harm]
  simp only [eval, evalList_cons, evalList_nil, hx, Option.bind_some, Option.map_some, hop]
  rw [evalBlockAt_get env m _ i _ arm.2 hb, hlvl, hev]
  have hk' : k < want.length := by simpa using hk
  simp [hk']

end Witverif.Abi
