import Witverif.Abi.CProfile
import Witverif.Proofs.CSig
/-! C10: the C struct layout of the generated typedefs is the canonical ABI layout. -/
namespace Witverif.Abi.CProfile
open Witverif.Abi

def P2 (n : Nat) : Prop := n = 1 ∨ n = 2 ∨ n = 4 ∨ n = 8

theorem P2.max {a b : Nat} (ha : P2 a) (hb : P2 b) : P2 (Nat.max a b) := by
  rcases ha with rfl | rfl | rfl | rfl <;> rcases hb with rfl | rfl | rfl | rfl <;> simp [P2]

theorem disc_size (n : Nat) : (discriminant n).size = 1 ∨ (discriminant n).size = 2 ∨ (discriminant n).size = 4 := by
  unfold discriminant
  split
  · simp [IntRepr.size]
  · split <;> simp [IntRepr.size]

theorem P2_disc (n : Nat) : P2 (discriminant n).size := by
  rcases disc_size n with h | h | h <;> simp [P2, h]

mutual
theorem alignment_P2 (p : Nat) (hp : p = 4 ∨ p = 8) : ∀ t : Ty, P2 (alignment p t)
  | .bool | .s8 | .u8 => by simp [alignment, P2]
  | .s16 | .u16 => by simp [alignment, P2]
  | .s32 | .u32 | .f32 | .char | .errctx => by simp [alignment, P2]
  | .s64 | .u64 | .f64 => by simp [alignment, P2]
  | .string | .list _ | .map _ _ => by rcases hp with rfl | rfl <;> simp [alignment, P2]
  | .flist e _ => by simpa [alignment] using alignment_P2 p hp e
  | .record fs => by simpa [alignment] using maxAlign_P2 p hp fs
  | .tuple ts => by simpa [alignment] using maxAlign_P2 p hp ts
  | .flags n => by
      simp only [alignment]
      split <;> simp [P2]
  | .enum n => by simpa [alignment] using P2_disc n
  | .variant cs => by
      simp only [alignment]
      exact (P2_disc _).max (maxAlignOpt_P2 p hp cs)
  | .option t => by
      simp only [alignment]
      exact P2.max (by simp [P2]) (alignment_P2 p hp t)
  | .result a b => by
      simp only [alignment]
      exact P2.max (by simp [P2]) ((alignOpt_P2 p hp a).max (alignOpt_P2 p hp b))
  | .own | .borrow | .future _ | .stream _ => by simp [alignment, P2]
theorem maxAlign_P2 (p : Nat) (hp : p = 4 ∨ p = 8) : ∀ ts : List Ty, P2 (maxAlign p ts)
  | [] => by simp [maxAlign, P2]
  | t :: ts => by
      simp only [maxAlign]
      exact (alignment_P2 p hp t).max (maxAlign_P2 p hp ts)
theorem alignOpt_P2 (p : Nat) (hp : p = 4 ∨ p = 8) : ∀ o : Option Ty, P2 (alignOpt p o)
  | none => by simp [alignOpt, P2]
  | some t => by simpa [alignOpt] using alignment_P2 p hp t
theorem maxAlignOpt_P2 (p : Nat) (hp : p = 4 ∨ p = 8) : ∀ cs : List (Option Ty), P2 (maxAlignOpt p cs)
  | [] => by simp [maxAlignOpt, P2]
  | c :: cs => by
      simp only [maxAlignOpt]
      exact (alignOpt_P2 p hp c).max (maxAlignOpt_P2 p hp cs)
end

/-- `struct { tagT tag; union { … } val; }` with a union of maximal member size `S` and alignment `M` -/
theorem tagged_union_layout (d M S : Nat) (hd : d = 1 ∨ d = 2 ∨ d = 4) (hM : P2 M) :
    structSA [(d, d), (alignTo S M, M)] = (alignTo (alignTo d M + S) (Nat.max d M), Nat.max d M) := by
  rcases hd with rfl | rfl | rfl <;> rcases hM with rfl | rfl | rfl | rfl <;>
    simp [structSA, structEnd, maxAlignOf, alignTo] <;> omega

theorem tag_only_layout (d : Nat) (hd : d = 1 ∨ d = 2 ∨ d = 4) :
    structSA [(d, d)] = (alignTo (alignTo d 1 + 0) (Nat.max d 1), Nat.max d 1) := by
  rcases hd with rfl | rfl | rfl <;> simp [structSA, structEnd, maxAlignOf, alignTo]

theorem one_max (a : Nat) (h : P2 a) : Nat.max 1 a = a := by
  rcases h with rfl | rfl | rfl | rfl <;> simp [Nat.max_def]

theorem max_one (a : Nat) (h : P2 a) : Nat.max a 1 = a := by
  rcases h with rfl | rfl | rfl | rfl <;> simp [Nat.max_def]

theorem isEmpty_append {α} (a b : List α) : (a ++ b).isEmpty = (a.isEmpty && b.isEmpty) := by
  cases a <;> simp

theorem maxAlignOf_append (a b : List (Nat × Nat)) (hb : 1 ≤ maxAlignOf b) :
    maxAlignOf (a ++ b) = Nat.max (maxAlignOf a) (maxAlignOf b) := by
  induction a with
  | nil => simp [maxAlignOf, Nat.max_def]; omega
  | cons x xs ih =>
    obtain ⟨s, al⟩ := x
    simp only [List.cons_append, maxAlignOf, ih, Nat.max_def]
    repeat' split
    all_goals omega

theorem maxSizeOf_append (a b : List (Nat × Nat)) :
    maxSizeOf (a ++ b) = Nat.max (maxSizeOf a) (maxSizeOf b) := by
  induction a with
  | nil => simp [maxSizeOf]
  | cons x xs ih =>
    obtain ⟨s, al⟩ := x
    simp only [List.cons_append, maxSizeOf, ih, Nat.max_def]
    repeat' split
    all_goals omega

theorem maxAlignOf_ge (ms : List (Nat × Nat)) : 1 ≤ maxAlignOf ms := by
  cases ms with
  | nil => simp [maxAlignOf]
  | cons x xs =>
    obtain ⟨s, al⟩ := x
    have : 1 ≤ maxAlignOf xs := maxAlignOf_ge xs
    simp only [maxAlignOf, Nat.max_def]
    split <;> omega

section
variable (p : Nat) (hp : p = 4 ∨ p = 8)
include hp

mutual
theorem cSA_eq : ∀ t : Ty, cSupported t = true → flagsLe32 t = true → cSA p t = (elemSize p t, alignment p t)
  | .bool, _, _ | .s8, _, _ | .u8, _, _ | .s16, _, _ | .u16, _, _ | .s32, _, _ | .u32, _, _
  | .f32, _, _ | .char, _, _ | .s64, _, _ | .u64, _, _ | .f64, _, _ => by simp [cSA, elemSize, alignment]
  | .errctx, h, _ => by simp [cSupported] at h
  | .flist _ _, h, _ => by simp [cSupported] at h
  | .string, _, _ | .list _, _, _ | .map _ _, _, _ => by
      rcases hp with rfl | rfl <;>
        simp [cSA, elemSize, alignment, structSA, structEnd, maxAlignOf, alignTo]
  | .record fs, hs, hf => by
      have ⟨h1, h2⟩ := cSAs_facts fs (by simpa [cSupported] using hs) (by simpa [flagsLe32] using hf)
      simp [cSA, structSA, elemSize, alignment, h1, h2]
  | .tuple ts, hs, hf => by
      have ⟨h1, h2⟩ := cSAs_facts ts (by simpa [cSupported] using hs) (by simpa [flagsLe32] using hf)
      simp [cSA, structSA, elemSize, alignment, h1, h2]
  | .flags n, _, hf => by
      simp only [flagsLe32, Bool.and_eq_true, decide_eq_true_eq] at hf
      simp only [cSA, cFlagsSize, elemSize, alignment, flagsRepr]
      have h0 : ¬ n = 0 := by omega
      simp only [h0, if_false]
      by_cases h8 : n ≤ 8
      · simp [h8]
      · by_cases h16 : n ≤ 16
        · simp [h8, h16]
        · have h32 : n ≤ 32 := hf.2
          have : (n + 31) / 32 = 1 := by omega
          simp [h8, h16, h32, this]
  | .enum n, _, _ => by simp [cSA, elemSize, alignment]
  | .variant cs, hs, hf => by
      have ⟨h1, h2⟩ := cSAsOpt_facts cs (by simpa [cSupported] using hs) (by simpa [flagsLe32] using hf)
      have hd := disc_size cs.length
      have hM := maxAlignOpt_P2 p hp cs
      simp only [cSA, elemSize, alignment]
      by_cases he : (cSAsOpt p cs).isEmpty = true
      · have hnil : cSAsOpt p cs = [] := by simpa using he
        rw [hnil] at h1 h2
        simp only [maxAlignOf, maxSizeOf] at h1 h2
        simp only [he, if_true, ← h1, ← h2]
        exact tag_only_layout _ hd
      · simp only [he]
        simp only [unionSA, h1, h2]
        exact tagged_union_layout _ _ _ hd hM
  | .option t, hs, hf => by
      have ih := cSA_eq t (by simpa [cSupported] using hs) (by simpa [flagsLe32] using hf)
      have hA := alignment_P2 p hp t
      simp only [cSA, ih, elemSize, alignment]
      rcases hA with h | h | h | h <;> rw [h] <;>
        simp [structSA, structEnd, maxAlignOf, alignTo] <;> omega
  | .result a b, hs, hf => by
      simp only [cSupported, Bool.and_eq_true] at hs
      simp only [flagsLe32, Bool.and_eq_true] at hf
      have ⟨a1, a2⟩ := cSAOpt_facts a hs.1 hf.1
      have ⟨b1, b2⟩ := cSAOpt_facts b hs.2 hf.2
      have hA := (alignOpt_P2 p hp a).max (alignOpt_P2 p hp b)
      simp only [cSA, elemSize, alignment]
      by_cases he : (cSAOpt p a ++ cSAOpt p b).isEmpty = true
      · have hnil : cSAOpt p a ++ cSAOpt p b = [] := by simpa using he
        have ha : cSAOpt p a = [] := (List.append_eq_nil_iff.mp hnil).1
        have hb : cSAOpt p b = [] := (List.append_eq_nil_iff.mp hnil).2
        rw [ha] at a1 a2
        rw [hb] at b1 b2
        simp only [maxAlignOf, maxSizeOf] at a1 a2 b1 b2
        simp only [he, if_true, ← a1, ← a2, ← b1, ← b2]
        decide
      · simp only [he]
        simp only [unionSA, maxAlignOf_append _ _ (maxAlignOf_ge _), maxSizeOf_append, a1, a2, b1, b2]
        have := tagged_union_layout 1 _ (Nat.max (sizeOpt p a) (sizeOpt p b)) (Or.inl rfl) hA
        rw [this, one_max _ hA]
        simp
  | .own, _, _ | .borrow, _, _ => by simp [cSA, elemSize, alignment, structSA, structEnd, maxAlignOf, alignTo]
  | .future _, _, _ | .stream _, _, _ => by simp [cSA, elemSize, alignment]
theorem cSAs_facts : ∀ ts : List Ty, cSupportedAll ts = true → flagsLe32All ts = true →
    (∀ cur, structEnd cur (cSAs p ts) = recordEnd p cur ts) ∧ maxAlignOf (cSAs p ts) = maxAlign p ts
  | [], _, _ => by simp [cSAs, structEnd, recordEnd, maxAlignOf, maxAlign]
  | t :: ts, hs, hf => by
      simp only [cSupportedAll, Bool.and_eq_true] at hs
      simp only [flagsLe32All, Bool.and_eq_true] at hf
      have ih := cSA_eq t hs.1 hf.1
      have ⟨h1, h2⟩ := cSAs_facts ts hs.2 hf.2
      refine ⟨fun cur => ?_, ?_⟩
      · simp only [cSAs, ih, structEnd, recordEnd, h1]
      · simp only [cSAs, ih, maxAlignOf, maxAlign, h2]
theorem cSAOpt_facts : ∀ o : Option Ty, cSupportedOpt o = true → flagsLe32Opt o = true →
    maxAlignOf (cSAOpt p o) = alignOpt p o ∧ maxSizeOf (cSAOpt p o) = sizeOpt p o
  | none, _, _ => by simp [cSAOpt, maxAlignOf, maxSizeOf, alignOpt, sizeOpt]
  | some t, hs, hf => by
      have ih := cSA_eq t (by simpa [cSupportedOpt] using hs) (by simpa [flagsLe32Opt] using hf)
      have hA := alignment_P2 p hp t
      simp only [cSAOpt, ih, maxAlignOf, maxSizeOf, alignOpt, sizeOpt, max_one _ hA]
      simp [Nat.max_def]
theorem cSAsOpt_facts : ∀ cs : List (Option Ty), cSupportedCases cs = true → flagsLe32Cases cs = true →
    maxAlignOf (cSAsOpt p cs) = maxAlignOpt p cs ∧ maxSizeOf (cSAsOpt p cs) = maxSizeOpt p cs
  | [], _, _ => by simp [cSAsOpt, maxAlignOf, maxSizeOf, maxAlignOpt, maxSizeOpt]
  | none :: cs, hs, hf => by
      simp only [cSupportedCases, cSupportedOpt, Bool.true_and] at hs
      simp only [flagsLe32Cases, flagsLe32Opt, Bool.true_and] at hf
      have ⟨h1, h2⟩ := cSAsOpt_facts cs hs hf
      have hM := maxAlignOpt_P2 p hp cs
      simp only [cSAsOpt, h1, h2, maxAlignOpt, maxSizeOpt, alignOpt, sizeOpt, one_max _ hM]
      simp [Nat.max_def]
  | some t :: cs, hs, hf => by
      simp only [cSupportedCases, cSupportedOpt, Bool.and_eq_true] at hs
      simp only [flagsLe32Cases, flagsLe32Opt, Bool.and_eq_true] at hf
      have ih := cSA_eq t hs.1 hf.1
      have ⟨h1, h2⟩ := cSAsOpt_facts cs hs.2 hf.2
      simp [cSAsOpt, ih, maxAlignOf, maxSizeOf, h1, h2, maxAlignOpt, maxSizeOpt, alignOpt, sizeOpt]
end

theorem structOffsets_eq : ∀ (ts : List Ty) (cur : Nat), cSupportedAll ts = true → flagsLe32All ts = true →
    structOffsets cur (cSAs p ts) = fieldOffsets p cur ts
  | [], _, _, _ => by simp [cSAs, structOffsets, fieldOffsets]
  | t :: ts, cur, hs, hf => by
      simp only [cSupportedAll, Bool.and_eq_true] at hs
      simp only [flagsLe32All, Bool.and_eq_true] at hf
      simp only [cSAs, cSA_eq p hp t hs.1 hf.1, structOffsets, fieldOffsets, structOffsets_eq ts _ hs.2 hf.2]

theorem cFieldOffsets_eq (ts : List Ty) (hs : cSupportedAll ts = true) (hf : flagsLe32All ts = true) :
    cFieldOffsets p ts = fieldOffsets p 0 ts :=
  structOffsets_eq p hp ts 0 hs hf

theorem cPayloadOffset_eq (cs : List (Option Ty)) (hs : cSupportedCases cs = true) (hf : flagsLe32Cases cs = true)
    (_hne : (cSAsOpt p cs).isEmpty = false) (d : IntRepr) (hd : d.size = 1 ∨ d.size = 2 ∨ d.size = 4) :
    structOffsets 0 [(d.size, d.size), unionSA (cSAsOpt p cs)] = [0, payloadOffset p d cs] := by
  have ⟨h1, _⟩ := cSAsOpt_facts p hp cs hs hf
  have hM := maxAlignOpt_P2 p hp cs
  simp only [unionSA, h1, structOffsets, payloadOffset]
  rcases hd with h | h | h <;> rw [h] <;> rcases hM with h' | h' | h' | h' <;> rw [h'] <;> simp [alignTo]
end

end Witverif.Abi.CProfile
