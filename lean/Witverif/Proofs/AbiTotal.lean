import Witverif.Proofs.AbiLower
/-! C16 (core): the shared generator does not panic on supported inputs. -/
namespace Witverif.Abi

theorem flatU_total {t : Ty} (h : (flatten t).length ≤ 16) : flatU t = .ok (flatten t) := by
  simp [flatU, flatTypes, h, pure, Except.pure]

theorem joinFlat_length_left : ∀ as bs : List CoreTy, as.length ≤ (joinFlat as bs).length := by
  intro as
  induction as with
  | nil => intro bs; simp
  | cons a as ih => intro bs; cases bs <;> simp [joinFlat]; exact ih _

theorem joinFlat_length_right : ∀ as bs : List CoreTy, bs.length ≤ (joinFlat as bs).length := by
  intro as
  induction as with
  | nil => intro bs; simp [joinFlat]
  | cons a as ih => intro bs; cases bs <;> simp [joinFlat]; exact ih _

theorem flattenCases_length_mem (cs : List (Option Ty)) (c : Option Ty) (h : c ∈ cs) :
    (flattenOpt c).length ≤ (flattenCases cs).length := by
  induction cs with
  | nil => simp at h
  | cons d ds ih =>
    rcases List.mem_cons.mp h with rfl | hm
    · simpa [flattenCases] using joinFlat_length_left _ _
    · exact Nat.le_trans (ih hm) (by simpa [flattenCases] using joinFlat_length_right _ _)

theorem mapM_total {α β : Type} (f : α → G β) : ∀ xs : List α, (∀ x ∈ xs, ∃ y, f x = .ok y) →
    ∃ ys, xs.mapM f = .ok ys := by
  intro xs
  induction xs with
  | nil => intro _; exact ⟨[], rfl⟩
  | cons x xs ih =>
    intro h
    have ⟨y, hy⟩ := h x (by simp)
    have ⟨ys, hys⟩ := ih (fun z hz => h z (by simp [hz]))
    exact ⟨y :: ys, by simp [List.mapM_cons, hy, hys, bind, Except.bind, pure, Except.pure]⟩

mutual
/-- `write_to_memory` never panics -/
theorem store_total (c : Cfg) : ∀ (t : Ty) (lvl : Nat) (x a : Expr) (off : Off), ∃ ss, store c lvl t x a off = .ok ss
  | .bool, _, _, _, _ | .s8, _, _, _, _ | .u8, _, _, _, _ | .s16, _, _, _, _ | .u16, _, _, _, _
  | .s32, _, _, _, _ | .u32, _, _, _, _ | .s64, _, _, _, _ | .u64, _, _, _, _ | .f32, _, _, _, _
  | .f64, _, _, _, _ | .char, _, _, _, _ | .errctx, _, _, _, _ | .own, _, _, _, _ | .borrow, _, _, _, _
  | .future _, _, _, _, _ | .stream _, _, _, _, _ | .string, _, _, _, _ | .enum _, _, _, _, _ => by
      simp [store, pure, Except.pure]
  | .flags n, _, _, _, _ => by
      simp only [store]; split <;> simp [pure, Except.pure]
  | .list e, lvl, x, a, off => by
      simp only [store]
      split
      · simp [pure, Except.pure]
      · have ⟨b, hb⟩ := store_total c e (lvl + 1) (.elem (lvl + 1)) (.base (lvl + 1)) Off.zero
        simp [hb, bind, Except.bind, pure, Except.pure]
  | .map k v, lvl, x, a, off => by
      have ⟨b1, h1⟩ := store_total c k (lvl + 1) (.key (lvl + 1)) (.base (lvl + 1)) Off.zero
      have ⟨b2, h2⟩ := store_total c v (lvl + 1) (.val (lvl + 1)) (.base (lvl + 1)) ((fieldOffs [k, v]).getD 1 Off.zero)
      simp only [List.getD_eq_getElem?_getD] at h2
      simp [store, h1, h2, bind, Except.bind, pure, Except.pure]
  | .record fs, lvl, x, a, off => by simp only [store]; exact storeFields_total c fs lvl _ _ a off
  | .tuple ts, lvl, x, a, off => by simp only [store]; exact storeFields_total c ts lvl _ _ a off
  | .variant cs, lvl, x, a, off => by
      have ⟨arms, h⟩ := storeArms_total c cs lvl (discriminant cs.length) a off (off + payloadOff (discriminant cs.length) cs) 0
      simp [store, h, bind, Except.bind, pure, Except.pure]
  | .option t, lvl, x, a, off => by
      have ⟨b, hb⟩ := store_total c t (lvl + 1) (.pl (lvl + 1)) a (off + payloadOff .u8 [none, some t])
      simp [store, hb, bind, Except.bind, pure, Except.pure]
  | .result ok err, lvl, x, a, off => by
      have ⟨b0, h0⟩ := storeArm_total c ok lvl a (off + payloadOff .u8 [ok, err])
      have ⟨b1, h1⟩ := storeArm_total c err lvl a (off + payloadOff .u8 [ok, err])
      simp [store, h0, h1, bind, Except.bind, pure, Except.pure]
  | .flist e n, lvl, x, a, off => by
      have ⟨b, hb⟩ := store_total c e (lvl + 1) (.elem (lvl + 1)) (.base (lvl + 1)) off
      simp [store, hb, bind, Except.bind, pure, Except.pure]
theorem storeFields_total (c : Cfg) : ∀ (ts : List Ty) (lvl : Nat) (fos : List Off) (xs : List Expr) (a : Expr) (off : Off),
    ∃ ss, storeFields c lvl ts fos xs a off = .ok ss
  | [], _, _, _, _, _ => by simp [storeFields, pure, Except.pure]
  | t :: ts, lvl, fos, xs, a, off => by
      cases fos with
      | nil => simp [storeFields, pure, Except.pure]
      | cons fo fos =>
        cases xs with
        | nil => simp [storeFields, pure, Except.pure]
        | cons x xs =>
          have ⟨s1, h1⟩ := store_total c t lvl x a (off + fo)
          have ⟨s2, h2⟩ := storeFields_total c ts lvl fos xs a off
          simp [storeFields, h1, h2, bind, Except.bind, pure, Except.pure]
theorem storeArms_total (c : Cfg) : ∀ (cs : List (Option Ty)) (lvl : Nat) (tag : IntRepr) (a : Expr) (off poff : Off) (i : Nat),
    ∃ arms, storeArms c lvl cs tag a off poff i = .ok arms
  | [], _, _, _, _, _, _ => by simp [storeArms, pure, Except.pure]
  | o :: cs, lvl, tag, a, off, poff, i => by
      have ⟨b, hb⟩ := storeArm_total c o lvl a poff
      have ⟨r, hr⟩ := storeArms_total c cs lvl tag a off poff (i + 1)
      simp [storeArms, hb, hr, bind, Except.bind, pure, Except.pure]
theorem storeArm_total (c : Cfg) : ∀ (o : Option Ty) (lvl : Nat) (a : Expr) (poff : Off), ∃ ss, storeArm c lvl o a poff = .ok ss
  | none, _, _, _ => by simp [storeArm, pure, Except.pure]
  | some t, lvl, a, poff => by simpa [storeArm] using store_total c t (lvl + 1) (.pl (lvl + 1)) a poff
end

end Witverif.Abi

namespace Witverif.Abi

theorem armOfLower_total (results : List CoreTy) (i : Nat) (st : List Stmt) (rs : List Expr) (temp : List CoreTy)
    (h : ∀ (k : Nat) (hk : k < temp.length), ∃ h' : k < (results.drop 1).length, le (temp[k]) ((results.drop 1)[k]) = true) :
    ∃ b, armOfLower results i (some ((st, rs), temp)) = .ok b := by
  have ⟨cs, hcs, _⟩ := castsFor_ok_up temp (results.drop 1) h
  exact ⟨(st, Expr.i32 i :: applyCasts cs rs ++ zeros (results.drop (1 + temp.length))), by
    simp only [armOfLower, hcs, bind, Except.bind, pure, Except.pure]⟩

theorem flattenRep_le (f : List CoreTy) (n : Nat) (hn : 0 < n) : f.length ≤ (flattenRep f n).length := by
  rw [flattenRep_length]
  exact Nat.le_mul_of_pos_left _ hn

mutual
/-- `lower` never panics on a type with at most 16 flat slots -/
theorem lower_total (c : Cfg) : ∀ (t : Ty) (lvl : Nat) (x : Expr), (flatten t).length ≤ 16 →
    ∃ r, lower c lvl t x = .ok r
  | .bool, _, _, _ | .s8, _, _, _ | .u8, _, _, _ | .s16, _, _, _ | .u16, _, _, _ | .s32, _, _, _
  | .u32, _, _, _ | .s64, _, _, _ | .u64, _, _, _ | .f32, _, _, _ | .f64, _, _, _ | .char, _, _, _
  | .errctx, _, _, _ | .own, _, _, _ | .borrow, _, _, _ | .future _, _, _, _ | .stream _, _, _, _
  | .string, _, _, _ | .enum _, _, _, _ | .flags _, _, _, _ => by simp [lower, pure, Except.pure]
  | .list e, lvl, x, _ => by
      simp only [lower]
      split
      · simp [pure, Except.pure]
      · have ⟨b, hb⟩ := store_total c e (lvl + 1) (.elem (lvl + 1)) (.base (lvl + 1)) Off.zero
        simp [hb, bind, Except.bind, pure, Except.pure]
  | .map k v, lvl, x, _ => by
      have ⟨b1, h1⟩ := store_total c k (lvl + 1) (.key (lvl + 1)) (.base (lvl + 1)) Off.zero
      have ⟨b2, h2⟩ := store_total c v (lvl + 1) (.val (lvl + 1)) (.base (lvl + 1)) ((fieldOffs [k, v]).getD 1 Off.zero)
      simp only [List.getD_eq_getElem?_getD] at h2
      simp [lower, h1, h2, bind, Except.bind, pure, Except.pure]
  | .record fs, lvl, x, h => by
      simp only [lower]; exact lowerFields_total c fs lvl _ x 0 (by simpa [flatten] using h)
  | .tuple ts, lvl, x, h => by
      simp only [lower]; exact lowerFields_total c ts lvl _ x 0 (by simpa [flatten] using h)
  | .variant cs, lvl, x, h => by
      have hl : (flattenCases cs).length ≤ 15 := by simp [flatten] at h; omega
      have ⟨arms, ha⟩ := lowerArms_total c cs lvl (flatten (.variant cs)) 0 cs (fun _ hc => hc) hl
        (by simp [flatten])
      simp [lower, flatU_total h, ha, bind, Except.bind, pure, Except.pure]
  | .option t, lvl, x, h => by
      have hdrop : (flatten (.option t)).drop 1 = flatten t := by simp [flatten, joinFlat]
      have ht : (flatten t).length ≤ 16 := by simp [flatten, joinFlat] at h; omega
      have ⟨r, hr⟩ := lower_total c t (lvl + 1) (.pl (lvl + 1)) ht
      obtain ⟨st, rs⟩ := r
      have ⟨cs, hcs, _⟩ := castsFor_ok_up (flatten t) ((flatten (.option t)).drop 1)
        (by rw [hdrop]; intro k hk; exact ⟨hk, le_refl _⟩)
      simp only [lower, flatU_total h, flatU_total ht, hr, hcs, armOfLower, bind, Except.bind, pure, Except.pure]
      exact ⟨_, rfl⟩
  | .result a b, lvl, x, h => by
      have hdrop : (flatten (.result a b)).drop 1 = joinFlat (flattenOpt a) (flattenOpt b) := by simp [flatten]
      have hl : (joinFlat (flattenOpt a) (flattenOpt b)).length ≤ 15 := by simp [flatten] at h; omega
      have ⟨a0, h0⟩ := lowerArm_total c a lvl (flatten (.result a b)) 0
        (by have := joinFlat_length_left (flattenOpt a) (flattenOpt b); omega)
        (by rw [hdrop]; exact joinFlat_le_left _ _)
      have ⟨a1, h1⟩ := lowerArm_total c b lvl (flatten (.result a b)) 1
        (by have := joinFlat_length_right (flattenOpt a) (flattenOpt b); omega)
        (by rw [hdrop]; exact joinFlat_le_right _ _)
      simp [lower, flatU_total h, h0, h1, bind, Except.bind, pure, Except.pure]
  | .flist e n, lvl, x, h => by
      simp only [lower]
      cases n with
      | zero => simp [projN, bind, Except.bind, pure, Except.pure]
      | succ n =>
        have he : (flatten e).length ≤ 16 := by
          have := flattenRep_le (flatten e) (n + 1) (by omega)
          simp [flatten] at h; omega
        have ⟨rs, hrs⟩ := mapM_total (lower c lvl e) (projN (.flistLower e (n + 1)) [x] [] (n + 1))
          (fun y _ => lower_total c e lvl y he)
        simp [hrs, bind, Except.bind, pure, Except.pure]
theorem lowerFields_total (c : Cfg) : ∀ (fs : List Ty) (lvl : Nat) (o : Op) (x : Expr) (i : Nat),
    (flattenList fs).length ≤ 16 → ∃ r, lowerFields c lvl fs o x i = .ok r
  | [], _, _, _, _, _ => by simp [lowerFields, pure, Except.pure]
  | t :: ts, lvl, o, x, i, h => by
      simp [flattenList] at h
      have ⟨r1, h1⟩ := lower_total c t lvl (.op o [x] [] i) (by omega)
      have ⟨r2, h2⟩ := lowerFields_total c ts lvl o x (i + 1) (by omega)
      obtain ⟨s1, e1⟩ := r1
      obtain ⟨s2, e2⟩ := r2
      simp [lowerFields, h1, h2, bind, Except.bind, pure, Except.pure]
theorem lowerArms_total (c : Cfg) : ∀ (cs : List (Option Ty)) (lvl : Nat) (results : List CoreTy) (i : Nat)
    (all : List (Option Ty)), (∀ d ∈ cs, d ∈ all) → (flattenCases all).length ≤ 15 →
    results.drop 1 = flattenCases all → ∃ arms, lowerArms c lvl cs results i = .ok arms
  | [], _, _, _, _, _, _, _ => by simp [lowerArms, pure, Except.pure]
  | o :: cs, lvl, results, i, all, hsub, hl, hdrop => by
      have hmem : o ∈ all := hsub o (by simp)
      have ⟨arm, ha⟩ := lowerArm_total c o lvl results i
        (by have := flattenCases_length_mem all o hmem; omega)
        (by rw [hdrop]; exact flattenCases_bounds all o hmem)
      have ⟨rest, hr⟩ := lowerArms_total c cs lvl results (i + 1) all (fun d hd => hsub d (by simp [hd])) hl hdrop
      simp [lowerArms, ha, hr, bind, Except.bind, pure, Except.pure]
theorem lowerArm_total (c : Cfg) : ∀ (o : Option Ty) (lvl : Nat) (results : List CoreTy) (i : Nat),
    (flattenOpt o).length ≤ 15 →
    (∀ (k : Nat) (hk : k < (flattenOpt o).length),
        ∃ h' : k < (results.drop 1).length, le ((flattenOpt o)[k]) ((results.drop 1)[k]) = true) →
    ∃ b, lowerArm c lvl o results i = .ok b
  | none, _, _, _, _, _ => by simp [lowerArm, armOfLower, pure, Except.pure]
  | some t, lvl, results, i, hl, hb => by
      simp only [flattenOpt] at hl hb
      have ⟨r, hr⟩ := lower_total c t (lvl + 1) (.pl (lvl + 1)) (by omega)
      obtain ⟨st, rs⟩ := r
      have ⟨b, hbb⟩ := armOfLower_total results i st rs (flatten t) hb
      simp only [lowerArm, hr, flatU_total (show (flatten t).length ≤ 16 by omega), hbb, bind, Except.bind]
      exact ⟨_, rfl⟩
end

end Witverif.Abi

namespace Witverif.Abi

mutual
/-- `read_from_memory` never panics -/
theorem load_total (c : Cfg) : ∀ (t : Ty) (lvl : Nat) (a : Expr) (off : Off), ∃ r, load c lvl t a off = .ok r
  | .bool, _, _, _ | .s8, _, _, _ | .u8, _, _, _ | .s16, _, _, _ | .u16, _, _, _ | .s32, _, _, _
  | .u32, _, _, _ | .s64, _, _, _ | .u64, _, _, _ | .f32, _, _, _ | .f64, _, _, _ | .char, _, _, _
  | .errctx, _, _, _ | .own, _, _, _ | .borrow, _, _, _ | .future _, _, _, _ | .stream _, _, _, _
  | .string, _, _, _ | .enum _, _, _, _ => by simp [load, pure, Except.pure]
  | .flags n, _, _, _ => by simp only [load]; split <;> simp [pure, Except.pure]
  | .list e, lvl, a, off => by
      simp only [load]
      split
      · simp [pure, Except.pure]
      · have ⟨r, hr⟩ := load_total c e (lvl + 1) (.base (lvl + 1)) Off.zero
        simp [hr, bind, Except.bind, pure, Except.pure]
  | .map k v, lvl, a, off => by
      have ⟨r1, h1⟩ := load_total c k (lvl + 1) (.base (lvl + 1)) Off.zero
      have ⟨r2, h2⟩ := load_total c v (lvl + 1) (.base (lvl + 1)) ((fieldOffs [k, v]).getD 1 Off.zero)
      simp only [List.getD_eq_getElem?_getD] at h2
      simp [load, h1, h2, bind, Except.bind, pure, Except.pure]
  | .record fs, lvl, a, off => by
      have ⟨r, hr⟩ := loadFields_total c fs lvl (fieldOffs fs) a off
      simp [load, hr, bind, Except.bind, pure, Except.pure]
  | .tuple ts, lvl, a, off => by
      have ⟨r, hr⟩ := loadFields_total c ts lvl (fieldOffs ts) a off
      simp [load, hr, bind, Except.bind, pure, Except.pure]
  | .variant cs, lvl, a, off => by
      have ⟨r, hr⟩ := loadArms_total c cs lvl a (off + payloadOff (discriminant cs.length) cs)
      simp [load, hr, bind, Except.bind, pure, Except.pure]
  | .option t, lvl, a, off => by
      have ⟨r, hr⟩ := load_total c t (lvl + 1) a (off + payloadOff .u8 [none, some t])
      simp [load, hr, bind, Except.bind, pure, Except.pure]
  | .result ok err, lvl, a, off => by
      have ⟨r0, h0⟩ := loadArm_total c ok lvl a (off + payloadOff .u8 [ok, err])
      have ⟨r1, h1⟩ := loadArm_total c err lvl a (off + payloadOff .u8 [ok, err])
      simp [load, h0, h1, bind, Except.bind, pure, Except.pure]
  | .flist e n, lvl, a, off => by
      have ⟨r, hr⟩ := load_total c e (lvl + 1) (.base (lvl + 1)) off
      simp [load, hr, bind, Except.bind, pure, Except.pure]
theorem loadFields_total (c : Cfg) : ∀ (ts : List Ty) (lvl : Nat) (fos : List Off) (a : Expr) (off : Off),
    ∃ r, loadFields c lvl ts fos a off = .ok r
  | [], _, _, _, _ => by simp [loadFields, pure, Except.pure]
  | t :: ts, lvl, fos, a, off => by
      cases fos with
      | nil => simp [loadFields, pure, Except.pure]
      | cons fo fos =>
        have ⟨r1, h1⟩ := load_total c t lvl a (off + fo)
        have ⟨r2, h2⟩ := loadFields_total c ts lvl fos a off
        simp [loadFields, h1, h2, bind, Except.bind, pure, Except.pure]
theorem loadArms_total (c : Cfg) : ∀ (cs : List (Option Ty)) (lvl : Nat) (a : Expr) (poff : Off),
    ∃ r, loadArms c lvl cs a poff = .ok r
  | [], _, _, _ => by simp [loadArms, pure, Except.pure]
  | o :: cs, lvl, a, poff => by
      have ⟨r1, h1⟩ := loadArm_total c o lvl a poff
      have ⟨r2, h2⟩ := loadArms_total c cs lvl a poff
      simp [loadArms, h1, h2, bind, Except.bind, pure, Except.pure]
theorem loadArm_total (c : Cfg) : ∀ (o : Option Ty) (lvl : Nat) (a : Expr) (poff : Off), ∃ r, loadArm c lvl o a poff = .ok r
  | none, _, _, _ => by simp [loadArm, pure, Except.pure]
  | some t, lvl, a, poff => by
      have ⟨r, hr⟩ := load_total c t (lvl + 1) a poff
      simp [loadArm, hr, bind, Except.bind, pure, Except.pure]
end

end Witverif.Abi
