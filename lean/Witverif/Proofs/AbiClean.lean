import Witverif.Proofs.AbiDealloc3
import Witverif.Proofs.AbiMem
/-! C03, both cleanup modes: cleanup through memory releases exactly the reachable heap blocks and — in
the mode that also releases ownership — drops exactly the owned resource/future/stream handles
stored in the value (framework: ledger effects as pairs (blocks, handles)). -/
namespace Witverif.Abi
open Spec

/-- concatenate `f a` over `n` consecutive elements of size `sz` (handles) -/
def reachManyH (f : Nat → List Nat) (sz a : Nat) : Nat → List Nat
  | 0 => []
  | n + 1 => f a ++ reachManyH f sz (a + sz) n

theorem reachManyH_eq_flatMap (f : Nat → List Nat) (sz : Nat) : ∀ (n a : Nat),
    reachManyH f sz a n = (List.range n).flatMap fun i => f (a + i * sz) := by
  intro n
  induction n with
  | zero => intro a; simp [reachManyH]
  | succ n ih =>
    intro a
    simp only [reachManyH, ih]
    rw [List.range_succ_eq_map, List.flatMap_cons, List.flatMap_map]
    simp [Nat.succ_mul, Nat.add_assoc, Nat.add_comm sz]

theorem reachManyH_nil (f : Nat → List Nat) (sz : Nat) (hf : ∀ a, f a = []) : ∀ (a n : Nat), reachManyH f sz a n = [] := by
  intro a n
  induction n generalizing a with
  | zero => rfl
  | succ n ih => simp [reachManyH, hf, ih]

mutual
/-- owned handles (own / future / stream) stored in a value of type `t` at `a`, in cleanup order -/
def cleanupHandles (p : Nat) (m : Mem) : Ty → Nat → List Nat
  | .own, a | .future _, a | .stream _, a => [m.loadLE a 4]
  | .list e, a => reachManyH (cleanupHandles p m e) (elemSize p e) (m.loadLE a p) (m.loadLE (a + p) p)
  | .map k v, a =>
      let vo := alignTo (elemSize p k) (alignment p v)
      reachManyH (fun b => cleanupHandles p m k b ++ cleanupHandles p m v (b + vo)) (elemSize p (.tuple [k, v]))
        (m.loadLE a p) (m.loadLE (a + p) p)
  | .record fs, a => cleanupHandlesFields p m fs a 0
  | .tuple ts, a => cleanupHandlesFields p m ts a 0
  | .variant cs, a =>
      let tag := discriminant cs.length
      cleanupHandlesCase p m cs (m.loadLE a tag.size) (a + payloadOffset p tag cs)
  | .option t, a =>
      if m.loadLE a 1 == 1 then cleanupHandles p m t (a + payloadOffset p .u8 [none, some t]) else []
  | .result ok err, a =>
      let po := a + payloadOffset p .u8 [ok, err]
      if m.loadLE a 1 == 0 then cleanupHandlesOpt p m ok po
      else if m.loadLE a 1 == 1 then cleanupHandlesOpt p m err po else []
  | _, _ => []
def cleanupHandlesFields (p : Nat) (m : Mem) : List Ty → Nat → Nat → List Nat
  | [], _, _ => []
  | t :: ts, a, cur =>
      let o := alignTo cur (alignment p t)
      cleanupHandles p m t (a + o) ++ cleanupHandlesFields p m ts a (o + elemSize p t)
def cleanupHandlesOpt (p : Nat) (m : Mem) : Option Ty → Nat → List Nat
  | none, _ => []
  | some t, a => cleanupHandles p m t a
def cleanupHandlesCase (p : Nat) (m : Mem) : List (Option Ty) → Nat → Nat → List Nat
  | [], _, _ => []
  | c :: _, 0, a => cleanupHandlesOpt p m c a
  | _ :: cs, i + 1, a => cleanupHandlesCase p m cs i a
end

/-- ledger effect of a cleanup: released blocks and dropped handles, each in execution order -/
abbrev Eff := List Blk × List Nat

def Eff.app (a b : Eff) : Eff := (a.1 ++ b.1, a.2 ++ b.2)

/-- adding released blocks and dropped handles to the ledgers -/
def MSt.release (s : MSt) (e : Eff) : MSt :=
  { s with freed := e.1.reverse ++ s.freed, dropped := e.2.reverse ++ s.dropped }

@[simp] theorem MSt.release_st (s : MSt) (e : Eff) : (s.release e).st = s.st := rfl
@[simp] theorem MSt.release_nil (s : MSt) : s.release ([], []) = s := by simp [MSt.release]
theorem MSt.release_release (s : MSt) (a b : Eff) : (s.release a).release b = s.release (a.app b) := by
  simp [MSt.release, Eff.app, List.reverse_append]

theorem foldRange_release (n : Nat) (f : Nat → MSt → Option MSt) (g : Nat → Eff) (s0 : MSt)
    (hf : ∀ (i : Nat) (s : MSt), i < n → s.st = s0.st → f i s = some (s.release (g i))) :
    foldRange n s0 f = some (s0.release (((List.range n).flatMap fun i => (g i).1), ((List.range n).flatMap fun i => (g i).2))) := by
  unfold foldRange
  induction n with
  | zero => simp [pure]
  | succ n ih =>
    rw [List.range_succ, List.foldlM_append, ih (fun i s hi hs => hf i s (by omega) hs)]
    simp only [Option.bind_eq_bind, Option.bind_some, List.foldlM_cons, List.foldlM_nil]
    rw [hf n _ (by omega) (by simp)]
    simp [MSt.release_release, Eff.app, pure]

/-- the statements release exactly `eff` (blocks and handles), whatever the state, when the
discriminants the cleanup inspects are valid -/
def Cleans (p lvl : Nat) (a : Expr) (ds : List Stmt) (eff : Mem → Nat → Eff) (valid : Mem → Nat → Bool) : Prop :=
  ∀ (env : Env) (s : MSt) (addr : Nat), env.p = p → env.frames.length = lvl + 1 →
    AddrStable env s.st.mem a addr → valid s.st.mem addr = true →
    ∃ ls, execStmts env s ds = some (env.withLets ls, s.release (eff s.st.mem addr))

theorem cleans_of_empty {p lvl : Nat} {a : Expr} {e : Mem → Nat → Eff} {v : Mem → Nat → Bool}
    (he : ∀ m x, e m x = ([], [])) : Cleans p lvl a [] e v := by
  intro env s addr _ _ _ _
  exact ⟨env.lets, by simp [execStmts, withLets_self, he]⟩

theorem cleans_append {p lvl : Nat} {a : Expr} {d1 d2 : List Stmt} {e1 e2 : Mem → Nat → Eff}
    {v1 v2 : Mem → Nat → Bool} (h1 : Cleans p lvl a d1 e1 v1) (h2 : Cleans p lvl a d2 e2 v2) :
    Cleans p lvl a (d1 ++ d2) (fun m x => (e1 m x).app (e2 m x)) (fun m x => v1 m x && v2 m x) := by
  intro env s addr hp hl hst hv
  simp at hv
  have ⟨l1, x1⟩ := h1 env s addr hp hl hst hv.1
  have ⟨l2, x2⟩ := h2 (env.withLets l1) (s.release (e1 s.st.mem addr)) addr hp hl (hst.withLets l1) (by simpa using hv.2)
  refine ⟨l2, ?_⟩
  rw [execStmts_append, x1]
  simp only [Option.bind_some, x2, withLets_withLets, MSt.release_st, MSt.release_release]

theorem cleans_congr {p lvl : Nat} {a : Expr} {ds : List Stmt} {e e' : Mem → Nat → Eff}
    {v v' : Mem → Nat → Bool} (h : Cleans p lvl a ds e v) (he : ∀ m x, e m x = e' m x)
    (hv : ∀ m x, v' m x = true → v m x = true) : Cleans p lvl a ds e' v' := by
  intro env s addr hp hl hst hvv
  have ⟨ls, x⟩ := h env s addr hp hl hst (hv _ _ hvv)
  exact ⟨ls, by rw [x, he]⟩

/-- a lists-only result lifts to the pair form -/
theorem cleans_of_frees {p lvl : Nat} {a : Expr} {ds : List Stmt} {b : Mem → Nat → List Blk} {v : Mem → Nat → Bool}
    (h : Frees p lvl a ds b v) : Cleans p lvl a ds (fun m x => (b m x, [])) v := by
  intro env s addr hp hl hst hv
  have ⟨ls, x⟩ := h env s addr hp hl hst hv
  exact ⟨ls, by rw [x]; simp [MSt.release, MSt.free]⟩

/-- dropping the handle stored at `addr + off` -/
theorem cleans_drop (p : Nat) (lvl : Nat) (a : Expr) (off : Off) (t : Ty) (ht : t = .own ∨ (∃ q, t = .future q) ∨ (∃ q, t = .stream q)) :
    Cleans p lvl a (dropOf t (liftHandle t [ld .i32 off a]))
      (fun m addr => ([], [m.loadLE (addr + off.at p) 4])) (fun _ _ => true) := by
  intro env s addr hpe _ hst _
  subst hpe
  have hld := eval_ld_stable env s.st.mem a addr .i32 off hst.here
  have hlt : s.st.mem.loadLE (addr + off.at env.p) 4 < 2 ^ 32 := mem_loadLE_lt _ 4 _
  have hev : eval env s.st.mem (liftHandle t [ld .i32 off a]) = some (.v (.handle (s.st.mem.loadLE (addr + off.at env.p) 4))) := by
    rcases ht with rfl | ⟨q, rfl⟩ | ⟨q, rfl⟩ <;>
      simp [liftHandle, pure1, eval, hld, opSem, pureSem, loadSem, Nat.mod_eq_of_lt hlt]
  refine ⟨(keyOf (.dropHandle t) [liftHandle t [ld .i32 off a]], []) :: env.lets, ?_⟩
  simp [dropOf, execStmts, exec, hev, execOp, Env.bind, Env.withLets, MSt.release]

theorem cleans_list (p : Nat) (hp : p = 4 ∨ p = 8) (lvl : Nat) (a : Expr) (off : Off) (e : Ty) (body : List Stmt)
    (be : Mem → Nat → Eff) (bv : Mem → Nat → Bool)
    (hbody : Cleans p (lvl + 1) (.base (lvl + 1)) body be bv) :
    Cleans p lvl a [.eff (.deallocList e) (ptrLen a off) [(body, [])]]
      (fun m addr =>
        let ptr := m.loadLE (addr + off.at p) p
        let n := m.loadLE (addr + off.at p + p) p
        (((List.range n).flatMap fun i => (be m (ptr + i * elemSize p e)).1) ++ [(ptr, n * elemSize p e, alignment p e)],
         (List.range n).flatMap fun i => (be m (ptr + i * elemSize p e)).2))
      (fun m addr => allMany (bv m) (elemSize p e) (m.loadLE (addr + off.at p) p) (m.loadLE (addr + off.at p + p) p)) := by
  intro env s addr hpe hl hst hv
  subst hpe
  refine ⟨(keyOf (.deallocList e) (ptrLen a off), []) :: env.lets, ?_⟩
  simp only [execStmts, exec, evalList_ptrLen env s.st.mem hp a addr off hst.here, Option.bind_some, execOp]
  have hiter := foldRange_release (s.st.mem.loadLE (addr + off.at env.p + env.p) env.p)
    (fun i s' => (execBlockAt env s' [(body, [])] 0
        { base := some (s.st.mem.loadLE (addr + off.at env.p) env.p + i * elemSize env.p e) }).map (·.2))
    (fun i => be s.st.mem (s.st.mem.loadLE (addr + off.at env.p) env.p + i * elemSize env.p e)) s
    (by
      intro i s' hi hs'
      have hvi : bv s'.st.mem (s.st.mem.loadLE (addr + off.at env.p) env.p + i * elemSize env.p e) = true := by
        rw [hs']
        exact allMany_get _ _ _ _ hv i hi
      have ⟨ls, he⟩ := hbody (env.extend [{ base := some (s.st.mem.loadLE (addr + off.at env.p) env.p + i * elemSize env.p e) }]) s' _
        rfl (by simp [Env.extend, hl]) (stable_base env s'.st.mem lvl hl _ _ rfl) hvi
      simp only [execBlockAt, enter_length_eq, he, Option.bind_some, evalList_nil, Option.map_some, hs'])
  simp only [Nat.add_assoc] at hiter ⊢
  rw [hiter]
  simp [Env.bind, Env.withLets, MSt.release, Nat.add_assoc, List.reverse_append]

theorem cleans_map (p : Nat) (hp : p = 4 ∨ p = 8) (lvl : Nat) (a : Expr) (off : Off) (k v : Ty) (body : List Stmt)
    (be : Mem → Nat → Eff) (bv : Mem → Nat → Bool)
    (hbody : Cleans p (lvl + 1) (.base (lvl + 1)) body be bv) :
    Cleans p lvl a [.eff (.deallocMap k v) (ptrLen a off) [(body, [])]]
      (fun m addr =>
        let ptr := m.loadLE (addr + off.at p) p
        let n := m.loadLE (addr + off.at p + p) p
        let esz := elemSize p (.tuple [k, v])
        (((List.range n).flatMap fun i => (be m (ptr + i * esz)).1) ++ [(ptr, n * esz, alignment p (.tuple [k, v]))],
         (List.range n).flatMap fun i => (be m (ptr + i * esz)).2))
      (fun m addr => allMany (bv m) (elemSize p (.tuple [k, v])) (m.loadLE (addr + off.at p) p) (m.loadLE (addr + off.at p + p) p)) := by
  intro env s addr hpe hl hst hv
  subst hpe
  refine ⟨(keyOf (.deallocMap k v) (ptrLen a off), []) :: env.lets, ?_⟩
  simp only [execStmts, exec, evalList_ptrLen env s.st.mem hp a addr off hst.here, Option.bind_some, execOp]
  have hiter := foldRange_release (s.st.mem.loadLE (addr + off.at env.p + env.p) env.p)
    (fun i s' => (execBlockAt env s' [(body, [])] 0
        { base := some (s.st.mem.loadLE (addr + off.at env.p) env.p + i * elemSize env.p (.tuple [k, v])) }).map (·.2))
    (fun i => be s.st.mem (s.st.mem.loadLE (addr + off.at env.p) env.p + i * elemSize env.p (.tuple [k, v]))) s
    (by
      intro i s' hi hs'
      have hvi := allMany_get _ _ _ _ hv i hi
      have ⟨ls, he⟩ := hbody (env.extend [{ base := some (s.st.mem.loadLE (addr + off.at env.p) env.p + i * elemSize env.p (.tuple [k, v])) }]) s' _
        rfl (by simp [Env.extend, hl]) (stable_base env s'.st.mem lvl hl _ _ rfl) (by rw [hs']; exact hvi)
      simp only [execBlockAt, enter_length_eq, he, Option.bind_some, evalList_nil, Option.map_some, hs'])
  simp only [Nat.add_assoc] at hiter ⊢
  rw [hiter]
  simp [Env.bind, Env.withLets, MSt.release, Nat.add_assoc, List.reverse_append]

/-- a variant-shaped cleanup from its arms -/
theorem cleans_variant (p lvl : Nat) (a : Expr) (off : Off) (tag : IntRepr) (n : Nat) (arms : List (List Stmt × List Expr))
    (effs : Nat → Mem → Nat → Eff) (valid : Nat → Mem → Nat → Bool) (hlen : arms.length = n)
    (harms : ∀ (i : Nat) (h : i < n), (arms[i]'(hlen ▸ h)).2 = [] ∧
      Cleans p (lvl + 1) a (arms[i]'(hlen ▸ h)).1 (effs i) (valid i)) :
    Cleans p lvl a [.eff (.deallocVariant n) [loadInt tag off a] arms]
      (fun m addr => effs (m.loadLE (addr + off.at p) tag.size) m addr)
      (fun m addr => decide (m.loadLE (addr + off.at p) tag.size < n) && valid (m.loadLE (addr + off.at p) tag.size) m addr) := by
  intro env s addr hpe hl hst hv
  subst hpe
  simp at hv
  obtain ⟨hlt, hvalid⟩ := hv
  have ⟨ty, hdisc⟩ := evalList_loadInt env s.st.mem a addr tag off hst.here
  have ⟨hres, hfr⟩ := harms _ hlt
  have hget : arms[s.st.mem.loadLE (addr + off.at env.p) tag.size]? = some (arms[s.st.mem.loadLE (addr + off.at env.p) tag.size]'(hlen ▸ hlt)) := by
    simp [hlen, hlt]
  have ⟨ls, he⟩ := hfr (env.extend [{}]) s addr rfl (by simp [Env.extend, hl]) (hst.extend _) hvalid
  refine ⟨(keyOf (.deallocVariant n) [loadInt tag off a], []) :: env.lets, ?_⟩
  simp only [execStmts, exec, hdisc, Option.bind_some, execOp, hlt, if_true]
  rw [execBlockAt_get env s arms _ {} _ hget, enter_length_eq, he]
  simp [hres, Env.bind, Env.withLets]

end Witverif.Abi
