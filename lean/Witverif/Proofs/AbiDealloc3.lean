import Witverif.Proofs.AbiDealloc2
/-! C03: main theorem — cleanup through memory releases exactly `cleanupBlocks`. -/
namespace Witverif.Abi
open Spec

theorem payloadOff_at (p : Nat) (hp : p = 4 ∨ p = 8) (tag : IntRepr) (cs : List (Option Ty)) :
    (payloadOff tag cs).at p = payloadOffset p tag cs := by
  rcases hp with rfl | rfl <;> simp [payloadOff, Off.at]

theorem off_mk_at (p : Nat) (hp : p = 4 ∨ p = 8) (a b : Nat) : (Off.mk a b).at p = if p = 8 then b else a := by
  rcases hp with rfl | rfl <;> simp [Off.at]

def curOf (p c4 c8 : Nat) : Nat := if p = 8 then c8 else c4

theorem Off.zero_at (p : Nat) : Off.zero.at p = 0 := by simp [Off.zero, Off.at]
@[simp] theorem Off.add_w32 (a b : Off) : (a + b).w32 = a.w32 + b.w32 := rfl
@[simp] theorem Off.add_w64 (a b : Off) : (a + b).w64 = a.w64 + b.w64 := rfl

theorem frees_of_empty {p lvl : Nat} {a : Expr} {b : Mem → Nat → List Blk} {v : Mem → Nat → Bool}
    (hb : ∀ m x, b m x = []) : Frees p lvl a [] b v := by
  intro env s addr _ _ _ _
  exact ⟨env.lets, by simp [execStmts, withLets_self, hb]⟩

set_option maxHeartbeats 400000 in
mutual
theorem dealloc_frees (p : Nat) (hp : p = 4 ∨ p = 8) : ∀ (t : Ty), noFlist t = true →
    ∀ (lvl : Nat) (a : Expr) (off : Off) (ds : List Stmt), deallocIndirect false lvl t a off = .ok ds →
    Frees p lvl a ds (fun m x => cleanupBlocks p m t (x + off.at p)) (fun m x => validDiscs p m t (x + off.at p))
  | .bool, _, _, _, _, _, h | .s8, _, _, _, _, _, h | .u8, _, _, _, _, _, h | .s16, _, _, _, _, _, h
  | .u16, _, _, _, _, _, h | .s32, _, _, _, _, _, h | .u32, _, _, _, _, _, h | .s64, _, _, _, _, _, h
  | .u64, _, _, _, _, _, h | .f32, _, _, _, _, _, h | .f64, _, _, _, _, _, h | .char, _, _, _, _, _, h
  | .errctx, _, _, _, _, _, h | .own, _, _, _, _, _, h | .borrow, _, _, _, _, _, h | .flags _, _, _, _, _, _, h
  | .enum _, _, _, _, _, _, h | .future _, _, _, _, _, _, h | .stream _, _, _, _, _, _, h => by
      simp [deallocIndirect, pure, Except.pure] at h
      subst h
      exact frees_of_empty (by intros; simp [cleanupBlocks])
  | .flist _ _, hn, _, _, _, _, _ => by simp [noFlist] at hn
  | .string, _, lvl, a, off, ds, h => by
      simp [deallocIndirect, pure, Except.pure] at h
      subst h
      exact frees_congr (frees_string p hp lvl a off) (fun _ _ => rfl) (fun _ _ _ => rfl)
  | .list e, hn, lvl, a, off, ds, h => by
      simp [noFlist] at hn
      simp only [deallocIndirect, bind_ok] at h
      obtain ⟨body, hbody, hp'⟩ := h
      simp [pure, Except.pure] at hp'
      subst hp'
      have hb := dealloc_frees p hp e hn (lvl + 1) (.base (lvl + 1)) Off.zero body hbody
      exact frees_list p hp lvl a off e body
        (frees_congr hb (by intro m x; simp [Off.zero_at]) (by intro m x h; simpa [Off.zero_at] using h))
  | .map k v, hn, lvl, a, off, ds, h => by
      simp [noFlist] at hn
      simp only [deallocIndirect, bind_ok] at h
      obtain ⟨b1, hb1, b2, hb2, hp'⟩ := h
      simp [pure, Except.pure] at hp'
      subst hp'
      have h1 := dealloc_frees p hp k hn.1 (lvl + 1) (.base (lvl + 1)) Off.zero b1 hb1
      have h2 := dealloc_frees p hp v hn.2 (lvl + 1) (.base (lvl + 1)) _ b2 hb2
      have hvo : ((fieldOffs [k, v]).getD 1 Off.zero).at p = alignTo (elemSize p k) (alignment p v) := by
        rcases hp with rfl | rfl <;> simp [fieldOffs, fieldOffsets, Off.at, alignTo_zero]
      exact frees_map p hp lvl a off k v (b1 ++ b2)
        (frees_congr (frees_append h1 h2) (by intro m x; simp only [Off.zero_at, hvo, Nat.add_zero])
          (by intro m x h; simpa only [Off.zero_at, hvo, Nat.add_zero] using h))
  | .record fs, hn, lvl, a, off, ds, h => by
      simp [noFlist] at hn
      simp only [deallocIndirect] at h
      split at h
      · have := deallocFields_frees p hp fs hn lvl 0 0 a off ds h
        exact frees_congr this (by intro m x; simp [cleanupBlocks, curOf]) (by intro m x hv; simpa [validDiscs, curOf] using hv)
      · rename_i hnd
        simp [pure, Except.pure] at h; subst h
        exact frees_of_empty (by intro m x; exact cleanup_nil p m (.record fs) _ (by simpa [needsDealloc] using hnd))
  | .tuple ts, hn, lvl, a, off, ds, h => by
      simp [noFlist] at hn
      simp only [deallocIndirect] at h
      split at h
      · have := deallocFields_frees p hp ts hn lvl 0 0 a off ds h
        exact frees_congr this (by intro m x; simp [cleanupBlocks, curOf]) (by intro m x hv; simpa [validDiscs, curOf] using hv)
      · rename_i hnd
        simp [pure, Except.pure] at h; subst h
        exact frees_of_empty (by intro m x; exact cleanup_nil p m (.tuple ts) _ (by simpa [needsDealloc] using hnd))
  | .variant cs, hn, lvl, a, off, ds, h => by
      simp [noFlist] at hn
      simp only [deallocIndirect] at h
      split at h
      · simp only [bind_ok] at h
        obtain ⟨arms, harms, hp'⟩ := h
        simp [pure, Except.pure] at hp'
        subst hp'
        have ⟨hlen, hall⟩ := deallocArms_frees p hp cs hn lvl a (off + payloadOff (discriminant cs.length) cs) arms harms
        have := frees_variant p lvl a off (discriminant cs.length) cs.length arms
          (fun i m x => cleanupCase p m cs i (x + (off + payloadOff (discriminant cs.length) cs).at p))
          (fun i m x => validCase p m cs i (x + (off + payloadOff (discriminant cs.length) cs).at p)) hlen hall
        exact frees_congr this
          (by intro m x; simp [cleanupBlocks, Off.at_add, payloadOff_at p hp, Nat.add_assoc])
          (by intro m x hv; simpa [validDiscs, Off.at_add, payloadOff_at p hp, Nat.add_assoc] using hv)
      · rename_i hnd
        simp [pure, Except.pure] at h; subst h
        exact frees_of_empty (by intro m x; exact cleanup_nil p m (.variant cs) _ (by simpa [needsDealloc] using hnd))
  | .option t, hn, lvl, a, off, ds, h => by
      simp [noFlist] at hn
      simp only [deallocIndirect] at h
      split at h
      · simp only [bind_ok] at h
        obtain ⟨body, hbody, hp'⟩ := h
        simp [pure, Except.pure] at hp'
        subst hp'
        have hb := dealloc_frees p hp t hn (lvl + 1) a (off + payloadOff .u8 [none, some t]) body hbody
        have := frees_variant p lvl a off .u8 2 [([], []), (body, [])]
          (fun i m x => if i = 1 then cleanupBlocks p m t (x + (off + payloadOff .u8 [none, some t]).at p) else [])
          (fun i m x => i != 1 || validDiscs p m t (x + (off + payloadOff .u8 [none, some t]).at p)) rfl
          (by
            intro i hi
            rcases i with _ | _ | i
            · exact ⟨rfl, frees_of_empty (by intros; simp)⟩
            · exact ⟨rfl, frees_congr hb (by intros; simp) (by intro m x hv; simpa using hv)⟩
            · omega)
        exact frees_congr this
          (by intro m x; simp [cleanupBlocks, Off.at_add, payloadOff_at p hp, Nat.add_assoc, IntRepr.size])
          (by intro m x hv; simp only [validDiscs, Off.at_add, payloadOff_at p hp, Nat.add_assoc, IntRepr.size] at hv ⊢; first | exact hv | (simp only [Bool.and_eq_true] at hv ⊢; refine ⟨hv.1, ?_⟩; have h2 := hv.2; split at h2 <;> simp_all))
      · rename_i hnd
        simp [pure, Except.pure] at h; subst h
        exact frees_of_empty (by intro m x; exact cleanup_nil p m (.option t) _ (by simpa [needsDealloc] using hnd))
  | .result ok err, hn, lvl, a, off, ds, h => by
      simp [noFlist] at hn
      simp only [deallocIndirect] at h
      split at h
      · simp only [bind_ok] at h
        obtain ⟨b0, hb0, b1, hb1, hp'⟩ := h
        simp [pure, Except.pure] at hp'
        subst hp'
        have h0 := deallocArm_frees p hp ok hn.1 lvl a (off + payloadOff .u8 [ok, err]) b0 hb0
        have h1 := deallocArm_frees p hp err hn.2 lvl a (off + payloadOff .u8 [ok, err]) b1 hb1
        have := frees_variant p lvl a off .u8 2 [(b0, []), (b1, [])]
          (fun i m x => if i = 0 then cleanupOpt p m ok (x + (off + payloadOff .u8 [ok, err]).at p)
            else if i = 1 then cleanupOpt p m err (x + (off + payloadOff .u8 [ok, err]).at p) else [])
          (fun i m x => if i = 0 then validOpt p m ok (x + (off + payloadOff .u8 [ok, err]).at p)
            else validOpt p m err (x + (off + payloadOff .u8 [ok, err]).at p)) rfl
          (by
            intro i hi
            rcases i with _ | _ | i
            · exact ⟨rfl, frees_congr h0 (by intros; simp) (by intro m x hv; simpa using hv)⟩
            · exact ⟨rfl, frees_congr h1 (by intros; simp) (by intro m x hv; simpa using hv)⟩
            · omega)
        exact frees_congr this
          (by intro m x; simp [cleanupBlocks, Off.at_add, payloadOff_at p hp, Nat.add_assoc, IntRepr.size])
          (by intro m x hv; simp only [validDiscs, Off.at_add, payloadOff_at p hp, Nat.add_assoc, IntRepr.size] at hv ⊢; first | exact hv | (simp only [Bool.and_eq_true] at hv ⊢; refine ⟨hv.1, ?_⟩; have h2 := hv.2; split at h2 <;> simp_all))
      · rename_i hnd
        simp [pure, Except.pure] at h; subst h
        exact frees_of_empty (by intro m x; exact cleanup_nil p m (.result ok err) _ (by simpa [needsDealloc] using hnd))
theorem deallocFields_frees (p : Nat) (hp : p = 4 ∨ p = 8) : ∀ (ts : List Ty), noFlistAll ts = true →
    ∀ (lvl c4 c8 : Nat) (a : Expr) (off : Off) (ds : List Stmt),
      deallocIndirectFields false lvl ts (List.zipWith Off.mk (fieldOffsets 4 c4 ts) (fieldOffsets 8 c8 ts)) a off = .ok ds →
      Frees p lvl a ds (fun m x => cleanupFields p m ts (x + off.at p) (curOf p c4 c8))
        (fun m x => validFields p m ts (x + off.at p) (curOf p c4 c8))
  | [], _, lvl, c4, c8, a, off, ds, h => by
      simp [deallocIndirectFields, pure, Except.pure] at h
      subst h
      exact frees_of_empty (by intros; simp [cleanupFields])
  | t :: ts, hn, lvl, c4, c8, a, off, ds, h => by
      simp [noFlistAll] at hn
      simp only [fieldOffsets, List.zipWith_cons_cons, deallocIndirectFields, bind_ok] at h
      obtain ⟨s1, h1, s2, h2, hp'⟩ := h
      simp [pure, Except.pure] at hp'
      subst hp'
      have f1 := dealloc_frees p hp t hn.1 lvl a _ s1 h1
      have f2 := deallocFields_frees p hp ts hn.2 lvl _ _ a off s2 h2
      refine frees_congr (frees_append f1 f2) ?_ ?_
      · intro m x
        rcases hp with rfl | rfl <;>
          simp [cleanupFields, curOf, Off.at_add, Off.at, Nat.add_assoc]
      · intro m x hv
        rcases hp with rfl | rfl <;>
          simpa [validFields, curOf, Off.at_add, Off.at, Nat.add_assoc] using hv
theorem deallocArms_frees (p : Nat) (hp : p = 4 ∨ p = 8) : ∀ (cs : List (Option Ty)), noFlistCases cs = true →
    ∀ (lvl : Nat) (a : Expr) (poff : Off) (arms : List (List Stmt × List Expr)),
      deallocIndirectArms false lvl cs a poff = .ok arms →
      ∃ hlen : arms.length = cs.length, ∀ (i : Nat) (h : i < cs.length),
        (arms[i]'(hlen ▸ h)).2 = [] ∧
        Frees p (lvl + 1) a (arms[i]'(hlen ▸ h)).1 (fun m x => cleanupCase p m cs i (x + poff.at p))
          (fun m x => validCase p m cs i (x + poff.at p))
  | [], _, lvl, a, poff, arms, h => by
      simp [deallocIndirectArms, pure, Except.pure] at h
      subst h
      exact ⟨rfl, fun i hi => by simp at hi⟩
  | o :: cs, hn, lvl, a, poff, arms, h => by
      simp [noFlistCases] at hn
      simp only [deallocIndirectArms, bind_ok] at h
      obtain ⟨body, hbody, rest, hrest, hp'⟩ := h
      simp [pure, Except.pure] at hp'
      subst hp'
      have fb := deallocArm_frees p hp o hn.1 lvl a poff body hbody
      have ⟨hl, hr⟩ := deallocArms_frees p hp cs hn.2 lvl a poff rest hrest
      refine ⟨by simp [hl], ?_⟩
      intro i hi
      cases i with
      | zero => exact ⟨rfl, frees_congr fb (by intros; simp [cleanupCase]) (by intro m x hv; simpa [validCase] using hv)⟩
      | succ i =>
        have := hr i (by simpa using hi)
        exact ⟨by simpa using this.1, frees_congr (by simpa using this.2) (by intros; simp [cleanupCase])
          (by intro m x hv; simpa [validCase] using hv)⟩
theorem deallocArm_frees (p : Nat) (hp : p = 4 ∨ p = 8) : ∀ (o : Option Ty), noFlistOpt o = true →
    ∀ (lvl : Nat) (a : Expr) (poff : Off) (body : List Stmt),
      deallocIndirectArm false lvl o a poff = .ok body →
      Frees p (lvl + 1) a body (fun m x => cleanupOpt p m o (x + poff.at p)) (fun m x => validOpt p m o (x + poff.at p))
  | none, _, lvl, a, poff, body, h => by
      simp [deallocIndirectArm, pure, Except.pure] at h
      subst h
      exact frees_of_empty (by intros; simp [cleanupOpt])
  | some t, hn, lvl, a, poff, body, h => by
      simp [noFlistOpt] at hn
      simp only [deallocIndirectArm] at h
      exact frees_congr (dealloc_frees p hp t hn (lvl + 1) a poff body h) (by intros; simp [cleanupOpt])
        (by intro m x hv; simpa [validOpt] using hv)
end

end Witverif.Abi

namespace Witverif.Abi
open Spec

theorem stable_arg (env : Env) (m : Mem) (n addr : Nat) (h : env.args[n]? = some (.c ⟨ptrFT env.p, addr⟩)) :
    AddrStable env m (.arg n) addr := by
  intro fs ls
  simpa [eval, Env.extend, Env.withLets] using h

/-- `post_return` releases exactly the blocks reachable from the returned value and then returns -/
theorem postReturn_sound (p : Nat) (hp : p = 4 ∨ p = 8) (f : Func) (t : Ty) (hres : f.result = some t)
    (hret : 1 < (flatten t).length)
    (hn : noFlist t = true) (ss : List Stmt) (h : postReturn f = .ok ss)
    (m : Mem) (heap : Heap) (addr : Nat) (hv : validDiscs p m t addr = true) :
    (execStmts { p, args := [.c ⟨ptrFT p, addr⟩] } { st := ⟨m, heap⟩ } ss).map (fun r => (r.2.freed, r.2.calls, r.2.st.mem)) =
      some ((cleanupBlocks p m t addr).reverse, [("Return", [])], m) := by
  cases hd1 : deallocIndirect false 0 t (.arg 0)
      (Off.mk (alignTo 0 (alignment 4 t)) (alignTo 0 (alignment 8 t))) with
  | error e =>
    simp [postReturn, hres, wasmSignature, maxFlatResults, flattenOpt, hret, deallocInTypes, optTys, fieldOffs,
      fieldOffsets, hd, hd1, bind, Except.bind, pure, Except.pure] at h
  | ok d1 =>
    simp [postReturn, hres, wasmSignature, maxFlatResults, flattenOpt, hret, deallocInTypes, optTys, fieldOffs,
      fieldOffsets, hd, hd1, bind, Except.bind, pure, Except.pure] at h
    subst h
    have hf := dealloc_frees p hp t hn 0 (.arg 0) _ d1 hd1
    have hoff : (Off.mk (alignTo 0 (alignment 4 t)) (alignTo 0 (alignment 8 t))).at p = 0 := by
      simp [Off.at, alignTo_zero]
    have ⟨ls, he⟩ := hf { p, args := [.c ⟨ptrFT p, addr⟩] } { st := ⟨m, heap⟩ } addr rfl rfl
      (stable_arg _ _ 0 addr (by simp)) (by simpa [hoff] using hv)
    simp only [execStmts_append, he, Option.bind_some]
    simp [execStmts, exec, execOp, MSt.free, hoff, Env.withLets]

end Witverif.Abi
