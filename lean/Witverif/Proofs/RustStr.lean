import Witverif.Text.RustStr
/-! Lemmas about the Rust `str` primitives of `Text/RustStr.lean`. -/
namespace Witverif.Text.RustStr

theorem isWhite_nl : isWhite '\n' = true := by decide
theorem isWhite_cr : isWhite '\r' = true := by decide
theorem isWhite_space : isWhite ' ' = true := by decide

/-! ### `splitNl` -/

theorem splitNl_noNl (s : List Char) : ∀ p ∈ splitNl s, '\n' ∉ p.1 := by
  induction s with
  | nil => simp [splitNl]
  | cons c cs ih =>
    unfold splitNl
    split
    · intro p hp
      simp only [List.mem_cons] at hp
      rcases hp with rfl | hp
      · simp
      · exact ih p hp
    · rename_i hc
      split
      · intro p hp
        simp only [List.mem_cons, List.not_mem_nil, or_false] at hp
        subst hp; simp; exact fun h => hc h.symm
      · rename_i l t r heq
        intro p hp
        simp only [List.mem_cons] at hp
        rcases hp with rfl | hp
        · have := ih (l, t) (by rw [heq]; simp)
          simp at this ⊢
          exact ⟨fun h => hc h.symm, this⟩
        · exact ih p (by rw [heq]; simp [hp])

theorem joinNl_splitNl (s : List Char) : joinNl (splitNl s) = s := by
  induction s with
  | nil => simp [splitNl, joinNl]
  | cons c cs ih =>
    unfold splitNl
    split
    · rename_i hc; subst hc; simp [joinNl, ih]
    · split
      · rename_i heq; rw [heq] at ih; simp [joinNl] at ih ⊢; exact ih
      · rename_i l t r heq; rw [heq] at ih; simp [joinNl] at ih ⊢; exact ih


/-- Shape of `splitNl` outputs: every piece but the last is terminated; an unterminated piece is
non-empty. -/
inductive Pieces : List (List Char × Bool) → Prop
  | nil : Pieces []
  | last (l : List Char) (t : Bool) : (t = false → l ≠ []) → Pieces [(l, t)]
  | cons (l : List Char) (ps : List (List Char × Bool)) : ps ≠ [] → Pieces ps → Pieces ((l, true) :: ps)

theorem splitNl_pieces (s : List Char) : Pieces (splitNl s) := by
  induction s with
  | nil => exact .nil
  | cons c cs ih =>
    unfold splitNl
    split
    · cases h : splitNl cs with
      | nil => exact .last _ _ (by simp)
      | cons q r => rw [h] at ih; exact .cons _ _ (by simp) ih
    · split
      · exact .last _ _ (by simp)
      · rename_i l t r heq
        rw [heq] at ih
        cases ih with
        | last _ _ h => exact .last _ _ (by simp)
        | cons _ _ hne hps => exact .cons _ _ hne hps

theorem isPrefixOf_singleton (c : Char) (l : List Char) : [c].isPrefixOf l = (l.head? == some c) := by
  cases l with
  | nil => rfl
  | cons a l =>
    show (c == a && ([] : List Char).isPrefixOf l) = (some a == some c)
    cases l <;> simp [List.isPrefixOf] <;> exact Bool.beq_comm

theorem endsWith_singleton (s : List Char) (c : Char) : endsWith s [c] = (s.getLast? == some c) := by
  unfold endsWith
  rw [← List.head?_reverse]
  exact isPrefixOf_singleton c s.reverse

theorem endsWith_cons_singleton (a : Char) (cs : List Char) (c : Char) :
    endsWith (a :: cs) [c] = if cs = [] then a == c else endsWith cs [c] := by
  rw [endsWith_singleton, endsWith_singleton]
  cases cs with
  | nil => simp
  | cons d ds => simp [List.getLast?_cons_cons]

/-- is the last piece terminated -/
def lastTerm (ps : List (List Char × Bool)) : Bool :=
  match ps.getLast? with
  | some p => p.2
  | none => false

theorem lastTerm_cons (p) (ps : List (List Char × Bool)) (h : ps ≠ []) : lastTerm (p :: ps) = lastTerm ps := by
  unfold lastTerm
  cases ps with
  | nil => exact absurd rfl h
  | cons q r => rw [List.getLast?_cons_cons]

theorem splitNl_ne_nil (c : Char) (cs : List Char) : splitNl (c :: cs) ≠ [] := by
  unfold splitNl; split <;> (try split) <;> simp

theorem lastTerm_splitNl (s : List Char) : lastTerm (splitNl s) = endsWith s ['\n'] := by
  induction s with
  | nil => simp [splitNl, lastTerm, endsWith]
  | cons c cs ih =>
    rw [endsWith_cons_singleton]
    cases hcs : cs with
    | nil => 
      by_cases hc : c = '\n' <;> simp [splitNl, lastTerm, hc]
    | cons d ds =>
      rw [hcs] at ih
      simp only [List.cons_ne_nil, if_false]
      rw [← ih]
      have hne := splitNl_ne_nil d ds
      rw [splitNl]
      split
      · exact lastTerm_cons _ _ hne
      · split
        · rename_i h; exact absurd h hne
        · rename_i l t r heq
          rw [heq]
          cases r with
          | nil => simp [lastTerm]
          | cons q r' => rw [lastTerm_cons _ (q :: r') (by simp), lastTerm_cons _ (q :: r') (by simp)]

/-! ### trimming -/

theorem trimEnd_append_white (y : List Char) (w : Char) (hw : isWhite w = true) :
    trimEnd (y ++ [w]) = trimEnd y := by
  simp [trimEnd, hw]

theorem trimStart_append_white (x : List Char) (w : Char) (hw : isWhite w = true) :
    trimStart (x ++ [w]) = if x.all isWhite then [] else trimStart x ++ [w] := by
  induction x with
  | nil => simp [trimStart, List.dropWhile, hw]
  | cons a x ih =>
    by_cases ha : isWhite a = true
    · simp only [trimStart, List.cons_append, List.dropWhile_cons, ha, if_true, List.all_cons, Bool.true_and] at ih ⊢
      exact ih
    · simp [trimStart, ha]

theorem trimStart_nil_of_all_white (x : List Char) (h : x.all isWhite = true) : trimStart x = [] := by
  simp only [trimStart]
  induction x with
  | nil => rfl
  | cons a x ih => simp only [List.all_cons, Bool.and_eq_true] at h; simp [h.1, ih h.2]

theorem eq_dropLast_concat (l : List Char) (a : Char) (h : l.getLast? = some a) : l = l.dropLast ++ [a] := by
  induction l with
  | nil => simp at h
  | cons x xs ih =>
    cases xs with
    | nil => simp at h; simp [h]
    | cons y ys => rw [List.getLast?_cons_cons] at h; simp only [List.dropLast_cons_cons, List.cons_append]; rw [← ih h]

theorem trim_stripCrEnd (l : List Char) : trim (stripCrEnd l) = trim l := by
  unfold stripCrEnd
  split
  · rename_i h
    have hl := eq_dropLast_concat l '\r' h
    generalize l.dropLast = r at hl
    subst hl
    unfold trim
    rw [trimStart_append_white _ _ isWhite_cr]
    split
    · rename_i hall; rw [trimStart_nil_of_all_white _ hall]
    · rw [trimEnd_append_white _ _ isWhite_cr]
  · rfl

theorem trim_lineOf (p : List Char × Bool) : trim (lineOf p) = trim p.1 := by
  unfold lineOf; split
  · exact trim_stripCrEnd _
  · rfl

theorem trimEnd_prefix (l : List Char) : trimEnd l <+: l := by
  unfold trimEnd
  have h := List.dropWhile_suffix isWhite (l := l.reverse)
  have := List.reverse_prefix.mpr h
  simpa using this

theorem stripCrEnd_cons (a : Char) (l : List Char) (h : l ≠ []) : stripCrEnd (a :: l) = a :: stripCrEnd l := by
  cases l with
  | nil => exact absurd rfl h
  | cons b l' =>
    unfold stripCrEnd
    rw [List.getLast?_cons_cons]
    split <;> simp

theorem stripCrEnd_noNl (l : List Char) (h : '\n' ∉ l) : '\n' ∉ stripCrEnd l := by
  unfold stripCrEnd
  split
  · exact fun hm => h ((List.dropLast_sublist l).subset hm)
  · exact h

theorem lineOf_noNl (p : List Char × Bool) (h : '\n' ∉ p.1) : '\n' ∉ lineOf p := by
  unfold lineOf; split
  · exact stripCrEnd_noNl _ h
  · exact h

theorem trimEnd_lineOf_prefix (p : List Char × Bool) : trimEnd p.1 <+: lineOf p := by
  unfold lineOf stripCrEnd
  split
  · split
    · rename_i h
      have hl := eq_dropLast_concat p.1 '\r' h
      generalize p.1.dropLast = x at hl
      rw [hl, trimEnd_append_white _ _ isWhite_cr]
      exact trimEnd_prefix x
    · exact trimEnd_prefix _
  · exact trimEnd_prefix _

theorem trimEnd_trimStart_lineOf_prefix (p : List Char × Bool) :
    trimEnd (trimStart p.1) <+: trimStart (lineOf p) := by
  unfold lineOf stripCrEnd
  split
  · split
    · rename_i h
      have hl := eq_dropLast_concat p.1 '\r' h
      generalize p.1.dropLast = x at hl
      rw [hl, trimStart_append_white _ _ isWhite_cr]
      split
      · simp [trimEnd]
      · rw [trimEnd_append_white _ _ isWhite_cr]; exact trimEnd_prefix _
    · exact trimEnd_prefix _
  · exact trimEnd_prefix _

/-! ### more on `splitNl` and trimming (whole-buffer-line reading of C25) -/

theorem splitNl_line (l r : List Char) (h : '\n' ∉ l) : splitNl (l ++ '\n' :: r) = (l, true) :: splitNl r := by
  induction l with
  | nil => simp [splitNl]
  | cons a l ih =>
    have ha : a ≠ '\n' := fun e => h (by simp [e])
    have hl : '\n' ∉ l := fun hm => h (by simp [hm])
    rw [List.cons_append, splitNl, if_neg ha, ih hl]

theorem splitNl_append_lineStart (a b : List Char) (h : a = [] ∨ a.getLast? = some '\n') :
    splitNl (a ++ b) = splitNl a ++ splitNl b := by
  induction a with
  | nil => simp [splitNl]
  | cons c cs ih =>
    have hlast : (c :: cs).getLast? = some '\n' := by
      rcases h with h | h
      · simp at h
      · exact h
    cases cs with
    | nil =>
      simp at hlast; subst hlast
      simp [splitNl]
    | cons d ds =>
      rw [List.getLast?_cons_cons] at hlast
      have ih' := ih (Or.inr hlast)
      rw [List.cons_append, splitNl, splitNl, ih']
      by_cases hc : c = '\n'
      · simp [hc]
      · simp only [hc, if_false]
        have hne := splitNl_ne_nil d ds
        cases hs : splitNl (d :: ds) with
        | nil => exact absurd hs hne
        | cons p r => simp

theorem trimStart_white_append (w x : List Char) (hw : ∀ c ∈ w, isWhite c = true) :
    trimStart (w ++ x) = trimStart x := by
  induction w with
  | nil => rfl
  | cons a w ih =>
    have ha := hw a (by simp)
    simp only [trimStart, List.cons_append, List.dropWhile_cons, ha, if_true] at ih ⊢
    exact ih (fun c hc => hw c (by simp [hc]))

theorem trimStart_idem (x : List Char) : trimStart (trimStart x) = trimStart x := by
  induction x with
  | nil => rfl
  | cons a x ih =>
    by_cases ha : isWhite a = true
    · simp only [trimStart, List.dropWhile_cons, ha, if_true] at ih ⊢; exact ih
    · simp [trimStart, ha]

theorem trim_white_append (w x : List Char) (hw : ∀ c ∈ w, isWhite c = true) : trim (w ++ x) = trim x := by
  simp [trim, trimStart_white_append w x hw]

theorem trim_trimStart (x : List Char) : trim (trimStart x) = trim x := by
  simp [trim, trimStart_idem]

end Witverif.Text.RustStr
