import Witverif.Proofs.AbiMem
import Witverif.Proofs.AbiSpecWf2
/-! `Spec.store` on memory-free types: it never allocates, and it respects read-equivalence of memories. -/
namespace Witverif.Abi
open Spec

/-- states with read-equivalent memories and the same heap -/
def StEq (a b : St) : Prop := MemEq a.mem b.mem ∧ a.heap = b.heap

theorem StEq.refl (s : St) : StEq s s := ⟨MemEq.refl _, rfl⟩
theorem StEq.trans {a b c : St} (h1 : StEq a b) (h2 : StEq b c) : StEq a c :=
  ⟨h1.1.trans h2.1, h1.2.trans h2.2⟩
theorem StEq.symm {a b : St} (h : StEq a b) : StEq b a := ⟨h.1.symm, h.2.symm⟩

theorem StEq.storeLE {a b : St} (h : StEq a b) (addr v n : Nat) :
    StEq { a with mem := a.mem.storeLE addr v n } { b with mem := b.mem.storeLE addr v n } :=
  ⟨h.1.storeLE addr v n, h.2⟩

theorem foldl_storeLE_congr (f : Nat → Nat × Nat) (n : Nat) : ∀ (ws : List Nat) (m1 m2 : Mem), MemEq m1 m2 →
    MemEq (ws.foldl (fun m w => m.storeLE (f w).1 (f w).2 n) m1) (ws.foldl (fun m w => m.storeLE (f w).1 (f w).2 n) m2) := by
  intro ws
  induction ws with
  | nil => intro m1 m2 h; simpa using h
  | cons w ws ih => intro m1 m2 h; simp only [List.foldl_cons]; exact ih _ _ (h.storeLE _ _ _)

set_option maxHeartbeats 400000 in
mutual
theorem store_congr (p : Nat) : ∀ (v : Val) (t : Ty) (a : Nat) (s1 s2 : St), memFree t = true → hasTy t v = true →
    StEq s1 s2 → StEq (Spec.store p t v a s1) (Spec.store p t v a s2)
  | .bool b, t, a, s1, s2, _, ht, h => by
      cases t <;> simp [hasTy] at ht; simp only [Spec.store]; exact h.storeLE _ _ _
  | .int n, t, a, s1, s2, _, ht, h => by
      cases t <;> simp [hasTy] at ht <;> (simp only [Spec.store]; exact h.storeLE _ _ _)
  | .f32 b, t, a, s1, s2, _, ht, h => by
      cases t <;> simp [hasTy] at ht; simp only [Spec.store]; exact h.storeLE _ _ _
  | .f64 b, t, a, s1, s2, _, ht, h => by
      cases t <;> simp [hasTy] at ht; simp only [Spec.store]; exact h.storeLE _ _ _
  | .char c, t, a, s1, s2, _, ht, h => by
      cases t <;> simp [hasTy] at ht; simp only [Spec.store]; exact h.storeLE _ _ _
  | .str bs, t, a, s1, s2, hm, ht, _ => by
      cases t <;> simp [hasTy] at ht; simp [memFree] at hm
  | .handle hd, t, a, s1, s2, _, ht, h => by
      cases t <;> simp [hasTy] at ht <;> (simp only [Spec.store]; exact h.storeLE _ _ _)
  | .enum i, t, a, s1, s2, _, ht, h => by
      cases t <;> simp [hasTy] at ht; simp only [Spec.store]; exact h.storeLE _ _ _
  | .flags bs, t, a, s1, s2, _, ht, h => by
      cases t <;> simp [hasTy] at ht
      simp only [Spec.store]
      split
      · exact h.storeLE _ _ _
      · exact h.storeLE _ _ _
      · exact ⟨foldl_storeLE_congr (fun w => (a + 4 * w, flagsWord bs w)) 4 _ _ _ h.1, h.2⟩
  | .list vs, t, a, s1, s2, hm, ht, h => by
      cases t <;> simp [hasTy] at ht <;> simp [memFree] at hm
      simp only [Spec.store]
      exact storeElems_congr p vs _ a s1 s2 hm ht.2 h
  | .record vs, t, a, s1, s2, hm, ht, h => by
      cases t <;> simp [hasTy] at ht <;> simp [memFree] at hm
      · simp only [Spec.store]; exact storeFields_congr p vs _ a 0 s1 s2 hm ht h
      · simp only [Spec.store]; exact storeFields_congr p vs _ a 0 s1 s2 hm ht h
  | .variant i pv, t, a, s1, s2, hm, ht, h => by
      cases t <;> (try (simp [hasTy] at ht; done))
      · rename_i cs
        simp [memFree] at hm
        simp only [hasTy] at ht
        simp only [Spec.store]
        cases hci : cs[i]? with
        | none => simp [hci] at ht
        | some c =>
          simp only [hci] at ht ⊢
          exact storeOpt_congr p pv c _ _ _ (memFreeCases_get cs i c hm.2 hci) ht (h.storeLE _ _ _)
      · rename_i t'
        simp [memFree] at hm
        cases pv with
        | none => simp only [Spec.store]; exact h.storeLE _ _ _
        | some v =>
          have ht' : hasTy t' v = true := by
            rcases i with _ | _ | i <;> simp [hasTy] at ht
            exact ht
          simp only [Spec.store]
          exact store_congr p v t' _ _ _ hm ht' (h.storeLE _ _ _)
      · rename_i ok err
        simp [memFree] at hm
        simp only [Spec.store]
        rcases i with _ | _ | i
        · simp [hasTy] at ht
          simpa using storeOpt_congr p pv ok _ _ _ hm.1 ht (h.storeLE _ _ _)
        · simp [hasTy] at ht
          simpa using storeOpt_congr p pv err _ _ _ hm.2 ht (h.storeLE _ _ _)
        · simp [hasTy] at ht
theorem storeElems_congr (p : Nat) : ∀ (vs : List Val) (t : Ty) (a : Nat) (s1 s2 : St), memFree t = true →
    hasTyAll t vs = true → StEq s1 s2 → StEq (Spec.storeElems p t vs a s1) (Spec.storeElems p t vs a s2)
  | [], t, a, s1, s2, _, _, h => by simpa [Spec.storeElems] using h
  | v :: vs, t, a, s1, s2, hm, ht, h => by
      simp [hasTyAll] at ht
      simp only [Spec.storeElems]
      exact storeElems_congr p vs t _ _ _ hm ht.2 (store_congr p v t a s1 s2 hm ht.1 h)
theorem storeFields_congr (p : Nat) : ∀ (vs : List Val) (ts : List Ty) (a cur : Nat) (s1 s2 : St),
    memFreeAll ts = true → hasTys ts vs = true → StEq s1 s2 →
    StEq (Spec.storeFields p ts vs a cur s1) (Spec.storeFields p ts vs a cur s2)
  | [], ts, a, cur, s1, s2, _, ht, h => by
      cases ts <;> simp [hasTys] at ht
      simpa [Spec.storeFields] using h
  | v :: vs, ts, a, cur, s1, s2, hm, ht, h => by
      cases ts with
      | nil => simp [hasTys] at ht
      | cons t ts =>
        simp [hasTys] at ht
        simp [memFreeAll] at hm
        simp only [Spec.storeFields]
        exact storeFields_congr p vs ts a _ _ _ hm.2 ht.2 (store_congr p v t _ s1 s2 hm.1 ht.1 h)
theorem storeOpt_congr (p : Nat) : ∀ (pv : Option Val) (o : Option Ty) (a : Nat) (s1 s2 : St),
    memFreeOpt o = true → hasTyOpt o pv = true → StEq s1 s2 →
    StEq (Spec.storeOpt p o pv a s1) (Spec.storeOpt p o pv a s2)
  | none, o, a, s1, s2, _, _, h => by cases o <;> simpa [Spec.storeOpt] using h
  | some v, o, a, s1, s2, hm, ht, h => by
      cases o with
      | none => simp [hasTyOpt] at ht
      | some t =>
        simp [hasTyOpt] at ht
        simp [memFreeOpt] at hm
        simpa [Spec.storeOpt] using store_congr p v t a s1 s2 hm ht h
end

end Witverif.Abi
