import Witverif.Abi.Sem
import Witverif.Abi.Gen
/-! Lemmas about `join`, `cast`, flattening (C04, used by C01). -/
namespace Witverif.Abi

/-- `b` is an upper bound of `a` in the join order -/
def le (a b : CoreTy) : Bool := join a b == b

theorem join_comm : ∀ a b : CoreTy, join a b = join b a := by
  intro a b; cases a <;> cases b <;> rfl

theorem le_refl : ∀ a : CoreTy, le a a = true := by
  intro a; cases a <;> rfl

theorem le_join_left : ∀ a b : CoreTy, le a (join a b) = true := by
  intro a b; cases a <;> cases b <;> rfl

theorem le_join_right : ∀ a b : CoreTy, le b (join a b) = true := by
  intro a b; cases a <;> cases b <;> rfl

theorem le_trans : ∀ a b c : CoreTy, le a b = true → le b c = true → le a c = true := by
  intro a b c; cases a <;> cases b <;> cases c <;> decide

theorem cast_some_of_le : ∀ a j : CoreTy, le a j = true → (cast a j).isSome = true ∧ (cast j a).isSome = true := by
  intro a j; cases a <;> cases j <;> decide

theorem join_erase (p : Nat) (hp : p = 4 ∨ p = 8) :
    ∀ a b : CoreTy, (join a b).erase p = Spec.join (a.erase p) (b.erase p) := by
  intro a b
  rcases hp with rfl | rfl <;> cases a <;> cases b <;> decide

theorem joinFlat_erase (p : Nat) (hp : p = 4 ∨ p = 8) :
    ∀ as bs : List CoreTy,
      (joinFlat as bs).map (CoreTy.erase p) = Spec.joinFlat (as.map (CoreTy.erase p)) (bs.map (CoreTy.erase p)) := by
  intro as
  induction as with
  | nil => intro bs; simp [joinFlat, Spec.joinFlat]
  | cons a as ih =>
    intro bs
    cases bs with
    | nil => simp [joinFlat, Spec.joinFlat]
    | cons b bs => simp [joinFlat, Spec.joinFlat, join_erase p hp, ih]

theorem flattenRep_erase (p : Nat) (f : List CoreTy) (n : Nat) :
    (flattenRep f n).map (CoreTy.erase p) = Spec.rep (f.map (CoreTy.erase p)) n := by
  induction n with
  | zero => simp [flattenRep, Spec.rep]
  | succ n ih => simp [flattenRep, Spec.rep, ih]

/-- slot `i` of `joinFlat as bs` bounds slot `i` of `as` and of `bs` -/
theorem joinFlat_le_left : ∀ (as bs : List CoreTy) (i : Nat) (h : i < as.length),
    ∃ h' : i < (joinFlat as bs).length, le (as[i]) ((joinFlat as bs)[i]) = true := by
  intro as
  induction as with
  | nil => intro bs i h; simp at h
  | cons a as ih =>
    intro bs i h
    cases bs with
    | nil => exact ⟨by simpa [joinFlat] using h, by simp [joinFlat, le_refl]⟩
    | cons b bs =>
      cases i with
      | zero => exact ⟨by simp [joinFlat], by simp [joinFlat, le_join_left]⟩
      | succ i =>
        have ⟨h', hle⟩ := ih bs i (by simpa using h)
        exact ⟨by simp [joinFlat]; omega, by simpa [joinFlat] using hle⟩

theorem joinFlat_le_right : ∀ (as bs : List CoreTy) (i : Nat) (h : i < bs.length),
    ∃ h' : i < (joinFlat as bs).length, le (bs[i]) ((joinFlat as bs)[i]) = true := by
  intro as
  induction as with
  | nil => intro bs i h; exact ⟨by simpa [joinFlat] using h, by simp [joinFlat, le_refl]⟩
  | cons a as ih =>
    intro bs i h
    cases bs with
    | nil => simp at h
    | cons b bs =>
      cases i with
      | zero => exact ⟨by simp [joinFlat], by simp [joinFlat, le_join_right]⟩
      | succ i =>
        have ⟨h', hle⟩ := ih bs i (by simpa using h)
        exact ⟨by simp [joinFlat]; omega, by simpa [joinFlat] using hle⟩

/-- every case's flattening is bounded slot-wise by the joined flattening of all cases -/
theorem flattenCases_bounds (cs : List (Option Ty)) (c : Option Ty) (hc : c ∈ cs) :
    ∀ (i : Nat) (h : i < (flattenOpt c).length),
      ∃ h' : i < (flattenCases cs).length, le ((flattenOpt c)[i]) ((flattenCases cs)[i]) = true := by
  induction cs with
  | nil => simp at hc
  | cons d ds ih =>
    intro i h
    rcases List.mem_cons.mp hc with rfl | hmem
    · simpa [flattenCases] using joinFlat_le_left (flattenOpt c) (flattenCases ds) i h
    · have ⟨h1, hle1⟩ := ih hmem i h
      have ⟨h2, hle2⟩ := joinFlat_le_right (flattenOpt d) (flattenCases ds) i h1
      exact ⟨by simpa [flattenCases] using h2, by
        simpa [flattenCases] using le_trans _ _ _ hle1 hle2⟩

/-- `castsFor` succeeds when every left slot is bounded by the corresponding right slot -/
theorem castsFor_ok_up : ∀ (as js : List CoreTy),
    (∀ (i : Nat) (h : i < as.length), ∃ h' : i < js.length, le (as[i]) (js[i]) = true) →
    ∃ cs, castsFor as js = .ok cs ∧ cs.length = as.length := by
  intro as
  induction as with
  | nil => intro js _; exact ⟨[], by cases js <;> rfl, rfl⟩
  | cons a as ih =>
    intro js hb
    cases js with
    | nil => have ⟨h', _⟩ := hb 0 (by simp); simp at h'
    | cons j js =>
      have ⟨_, h0⟩ := hb 0 (by simp)
      have hsome := (cast_some_of_le a j (by simpa using h0)).1
      have ⟨cs, hcs, hlen⟩ := ih js (by
        intro i h
        have ⟨h', hle⟩ := hb (i + 1) (by simpa using h)
        exact ⟨by simpa using h', by simpa using hle⟩)
      cases hcast : cast a j with
      | none => simp [hcast] at hsome
      | some c =>
        refine ⟨c :: cs, ?_, by simp [hlen]⟩
        simp [castsFor, hcast, hcs]

theorem castsFor_ok_down : ∀ (js as : List CoreTy),
    (∀ (i : Nat) (h : i < as.length), ∃ h' : i < js.length, le (as[i]) (js[i]) = true) →
    ∃ cs, castsFor js as = .ok cs := by
  intro js
  induction js with
  | nil => intro as _; exact ⟨[], by cases as <;> rfl⟩
  | cons j js ih =>
    intro as hb
    cases as with
    | nil => exact ⟨[], rfl⟩
    | cons a as =>
      have ⟨_, h0⟩ := hb 0 (by simp)
      have hsome := (cast_some_of_le a j (by simpa using h0)).2
      have ⟨cs, hcs⟩ := ih as (by
        intro i h
        have ⟨h', hle⟩ := hb (i + 1) (by simpa using h)
        exact ⟨by simpa using h', by simpa using hle⟩)
      cases hcast : cast j a with
      | none => simp [hcast] at hsome
      | some c =>
        exact ⟨c :: cs, by simp [castsFor, hcast, hcs]⟩

end Witverif.Abi
