import Witverif.Abi.Sem
/-! Linear memory lemmas: closed form of little-endian stores, read-equivalence. -/
namespace Witverif.Abi
open Spec

theorem Mem.read_write (m : Mem) (a b x : Nat) :
    (m.write a b).read x = if x = a then b % 256 else m.read x := by
  unfold Mem.write Mem.read
  by_cases h : x = a
  · subst h; simp
  · have : (a == x) = false := by simp; omega
    simp [List.find?, this, h]

/-- closed form of a little-endian store -/
theorem Mem.read_storeLE (m : Mem) : ∀ (n a v x : Nat),
    (m.storeLE a v n).read x = if a ≤ x ∧ x < a + n then (v / 256 ^ (x - a)) % 256 else m.read x := by
  intro n
  induction n generalizing m with
  | zero => intro a v x; simp [Mem.storeLE]; intro h1 h2; omega
  | succ n ih =>
    intro a v x
    simp only [Mem.storeLE, ih, Mem.read_write]
    by_cases h1 : a + 1 ≤ x ∧ x < a + 1 + n
    · have h2 : a ≤ x ∧ x < a + (n + 1) := by omega
      have hx : x - a = (x - (a + 1)) + 1 := by omega
      simp only [h1, h2, and_self, if_true]
      rw [hx, Nat.pow_succ, Nat.mul_comm, ← Nat.div_div_eq_div_mul]
    · by_cases h3 : x = a
      · subst h3
        simp [h1]
      · have h2 : ¬ (a ≤ x ∧ x < a + (n + 1)) := by omega
        simp [h1, h2, h3]

/-- two memories that read the same everywhere -/
def MemEq (a b : Mem) : Prop := ∀ x, a.read x = b.read x

theorem MemEq.refl (m : Mem) : MemEq m m := fun _ => rfl
theorem MemEq.symm {a b : Mem} (h : MemEq a b) : MemEq b a := fun x => (h x).symm
theorem MemEq.trans {a b c : Mem} (h1 : MemEq a b) (h2 : MemEq b c) : MemEq a c := fun x => (h1 x).trans (h2 x)

theorem MemEq.storeLE {a b : Mem} (h : MemEq a b) (addr v n : Nat) :
    MemEq (a.storeLE addr v n) (b.storeLE addr v n) := by
  intro x; simp only [Mem.read_storeLE, h x]

theorem Mem.storeLE_comm (m : Mem) (a1 v1 n1 a2 v2 n2 : Nat) (hd : a1 + n1 ≤ a2 ∨ a2 + n2 ≤ a1) :
    MemEq ((m.storeLE a1 v1 n1).storeLE a2 v2 n2) ((m.storeLE a2 v2 n2).storeLE a1 v1 n1) := by
  intro x
  simp only [Mem.read_storeLE]
  by_cases h1 : a1 ≤ x ∧ x < a1 + n1 <;> by_cases h2 : a2 ≤ x ∧ x < a2 + n2 <;> simp [h1, h2]
  omega

theorem mem_read_lt (m : Mem) (a : Nat) : m.read a < 256 := by
  unfold Mem.read
  split
  · exact Nat.mod_lt _ (by decide)
  · decide

theorem mem_loadLE_lt (m : Mem) : ∀ (n a : Nat), m.loadLE a n < 256 ^ n := by
  intro n
  induction n with
  | zero => intro a; simp [Mem.loadLE]
  | succ n ih =>
    intro a
    have h1 := mem_read_lt m a
    have h2 := ih (a + 1)
    simp only [Mem.loadLE, Nat.pow_succ]
    have : 256 * m.loadLE (a + 1) n ≤ 256 * (256 ^ n - 1) := Nat.mul_le_mul_left _ (by omega)
    have hp : 0 < 256 ^ n := Nat.pow_pos (by decide)
    rw [Nat.mul_sub, Nat.mul_one] at this
    omega

theorem MemEq.loadLE {a b : Mem} (h : MemEq a b) (addr : Nat) : ∀ n, a.loadLE addr n = b.loadLE addr n := by
  intro n
  induction n generalizing addr with
  | zero => rfl
  | succ n ih => simp [Mem.loadLE, h addr, ih]

end Witverif.Abi
