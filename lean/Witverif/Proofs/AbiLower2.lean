import Witverif.Proofs.AbiLower
/-! C01: evaluation lemmas for the pieces of a flat lowering. -/
namespace Witverif.Abi
open Spec

theorem eval_op_fall (env : Env) (m : Mem) (o : Op) (x : Expr) (xv : MV) (k : Nat) (rs : List MV)
    (hx : eval env m x = some xv)
    (hsem : ∀ bev, opSem env.p m bev o [xv] = some rs) :
    eval env m (.op o [x] [] k) = rs[k]? := by
  simp [eval, hx, hsem]

theorem eval_recordLower (env : Env) (m : Mem) (x : Expr) (vs : List Val) (k : Nat)
    (hx : eval env m x = some (.v (.record vs))) (hk : k < vs.length) :
    eval env m (.op (.recordLower vs.length) [x] [] k) = some (.v vs[k]) := by
  rw [eval_op_fall env m _ x _ k (vs.map .v) hx (by intro bev; simp [opSem, pureSem])]
  simp [hk]

theorem eval_tupleLower (env : Env) (m : Mem) (x : Expr) (vs : List Val) (k : Nat)
    (hx : eval env m x = some (.v (.record vs))) (hk : k < vs.length) :
    eval env m (.op (.tupleLower vs.length) [x] [] k) = some (.v vs[k]) := by
  rw [eval_op_fall env m _ x _ k (vs.map .v) hx (by intro bev; simp [opSem, pureSem])]
  simp [hk]

theorem eval_flistLower (env : Env) (m : Mem) (x : Expr) (e : Ty) (vs : List Val) (k : Nat)
    (hx : eval env m x = some (.v (.list vs))) (hk : k < vs.length) :
    eval env m (.op (.flistLower e vs.length) [x] [] k) = some (.v vs[k]) := by
  rw [eval_op_fall env m _ x _ k (vs.map .v) hx (by intro bev; simp [opSem, pureSem])]
  simp [hk]

theorem evalList_zeros (env : Env) (m : Mem) (ts : List CoreTy) :
    evalList env m (zeros ts) = some (ts.map fun t => MV.c ⟨t.erase env.p, 0⟩) := by
  induction ts with
  | nil => simp [zeros]
  | cons t ts ih =>
    simp only [zeros, List.map_cons] at ih ⊢
    simp [eval, ih]

/-- every cast of the list is applied to an operand of the core type it converts from -/
def CastsTyped (p : Nat) : List Bitcast → List CVal → Prop
  | c :: cs, v :: vs => castTyped p c v = some (castSem p c v) ∧ CastsTyped p cs vs
  | _, _ => True

theorem CastsTyped.take {p : Nat} : ∀ {casts : List Bitcast} {vs : List CVal} (n : Nat),
    CastsTyped p casts vs → CastsTyped p (casts.take n) (vs.take n)
  | [], _, n, _ => by simp [CastsTyped]
  | _ :: _, [], n, _ => by cases n <;> simp [CastsTyped]
  | c :: cs, v :: vs, 0, _ => by simp [CastsTyped]
  | c :: cs, v :: vs, n + 1, h => by
      simp only [List.take_succ_cons, CastsTyped]
      exact ⟨h.1, CastsTyped.take n h.2⟩

/-- the casts `castsFor` chooses are well-typed on operands of the source slot types -/
theorem castsFor_typed (p : Nat) (hp : p = 4 ∨ p = 8) : ∀ (src dst : List CoreTy) (casts : List Bitcast)
    (vs : List CVal), castsFor src dst = .ok casts → vs.map (·.ty) = src.map (CoreTy.erase p) →
    CastsTyped p casts vs := by
  intro src
  induction src with
  | nil => intro dst casts vs h _; simp [castsFor] at h; subst h; simp [CastsTyped]
  | cons a src ih =>
    intro dst casts vs h hty
    cases dst with
    | nil => simp [castsFor] at h; subst h; simp [CastsTyped]
    | cons b dst =>
      simp only [castsFor] at h
      split at h <;> simp at h
      rename_i c cs hcast hcs
      subst h
      cases vs with
      | nil => simp at hty
      | cons v vs =>
        simp at hty
        exact ⟨cast_typed p hp a b c hcast v hty.1, ih dst cs vs hcs hty.2⟩

theorem evalList_casts (env : Env) (m : Mem) : ∀ (casts : List Bitcast) (xs : List Expr) (vs : List CVal),
    casts.length = xs.length → evalList env m xs = some (vs.map MV.c) → CastsTyped env.p casts vs →
    evalList env m (List.zipWith Expr.cast casts xs) = some ((List.zipWith (castSem env.p) casts vs).map MV.c) := by
  intro casts
  induction casts with
  | nil => intro xs vs h _ _; cases xs <;> simp at h ⊢
  | cons c casts ih =>
    intro xs vs hlen hx hty
    cases xs with
    | nil => simp at hlen
    | cons x xs =>
      simp only [evalList_cons] at hx
      cases hex : eval env m x with
      | none => simp [hex] at hx
      | some xv =>
        cases hes : evalList env m xs with
        | none => simp [hex, hes] at hx
        | some xvs =>
          simp [hex, hes] at hx
          cases vs with
          | nil => simp at hx
          | cons v vs =>
            simp at hx
            obtain ⟨rfl, rfl⟩ := hx
            have := ih xs vs (by simpa using hlen) hes hty.2
            simp [eval, hex, MV.core?, this, hty.1]

theorem castSem_none (p : Nat) (x : CVal) : castSem p .none x = x := rfl

theorem zipWith_castSem_all_none (p : Nat) : ∀ (casts : List Bitcast) (vs : List CVal),
    casts.any (· ≠ .none) = false → casts.length = vs.length →
    List.zipWith (castSem p) casts vs = vs := by
  intro casts
  induction casts with
  | nil => intro vs _ h; cases vs <;> simp at h ⊢
  | cons c casts ih =>
    intro vs hany hlen
    cases vs with
    | nil => simp at hlen
    | cons v vs =>
      simp at hany
      simp [hany.1, castSem_none, ih vs (by simpa using hany.2) (by simpa using hlen)]

theorem evalList_applyCasts (env : Env) (m : Mem) (casts : List Bitcast) (xs : List Expr) (vs : List CVal)
    (hlen : casts.length = xs.length) (hx : evalList env m xs = some (vs.map MV.c)) (hvl : vs.length = xs.length)
    (hty : CastsTyped env.p casts vs) :
    evalList env m (applyCasts casts xs) = some ((List.zipWith (castSem env.p) casts vs).map MV.c) := by
  unfold applyCasts
  split
  · exact evalList_casts env m casts xs vs hlen hx hty
  · rename_i hany
    rw [zipWith_castSem_all_none env.p casts vs (by simpa using hany) (by omega)]
    exact hx

/-- the casts chosen for an arm, applied to a well-formed payload and zero-padded, are the spec's
coercion of the payload into the joined slots -/
theorem casts_coerce (p : Nat) (hp : p = 4 ∨ p = 8) : ∀ (temp joined : List CoreTy) (casts : List Bitcast)
    (payload : List CVal),
    castsFor temp joined = .ok casts →
    (∀ (k : Nat) (h : k < temp.length), ∃ h' : k < joined.length, le (temp[k]) (joined[k]) = true) →
    WfFlat payload (temp.map (CoreTy.erase p)) →
    List.zipWith (castSem p) casts payload ++ (joined.drop temp.length).map (fun t => (⟨t.erase p, 0⟩ : CVal))
      = coercePayload payload (joined.map (CoreTy.erase p)) := by
  intro temp
  induction temp with
  | nil =>
    intro joined casts payload hc _ hwf
    have : payload = [] := by
      have := hwf.1; simpa using this
    subst this
    cases joined <;> simp [castsFor] at hc <;> subst hc <;> simp [coercePayload]
  | cons a temp ih =>
    intro joined casts payload hc hb hwf
    cases joined with
    | nil => have ⟨h', _⟩ := hb 0 (by simp); simp at h'
    | cons j joined =>
      simp only [castsFor] at hc
      split at hc <;> simp at hc
      rename_i c cs hcast hcs
      subst hc
      cases payload with
      | nil => have := hwf.1; simp at this
      | cons v payload =>
        have hty : v.ty = a.erase p := by have := hwf.1; simp at this; exact this.1
        have hvb := hwf.2 v (by simp)
        have ⟨_, hle0⟩ := hb 0 (by simp)
        simp at hle0
        have hrest := ih joined cs payload hcs
          (by intro k h; have ⟨h', hl⟩ := hb (k + 1) (by simpa using h); exact ⟨by simpa using h', by simpa using hl⟩)
          ⟨by have := hwf.1; simp at this; exact this.2, fun x hx => hwf.2 x (by simp [hx])⟩
        simp only [List.zipWith_cons_cons, List.length_cons, List.drop_succ_cons, List.cons_append,
          List.map_cons, coercePayload]
        rw [hrest, cast_up_is_spec p hp a j hle0 c hcast v hty hvb, hty]

end Witverif.Abi
