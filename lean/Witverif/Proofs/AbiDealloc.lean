import Witverif.Abi.Validate
import Witverif.Proofs.AbiEval
/-! C03: static facts about the cleanup code. -/
namespace Witverif.Abi

mutual
theorem needsDealloc_lists_eq_hasBuffer : ∀ t : Ty, needsDealloc false t = hasBuffer t
  | .bool | .s8 | .u8 | .s16 | .u16 | .s32 | .u32 | .s64 | .u64 | .f32 | .f64 | .char
  | .string | .errctx | .own | .borrow | .flags _ | .enum _ | .future _ | .stream _ => by
      simp [needsDealloc, hasBuffer]
  | .list _ | .map _ _ => by simp [needsDealloc, hasBuffer]
  | .flist e _ => by simp [needsDealloc, hasBuffer, needsDealloc_lists_eq_hasBuffer e]
  | .record fs => by simp [needsDealloc, hasBuffer, needsDeallocAny_eq fs]
  | .tuple ts => by simp [needsDealloc, hasBuffer, needsDeallocAny_eq ts]
  | .variant cs => by simp [needsDealloc, hasBuffer, needsDeallocAnyOpt_eq cs]
  | .option t => by simp [needsDealloc, hasBuffer, needsDealloc_lists_eq_hasBuffer t]
  | .result a b => by simp [needsDealloc, hasBuffer, needsDeallocOpt_eq a, needsDeallocOpt_eq b]
theorem needsDeallocAny_eq : ∀ ts : List Ty, needsDeallocAny false ts = hasBufferAny ts
  | [] => by simp [needsDeallocAny, hasBufferAny]
  | t :: ts => by
      simp [needsDeallocAny, hasBufferAny, needsDealloc_lists_eq_hasBuffer t, needsDeallocAny_eq ts]
theorem needsDeallocOpt_eq : ∀ o : Option Ty, needsDeallocOpt false o = hasBufferOpt o
  | none => by simp [needsDeallocOpt, hasBufferOpt]
  | some t => by simp [needsDeallocOpt, hasBufferOpt, needsDealloc_lists_eq_hasBuffer t]
theorem needsDeallocAnyOpt_eq : ∀ cs : List (Option Ty), needsDeallocAnyOpt false cs = hasBufferAnyOpt cs
  | [] => by simp [needsDeallocAnyOpt, hasBufferAnyOpt]
  | c :: cs => by
      simp [needsDeallocAnyOpt, hasBufferAnyOpt, needsDeallocOpt_eq c, needsDeallocAnyOpt_eq cs]
end

/-! ### counting allocation and release sites in a tree -/

def isAllocOp : Op → Bool
  | .stringLower _ | .listLower _ _ | .listCanonLower _ _ | .mapLower _ _ _ => true
  | _ => false

def isFreeOp : Op → Bool
  | .deallocString | .deallocList _ | .deallocMap _ _ => true
  | _ => false

def isDropOp : Op → Bool
  | .dropHandle _ => true
  | _ => false

mutual
/-- number of statements (at any block depth) whose instruction satisfies `f` -/
def countOps (f : Op → Bool) : List Stmt → Nat
  | [] => 0
  | .eff o _ blocks :: rest => (if f o then 1 else 0) + countBlocks f blocks + countOps f rest
def countBlocks (f : Op → Bool) : List (List Stmt × List Expr) → Nat
  | [] => 0
  | (ss, _) :: bs => countOps f ss + countBlocks f bs
end

theorem countOps_append (f : Op → Bool) : ∀ (a b : List Stmt), countOps f (a ++ b) = countOps f a + countOps f b := by
  intro a
  induction a with
  | nil => intro b; simp [countOps]
  | cons s a ih =>
    intro b
    cases s with
    | eff o args blocks => simp [countOps, ih]; omega

mutual
/-- types without fixed-length lists (for which cleanup through memory is complete) -/
def noFlist : Ty → Bool
  | .flist _ _ => false
  | .list e => noFlist e
  | .map k v => noFlist k && noFlist v
  | .record fs => noFlistAll fs
  | .tuple ts => noFlistAll ts
  | .variant cs => noFlistCases cs
  | .option t => noFlist t
  | .result a b => noFlistOpt a && noFlistOpt b
  | _ => true
def noFlistAll : List Ty → Bool
  | [] => true
  | t :: ts => noFlist t && noFlistAll ts
def noFlistOpt : Option Ty → Bool
  | none => true
  | some t => noFlist t
def noFlistCases : List (Option Ty) → Bool
  | [] => true
  | c :: cs => noFlistOpt c && noFlistCases cs
end

end Witverif.Abi

namespace Witverif.Abi

mutual
/-- cleanup through memory emits nothing for a type that (in the given mode) owns nothing -/
theorem deallocIndirect_nil (h : Bool) : ∀ (t : Ty) (lvl : Nat) (a : Expr) (off : Off),
    needsDealloc h t = false → deallocIndirect h lvl t a off = .ok []
  | .bool, _, _, _, _ | .s8, _, _, _, _ | .u8, _, _, _, _ | .s16, _, _, _, _ | .u16, _, _, _, _
  | .s32, _, _, _, _ | .u32, _, _, _, _ | .s64, _, _, _, _ | .u64, _, _, _, _ | .f32, _, _, _, _
  | .f64, _, _, _, _ | .char, _, _, _, _ | .errctx, _, _, _, _ | .borrow, _, _, _, _
  | .flags _, _, _, _, _ | .enum _, _, _, _, _ | .flist _ _, _, _, _, _ => by
      simp [deallocIndirect, pure, Except.pure]
  | .string, _, _, _, hn | .list _, _, _, _, hn | .map _ _, _, _, _, hn => by simp [needsDealloc] at hn
  | .own, _, _, _, hn | .future _, _, _, _, hn | .stream _, _, _, _, hn => by
      simp [needsDealloc] at hn; simp [deallocIndirect, hn, pure, Except.pure]
  | .record fs, _, _, _, hn => by simp [needsDealloc] at hn; simp [deallocIndirect, hn, pure, Except.pure]
  | .tuple ts, _, _, _, hn => by simp [needsDealloc] at hn; simp [deallocIndirect, hn, pure, Except.pure]
  | .variant cs, _, _, _, hn => by simp [needsDealloc] at hn; simp [deallocIndirect, hn, pure, Except.pure]
  | .option t, _, _, _, hn => by simp [needsDealloc] at hn; simp [deallocIndirect, hn, pure, Except.pure]
  | .result a b, _, _, _, hn => by
      simp [needsDealloc] at hn; simp [deallocIndirect, hn.1, hn.2, pure, Except.pure]
end

end Witverif.Abi
