import Witverif.Proofs.TypesEqCollect
/-! Helper lemmas for C28, part 5: the facts computed by `analyze` — content facts are
reachability of a node of the right kind; usage facts are the marks of `type_info_func`. -/
namespace Witverif.Text.TypesEq
open Witverif.Text.TypesEqSpec

/-- what `type_id_info` sets itself for a definition (before looking at components) -/
def localFlag : Def → Flag → Bool
  | .list _, .hasList => true
  | .map _ _, .hasList => true
  | .tuple _, .hasTuple => true
  | .resource, .hasResource => true
  | .own _, .hasResource => true
  | .borrow _, .hasResource => true
  | .future _, .hasResource => true
  | .stream _, .hasResource => true
  | .borrow _, .hasBorrowHandle => true
  | .own _, .hasOwnHandle => true
  | .future _, .hasOwnHandle => true
  | .stream _, .hasOwnHandle => true
  | _, _ => false

theorem foldl_or_get {α : Type} (g : α → TypeInfo) (f : Flag) :
    ∀ (l : List α) (init : TypeInfo),
      (l.foldl (fun (i : TypeInfo) x => i.or (g x)) init).get f =
        (init.get f || l.any (fun x => (g x).get f)) := by
  intro l
  induction l with
  | nil => intro init; simp
  | cons x xs ih => intro init; simp [ih, TypeInfo.or_get, Bool.or_assoc]

theorem optionalTypeInfo_get (memo : List TypeInfo) (o : Option Ty) (f : Flag) :
    (optionalTypeInfo memo o).get f = (optTys o).any (fun c => (typeInfo memo c).get f) := by
  cases o <;> simp [optionalTypeInfo, optTys, TypeInfo.default_get]

theorem withTuple_get (x : TypeInfo) (f : Flag) :
    ({ x with hasTuple := true } : TypeInfo).get f = (decide (f = .hasTuple) || x.get f) := by
  cases f <;> simp [TypeInfo.get]

theorem withList_get (x : TypeInfo) (f : Flag) :
    ({ x with hasList := true } : TypeInfo).get f = (decide (f = .hasList) || x.get f) := by
  cases f <;> simp [TypeInfo.get]

/-- `type_id_info` = own contribution ∨ contributions of the value components -/
theorem typeIdInfoKind_get (memo : List TypeInfo) (d : Def) (f : Flag) :
    (typeIdInfoKind memo d).get f =
      (localFlag d f || (valueChildren d).any (fun c => (typeInfo memo c).get f)) := by
  cases d with
  | record fs =>
    simp only [typeIdInfoKind, foldl_or_get, TypeInfo.default_get, valueChildren, Def.refs, List.any_map]
    cases f <;> simp [localFlag, Function.comp_def]
  | variant cs =>
    simp only [typeIdInfoKind, foldl_or_get, TypeInfo.default_get, valueChildren, Def.refs,
      List.any_flatMap, optionalTypeInfo_get]
    cases f <;> simp [localFlag]
  | tuple ts =>
    simp only [typeIdInfoKind, withTuple_get, foldl_or_get, TypeInfo.default_get, valueChildren, Def.refs]
    cases f <;> simp [localFlag]
  | list t =>
    simp only [typeIdInfoKind, withList_get, valueChildren, Def.refs]
    cases f <;> simp [localFlag]
  | map k v =>
    simp only [typeIdInfoKind, withList_get, TypeInfo.or_get, valueChildren, Def.refs]
    cases f <;> simp [localFlag]
  | result ok err =>
    simp only [typeIdInfoKind, TypeInfo.or_get, optionalTypeInfo_get, valueChildren, Def.refs, List.any_append]
    cases f <;> simp [localFlag]
  | alias t => cases f <;> simp [typeIdInfoKind, localFlag, valueChildren, Def.refs]
  | option t => cases f <;> simp [typeIdInfoKind, localFlag, valueChildren, Def.refs]
  | fixedList t n => cases f <;> simp [typeIdInfoKind, localFlag, valueChildren, Def.refs]
  | resource => cases f <;> simp [typeIdInfoKind, localFlag, valueChildren, Def.refs, TypeInfo.get]
  | own r => cases f <;> simp [typeIdInfoKind, localFlag, valueChildren, TypeInfo.get]
  | borrow r => cases f <;> simp [typeIdInfoKind, localFlag, valueChildren, TypeInfo.get]
  | future t => cases f <;> simp [typeIdInfoKind, localFlag, valueChildren, TypeInfo.get]
  | stream t => cases f <;> simp [typeIdInfoKind, localFlag, valueChildren, TypeInfo.get]
  | flags ns => cases f <;> simp [typeIdInfoKind, localFlag, valueChildren, Def.refs, TypeInfo.get]
  | enum ns => cases f <;> simp [typeIdInfoKind, localFlag, valueChildren, Def.refs, TypeInfo.get]


theorem valueChildren_sub (d : Def) : ∀ c ∈ valueChildren d, c ∈ d.refs := by
  cases d <;> simp [valueChildren]

theorem typeInfo_take (memo : List TypeInfo) (i : Nat) (t : Ty) (h : t.size ≤ i) :
    typeInfo (memo.take i) t = typeInfo memo t := by
  cases t with
  | prim p => cases p <;> rfl
  | id j =>
    have hj : (Ty.id j).size = j + 1 := rfl
    rw [hj] at h
    simp only [typeInfo, List.getD_eq_getElem?_getD]
    rw [List.getElem?_take]
    simp [show j < i by omega]

theorem typeIdInfoKind_take (memo : List TypeInfo) (i : Nat) (d : Def)
    (h : ∀ t ∈ d.refs, t.size ≤ i) : typeIdInfoKind (memo.take i) d = typeIdInfoKind memo d := by
  apply TypeInfo.ext_get
  intro f
  rw [typeIdInfoKind_get, typeIdInfoKind_get]
  congr 1
  rw [Bool.eq_iff_iff]
  simp only [List.any_eq_true]
  constructor
  · rintro ⟨c, hc, hg⟩
    exact ⟨c, hc, by rwa [typeInfo_take memo i c (h c (valueChildren_sub d c hc))] at hg⟩
  · rintro ⟨c, hc, hg⟩
    exact ⟨c, hc, by rwa [typeInfo_take memo i c (h c (valueChildren_sub d c hc))]⟩

theorem analyzeTypes_length (T : Table) : (analyzeTypes T).length = T.length := by
  simp [analyzeTypes, build_nil_length]

/-- entry `i` of the memo table is `type_id_info` of definition `i` over the finished table -/
theorem analyzeTypes_get {T : Table} (hwf : WF T) {i : Nat} {d : Def} (hd : T[i]? = some d) :
    (analyzeTypes T)[i]? = some (typeIdInfoKind (analyzeTypes T) d) := by
  have hi : i < T.length := (List.getElem?_eq_some_iff.mp hd).1
  have hg : T[i] = d := (List.getElem?_eq_some_iff.mp hd).2
  have := build_nil_getElem? typeIdInfoKind T i hi
  unfold analyzeTypes
  rw [this, hg, typeIdInfoKind_take _ i d (fun t ht => hwf.ref_size_le hd ht)]

/-- the kind of node that makes fact `f` true -/
def nodeFlag (T : Table) (f : Flag) : Ty → Bool
  | .prim p => (typeInfo [] (.prim p)).get f
  | .id i => match T[i]? with
    | some d => localFlag d f
    | none => false

theorem reach_prim {ch : Def → List Ty} {T : Table} {p : Prim} {s : Ty}
    (h : Reach ch T (.prim p) s) : s = .prim p := by
  cases h; rfl

/-- **Content facts = reachability**: the flag computed by `analyze` for a type is set exactly
when a node of the corresponding kind is contained in it. -/
theorem content_get {T : Table} (hwf : WF T) (f : Flag) : ∀ (t : Ty),
    (typeInfo (analyzeTypes T) t).get f = true ↔ ∃ s, Contains T t s ∧ nodeFlag T f s = true := by
  have hprim : ∀ p : Prim, (typeInfo (analyzeTypes T) (.prim p)).get f = true ↔
      ∃ s, Contains T (.prim p) s ∧ nodeFlag T f s = true := by
    intro p
    have h0 : typeInfo (analyzeTypes T) (.prim p) = typeInfo [] (.prim p) := by cases p <;> rfl
    constructor
    · intro h
      exact ⟨.prim p, .refl _, by simpa [nodeFlag, h0] using h⟩
    · rintro ⟨s, hs, hn⟩
      rw [reach_prim hs] at hn
      simpa [nodeFlag, h0] using hn
  intro t
  cases t with
  | prim p => exact hprim p
  | id i =>
    induction i using Nat.strongRecOn with
    | _ i ih =>
      have hchild : ∀ c : Ty, c.size ≤ i → ((typeInfo (analyzeTypes T) c).get f = true ↔
          ∃ s, Contains T c s ∧ nodeFlag T f s = true) := by
        intro c hc
        cases c with
        | prim p => exact hprim p
        | id j =>
          have hj : (Ty.id j).size = j + 1 := rfl
          exact ih j (by omega)
      cases hd : T[i]? with
      | none =>
        have : (analyzeTypes T)[i]? = none := by
          rw [List.getElem?_eq_none_iff, analyzeTypes_length]
          exact List.getElem?_eq_none_iff.mp hd
        simp only [typeInfo, List.getD_eq_getElem?_getD, this, Option.getD_none,
          TypeInfo.default_get, Bool.false_eq_true, false_iff]
        rintro ⟨s, hs, hn⟩
        cases hs with
        | refl => simp [nodeFlag, hd] at hn
        | step i d c s hd' _ _ => rw [hd] at hd'; exact absurd hd' (by simp)
      | some d =>
        have hA := analyzeTypes_get hwf hd
        simp only [typeInfo, List.getD_eq_getElem?_getD, hA, Option.getD_some, typeIdInfoKind_get,
          Bool.or_eq_true, List.any_eq_true]
        constructor
        · rintro (hl | ⟨c, hc, hg⟩)
          · exact ⟨.id i, .refl _, by simp [nodeFlag, hd, hl]⟩
          · have hsz := hwf.ref_size_le hd (valueChildren_sub d c hc)
            obtain ⟨s, hs, hn⟩ := (hchild c hsz).mp hg
            exact ⟨s, .step i d c s hd hc hs, hn⟩
        · rintro ⟨s, hs, hn⟩
          cases hs with
          | refl => left; simpa [nodeFlag, hd] using hn
          | step i d' c s hd' hc hcs =>
            rw [hd] at hd'
            cases hd'
            right
            have hsz := hwf.ref_size_le hd (valueChildren_sub d c hc)
            exact ⟨c, hc, (hchild c hsz).mpr ⟨s, hcs, hn⟩⟩


theorem nodeFlag_content (T : Table) (f : Flag) (node : Ty → Bool) (h : contentNode T f = some node) :
    ∀ s, node s = nodeFlag T f s := by
  intro s
  cases f <;> simp only [contentNode, Option.some.injEq, reduceCtorEq] at h <;> subst h <;>
    cases s with
    | prim p => cases p <;> simp [nodeFlag, typeInfo, TypeInfo.get, listNode, tupleNode, resourceNode, borrowNode, ownNode, isNode]
    | id i =>
      simp only [nodeFlag, listNode, tupleNode, resourceNode, borrowNode, ownNode, isNode]
      cases T[i]? with
      | none => rfl
      | some d => cases d <;> rfl

theorem nodeFlag_usage (T : Table) (f : Flag) (h : contentNode T f = none) (s : Ty) :
    nodeFlag T f s = false := by
  cases f <;> simp only [contentNode, reduceCtorEq] at h <;>
    cases s with
    | prim p => cases p <;> simp [nodeFlag, typeInfo, TypeInfo.get]
    | id i =>
      simp only [nodeFlag]
      cases T[i]? with
      | none => rfl
      | some d => cases d <;> rfl

/-! ### the monitor's reachability lists -/

theorem rowTy_take (memo : List (List Ty)) (i : Nat) (t : Ty) (h : t.size ≤ i) :
    rowTy (memo.take i) t = rowTy memo t := by
  cases t with
  | prim p => rfl
  | id j =>
    have hj : (Ty.id j).size = j + 1 := rfl
    rw [hj] at h
    simp only [rowTy, List.getD_eq_getElem?_getD]
    rw [List.getElem?_take]
    simp [show j < i by omega]

theorem rows_length (ch : Def → List Ty) (T : Table) : (rows ch T).length = T.length := by
  simp [rows, build_nil_length]

theorem rows_get {ch : Def → List Ty} (hsub : ∀ d c, c ∈ ch d → c ∈ d.refs) {T : Table}
    (hwf : WF T) {i : Nat} {d : Def} (hd : T[i]? = some d) :
    (rows ch T)[i]? = some (.id i :: (ch d).flatMap (rowTy (rows ch T))) := by
  have hi : i < T.length := (List.getElem?_eq_some_iff.mp hd).1
  have hg : T[i] = d := (List.getElem?_eq_some_iff.mp hd).2
  have := build_nil_getElem? (fun memo d => Ty.id memo.length :: (ch d).flatMap (rowTy memo)) T i hi
  have hlen : ((rows ch T).take i).length = i := by simp [rows_length]; omega
  unfold rows at *
  rw [this, hg, hlen]
  have hfm : ∀ (l : List Ty), (∀ c ∈ l, c ∈ ch d) →
      l.flatMap (rowTy ((build (fun memo d => Ty.id memo.length :: (ch d).flatMap (rowTy memo)) T []).take i)) =
      l.flatMap (rowTy (build (fun memo d => Ty.id memo.length :: (ch d).flatMap (rowTy memo)) T [])) := by
    intro l
    induction l with
    | nil => intro _; rfl
    | cons c cs ihl =>
      intro hl
      simp only [List.flatMap_cons]
      rw [ihl (fun x hx => hl x (by simp [hx])),
        rowTy_take _ i c (hwf.ref_size_le hd (hsub d c (hl c (by simp))))]
  rw [hfm (ch d) (fun _ h => h)]

/-- the list the monitor computes is exactly the declarative reachability relation -/
theorem mem_reachList_iff {ch : Def → List Ty} (hsub : ∀ d c, c ∈ ch d → c ∈ d.refs) {T : Table}
    (hwf : WF T) : ∀ (t : Ty), t.size ≤ T.length → ∀ s, (s ∈ reachList ch T t ↔ Reach ch T t s) := by
  have hprim : ∀ (p : Prim) s, (s ∈ reachList ch T (.prim p) ↔ Reach ch T (.prim p) s) := by
    intro p s
    simp only [reachList, rowTy, List.mem_singleton]
    constructor
    · rintro rfl; exact .refl _
    · exact reach_prim
  intro t
  cases t with
  | prim p => intro _; exact hprim p
  | id i =>
    induction i using Nat.strongRecOn with
    | _ i ih =>
      intro hi s
      have hj : (Ty.id i).size = i + 1 := rfl
      rw [hj] at hi
      have hd : T[i]? = some T[i] := by simp [show i < T.length by omega]
      have hchild : ∀ c ∈ ch T[i], ∀ s, (s ∈ reachList ch T c ↔ Reach ch T c s) := by
        intro c hc
        have hsz := hwf.ref_size_le hd (hsub _ c hc)
        cases c with
        | prim p => exact hprim p
        | id j =>
          have hj' : (Ty.id j).size = j + 1 := rfl
          rw [hj'] at hsz
          exact ih j (by omega) (by rw [hj']; omega)
      simp only [reachList, rowTy, List.getD_eq_getElem?_getD, rows_get hsub hwf hd, Option.getD_some,
        List.mem_cons, List.mem_flatMap]
      constructor
      · rintro (rfl | ⟨c, hc, hs⟩)
        · exact .refl _
        · exact .step i _ c s hd hc ((hchild c hc s).mp hs)
      · intro h
        cases h with
        | refl => exact Or.inl rfl
        | step i d c s hd' hc hcs =>
          rw [hd] at hd'; cases hd'
          exact Or.inr ⟨c, hc, (hchild c hc s).mpr hcs⟩

theorem hasNodeB_iff {T : Table} (hwf : WF T) (node : Ty → Bool) (t : Ty) (ht : t.size ≤ T.length) :
    hasNodeB T node t = true ↔ HasNode T node t := by
  simp only [hasNodeB, HasNode, List.any_eq_true]
  constructor
  · rintro ⟨s, hs, hn⟩
    exact ⟨s, (mem_reachList_iff valueChildren_sub hwf t ht s).mp hs, hn⟩
  · rintro ⟨s, hs, hn⟩
    exact ⟨s, (mem_reachList_iff valueChildren_sub hwf t ht s).mpr hs, hn⟩


/-! ### usage facts: the marks of `type_info_func` -/

theorem modifyAt_spec {l l' : List TypeInfo} {i : Nat} {g : TypeInfo → TypeInfo}
    (h : modifyAt l i g = some l') :
    l'.length = l.length ∧ ∀ a, l'[a]? = (l[a]?).map (fun x => if a = i then g x else x) := by
  unfold modifyAt at h
  split at h
  · rename_i x hx
    simp only [Option.some.injEq] at h
    subst h
    refine ⟨by simp, ?_⟩
    intro a
    rw [List.getElem?_set]
    by_cases hai : i = a
    · subst hai
      obtain ⟨hlt, hxe⟩ := List.getElem?_eq_some_iff.mp hx
      simp [hlt, hxe]
    · have : ¬ a = i := fun e => hai e.symm
      simp only [hai, if_false, this]
      cases l[a]? <;> simp
  · simp at h

theorem markLive_spec (named : List Bool) (g : TypeInfo → TypeInfo) (hg : ∀ x, g (g x) = g x) :
    ∀ (ids : List Nat) (infos infos' : List TypeInfo), markLive named g ids infos = some infos' →
      infos'.length = infos.length ∧
      ∀ a, infos'[a]? = (infos[a]?).map
        (fun x => if a ∈ ids ∧ named.getD a false = true then g x else x) := by
  intro ids
  induction ids with
  | nil =>
    intro infos infos' h
    simp only [markLive, Option.some.injEq] at h
    subst h
    exact ⟨rfl, fun a => by cases infos[a]? <;> simp⟩
  | cons id ids ih =>
    intro infos infos' h
    simp only [markLive] at h
    split at h
    · simp at h
    · rename_i hn
      split at h
      · simp at h
      · rename_i infos1 hm
        obtain ⟨hl1, hg1⟩ := modifyAt_spec hm
        obtain ⟨hl2, hg2⟩ := ih infos1 infos' h
        refine ⟨by rw [hl2, hl1], ?_⟩
        intro a
        rw [hg2 a, hg1 a]
        cases infos[a]? with
        | none => simp
        | some x =>
          simp only [Option.map_some, Option.some.injEq, List.mem_cons]
          by_cases hai : a = id
          · subst hai
            by_cases hin : a ∈ ids <;> simp [hin, hn, hg]
          · simp [hai]
    · rename_i hn
      obtain ⟨hl2, hg2⟩ := ih infos infos' h
      refine ⟨hl2, ?_⟩
      intro a
      rw [hg2 a]
      cases infos[a]? with
      | none => simp
      | some x =>
        simp only [Option.map_some, Option.some.injEq, List.mem_cons]
        by_cases hai : a = id
        · subst hai; simp [hn]
        · simp [hai]


/-- what one call of `type_info_func` marks on type `a` -/
def Marked (T : Table) (named : List Bool) (fn : Func) (a : Nat) : Flag → Prop
  | .borrowed => fn.isImport = true ∧ named.getD a false = true ∧ a ∈ fn.paramLive
  | .owned => named.getD a false = true ∧
      ((fn.isImport = false ∧ a ∈ fn.paramLive) ∨ a ∈ fn.resultLive)
  | .error => ∃ r rd ok e, fn.result = some (.id r) ∧ resolveTypeDefinitionId T (r + 1) r = some rd ∧
      T[rd]? = some (.result ok (some (.id e))) ∧ resolveTypeDefinitionId T (e + 1) e = some a
  | _ => False

theorem step_get {infos infos' : List TypeInfo} {g : TypeInfo → TypeInfo} {fl : Flag} {C : Nat → Prop}
    [DecidablePred C]
    (hg : ∀ x f, (g x).get f = (decide (f = fl) || x.get f))
    (h : ∀ a, infos'[a]? = (infos[a]?).map (fun x => if C a then g x else x))
    (a : Nat) (f : Flag) :
    (infos'.getD a {}).get f = ((decide (C a) && decide (f = fl) && decide (a < infos.length)) || (infos.getD a {}).get f) := by
  simp only [List.getD_eq_getElem?_getD, h a]
  by_cases hlt : a < infos.length
  · have : infos[a]? = some infos[a] := by simp [hlt]
    rw [this]
    by_cases hc : C a <;> simp [hc, hg, hlt]
  · have : infos[a]? = none := by simp; omega
    rw [this]
    simp [TypeInfo.default_get, hlt]

theorem setBorrowed_get (x : TypeInfo) (f : Flag) :
    ({ x with borrowed := true } : TypeInfo).get f = (decide (f = .borrowed) || x.get f) := by
  cases f <;> simp [TypeInfo.get]
theorem setOwned_get (x : TypeInfo) (f : Flag) :
    ({ x with owned := true } : TypeInfo).get f = (decide (f = .owned) || x.get f) := by
  cases f <;> simp [TypeInfo.get]
theorem setError_get (x : TypeInfo) (f : Flag) :
    ({ x with error := true } : TypeInfo).get f = (decide (f = .error) || x.get f) := by
  cases f <;> simp [TypeInfo.get]

theorem typeInfoFunc_spec {T : Table} {named : List Bool} {infos infos' : List TypeInfo} {fn : Func}
    (h : typeInfoFunc T named infos fn = some infos') :
    infos'.length = infos.length ∧ ∀ a f, a < infos.length →
      ((infos'.getD a {}).get f = true ↔ (infos.getD a {}).get f = true ∨ Marked T named fn a f) := by
  unfold typeInfoFunc at h
  split at h
  · simp at h
  rename_i infos1 h1
  split at h
  · simp at h
  rename_i infos2 h2
  -- the two `LiveTypes` loops
  have hP : ∀ a f, (infos1.getD a {}).get f =
      ((decide (a ∈ fn.paramLive ∧ named.getD a false = true) &&
        decide (f = (if fn.isImport then Flag.borrowed else Flag.owned)) && decide (a < infos.length))
        || (infos.getD a {}).get f) := by
    intro a f
    cases hi : fn.isImport
    · rw [hi] at h1
      have := markLive_spec named (fun i => { i with owned := true }) (fun x => rfl) _ _ _
        (by simpa using h1)
      simpa using step_get (fl := .owned) (C := fun a => a ∈ fn.paramLive ∧ named.getD a false = true)
        setOwned_get this.2 a f
    · rw [hi] at h1
      have := markLive_spec named (fun i => { i with borrowed := true }) (fun x => rfl) _ _ _
        (by simpa using h1)
      simpa using step_get (fl := .borrowed) (C := fun a => a ∈ fn.paramLive ∧ named.getD a false = true)
        setBorrowed_get this.2 a f
  have hl1 : infos1.length = infos.length := by
    cases hi : fn.isImport
    · rw [hi] at h1
      exact (markLive_spec named (fun i => { i with owned := true }) (fun x => rfl) _ _ _
        (by simpa using h1)).1
    · rw [hi] at h1
      exact (markLive_spec named (fun i => { i with borrowed := true }) (fun x => rfl) _ _ _
        (by simpa using h1)).1
  have hR := markLive_spec named (fun i => { i with owned := true }) (fun x => rfl) _ _ _ h2
  have hl2 : infos2.length = infos.length := by rw [hR.1, hl1]
  have hRg : ∀ a f, (infos2.getD a {}).get f =
      ((decide (a ∈ fn.resultLive ∧ named.getD a false = true) && decide (f = Flag.owned)
        && decide (a < infos1.length)) || (infos1.getD a {}).get f) := fun a f =>
    step_get (fl := .owned) (C := fun a => a ∈ fn.resultLive ∧ named.getD a false = true)
      setOwned_get hR.2 a f
  -- everything except the error mark
  have hbase : ∀ a f, a < infos.length → ((infos2.getD a {}).get f = true ↔
      (infos.getD a {}).get f = true ∨ (f ≠ .error ∧ Marked T named fn a f)) := by
    intro a f ha
    rw [hRg, hP, hl1]
    cases hi : fn.isImport <;> cases f <;> simp [Marked, ha, hi] <;> grind
  split at h
  · rename_i r hres
    split at h
    · simp at h
    rename_i rd hrd
    split at h
    · simp at h
    · rename_i ok e hT
      split at h
      · simp at h
      · rename_i d hd
        obtain ⟨hl3, hg3⟩ := modifyAt_spec h
        refine ⟨by rw [hl3, hl2], ?_⟩
        intro a f ha
        have := step_get (fl := .error) (C := fun a => a = d) setError_get hg3 a f
        rw [this, Bool.or_eq_true, hbase a f ha]
        cases f <;> simp [Marked, hl2, ha, hres, hrd, hT] <;> grind
    · rename_i val hcontra hne
      simp only [Option.some.injEq] at h
      subst h
      refine ⟨hl2, ?_⟩
      intro a f ha
      rw [hbase a f ha]
      have hno : ¬ Marked T named fn a .error := by
        rintro ⟨r', rd', ok, e, h1, h1', h2, _⟩
        rw [hres] at h1; cases h1
        rw [hrd] at h1'; cases h1'
        rw [hne] at h2; cases h2
        exact hcontra ok e rfl
      cases f <;> simp [hno]
  · rename_i hcontra
    simp only [Option.some.injEq] at h
    subst h
    refine ⟨hl2, ?_⟩
    intro a f ha
    rw [hbase a f ha]
    have hno : ¬ Marked T named fn a .error := by
      rintro ⟨r', _, ok, e, h1, _, _, _⟩
      exact hcontra r' h1
    cases f <;> simp [hno]


theorem analyzeFuncs_spec {T : Table} {named : List Bool} :
    ∀ (funcs : List Func) (infos infos' : List TypeInfo),
      analyzeFuncs T named funcs infos = some infos' →
      infos'.length = infos.length ∧ ∀ a f, a < infos.length →
        ((infos'.getD a {}).get f = true ↔
          (infos.getD a {}).get f = true ∨ ∃ fn ∈ funcs, Marked T named fn a f) := by
  intro funcs
  induction funcs with
  | nil =>
    intro infos infos' h
    simp only [analyzeFuncs, Option.some.injEq] at h
    subst h
    exact ⟨rfl, fun a f _ => by simp⟩
  | cons fn fns ih =>
    intro infos infos' h
    simp only [analyzeFuncs] at h
    split at h
    · simp at h
    · rename_i infos1 h1
      obtain ⟨hl1, hs1⟩ := typeInfoFunc_spec h1
      obtain ⟨hl2, hs2⟩ := ih infos1 infos' h
      refine ⟨by rw [hl2, hl1], ?_⟩
      intro a f ha
      rw [hs2 a f (by rw [hl1]; exact ha), hs1 a f ha]
      simp only [List.mem_cons, exists_eq_or_imp]
      constructor
      · rintro ((h | h) | h)
        · exact Or.inl h
        · exact Or.inr (Or.inl h)
        · exact Or.inr (Or.inr h)
      · rintro (h | h | h)
        · exact Or.inl (Or.inl h)
        · exact Or.inl (Or.inr h)
        · exact Or.inr h

/-- `Types::analyze`: every fact of every type is its content fact or a mark of some function. -/
theorem analyze_spec {T : Table} (hwf : WF T) {named : List Bool} {funcs : List Func}
    {infos : List TypeInfo} (h : analyze T named funcs = some infos) :
    infos.length = T.length ∧ ∀ a f, a < T.length →
      ((infos.getD a {}).get f = true ↔
        (∃ s, Contains T (.id a) s ∧ nodeFlag T f s = true) ∨ ∃ fn ∈ funcs, Marked T named fn a f) := by
  obtain ⟨hl, hs⟩ := analyzeFuncs_spec funcs _ _ h
  rw [analyzeTypes_length] at hl hs
  refine ⟨hl, ?_⟩
  intro a f ha
  rw [hs a f ha, ← content_get hwf f (.id a)]
  rfl


end Witverif.Text.TypesEq
