import Witverif.Text.TypesEq
/-! Helper lemmas for C28, part 1: the bottom-up `build`, well-formedness, shapes. -/
namespace Witverif.Text.TypesEq

/-! ### `build` -/

theorem build_length {α : Type} (f : List α → Def → α) :
    ∀ (ds : List Def) (acc : List α), (build f ds acc).length = acc.length + ds.length := by
  intro ds
  induction ds with
  | nil => intro acc; simp [build]
  | cons d ds ih => intro acc; simp [build, ih]; omega

theorem build_prefix {α : Type} (f : List α → Def → α) :
    ∀ (ds : List Def) (acc : List α), (build f ds acc).take acc.length = acc := by
  intro ds
  induction ds with
  | nil => intro acc; simp [build]
  | cons d ds ih =>
    intro acc
    have h := ih (acc ++ [f acc d])
    have h2 := congrArg (List.take acc.length) h
    simp only [build]
    rw [List.take_take] at h2
    simpa [Nat.min_eq_left] using h2

theorem build_getElem? {α : Type} (f : List α → Def → α) :
    ∀ (ds : List Def) (acc : List α) (i : Nat) (h : i < ds.length),
      (build f ds acc)[acc.length + i]? =
        some (f ((build f ds acc).take (acc.length + i)) ds[i]) := by
  intro ds
  induction ds with
  | nil => intro acc i h; simp at h
  | cons d ds ih =>
    intro acc i h
    simp only [build]
    cases i with
    | zero =>
      have hp := build_prefix f ds (acc ++ [f acc d])
      have hl : (acc ++ [f acc d]).length = acc.length + 1 := by simp
      rw [hl] at hp
      have h1 : (build f ds (acc ++ [f acc d])).take acc.length = acc := by
        have := congrArg (List.take acc.length) hp
        rw [List.take_take] at this
        simpa [Nat.min_eq_left] using this
      have h2 : (build f ds (acc ++ [f acc d]))[acc.length]? = some (f acc d) := by
        have : ((build f ds (acc ++ [f acc d])).take (acc.length + 1))[acc.length]? = some (f acc d) := by
          rw [hp]; simp
        rw [List.getElem?_take] at this
        simpa using this
      simp [h1, h2]
    | succ j =>
      have := ih (acc ++ [f acc d]) j (by simpa using h)
      have hl : (acc ++ [f acc d]).length + j = acc.length + (j + 1) := by simp; omega
      rw [hl] at this
      simpa using this

/-- Entry `i` of a built table is `f` applied to the entries before it. -/
theorem build_nil_getElem? {α : Type} (f : List α → Def → α) (T : List Def) (i : Nat)
    (h : i < T.length) :
    (build f T [])[i]? = some (f ((build f T []).take i) T[i]) := by
  have := build_getElem? f T [] i h
  simpa using this

theorem build_nil_length {α : Type} (f : List α → Def → α) (T : List Def) :
    (build f T []).length = T.length := by
  simp [build_length]

/-! ### well-formedness -/

theorem wfFrom_spec : ∀ (ds : List Def) (k : Nat), wfFrom k ds = true →
    ∀ (i : Nat) (d : Def), ds[i]? = some d → ∀ j, Ty.id j ∈ d.refs → j < k + i := by
  intro ds
  induction ds with
  | nil => intro k _ i d h; simp at h
  | cons d0 ds ih =>
    intro k hw i d h j hj
    simp only [wfFrom, Bool.and_eq_true, List.all_eq_true] at hw
    cases i with
    | zero =>
      simp at h; subst h
      have := hw.1 _ hj
      simpa [Ty.ltB] using this
    | succ i' =>
      simp at h
      have := ih (k + 1) hw.2 i' d h j hj
      omega

/-- The usable form of `WF`: every reference points to a smaller index. -/
theorem WF.ref_lt {T : Table} (h : WF T) {i : Nat} {d : Def} (hd : T[i]? = some d) {j : Nat}
    (hj : Ty.id j ∈ d.refs) : j < i := by
  have := wfFrom_spec T 0 h i d hd j hj
  simpa using this

/-- size of a type expression: 0 for primitives, index + 1 for a reference -/
def Ty.size : Ty → Nat
  | .prim _ => 0
  | .id i => i + 1

theorem WF.ref_size_le {T : Table} (h : WF T) {i : Nat} {d : Def} (hd : T[i]? = some d) {t : Ty}
    (ht : t ∈ d.refs) : t.size ≤ i := by
  cases t with
  | prim p => simp [Ty.size]
  | id j => have := h.ref_lt hd ht; simp [Ty.size]; omega

end Witverif.Text.TypesEq

namespace Witverif.Text.TypesEqSpec
open Witverif.Text.TypesEq

/-! ### shapes -/

theorem Shapes.ofList_inj : ∀ (a b : List Shape), Shapes.ofList a = Shapes.ofList b ↔ a = b := by
  intro a
  induction a with
  | nil => intro b; cases b <;> simp [Shapes.ofList]
  | cons x xs ih => intro b; cases b <;> simp [Shapes.ofList, ih]

theorem shapes_length (T : Table) : (shapes T).length = T.length := by
  simp [shapes, build_nil_length]

/-- lookups of smaller indices are unaffected by truncating the memo table -/
theorem shapeTy_take (memo : List Shape) (i : Nat) (t : Ty) (h : t.size ≤ i) :
    shapeTy (memo.take i) t = shapeTy memo t := by
  cases t with
  | prim p => rfl
  | id j =>
    simp [Ty.size] at h
    simp only [shapeTy, List.getD_eq_getElem?_getD]
    rw [List.getElem?_take]
    simp [show j < i by omega]

theorem shapeOpt_take (memo : List Shape) (i : Nat) (t : Option Ty)
    (h : ∀ x, t = some x → x.size ≤ i) :
    shapeOpt (memo.take i) t = shapeOpt memo t := by
  cases t with
  | none => rfl
  | some x => simp [shapeOpt, shapeTy_take memo i x (h x rfl)]

theorem shapeDef_take (memo : List Shape) (i self : Nat) (d : Def)
    (h : ∀ t ∈ d.refs, t.size ≤ i) :
    shapeDef (memo.take i) self d = shapeDef memo self d := by
  cases d with
  | record fs =>
    simp only [shapeDef, Shape.node.injEq, true_and, Shapes.ofList_inj]
    apply List.map_congr_left
    intro f hf
    exact shapeTy_take memo i f.2 (h _ (by simp only [Def.refs, List.mem_map]; exact ⟨f, hf, rfl⟩))
  | variant cs =>
    simp only [shapeDef, Shape.node.injEq, true_and, Shapes.ofList_inj]
    apply List.map_congr_left
    intro c hc
    apply shapeOpt_take
    intro x hx
    apply h
    simp only [Def.refs, List.mem_flatMap]
    exact ⟨c, hc, by simp [hx, optTys]⟩
  | tuple ts =>
    simp only [shapeDef, Shape.node.injEq, true_and, Shapes.ofList_inj]
    apply List.map_congr_left
    intro t ht
    exact shapeTy_take memo i t (h _ (by simpa [Def.refs] using ht))
  | result ok err =>
    simp only [shapeDef]
    rw [shapeOpt_take memo i ok, shapeOpt_take memo i err]
    · intro x hx; apply h; simp [Def.refs, hx, optTys]
    · intro x hx; apply h; simp [Def.refs, hx, optTys]
  | map k v =>
    simp only [shapeDef]
    rw [shapeTy_take memo i k (h _ (by simp [Def.refs])), shapeTy_take memo i v (h _ (by simp [Def.refs]))]
  | future t =>
    simp only [shapeDef]
    rw [shapeOpt_take memo i t]
    intro x hx; apply h; simp [Def.refs, hx, optTys]
  | stream t =>
    simp only [shapeDef]
    rw [shapeOpt_take memo i t]
    intro x hx; apply h; simp [Def.refs, hx, optTys]
  | alias t => simp only [shapeDef]; exact shapeTy_take memo i t (h _ (by simp [Def.refs]))
  | option t => simp only [shapeDef]; rw [shapeTy_take memo i t (h _ (by simp [Def.refs]))]
  | list t => simp only [shapeDef]; rw [shapeTy_take memo i t (h _ (by simp [Def.refs]))]
  | fixedList t n => simp only [shapeDef]; rw [shapeTy_take memo i t (h _ (by simp [Def.refs]))]
  | own r => simp only [shapeDef]; rw [shapeTy_take memo i (.id r) (h _ (by simp [Def.refs]))]
  | borrow r => simp only [shapeDef]; rw [shapeTy_take memo i (.id r) (h _ (by simp [Def.refs]))]
  | resource => rfl
  | enum ns => rfl
  | flags ns => rfl

/-- **Unfolding equation of `shape`**: the shape of a defined type is the shape of its definition
over the shapes of its components. -/
theorem shape_id {T : Table} (hwf : WF T) {i : Nat} {d : Def} (hd : T[i]? = some d) :
    shape T (.id i) = shapeDef (shapes T) i d := by
  have hi : i < T.length := by
    rcases List.getElem?_eq_some_iff.mp hd with ⟨h, _⟩; exact h
  have hg : T[i] = d := by
    rcases List.getElem?_eq_some_iff.mp hd with ⟨_, h⟩; exact h
  have := build_nil_getElem? (fun memo d => shapeDef memo memo.length d) T i hi
  have hlen : ((shapes T).take i).length = i := by
    simp [shapes_length]; omega
  simp only [shape, shapeTy, List.getD_eq_getElem?_getD]
  unfold shapes at *
  rw [this]
  simp only [Option.getD_some, hg]
  rw [hlen]
  exact shapeDef_take _ i i d (fun t ht => hwf.ref_size_le hd ht)

theorem shape_prim (T : Table) (p : Prim) : shape T (.prim p) = .node (.prim p) .nil := rfl

end Witverif.Text.TypesEqSpec
