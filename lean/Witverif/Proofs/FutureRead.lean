import Witverif.Proofs.Chan
import Witverif.Async.ChanSpec
/-! C20, guest-reader future channel: the states reachable by legal labels (`FRShape`), the invariant
tying them to the state of the specification monitor `ChanSpec`, and the proof that every legal step is
panic-free, trap-free, accepted by the monitor and re-establishes the invariant (`fr_step_safe`).
Exhaustive over shape × label × host answer × task ABI version × payload kind; each leaf is closed by
evaluating the model step and the monitor. -/
namespace Witverif.Async
open Witverif.Generated
open Witverif.Async.ChanSpec (CSpec CMon)
open Witverif.Async.Host (CopySt)

/-- parameters of a future-reader channel: index, handle of the readable end, payload kind, task -/
structure FRP where
  c : Nat
  hd : Nat
  kind : PKind
  tp : Nat
  v : Nat

def FRP.k (p : FRP) : CSpec := ⟨p.c, true, false, true, p.kind == .lists⟩
def FRP.t (p : FRP) : CurTask := ⟨p.tp, p.v⟩
def FRP.g0 (p : FRP) : GChan := { c := p.c, fut := true, gw := false, kind := p.kind, adapter := false }
/-- `CabiTask` of an operation of this task (v2 only) -/
def FRP.task (p : FRP) (reg : Option Nat) : Option CabiTask := if p.v = 2 then some ⟨p.tp, reg⟩ else none

inductive FRShape
  | closed
  | idle
  | unpolled
  | waiting (got : Bool)
  | queued
  | gone (st : CopySt) (nextItem : Nat) (given : List Nat)

def frSys (p : FRP) : FRShape → ChanSys
  | .closed => ⟨p.g0, { e := { fut := true, writer := false } }, ⟨some p.t, []⟩⟩
  | .idle => ⟨{ p.g0 with opened := true, fr := some p.hd }, { e := { fut := true, writer := false }, handle := p.hd }, ⟨some p.t, []⟩⟩
  | .unpolled =>
    ⟨{ p.g0 with opened := true, act := .fread (WOp.new ⟨p.c, p.hd, false, none⟩) },
     { e := { fut := true, writer := false }, handle := p.hd }, ⟨some p.t, []⟩⟩
  | .waiting got =>
    ⟨{ p.g0 with opened := true,
                 act := .fread ⟨.inProgress ⟨p.c, p.hd, true, if got then some 1 else none⟩, none, true, p.task (some p.hd)⟩ },
     { e := { fut := true, writer := false, st := .copying, n := 1, progress := if got then 1 else 0,
              pending := if got then some Host.COMPLETED else none },
       handle := p.hd, nextItem := if got then 2 else 1, given := if got then [1] else [] },
     ⟨some p.t, [(p.tp, p.hd)]⟩⟩
  | .queued =>
    ⟨{ p.g0 with opened := true,
                 act := .fread ⟨.inProgress ⟨p.c, p.hd, true, some 1⟩, some Host.COMPLETED, false, p.task (some p.hd)⟩ },
     { e := { fut := true, writer := false, st := .done }, handle := p.hd, nextItem := 2, given := [1] },
     ⟨some p.t, []⟩⟩
  | .gone st ni gv =>
    ⟨{ p.g0 with opened := true },
     { e := { fut := true, writer := false, st := st }, handle := p.hd, nextItem := ni, given := gv, gone := true },
     ⟨some p.t, []⟩⟩

/-- what the monitor must know in each shape (fields not mentioned are irrelevant for acceptance) -/
def frMon (p : FRP) (m : CMon) : FRShape → Prop
  | .closed => m = {}
  | .idle => m.handle = p.hd ∧ m.rust = [] ∧ m.inbuf = [] ∧ m.got = [] ∧ m.slab = false ∧ m.given = 0 ∧
      m.returned = [] ∧ m.endDrops = 0 ∧ m.sent = [] ∧ m.win = []
  | .unpolled => m.handle = p.hd ∧ m.rust = [] ∧ m.inbuf = [] ∧ m.got = [] ∧ m.slab = false ∧ m.given = 0 ∧
      m.returned = [] ∧ m.endDrops = 0 ∧ m.sent = [] ∧ m.win = [] ∧ m.started = false ∧ m.lastCode = none
  | .waiting got => m.handle = p.hd ∧ m.rust = [] ∧ m.inbuf = (if got then [1] else []) ∧ m.got = [] ∧ m.slab = true ∧
      m.given = (if got then 1 else 0) ∧ m.returned = [] ∧ m.endDrops = 0 ∧ m.sent = [] ∧ m.win = [] ∧ m.started = true ∧
      m.lastCode = none
  | .queued => m.handle = p.hd ∧ m.rust = [] ∧ m.inbuf = [1] ∧ m.got = [] ∧ m.slab = true ∧ m.given = 1 ∧
      m.returned = [] ∧ m.endDrops = 0 ∧ m.sent = [] ∧ m.win = [] ∧ m.started = true ∧ m.lastCode = some Host.COMPLETED
  | .gone st _ gv => m.handle = p.hd ∧ st ≠ .copying ∧ m.endDrops = 1 ∧ ChanSpec.complete p.k m = .ok () ∧ gv.length ≤ 1 ∧ m.returned.length ≤ 1

def FRInvAt (p : FRP) (s : ChanSys) (m : CMon) (sh : FRShape) : Prop := s = frSys p sh ∧ frMon p m sh

def FRInv (p : FRP) (s : ChanSys) (m : CMon) : Prop :=
  p.hd ≠ 0 ∧ (p.v = 1 ∨ p.v = 2) ∧ ∃ sh, FRInvAt p s m sh

/-- outcome of a step is good: no panic, no host trap, the monitor accepts the events, invariant again -/
def FRGood (p : FRP) (m : CMon) : Step ChanSys → Prop
  | .ok s' evs => s'.h.trapped = false ∧ match ChanSpec.run p.k m evs with
    | .ok m' => FRInv p s' m'
    | .error _ => False
  | .panic _ _ => False

end Witverif.Async

namespace Witverif.Async
open Witverif.Generated
open Witverif.Async.ChanSpec (CSpec CMon)
open Witverif.Async.Host (CopySt)

def FRLegal (p : FRP) (s : ChanSys) (l : CLabel) : Prop :=
  CLegal s l ∧ (∀ h1 h2, l = .opn h1 h2 → h1 = p.hd)

/-- the brute-force evaluator: unfold the model step, the host, the monitor and the invariant -/
macro "fr_eval" : tactic => `(tactic|
  simp (config := { decide := true }) [FRGood, FRInv, frSys, FRP.g0, FRP.t, FRP.k, FRP.task, ChanSys.step, ChanSys.absorb,
    ChanSys.syncCopy, ChanSys.syncCancel, GChan.starting, wopStarting, WOp.new, copyMoves, cancelMoves, GChan.poll, GChan.cancelOp,
    GChan.dropAct, GChan.close, GChan.skip, GChan.put, GChan.wake, GChan.keptDrop, frPut, Act.isNone, evSkip, evP, evXf, evVd, evLi, evFdr,
    futureReadPoll, futureReadCancel, pollComplete, pollCompleteWithCode, cancel, cancelPrepare, cabiWake, dropOpC, taskDropEvs,
    futureReadOps, futureReadUpdate, RetCode.decode, Step.bind, Step.emit, registerWaker, unregisterWaker, CabiTask.dropEvs,
    hostApplyAll, hostApply, hostCopy, hostCancel, hostDrop, HChan.moveIds, HChan.moved, HChan.trap,
    Host.End.copyTrap, Host.End.afterCopy, Host.End.cancelTrap, Host.End.afterCancel, Host.End.dropTrap, Host.End.takeEvent,
    Host.End.afterXfer, Host.End.afterPeerDrop, Host.End.stAfter, Host.End.legalXfer, Host.End.legalPeerDrop,
    Host.BLOCKED, Host.COMPLETED, Host.DROPPED, Host.CANCELLED, Host.codeBase, Host.codeCount, Host.packCode,
    ChanSpec.run, ChanSpec.step, ChanSpec.told, ChanSpec.complete, ChanSpec.handedBack, *])

/-- check a candidate successor shape -/
macro "fr_chk" : tactic => `(tactic|
  simp (config := { decide := true }) [FRInvAt, frSys, frMon, FRP.g0, FRP.t, FRP.k, FRP.task, WOp.new, ChanSpec.complete,
    Host.COMPLETED, *])

/-- choose the successor shape -/
macro "fr_pick" : tactic => `(tactic| first
  | (refine ⟨.closed, ?_⟩; fr_chk; done)
  | (refine ⟨.idle, ?_⟩; fr_chk; done)
  | (refine ⟨.unpolled, ?_⟩; fr_chk; done)
  | (refine ⟨.waiting false, ?_⟩; fr_chk; done)
  | (refine ⟨.waiting true, ?_⟩; fr_chk; done)
  | (refine ⟨.queued, ?_⟩; fr_chk; done)
  | (refine ⟨.gone .done 2 [1], ?_⟩; fr_chk; done)
  | (refine ⟨.gone .idle 1 [], ?_⟩; fr_chk; done)
  | (refine ⟨.gone .idle 2 [1], ?_⟩; fr_chk; done)
  | (refine ⟨.gone .done 1 [], ?_⟩; fr_chk; done))

macro "fr_go" : tactic => `(tactic| (fr_eval; try fr_pick))

theorem fr_closed (p : FRP) (m : CMon) (hh : p.hd ≠ 0) (hv : p.v = 1 ∨ p.v = 2) (hm : frMon p m .closed) (l : CLabel)
    (hl : FRLegal p (frSys p .closed) l) : FRGood p m ((frSys p .closed).step l) := by
  simp only [frMon] at hm
  subst hm
  obtain ⟨hl, hopn⟩ := hl
  cases l with
  | opn h1 h2 =>
    have := hopn h1 h2 rfl
    subst this
    clear hopn hl
    fr_go
  | peerXfer k => simp [CLegal, frSys, Host.End.legalXfer] at hl
  | deliver => simp [CLegal, frSys] at hl
  | deferStart ans => simp [CLegal, frSys, FRP.g0] at hl
  | close ex ans => clear hopn hl; cases ex <;> fr_go
  | _ => clear hopn hl; fr_go

macro "fr_legal" : tactic => `(tactic|
  simp (config := { decide := true }) [CLegal, frSys, FRP.g0, FRP.t, FRP.task, GChan.offer, GChan.cancels, WOp.cancelAsks, WOp.new,
    Host.End.legalXfer, Host.End.legalPeerDrop, Host.End.legalImmediate, Host.End.legalCancelRet, Host.End.copyTrap, Host.End.cancelTrap,
    Host.BLOCKED, Host.COMPLETED, Host.DROPPED, Host.CANCELLED] at *)

theorem fr_idle (p : FRP) (m : CMon) (hh : p.hd ≠ 0) (hv : p.v = 1 ∨ p.v = 2) (hm : frMon p m .idle) (l : CLabel)
    (hl : FRLegal p (frSys p .idle) l) : FRGood p m ((frSys p .idle).step l) := by
  simp only [frMon] at hm
  obtain ⟨hl, hopn⟩ := hl
  clear hopn
  cases l with
  | peerXfer k => fr_legal
  | deliver => fr_legal
  | deferStart ans => fr_legal
  | close ex ans => clear hl; cases ex <;> fr_go
  | _ => clear hl; fr_go

theorem fr_unpolled (p : FRP) (m : CMon) (hh : p.hd ≠ 0) (hv : p.v = 1 ∨ p.v = 2) (hm : frMon p m .unpolled) (l : CLabel)
    (hl : FRLegal p (frSys p .unpolled) l) : FRGood p m ((frSys p .unpolled).step l) := by
  simp only [frMon] at hm
  obtain ⟨hl, hopn⟩ := hl
  clear hopn
  cases l with
  | peerXfer k => fr_legal
  | deliver => fr_legal
  | deferStart ans => fr_legal
  | poll ans =>
    have : ans = Host.BLOCKED ∨ ans = Host.COMPLETED := by fr_legal; exact hl
    clear hl
    rcases hv with hv | hv <;> rcases this with rfl | rfl <;> fr_go
  | close ex ans => clear hl; cases ex <;> fr_go
  | _ => clear hl; fr_go

theorem fr_waiting (p : FRP) (m : CMon) (got : Bool) (hh : p.hd ≠ 0) (hv : p.v = 1 ∨ p.v = 2) (hm : frMon p m (.waiting got)) (l : CLabel)
    (hl : FRLegal p (frSys p (.waiting got)) l) : FRGood p m ((frSys p (.waiting got)).step l) := by
  simp only [frMon] at hm
  obtain ⟨hl, hopn⟩ := hl
  clear hopn
  cases l with
  | deferStart ans => fr_legal
  | peerDrop => cases got <;> fr_legal
  | peerXfer k =>
    cases got
    · have : k = 1 := by fr_legal; omega
      subst this; clear hl
      rcases hv with hv | hv <;> fr_go
    · fr_legal; omega
  | deliver =>
    cases got
    · fr_legal
    · clear hl; rcases hv with hv | hv <;> fr_go
  | poll ans => clear hl; cases got <;> rcases hv with hv | hv <;> fr_go
  | cancel ans =>
    cases got
    · have : ans = Host.CANCELLED ∨ ans = Host.COMPLETED := by fr_legal; exact hl
      clear hl
      rcases hv with hv | hv <;> rcases this with rfl | rfl <;> fr_go
    · have : ans = Host.COMPLETED := by fr_legal; exact hl
      subst this; clear hl
      rcases hv with hv | hv <;> fr_go
  | dropOp ans =>
    cases got
    · have : ans = Host.CANCELLED ∨ ans = Host.COMPLETED := by fr_legal; exact hl
      clear hl
      rcases hv with hv | hv <;> rcases this with rfl | rfl <;> fr_go
    · have : ans = Host.COMPLETED := by fr_legal; exact hl
      subst this; clear hl
      rcases hv with hv | hv <;> fr_go
  | close ex ans =>
    cases got
    · have : ans = Host.CANCELLED ∨ ans = Host.COMPLETED := by fr_legal; exact hl
      clear hl
      cases ex <;> rcases hv with hv | hv <;> rcases this with rfl | rfl <;> fr_go
    · have : ans = Host.COMPLETED := by fr_legal; exact hl
      subst this; clear hl
      cases ex <;> rcases hv with hv | hv <;> fr_go
  | _ => clear hl; cases got <;> rcases hv with hv | hv <;> fr_go

theorem fr_queued (p : FRP) (m : CMon) (hh : p.hd ≠ 0) (hv : p.v = 1 ∨ p.v = 2) (hm : frMon p m .queued) (l : CLabel)
    (hl : FRLegal p (frSys p .queued) l) : FRGood p m ((frSys p .queued).step l) := by
  simp only [frMon] at hm
  obtain ⟨hl, hopn⟩ := hl
  clear hopn
  cases l with
  | deferStart ans => fr_legal
  | peerXfer k => fr_legal
  | deliver => fr_legal
  | close ex ans => clear hl; cases ex <;> rcases hv with hv | hv <;> fr_go
  | _ => clear hl; rcases hv with hv | hv <;> fr_go

theorem fr_gone (p : FRP) (m : CMon) (st : CopySt) (ni : Nat) (gv : List Nat) (hh : p.hd ≠ 0) (hv : p.v = 1 ∨ p.v = 2)
    (hm : frMon p m (.gone st ni gv)) (l : CLabel)
    (hl : FRLegal p (frSys p (.gone st ni gv)) l) : FRGood p m ((frSys p (.gone st ni gv)).step l) := by
  simp only [frMon] at hm
  obtain ⟨hmh, hst, hmd, hmc, hgl, hrl⟩ := hm
  obtain ⟨hl, hopn⟩ := hl
  clear hopn
  have hst' : st = .idle ∨ st = .done := by cases st <;> simp at hst ⊢
  cases l with
  | deferStart ans => fr_legal
  | peerXfer k => rcases hst' with rfl | rfl <;> fr_legal
  | deliver => fr_legal
  | close ex ans =>
    clear hl
    cases ex <;> fr_eval <;> exact ⟨.gone st ni gv, by simp [FRInvAt, frSys, frMon, FRP.g0, FRP.t, hmh, hst, hmd, hmc, hgl, hrl]⟩
  | _ =>
    clear hl
    fr_eval <;> exact ⟨.gone st ni gv, by simp [FRInvAt, frSys, frMon, FRP.g0, FRP.t, hmh, hst, hmd, hmc, hgl, hrl]⟩

/-- Every legal step from a state satisfying the invariant is good. -/
theorem fr_step_safe (p : FRP) (s : ChanSys) (m : CMon) (l : CLabel) (hI : FRInv p s m) (hl : FRLegal p s l) :
    FRGood p m (s.step l) := by
  obtain ⟨hh, hv, sh, rfl, hm⟩ := hI
  cases sh with
  | closed => exact fr_closed p m hh hv hm l hl
  | idle => exact fr_idle p m hh hv hm l hl
  | unpolled => exact fr_unpolled p m hh hv hm l hl
  | waiting got => exact fr_waiting p m got hh hv hm l hl
  | queued => exact fr_queued p m hh hv hm l hl
  | gone st ni gv => exact fr_gone p m st ni gv hh hv hm l hl

end Witverif.Async
