import Witverif.Abi.NamesBackends
/-! Helper lemmas for C13 (`Props/C13.lean`): string normalisation, membership in the spec's
world-level sets, the generic world-traversal lemmas over `Emit`. -/
namespace Witverif.Abi.Names
open Witverif.Abi

/-- equality of strings built by `++` from literals and variables, up to re-association and
re-splitting of the literals -/
macro "str_eq" : tactic =>
  `(tactic| (apply String.toList_inj.mp; simp [String.toList_append]))

theorem rootOr_eq_moduleOf (k : Key) : rootOr k = Spec.moduleOf k := rfl

/-! ### `wasmSignature` facts used for the signature theorems -/

theorem taskReturn_params (f : Fn) :
    norm (coreTaskReturnParams f) =
      norm (wasmSignature .guestImport ⟨f.sig.isMethod, f.sig.result.toList, none⟩).params ∧
    (wasmSignature .guestImport ⟨f.sig.isMethod, f.sig.result.toList, none⟩).results = [] := by
  unfold coreTaskReturnParams wasmSignature
  cases hr : f.sig.result with
  | none => simp [flattenList, flattenOpt, maxFlatParams, maxFlatResults, norm, Variant.isExport]
  | some t =>
    simp only [Option.toList, flattenList, List.append_nil, flattenOpt, flatTypes]
    by_cases h : (flatten t).length ≤ 16
    · have h16 : ¬ 16 < (flatten t).length := by omega
      simp [h, h16, maxFlatParams, maxFlatResults, Variant.isExport]
    · have h16 : 16 < (flatten t).length := by omega
      simp [h, h16, maxFlatParams, maxFlatResults, norm, CoreTy.wasm32]

/-! ### membership in the spec's sets -/

theorem Spec.mem_fsAll {k : Key} {f : Fn} {exported : Bool} {s : Site} {i : Nat} {op : FsOp} {a : Bool}
    {d : Imp} (hs : (s, i) ∈ f.sites.zipIdx)
    (h : Spec.fsIntrinsic k f.name s.stream (.idx i) op exported a = some d) :
    d ∈ Spec.fsAll k f exported := by
  unfold Spec.fsAll
  simp only [List.mem_flatMap]
  refine ⟨(s.stream, .idx i), ?_, op, ?_, ?_⟩
  · apply List.mem_append_left
    exact List.mem_map.mpr ⟨(s, i), hs, rfl⟩
  · cases op <;> simp [Spec.allOps]
  · cases a <;> simp [h]

theorem Spec.mem_fsAll_unit {k : Key} {f : Fn} {exported stream : Bool} {op : FsOp} {a : Bool}
    {d : Imp} (h : Spec.fsIntrinsic k f.name stream .unit op exported a = some d) :
    d ∈ Spec.fsAll k f exported := by
  unfold Spec.fsAll
  simp only [List.mem_flatMap]
  refine ⟨(stream, .unit), ?_, op, ?_, ?_⟩
  · apply List.mem_append_right
    cases stream <;> simp
  · cases op <;> simp [Spec.allOps]
  · cases a <;> simp [h]

/-! ### well-formed worlds and the generic traversal lemmas -/

/-- every function / resource of the world satisfies the side conditions, interfaces have a key -/
structure World.WF (okFn : Key → Fn → Prop) (okRes : Key → String → Prop) (w : World)
    (okWorld : World → Prop := fun _ => True) : Prop where
  world : okWorld w
  ifaceKey : ∀ it ∈ w.imports ++ w.exports, ∀ i, it = .iface i → i.key ≠ .root
  fnI : ∀ it ∈ w.imports ++ w.exports, ∀ i, it = .iface i → ∀ f ∈ i.funcs, okFn i.key f
  fnW : ∀ it ∈ w.imports ++ w.exports, ∀ f, it = .func f → okFn .root f
  resI : ∀ it ∈ w.exports, ∀ i, it = .iface i → ∀ r ∈ i.res, okRes i.key r

/-- per-item soundness of an emitter against the spec, under side conditions -/
structure Emit.SoundOn (e : Emit) (okFn : Key → Fn → Prop) (okRes : Key → String → Prop)
    (okWorld : World → Prop := fun _ => True) : Prop where
  importFn : ∀ k f, okFn k f → ∀ d ∈ e.importFn k f, d.imp ∈ Spec.importsOfFn k f
  exportFnImports : ∀ k f, okFn k f → ∀ d ∈ e.exportFnImports k f, d.imp ∈ Spec.importsOfExportedFn k f
  exportFn : ∀ k f, okFn k f → ∀ x ∈ e.exportFn k f, x ∈ Spec.exportsOfFn k f
  importRes : ∀ k r, ∀ d ∈ e.importRes k r,
    d.imp ∈ (Spec.resourceIntrinsic .sync k r .importedDrop).toList
  exportResImports : ∀ k r, k ≠ .root → ∀ d ∈ e.exportResImports k r,
    d.imp ∈ (Spec.resourceIntrinsic .sync k r .exportedDrop).toList ++
            (Spec.resourceIntrinsic .sync k r .exportedNew).toList ++
            (Spec.resourceIntrinsic .sync k r .exportedRep).toList
  exportRes : ∀ k r, k ≠ .root → okRes k r → ∀ x ∈ e.exportRes k r,
    x ∈ (Spec.dtor .sync k r).toList ++ (Spec.dtor .asyncCallback k r).toList ++
        (Spec.dtor .asyncStackful k r).toList
  worldImports : ∀ w, okWorld w → ∀ d ∈ e.worldImports w, d.imp ∈ Spec.rootBuiltins
  worldExports : ∀ w, okWorld w → ∀ x ∈ e.worldExports w, x ∈ [Spec.realloc, Spec.initExport]

theorem Emit.imports_sound {e : Emit} {okFn okRes okWorld} (h : e.SoundOn okFn okRes okWorld) (w : World)
    (hw : w.WF okFn okRes okWorld) : ∀ d ∈ e.imports w, d.imp ∈ Spec.allImports w := by
  intro d hd
  unfold Emit.imports at hd
  unfold Spec.allImports
  rcases List.mem_append.mp hd with hd | hd
  · rcases List.mem_append.mp hd with hd | hd
    · -- imported items
      apply List.mem_append_left; apply List.mem_append_left
      obtain ⟨it, hit, hd⟩ := List.mem_flatMap.mp hd
      refine List.mem_flatMap.mpr ⟨it, hit, ?_⟩
      have hmem : it ∈ w.imports ++ w.exports := List.mem_append_left _ hit
      cases it with
      | iface i =>
        simp only [Emit.itemImports, List.mem_append, List.mem_flatMap] at hd
        simp only [Spec.importsOfItem, List.mem_append, List.mem_flatMap]
        rcases hd with ⟨f, hf, hd⟩ | ⟨r, hr, hd⟩
        · exact Or.inl ⟨f, hf, h.importFn _ _ (hw.fnI _ hmem i rfl f hf) d hd⟩
        · exact Or.inr ⟨r, hr, h.importRes _ _ d hd⟩
      | func f => exact h.importFn _ _ (hw.fnW _ hmem f rfl) d hd
      | rtype r => exact List.mem_append_left _ (h.importRes _ _ d hd)
      | other => simp [Emit.itemImports] at hd
    · -- imports made on behalf of exported items
      apply List.mem_append_left; apply List.mem_append_right
      obtain ⟨it, hit, hd⟩ := List.mem_flatMap.mp hd
      refine List.mem_flatMap.mpr ⟨it, hit, ?_⟩
      have hmem : it ∈ w.imports ++ w.exports := List.mem_append_right _ hit
      cases it with
      | iface i =>
        simp only [Emit.itemExportImports, List.mem_append, List.mem_flatMap] at hd
        simp only [Spec.importsOfExportItem]
        rcases hd with ⟨f, hf, hd⟩ | ⟨r, hr, hd⟩
        · exact List.mem_append_left _ (List.mem_flatMap.mpr ⟨f, hf, h.exportFnImports _ _ (hw.fnI _ hmem i rfl f hf) d hd⟩)
        · exact List.mem_append_right _ (List.mem_flatMap.mpr ⟨r, hr, h.exportResImports _ _ (hw.ifaceKey _ hmem i rfl) d hd⟩)
      | func f => exact h.exportFnImports _ _ (hw.fnW _ hmem f rfl) d hd
      | rtype r => simp [Emit.itemExportImports] at hd
      | other => simp [Emit.itemExportImports] at hd
  · exact List.mem_append_right _ (h.worldImports w hw.world d hd)

theorem Emit.exports_sound {e : Emit} {okFn okRes okWorld} (h : e.SoundOn okFn okRes okWorld) (w : World)
    (hw : w.WF okFn okRes okWorld) : ∀ x ∈ e.exports w, x ∈ Spec.allExports w := by
  intro x hx
  unfold Emit.exports at hx
  unfold Spec.allExports
  rcases List.mem_append.mp hx with hx | hx
  · apply List.mem_append_left
    obtain ⟨it, hit, hx⟩ := List.mem_flatMap.mp hx
    refine List.mem_flatMap.mpr ⟨it, hit, ?_⟩
    have hmem : it ∈ w.imports ++ w.exports := List.mem_append_right _ hit
    cases it with
    | iface i =>
      simp only [Emit.itemExports, List.mem_append, List.mem_flatMap] at hx
      simp only [Spec.exportsOfItem]
      rcases hx with ⟨f, hf, hx⟩ | ⟨r, hr, hx⟩
      · exact List.mem_append_left _ (List.mem_flatMap.mpr ⟨f, hf, h.exportFn _ _ (hw.fnI _ hmem i rfl f hf) x hx⟩)
      · exact List.mem_append_right _ (List.mem_flatMap.mpr
          ⟨r, hr, h.exportRes _ _ (hw.ifaceKey _ hmem i rfl) (hw.resI _ hit i rfl r hr) x hx⟩)
    | func f => exact h.exportFn _ _ (hw.fnW _ hmem f rfl) x hx
    | rtype r => simp [Emit.itemExports] at hx
    | other => simp [Emit.itemExports] at hx
  · exact List.mem_append_right _ (h.worldExports w hw.world x hx)

theorem Emit.exports_complete {e : Emit} {okFn okRes okWorld}
    (hc : ∀ k f, okFn k f → ∀ x ∈ Spec.requiredOfFn k f, x ∈ e.exportFn k f)
    (w : World) (hw : w.WF okFn okRes okWorld) : ∀ x ∈ Spec.requiredExports w, x ∈ e.exports w := by
  intro x hx
  unfold Spec.requiredExports at hx
  unfold Emit.exports
  apply List.mem_append_left
  obtain ⟨it, hit, hx⟩ := List.mem_flatMap.mp hx
  refine List.mem_flatMap.mpr ⟨it, hit, ?_⟩
  have hmem : it ∈ w.imports ++ w.exports := List.mem_append_right _ hit
  cases it with
  | iface i =>
    simp only [Spec.requiredOfItem, List.mem_flatMap] at hx
    obtain ⟨f, hf, hx⟩ := hx
    simp only [Emit.itemExports]
    exact List.mem_append_left _ (List.mem_flatMap.mpr ⟨f, hf, hc _ _ (hw.fnI _ hmem i rfl f hf) x hx⟩)
  | func f => exact hc _ _ (hw.fnW _ hmem f rfl) x hx
  | rtype r => simp [Spec.requiredOfItem] at hx
  | other => simp [Spec.requiredOfItem] at hx

end Witverif.Abi.Names
