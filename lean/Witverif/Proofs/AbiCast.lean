import Witverif.Proofs.AbiJoin
/-! Semantics of the bitcasts chosen by `cast` (C04). -/
namespace Witverif.Abi
open Spec

theorem mod_self_of_lt {n m : Nat} (h : n < m) : n % m = n := Nat.mod_eq_of_lt h

/-- converting a payload slot into the joined slot type and back recovers it bit for bit -/
theorem cast_roundtrip (p : Nat) (hp : p = 4 ∨ p = 8) (a j : CoreTy) (hle : le a j = true)
    (c1 c2 : Bitcast) (h1 : cast a j = some c1) (h2 : cast j a = some c2)
    (x : CVal) (hty : x.ty = a.erase p) (hb : x.bits < 2 ^ x.ty.width) :
    castSem p c2 (castSem p c1 x) = x := by
  obtain ⟨ty, bits⟩ := x
  simp only at hty hb
  subst hty
  rcases hp with rfl | rfl <;> cases a <;> cases j <;>
    simp only [le, join, cast, Option.some.injEq, reduceCtorEq, beq_self_eq_true, beq_iff_eq] at hle h1 h2 <;>
    (try subst h1) <;> (try subst h2) <;>
    simp only [castSem, CoreTy.erase, ptrFT, FT.width, CVal.mk.injEq, true_and] at hb ⊢ <;>
    (try simp only [reduceIte, FT.width] at hb ⊢) <;>
    (try (first | rfl | omega | (simp at hb ⊢; omega)))

/-- the up-conversion is the spec's coercion of `lower_flat_variant` (reinterpret / zero-extend) -/
theorem cast_up_is_spec (p : Nat) (hp : p = 4 ∨ p = 8) (a j : CoreTy) (hle : le a j = true)
    (c1 : Bitcast) (h1 : cast a j = some c1)
    (x : CVal) (hty : x.ty = a.erase p) (hb : x.bits < 2 ^ x.ty.width) :
    castSem p c1 x = Spec.coerceSlot (a.erase p) (j.erase p) x := by
  obtain ⟨ty, bits⟩ := x
  simp only at hty hb
  subst hty
  rcases hp with rfl | rfl <;> cases a <;> cases j <;>
    simp only [le, join, cast, Option.some.injEq, reduceCtorEq, beq_self_eq_true, beq_iff_eq] at hle h1 <;>
    (try subst h1) <;>
    simp only [castSem, Spec.coerceSlot, CoreTy.erase, ptrFT, FT.width, CVal.mk.injEq, true_and] at hb ⊢ <;>
    (try (first | rfl | omega | (simp at hb ⊢; omega) | (simp at hb ⊢)))

/-- the down-conversion is the spec's `CoerceValueIter` (wrap i64→i32 / reinterpret) -/
theorem cast_down_is_spec (p : Nat) (hp : p = 4 ∨ p = 8) (a j : CoreTy) (hle : le a j = true)
    (c2 : Bitcast) (h2 : cast j a = some c2)
    (y : CVal) (hty : y.ty = j.erase p) (hb : y.bits < 2 ^ y.ty.width) :
    castSem p c2 y =
      ⟨a.erase p, if (j.erase p).width = 64 ∧ (a.erase p).width = 32 then y.bits % 2 ^ 32 else y.bits⟩ := by
  obtain ⟨ty, bits⟩ := y
  simp only at hty hb
  subst hty
  rcases hp with rfl | rfl <;> cases a <;> cases j <;>
    simp only [le, join, cast, Option.some.injEq, reduceCtorEq, beq_self_eq_true, beq_iff_eq] at hle h2 <;>
    (try subst h2) <;>
    simp only [castSem, CoreTy.erase, ptrFT, FT.width, CVal.mk.injEq, true_and] at hb ⊢ <;>
    (try (first | rfl | omega | (simp at hb ⊢; omega) | (simp at hb ⊢)))

/-- every cast the table chooses is well-typed on an operand of the source core type (both widths) -/
theorem cast_typed (p : Nat) (hp : p = 4 ∨ p = 8) (a b : CoreTy) (c : Bitcast) (h : cast a b = some c)
    (x : CVal) (hty : x.ty = a.erase p) : castTyped p c x = some (castSem p c x) := by
  obtain ⟨ty, bits⟩ := x
  simp only at hty
  subst hty
  rcases hp with rfl | rfl <;> cases a <;> cases b <;>
    simp only [cast, Option.some.injEq, reduceCtorEq] at h <;>
    (try subst h) <;>
    simp [castTyped, castSrc, castSem, CoreTy.erase, ptrFT]

end Witverif.Abi
