import Witverif.Proofs.FutureRead
import Witverif.Proofs.FutureWrite
/-! Reachability for the future channels (C20): states reachable from a fresh channel by legal labels,
with the trace so far and the state of the specification monitor; the invariants hold in every
reachable state (induction over the step relation, no depth bound). -/
namespace Witverif.Async
open Witverif.Async.ChanSpec (CSpec CMon run)

theorem crun_append (k : CSpec) (m : CMon) (a b : List Ev) :
    run k m (a ++ b) = match run k m a with | .ok m' => run k m' b | .error e => .error e := by
  induction a generalizing m with
  | nil => simp [run]
  | cons e a ih =>
    simp only [List.cons_append, run]
    cases ChanSpec.step k m e with
    | ok m' => simp [ih]
    | error e => simp

/-- splitting an accepted trace at an event: the prefix is accepted and the event is accepted in the
state the prefix leads to -/
theorem crun_split {k : CSpec} {m0 m : CMon} {pre post : List Ev} {e : Ev}
    (h : run k m0 (pre ++ e :: post) = .ok m) :
    ∃ mp me, run k m0 pre = .ok mp ∧ ChanSpec.step k mp e = .ok me ∧ run k me post = .ok m := by
  rw [crun_append] at h
  cases hp : run k m0 pre with
  | error x => simp [hp] at h
  | ok mp =>
    simp only [hp, run] at h
    cases he : ChanSpec.step k mp e with
    | error x => simp [he] at h
    | ok me => simp only [he] at h; exact ⟨mp, me, rfl, he, h⟩

/-! ## guest-writer future channel -/

inductive FWReach (p : FWP) : ChanSys → CMon → List Ev → Prop
  | init : FWReach p (fwSys p .closed) {} []
  | step {s m tr l s' evs m'} : FWReach p s m tr → FWLegal p s l → s.step l = .ok s' evs →
      run p.k m evs = .ok m' → FWReach p s' m' (tr ++ evs)

theorem fw_reach_inv {p : FWP} (hh : p.hd ≠ 0) (hv : p.v = 1 ∨ p.v = 2) {s m tr} (h : FWReach p s m tr) :
    FWInv p s m ∧ run p.k {} tr = .ok m ∧ s.h.trapped = false := by
  induction h with
  | init => exact ⟨⟨hh, hv, .closed, rfl, rfl⟩, rfl, rfl⟩
  | step hr hl hs hm ih =>
    have hg := fw_step_safe p _ _ _ ih.1 hl
    rw [hs] at hg
    simp only [FWGood, hm] at hg
    refine ⟨hg.2, ?_, hg.1⟩
    rw [crun_append, ih.2.1]
    exact hm

/-! ## guest-reader future channel -/

inductive FRReach (p : FRP) : ChanSys → CMon → List Ev → Prop
  | init : FRReach p (frSys p .closed) {} []
  | step {s m tr l s' evs m'} : FRReach p s m tr → FRLegal p s l → s.step l = .ok s' evs →
      run p.k m evs = .ok m' → FRReach p s' m' (tr ++ evs)

theorem fr_reach_inv {p : FRP} (hh : p.hd ≠ 0) (hv : p.v = 1 ∨ p.v = 2) {s m tr} (h : FRReach p s m tr) :
    FRInv p s m ∧ run p.k {} tr = .ok m ∧ s.h.trapped = false := by
  induction h with
  | init => exact ⟨⟨hh, hv, .closed, rfl, rfl⟩, rfl, rfl⟩
  | step hr hl hs hm ih =>
    have hg := fr_step_safe p _ _ _ ih.1 hl
    rw [hs] at hg
    simp only [FRGood, hm] at hg
    refine ⟨hg.2, ?_, hg.1⟩
    rw [crun_append, ih.2.1]
    exact hm

end Witverif.Async
