import Witverif.Proofs.AbiLift2
/-! C01: main mutual induction for flat lifting. -/
namespace Witverif.Abi
open Spec

theorem flatten_len (p : Nat) (hp : p = 4 ∨ p = 8) (t : Ty) : (flatten t).length = (Spec.flatten p t).length := by
  rw [← flatten_erase p hp t]; simp

theorem liftFields_length (p : Nat) (m : Mem) : ∀ (ts : List Ty) (cs : List CVal) (vs : List Val),
    Spec.liftFields p m ts cs = some vs → vs.length = ts.length := by
  intro ts
  induction ts with
  | nil => intro cs vs h; simp [Spec.liftFields] at h; subst h; rfl
  | cons t ts ih =>
    intro cs vs h
    simp only [Spec.liftFields] at h
    cases h1 : Spec.liftFlat p m t (List.take (Spec.flatten p t).length cs) with
    | none => simp [h1] at h
    | some v =>
      cases h2 : Spec.liftFields p m ts (List.drop (Spec.flatten p t).length cs) with
      | none => simp [h1, h2] at h
      | some rest =>
        simp [h1, h2] at h
        subst h
        simp [ih _ rest h2]

theorem liftMany_length (f : List CVal → Option Val) (k : Nat) : ∀ (n : Nat) (cs : List CVal) (vs : List Val),
    liftMany f k n cs = some vs → vs.length = n := by
  intro n
  induction n with
  | zero => intro cs vs h; simp [liftMany] at h; subst h; rfl
  | succ n ih =>
    intro cs vs h
    simp only [liftMany] at h
    cases h1 : f (List.take k cs) with
    | none => simp [h1] at h
    | some v =>
      cases h2 : liftMany f k n (List.drop k cs) with
      | none => simp [h1, h2] at h
      | some rest =>
        simp [h1, h2] at h
        subst h
        simp [ih _ rest h2]

theorem cvals_map_c (cs : List CVal) : cvals (cs.map MV.c) = some cs := by
  simp only [cvals]
  induction cs with
  | nil => rfl
  | cons a as ih => simp [List.mapM_cons, MV.core?, ih]

theorem vals_map_v (vs : List Val) : vals (vs.map MV.v) = some vs := by
  simp only [vals]
  induction vs with
  | nil => rfl
  | cons a as ih => simp [List.mapM_cons, MV.val?, ih]

/-- value of a variant-like lift from the value of its active arm -/
theorem variant_lift_eval (env : Env) (m : Mem) (o : Op) (n : Nat)
    (hop : ∀ pp mm bev (d : CVal), opSem pp mm bev o [.c d] =
      if d.bits < n then ((bev d.bits {}).bind (variantOf d.bits)).map ([·]) else none)
    (x : Expr) (d : CVal) (arms : List (List Expr)) (hlen : arms.length = n)
    (hx : eval env m x = some (.c d))
    (res : Option (Option Val))
    (harm : ∀ arm, arms[d.bits]? = some arm →
      evalList (env.enter env.frames.length {}) m arm = res.map optVals) :
    eval env m (.op o [x] arms 0) =
      if d.bits < n then res.map (fun ov => MV.v (.variant d.bits ov)) else none := by
  simp only [eval, evalList_cons, evalList_nil, hx, Option.bind_some, Option.map_some, hop]
  split
  · rename_i h
    have hget : arms[d.bits]? = some (arms[d.bits]'(hlen ▸ h)) := by simp [hlen, h]
    rw [evalBlockAt_get env m arms d.bits {} _ hget, harm _ hget]
    cases res with
    | none => simp
    | some ov => cases ov <;> simp [optVals, variantOf]
  · simp

set_option maxHeartbeats 400000 in
mutual
theorem lift_sound (p : Nat) (hp : p = 4 ∨ p = 8) (c : Cfg) : ∀ (t : Ty), memFree t = true → LiftSound p c t
  | .bool, _ => lift_leaf p c _ .boolFromI32 .i32 (by intros; simp [lift, pure, Except.pure]) (by simp [Spec.flatten])
      (by intro m v; simp [scalarSem, Spec.liftFlat])
  | .s8, _ => lift_leaf p c _ .s8FromI32 .i32 (by intros; simp [lift, pure, Except.pure]) (by simp [Spec.flatten])
      (by intro m v; simp [scalarSem, Spec.liftFlat])
  | .u8, _ => lift_leaf p c _ .u8FromI32 .i32 (by intros; simp [lift, pure, Except.pure]) (by simp [Spec.flatten])
      (by intro m v; simp [scalarSem, Spec.liftFlat])
  | .s16, _ => lift_leaf p c _ .s16FromI32 .i32 (by intros; simp [lift, pure, Except.pure]) (by simp [Spec.flatten])
      (by intro m v; simp [scalarSem, Spec.liftFlat])
  | .u16, _ => lift_leaf p c _ .u16FromI32 .i32 (by intros; simp [lift, pure, Except.pure]) (by simp [Spec.flatten])
      (by intro m v; simp [scalarSem, Spec.liftFlat])
  | .s32, _ => lift_leaf p c _ .s32FromI32 .i32 (by intros; simp [lift, pure, Except.pure]) (by simp [Spec.flatten])
      (by intro m v; simp [scalarSem, Spec.liftFlat])
  | .u32, _ => lift_leaf p c _ .u32FromI32 .i32 (by intros; simp [lift, pure, Except.pure]) (by simp [Spec.flatten])
      (by intro m v; simp [scalarSem, Spec.liftFlat])
  | .s64, _ => lift_leaf p c _ .s64FromI64 .i64 (by intros; simp [lift, pure, Except.pure]) (by simp [Spec.flatten])
      (by intro m v; simp [scalarSem, Spec.liftFlat])
  | .u64, _ => lift_leaf p c _ .u64FromI64 .i64 (by intros; simp [lift, pure, Except.pure]) (by simp [Spec.flatten])
      (by intro m v; simp [scalarSem, Spec.liftFlat])
  | .f32, _ => lift_leaf p c _ .f32FromCoreF32 .f32 (by intros; simp [lift, pure, Except.pure]) (by simp [Spec.flatten])
      (by intro m v; simp [scalarSem, Spec.liftFlat])
  | .f64, _ => lift_leaf p c _ .f64FromCoreF64 .f64 (by intros; simp [lift, pure, Except.pure]) (by simp [Spec.flatten])
      (by intro m v; simp [scalarSem, Spec.liftFlat])
  | .char, _ => lift_leaf p c _ .charFromI32 .i32 (by intros; simp [lift, pure, Except.pure]) (by simp [Spec.flatten])
      (by intro m v; simp [scalarSem, Spec.liftFlat])
  | .string, hm | .list _, hm | .map _ _, hm => by simp [memFree] at hm
  | .errctx, _ => lift_handle p c _ .errLift (by intros; simp [lift, pure, Except.pure]) (by simp [Spec.flatten])
      (by intros; simp [opSem, pureSem]) (by intros; simp [Spec.liftFlat])
  | .own, _ => lift_handle p c _ (.handleLift true) (by intros; simp [lift, pure, Except.pure]) (by simp [Spec.flatten])
      (by intros; simp [opSem, pureSem]) (by intros; simp [Spec.liftFlat])
  | .borrow, _ => lift_handle p c _ (.handleLift false) (by intros; simp [lift, pure, Except.pure]) (by simp [Spec.flatten])
      (by intros; simp [opSem, pureSem]) (by intros; simp [Spec.liftFlat])
  | .future _, _ => lift_handle p c _ .futureLift (by intros; simp [lift, pure, Except.pure]) (by simp [Spec.flatten])
      (by intros; simp [opSem, pureSem]) (by intros; simp [Spec.liftFlat])
  | .stream _, _ => lift_handle p c _ .streamLift (by intros; simp [lift, pure, Except.pure]) (by simp [Spec.flatten])
      (by intros; simp [opSem, pureSem]) (by intros; simp [Spec.liftFlat])
  | .enum n, _ => by
      intro lvl xs env m cs e _ hwf hden hlift fr
      simp [lift, pure, Except.pure] at hlift
      subst hlift
      simp only [Spec.flatten] at hwf
      obtain ⟨v, rfl, _, _⟩ := single_of_wf hwf
      have hx := hden fr
      simp only [pure1, eval, hx, List.map_cons, List.map_nil, Option.bind_some, opSem, pureSem, Spec.liftFlat]
      split <;> simp
  | .flags n, _ => by
      intro lvl xs env m cs e _ hwf hden hlift fr
      simp [lift, pure, Except.pure] at hlift
      subst hlift
      have hx := hden fr
      simp [pure1, eval, hx, opSem, pureSem, cvals_map_c, Spec.liftFlat]
  | .record fs, hm => by
      intro lvl xs env m cs e hpe hwf hden hlift fr
      simp [memFree] at hm
      simp only [lift, bind_ok] at hlift
      obtain ⟨_, _, fields, hfields, hp'⟩ := hlift
      simp [pure, Except.pure] at hp'
      subst hp'
      have hf := liftFields_sound p hp c fs hm lvl xs env m cs fields hpe (by simpa [Spec.flatten] using hwf) hden hfields fr
      simp only [pure1, eval, hf, Spec.liftFlat]
      cases hl : Spec.liftFields p m fs cs with
      | none => simp
      | some vs =>
        have hlen := liftFields_length p m fs cs vs hl
        simp [opSem, pureSem, vals_map_v, hlen]
  | .tuple ts, hm => by
      intro lvl xs env m cs e hpe hwf hden hlift fr
      simp [memFree] at hm
      simp only [lift, bind_ok] at hlift
      obtain ⟨_, _, fields, hfields, hp'⟩ := hlift
      simp [pure, Except.pure] at hp'
      subst hp'
      have hf := liftFields_sound p hp c ts hm lvl xs env m cs fields hpe (by simpa [Spec.flatten] using hwf) hden hfields fr
      simp only [pure1, eval, hf, Spec.liftFlat]
      cases hl : Spec.liftFields p m ts cs with
      | none => simp
      | some vs =>
        have hlen := liftFields_length p m ts cs vs hl
        simp [opSem, pureSem, vals_map_v, hlen]
  | .flist e n, hm => by
      intro lvl xs env m cs el hpe hwf hden hlift fr
      simp [memFree] at hm
      simp only [lift, bind_ok] at hlift
      obtain ⟨k, hk, elems, helems, hp'⟩ := hlift
      have hk' := flatU_ok hk
      subst hk'
      simp [pure, Except.pure] at hp'
      subst hp'
      have hm' := liftMany_sound p hp c e (lift_sound p hp c e hm) lvl env m hpe n xs cs elems
        (by simpa [Spec.flatten] using hwf) hden helems fr
      simp only [pure1, eval, hm', Spec.liftFlat]
      cases hl : liftMany (Spec.liftFlat p m e) (Spec.flatten p e).length n cs with
      | none => simp
      | some vs =>
        have hlen := liftMany_length _ _ n cs vs hl
        simp [opSem, pureSem, vals_map_v, hlen]
  | .variant cs', hm => by
      intro lvl xs env m cs e hpe hwf hden hlift fr
      simp [memFree] at hm
      simp only [lift, bind_ok] at hlift
      obtain ⟨params, hparams, arms, harms, hp'⟩ := hlift
      have hpr := flatU_ok hparams
      simp [pure, Except.pure] at hp'
      subst hp'
      simp only [Spec.flatten] at hwf
      cases cs with
      | nil => have := hwf.1; simp at this
      | cons d vs =>
        have ⟨_, _, hwfv⟩ := WfFlat.cons_inv hwf
        have hdrop : params.drop 1 = flattenCases cs' := by rw [hpr]; simp [flatten]
        have ⟨hal, hag⟩ := liftArms_get c lvl (params.drop 1) (xs.drop 1) cs' arms harms
        have hx := hden.head fr
        have hdv : Denotes env m (xs.drop 1) vs := by simpa using hden.drop 1
        rw [variant_lift_eval (env.withFrames fr) m (.variantLift cs'.length) cs'.length (by intros; simp [opSem])
          (hd xs) d arms hal hx (Spec.liftCase p m cs' d.bits vs)]
        · simp only [Spec.liftFlat]
          split <;> simp
          cases Spec.liftCase p m cs' d.bits vs <;> simp
        · intro arm0 harm0
          have hlt : d.bits < cs'.length := by
            have := (List.getElem?_eq_some_iff.mp harm0).1; omega
          have hci : cs'[d.bits]? = some (cs'[d.bits]'hlt) := by simp [hlt]
          have ⟨arm, harm, hla⟩ := hag d.bits _ hci
          have harm' : arm0 = arm := by rw [harm0] at harm; exact Option.some.inj harm
          subst harm'
          rw [liftCase_get p m cs' d.bits _ vs hci]
          have := liftArms_sound p hp c cs' hm.2 d.bits (cs'[d.bits]'hlt) hci
            lvl (params.drop 1) (xs.drop 1) env m vs arm0 hpe
            (by rw [hdrop, flattenCases_erase p hp cs']; exact hwfv)
            (by rw [hdrop]; exact flattenCases_get_bounds cs' d.bits _ hci) hdv hla
          exact this _
  | .option t, hm => by
      intro lvl xs env m cs e hpe hwf hden hlift fr
      simp [memFree] at hm
      simp only [lift, bind_ok] at hlift
      obtain ⟨params, hparams, temp, htemp, ins, hins, r, hr, hp'⟩ := hlift
      have hpr := flatU_ok hparams
      simp [pure, Except.pure] at hp'
      subst hp'
      simp only [Spec.flatten] at hwf
      cases cs with
      | nil => have := hwf.1; simp at this
      | cons d vs =>
        have ⟨_, _, hwfv⟩ := WfFlat.cons_inv hwf
        have hdrop : params.drop 1 = flatten t := by rw [hpr]; simp [flatten, joinFlat]
        have hx := hden.head fr
        have hdv : Denotes env m (xs.drop 1) vs := by simpa using hden.drop 1
        have hla : liftArm c lvl (some t) (params.drop 1) (xs.drop 1) = .ok [r] := by
          simp only [liftArm, bind_ok]
          exact ⟨temp, htemp, ins, hins, r, hr, rfl⟩
        have hsome := armLift_some p hp c t (lift_sound p hp c t hm) lvl (params.drop 1) (xs.drop 1) env m vs [r] hpe
          (by rw [hdrop, flatten_erase p hp t]; exact hwfv)
          (by rw [hdrop]; intro k h; exact ⟨by simpa [flattenOpt] using h, by simp only [flattenOpt]; exact le_refl _⟩) hdv hla
        rw [variant_lift_eval (env.withFrames fr) m .optionLift 2 (by intros; simp [opSem])
          (hd xs) d [[], [r]] rfl hx
          (match d.bits with | 0 => some none | 1 => Spec.liftOpt p m (some t) vs | _ => none)]
        · simp only [Spec.liftFlat]
          rcases hd0 : d.bits with _ | _ | k <;> simp [Spec.liftOpt]
          cases Spec.liftFlat p m t (coerceBack vs (Spec.flatten p t)) <;> simp
        · intro arm0 harm0
          rcases hd0 : d.bits with _ | _ | k
          · rw [hd0] at harm0; simp at harm0; subst harm0; simp [optVals]
          · rw [hd0] at harm0; simp at harm0; subst harm0; simp; exact hsome _
          · rw [hd0] at harm0; simp at harm0
  | .result a b, hm => by
      intro lvl xs env m cs e hpe hwf hden hlift fr
      simp [memFree] at hm
      simp only [lift, bind_ok] at hlift
      obtain ⟨params, hparams, a0, ha0, a1, ha1, hp'⟩ := hlift
      have hpr := flatU_ok hparams
      simp [pure, Except.pure] at hp'
      subst hp'
      simp only [Spec.flatten] at hwf
      cases cs with
      | nil => have := hwf.1; simp at this
      | cons d vs =>
        have ⟨_, _, hwfv⟩ := WfFlat.cons_inv hwf
        have hdrop : params.drop 1 = joinFlat (flattenOpt a) (flattenOpt b) := by rw [hpr]; simp [flatten]
        have herase : (joinFlat (flattenOpt a) (flattenOpt b)).map (CoreTy.erase p)
            = Spec.joinFlat (Spec.flattenOpt p a) (Spec.flattenOpt p b) := by
          rw [joinFlat_erase p hp, flattenOpt_erase p hp, flattenOpt_erase p hp]
        have hx := hden.head fr
        have hdv : Denotes env m (xs.drop 1) vs := by simpa using hden.drop 1
        have s0 := liftArm_sound p hp c a hm.1 lvl (params.drop 1) (xs.drop 1) env m vs a0 hpe
          (by rw [hdrop, herase]; exact hwfv) (by rw [hdrop]; exact joinFlat_le_left _ _) hdv ha0
        have s1 := liftArm_sound p hp c b hm.2 lvl (params.drop 1) (xs.drop 1) env m vs a1 hpe
          (by rw [hdrop, herase]; exact hwfv) (by rw [hdrop]; exact joinFlat_le_right _ _) hdv ha1
        rw [variant_lift_eval (env.withFrames fr) m .resultLift 2 (by intros; simp [opSem])
          (hd xs) d [a0, a1] rfl hx
          (match d.bits with | 0 => Spec.liftOpt p m a vs | 1 => Spec.liftOpt p m b vs | _ => none)]
        · simp only [Spec.liftFlat]
          rcases hd0 : d.bits with _ | _ | k <;> simp
          · cases Spec.liftOpt p m a vs <;> simp
          · cases Spec.liftOpt p m b vs <;> simp
        · intro arm0 harm0
          rcases hd0 : d.bits with _ | _ | k
          · rw [hd0] at harm0; simp at harm0; subst harm0; simp; exact s0 _
          · rw [hd0] at harm0; simp at harm0; subst harm0; simp; exact s1 _
          · rw [hd0] at harm0; simp at harm0
theorem liftFields_sound (p : Nat) (hp : p = 4 ∨ p = 8) (c : Cfg) : ∀ (ts : List Ty), memFreeAll ts = true →
    ∀ (lvl : Nat) (xs : List Expr) (env : Env) (m : Mem) (cs : List CVal) (fields : List Expr),
      env.p = p → WfFlat cs (Spec.flattenList p ts) → Denotes env m xs cs →
      liftFields c lvl ts xs = .ok fields →
      ∀ fr, evalList (env.withFrames fr) m fields = (Spec.liftFields p m ts cs).map (·.map MV.v)
  | [], _, lvl, xs, env, m, cs, fields, _, _, _, h, fr => by
      simp [liftFields, pure, Except.pure] at h
      subst h
      simp [Spec.liftFields]
  | t :: ts, hm, lvl, xs, env, m, cs, fields, hpe, hwf, hden, h, fr => by
      simp [memFreeAll] at hm
      simp only [liftFields, bind_ok] at h
      obtain ⟨n, hn, r, hr, rs, hrs, hp'⟩ := h
      have hn' := flatU_ok hn
      subst hn'
      simp [pure, Except.pure] at hp'
      subst hp'
      have hk := flatten_len p hp t
      have hwf' : WfFlat cs (Spec.flatten p t ++ Spec.flattenList p ts) := by simpa [Spec.flattenList] using hwf
      have ⟨hw1, hw2⟩ := WfFlat.split hwf'
      rw [hk] at hr hrs
      have e1 := lift_sound p hp c t hm.1 lvl _ env m _ r hpe hw1 (hden.take _) hr fr
      have e2 := liftFields_sound p hp c ts hm.2 lvl _ env m _ rs hpe hw2 (hden.drop _) hrs fr
      simp only [evalList_cons, e1, e2, Spec.liftFields]
      cases Spec.liftFlat p m t (List.take (Spec.flatten p t).length cs) <;> simp
      cases Spec.liftFields p m ts (List.drop (Spec.flatten p t).length cs) <;> simp
theorem liftArms_sound (p : Nat) (hp : p = 4 ∨ p = 8) (c : Cfg) : ∀ (cs : List (Option Ty)),
    memFreeCases cs = true → ∀ (i : Nat) (o : Option Ty), cs[i]? = some o → ArmLiftSound p c o
  | [], _, i, o, h => by simp at h
  | d :: ds, hm, 0, o, h => by
      simp at h; subst h
      exact liftArm_sound p hp c d (by simp [memFreeCases] at hm; exact hm.1)
  | d :: ds, hm, i + 1, o, h =>
      liftArms_sound p hp c ds (by simp [memFreeCases] at hm; exact hm.2) i o (by simpa using h)
theorem liftArm_sound (p : Nat) (hp : p = 4 ∨ p = 8) (c : Cfg) : ∀ (o : Option Ty), memFreeOpt o = true →
    ArmLiftSound p c o
  | none, _ => armLift_none p c
  | some t, hm => armLift_some p hp c t (lift_sound p hp c t (by simpa [memFreeOpt] using hm))
end

end Witverif.Abi
