import Witverif.Text.Ns
/-! Helper lemmas for C26 (`Ns`). -/
namespace Witverif.Text.Ns

theorem toDigits_injective {a b : Nat} (h : Nat.toDigits 10 a = Nat.toDigits 10 b) : a = b := by
  have := congrArg (fun l => Nat.ofDigitChars 10 l 0) h
  simpa [Nat.ofDigitChars_ten_toDigits] using this

theorem fmt_injective (name : List Char) {a b : Nat} (h : fmt name a = fmt name b) : a = b := by
  unfold fmt at h
  exact toDigits_injective (List.append_cancel_left h)

theorem tmpLoop_fresh (d : List (List Char)) (name : List Char) :
    ∀ (fuel ctr : Nat) (ret r : List Char) (c : Nat),
      tmpLoop d name fuel ctr ret = some (r, c) → r ∉ d := by
  intro fuel
  induction fuel with
  | zero => intro ctr ret r c h; simp [tmpLoop] at h
  | succ f ih =>
    intro ctr ret r c h
    unfold tmpLoop at h
    split at h
    · exact ih _ _ _ _ h
    · rename_i hc
      simp only [Option.some.injEq, Prod.mk.injEq] at h
      obtain ⟨rfl, _⟩ := h
      simpa using hc

theorem tmpLoop_ctr_mono (d : List (List Char)) (name : List Char) :
    ∀ (fuel ctr : Nat) (ret r : List Char) (c : Nat),
      tmpLoop d name fuel ctr ret = some (r, c) → ctr ≤ c := by
  intro fuel
  induction fuel with
  | zero => intro ctr ret r c h; simp [tmpLoop] at h
  | succ f ih =>
    intro ctr ret r c h
    unfold tmpLoop at h
    split at h
    · have := ih _ _ _ _ h; omega
    · simp only [Option.some.injEq, Prod.mk.injEq] at h
      omega

theorem tmpLoop_none (d : List (List Char)) (name : List Char) :
    ∀ (fuel ctr : Nat) (ret : List Char),
      tmpLoop d name fuel ctr ret = none →
        (0 < fuel → ret ∈ d) ∧ ∀ i, i + 1 < fuel → fmt name (ctr + i) ∈ d := by
  intro fuel
  induction fuel with
  | zero => intro ctr ret _; exact ⟨fun h => absurd h (by omega), fun i h => absurd h (by omega)⟩
  | succ f ih =>
    intro ctr ret h
    unfold tmpLoop at h
    split at h
    · rename_i hc
      have ⟨h1, h2⟩ := ih _ _ h
      refine ⟨fun _ => by simpa using hc, ?_⟩
      intro i hi
      cases i with
      | zero => exact h1 (by omega)
      | succ j =>
        have := h2 j (by omega)
        simpa [Nat.add_assoc, Nat.add_comm 1 j] using this
    · simp at h

/-- Pigeonhole: `defined.length + 2` iterations always reach a free candidate. -/
theorem tmpLoop_terminates (d : List (List Char)) (name : List Char) (ctr : Nat) (ret : List Char) :
    tmpLoop d name (d.length + 2) ctr ret ≠ none := by
  intro h
  have ⟨_, h2⟩ := tmpLoop_none d name _ ctr ret h
  let cands := (List.range (d.length + 1)).map (fun i => fmt name (ctr + i))
  have hnodup : cands.Nodup := by
    refine List.Pairwise.map _ ?_ (List.nodup_range (n := d.length + 1))
    intro a b hab hfab
    have := fmt_injective name hfab
    omega
  have hsub : cands ⊆ d := by
    intro x hx
    simp only [cands, List.mem_map, List.mem_range] at hx
    obtain ⟨i, hi, rfl⟩ := hx
    exact h2 i (by omega)
  have := hnodup.length_le_of_subset hsub
  simp [cands] at this
  omega

end Witverif.Text.Ns
