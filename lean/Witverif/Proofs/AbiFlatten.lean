import Witverif.Proofs.AbiJoin
/-! `flatten` (wit-parser's `push_flat` with provenance refinement) erases to the spec's `flatten_type`. -/
namespace Witverif.Abi

theorem discriminant_core_erase (p n : Nat) : (discriminant n).core.erase p = .i32 := by
  unfold discriminant; split <;> (try split) <;> rfl

theorem replicate_i32_erase (p n : Nat) :
    (List.replicate n CoreTy.i32).map (CoreTy.erase p) = List.replicate n FT.i32 := by
  simp [CoreTy.erase]

mutual
theorem flatten_erase (p : Nat) (hp : p = 4 ∨ p = 8) : ∀ t : Ty,
    (flatten t).map (CoreTy.erase p) = Spec.flatten p t
  | .bool | .s8 | .u8 | .s16 | .u16 | .s32 | .u32 | .char | .errctx
  | .s64 | .u64 | .f32 | .f64 | .own | .borrow => by simp [flatten, Spec.flatten, CoreTy.erase]
  | .future _ | .stream _ => by simp [flatten, Spec.flatten, CoreTy.erase]
  | .string | .list _ | .map _ _ => by simp [flatten, Spec.flatten, CoreTy.erase]
  | .flist e n => by
      simp only [flatten, Spec.flatten, flattenRep_erase, flatten_erase p hp e]
  | .record fs => by simp only [flatten, Spec.flatten, flattenList_erase p hp fs]
  | .tuple ts => by simp only [flatten, Spec.flatten, flattenList_erase p hp ts]
  | .flags n => by simp [flatten, Spec.flatten, CoreTy.erase]
  | .enum n => by simp [flatten, Spec.flatten, discriminant_core_erase]
  | .variant cs => by
      simp [flatten, Spec.flatten, discriminant_core_erase, flattenCases_erase p hp cs]
  | .option t => by
      simp [flatten, Spec.flatten, joinFlat, CoreTy.erase, flatten_erase p hp t]
  | .result a b => by
      simp [flatten, Spec.flatten, CoreTy.erase, joinFlat_erase p hp, flattenOpt_erase p hp a,
        flattenOpt_erase p hp b]
theorem flattenList_erase (p : Nat) (hp : p = 4 ∨ p = 8) : ∀ ts : List Ty,
    (flattenList ts).map (CoreTy.erase p) = Spec.flattenList p ts
  | [] => by simp [flattenList, Spec.flattenList]
  | t :: ts => by
      simp [flattenList, Spec.flattenList, flatten_erase p hp t, flattenList_erase p hp ts]
theorem flattenOpt_erase (p : Nat) (hp : p = 4 ∨ p = 8) : ∀ o : Option Ty,
    (flattenOpt o).map (CoreTy.erase p) = Spec.flattenOpt p o
  | none => by simp [flattenOpt, Spec.flattenOpt]
  | some t => by simp [flattenOpt, Spec.flattenOpt, flatten_erase p hp t]
theorem flattenCases_erase (p : Nat) (hp : p = 4 ∨ p = 8) : ∀ cs : List (Option Ty),
    (flattenCases cs).map (CoreTy.erase p) = Spec.flattenCases p cs
  | [] => by simp [flattenCases, Spec.flattenCases]
  | c :: cs => by
      simp [flattenCases, Spec.flattenCases, joinFlat_erase p hp, flattenOpt_erase p hp c,
        flattenCases_erase p hp cs]
end

end Witverif.Abi
