import Witverif.Proofs.AbiStore4
import Witverif.Proofs.AbiStoreSpecA
/-! C01, lowering to memory of ALL types (strings, lists, maps included): executing the generator's
statements allocates and writes exactly what `Spec.store` specifies — same allocations in the same
order (equal heaps), read-equivalent memories — and touches no other ledger. -/
namespace Witverif.Abi
open Spec

/-- ledgers other than memory/heap (and the `borrowed` note) are untouched -/
def SameLedgers (s s' : MSt) : Prop := s'.freed = s.freed ∧ s'.dropped = s.dropped ∧ s'.calls = s.calls

theorem SameLedgers.refl (s : MSt) : SameLedgers s s := ⟨rfl, rfl, rfl⟩
theorem SameLedgers.trans {a b c : MSt} (h1 : SameLedgers a b) (h2 : SameLedgers b c) : SameLedgers a c :=
  ⟨h2.1.trans h1.1, h2.2.1.trans h1.2.1, h2.2.2.trans h1.2.2⟩
theorem SameLedgers.setMem (s : MSt) (m : Mem) : SameLedgers s (s.setMem m) := ⟨rfl, rfl, rfl⟩

/-- statements that allocate and write (read-equivalently) what `spec` does, from any state -/
def WritesA (p lvl : Nat) (x a : Expr) (v : Val) (ss : List Stmt) (spec : Nat → St → St) : Prop :=
  ∀ (env : Env) (s : MSt) (addr : Nat), env.p = p → env.frames.length = lvl + 1 →
    ValStable env x v → AddrStableM env a addr →
    ∃ ls s', execStmts env s ss = some (env.withLets ls, s') ∧ StEq s'.st (spec addr s.st) ∧ SameLedgers s s'

theorem writesA_of_writes {p lvl : Nat} {x a : Expr} {v : Val} {ss : List Stmt} {f : Nat → St → St}
    (h : Writes p lvl x a v ss f) : WritesA p lvl x a v ss f := by
  intro env s addr hp hl hx ha
  have ⟨ls, m', he, hq⟩ := h env s addr hp hl hx ha
  exact ⟨ls, s.setMem m', he, by simpa [setMem_st] using hq, SameLedgers.setMem s m'⟩

theorem writesA_append {p lvl : Nat} {x a : Expr} {v : Val} {s1 s2 : List Stmt} {f1 f2 : Nat → St → St}
    (h1 : WritesA p lvl x a v s1 f1) (h2 : WritesA p lvl x a v s2 f2)
    (hcongr : ∀ addr st st', StEq st st' → StEq (f2 addr st) (f2 addr st')) :
    WritesA p lvl x a v (s1 ++ s2) (fun addr st => f2 addr (f1 addr st)) := by
  intro env s addr hp hl hx ha
  have ⟨l1, t1, e1, q1, g1⟩ := h1 env s addr hp hl hx ha
  have ⟨l2, t2, e2, q2, g2⟩ := h2 (env.withLets l1) t1 addr hp hl (hx.withLets l1) (ha.withLets l1)
  refine ⟨l2, t2, ?_, q2.trans (hcongr addr _ _ q1), g1.trans g2⟩
  rw [execStmts_append, e1]
  simp only [Option.bind_some, e2, withLets_withLets]

theorem writesA_congr {p lvl : Nat} {x a : Expr} {v : Val} {ss : List Stmt} {f g : Nat → St → St}
    (h : WritesA p lvl x a v ss f) (hfg : ∀ addr st, f addr st = g addr st) : WritesA p lvl x a v ss g := by
  intro env s addr hp hl hx ha
  have ⟨l, t, e, q, gl⟩ := h env s addr hp hl hx ha
  exact ⟨l, t, e, by rw [← hfg]; exact q, gl⟩

theorem writesA_of_operand {p lvl : Nat} {x x' a : Expr} {v v' : Val} {ss : List Stmt} {f : Nat → St → St}
    (hx : ∀ env, ValStable env x v → ValStable env x' v') (h : WritesA p lvl x' a v' ss f) :
    WritesA p lvl x a v ss f := by
  intro env s addr hp hl hxv ha
  exact h env s addr hp hl (hx env hxv) ha

def StoreSoundA (p : Nat) (c : Cfg) (t : Ty) (v : Val) : Prop :=
  ∀ (lvl : Nat) (x a : Expr) (off : Off) (ss : List Stmt), store c lvl t x a off = .ok ss →
    WritesA p lvl x a v ss (fun addr st => Spec.store p t v (addr + off.at p) st)

/-- a variant-shaped store statement from the statements of its active arm -/
theorem writesA_variant (p lvl : Nat) (x a : Expr) (o : Op)
    (hop : ∀ pp cr ir brun s i pv, execOp pp cr ir brun s o [.v (.variant i pv)] = brun i { payload := pv.map MV.v } s)
    (i : Nat) (pv : Option Val) (arms : List (List Stmt × List Expr)) (stmts : List Stmt)
    (harm : arms[i]? = some (stmts, []))
    (x' : Expr) (v' : Val) (spec : Nat → St → St)
    (hx' : ∀ env, env.frames.length = lvl + 1 → ValStable env x (.variant i pv) →
      ValStable (env.extend [{ payload := pv.map MV.v }]) x' v')
    (hw : WritesA p (lvl + 1) x' a v' stmts spec) :
    WritesA p lvl x a (.variant i pv) [.eff o [x] arms] spec := by
  intro env s addr hp hl hx ha
  have ⟨ls, t, he, hq, hg⟩ := hw (env.extend [{ payload := pv.map MV.v }]) s addr hp (by simp [Env.extend, hl])
    (hx' env hl hx) (ha.extend _)
  refine ⟨(keyOf o [x], []) :: env.lets, t, ?_, hq, hg⟩
  simp only [execStmts, exec, evalList_cons, evalList_nil, hx.here s.st.mem, Option.bind_some, Option.map_some, hop]
  rw [execBlockAt_get env s arms i _ _ harm, enter_length_eq, he]
  simp [Env.bind, Env.withLets]

/-- elements stored one after the other by a per-element block (fixed-length and dynamic lists) -/
theorem elems_iterA (p lvl : Nat) (e : Ty) (off : Off) (body : List Stmt) (env : Env) (addr : Nat)
    (hp : env.p = p) (hl : env.frames.length = lvl + 1) (all : List Val) :
    ∀ (vs : List Val) (j : Nat) (s : MSt), all.drop j = vs → hasTyAll e vs = true →
      (∀ v, v ∈ vs → WritesA p (lvl + 1) (.elem (lvl + 1)) (.base (lvl + 1)) v body
          (fun b st => Spec.store p e v (b + off.at p) st)) →
      ∃ s', (List.range vs.length).foldlM (fun s i =>
          (execBlockAt env s [(body, [])] 0
            { elem := (all[j + i]?).map MV.v, base := some (addr + (j + i) * elemSize p e) }).map (·.2)) s
            = some s' ∧
        StEq s'.st (Spec.storeElems p e vs (addr + j * elemSize p e + off.at p) s.st) ∧ SameLedgers s s' := by
  intro vs
  induction vs with
  | nil =>
    intro j s _ _ _
    exact ⟨s, by simp [pure], by simpa [Spec.storeElems] using StEq.refl _, SameLedgers.refl _⟩
  | cons v vs ih =>
    intro j s hdrop ht hw
    simp [hasTyAll] at ht
    have hj : all[j]? = some v := by
      have := congrArg List.head? hdrop
      simpa [List.head?_drop] using this
    have hdrop' : all.drop (j + 1) = vs := by
      have := congrArg List.tail hdrop
      simpa [List.tail_drop] using this
    have ⟨ls, t1, e1, q1, g1⟩ := hw v (by simp)
      (env.extend [{ elem := some (MV.v v), base := some (addr + j * elemSize p e) }]) s (addr + j * elemSize p e)
      hp (by simp [Env.extend, hl]) (stable_elem env lvl hl _ v rfl) (stable_baseM env lvl hl _ _ rfl)
    have ⟨t2, e2, q2, g2⟩ := ih (j + 1) t1 hdrop' ht.2 (fun w hw' => hw w (by simp [hw']))
    refine ⟨t2, ?_, ?_, g1.trans g2⟩
    · rw [List.length_cons, List.range_succ_eq_map, List.foldlM_cons]
      have hhead : Option.map (fun x => x.2) (execBlockAt env s [(body, [])] 0
            { elem := Option.map MV.v all[j + 0]?, base := some (addr + (j + 0) * elemSize p e) })
          = some t1 := by
        simp [hj, execBlockAt, enter_length_eq, e1]
      rw [hhead]
      simp only [Option.bind_eq_bind, Option.bind_some, List.foldlM_map]
      have hfun : (fun (x : MSt) (y : Nat) => Option.map (fun x => x.2)
            (execBlockAt env x [(body, [])] 0
              { elem := Option.map MV.v all[j + y.succ]?, base := some (addr + (j + y.succ) * elemSize p e) }))
          = (fun (s : MSt) (i : Nat) => Option.map (fun x => x.2)
            (execBlockAt env s [(body, [])] 0
              { elem := Option.map MV.v all[j + 1 + i]?, base := some (addr + (j + 1 + i) * elemSize p e) })) := by
        funext s' i
        rw [show j + i.succ = j + 1 + i by omega]
      rw [hfun, e2]
    · simp only [Spec.storeElems]
      have hc := storeElems_congrA p vs e (addr + (j + 1) * elemSize p e + off.at p) _ _ ht.2 q1
      have haddr : addr + j * elemSize p e + off.at p + elemSize p e = addr + (j + 1) * elemSize p e + off.at p := by
        rw [Nat.add_mul]; omega
      rw [haddr]
      exact q2.trans hc

end Witverif.Abi
