import Witverif.Proofs.PkgPath
import Witverif.Text.Ident
/-! Helper lemmas for C09 / C31: heck's `to_snake_case` on WIT identifiers, the escape function. -/
namespace Witverif.Text.Ident
open Witverif.Text.Heck Witverif.Text.PkgSpec Witverif.Text.PkgPath

/-- upper-case ASCII letter or ASCII digit -/
def uod (c : Char) : Bool := isAsciiUpper c || isAsciiDigit c

/-- ASCII `to_lowercase` -/
def lowA (c : Char) : Char := if isAsciiUpper c then Char.ofNat (c.toNat + 32) else c

/-- what `to_snake_case` does to each character of a WIT identifier -/
def lowSep (c : Char) : Char := if c = '-' then '_' else lowA c

theorem toNat_ofNat_small (n : Nat) (h : n < 0xd800) : (Char.ofNat n).toNat = n := by
  have hv : n.isValidChar := Or.inl h
  simp only [Char.ofNat, hv, dite_true, Char.ofNatAux, Char.toNat]
  simp [UInt32.toNat_ofNatLT]

theorem uod_ascii {c : Char} (h : uod c = true) : c.toNat < 128 := by
  simp only [uod, isAsciiUpper, isAsciiDigit, Bool.or_eq_true, Bool.and_eq_true, decide_eq_true_eq] at h
  omega

theorem uod_alnum {c : Char} (h : uod c = true) : isAlnum c = true := by
  have := uod_ascii h
  simp only [uod, Bool.or_eq_true] at h
  simp only [isAlnum, this, if_true, Bool.or_eq_true]
  rcases h with h | h
  · exact Or.inl (Or.inr h)
  · exact Or.inr h

theorem uod_not_lower {c : Char} (h : uod c = true) : isLower c = false := by
  have ha := uod_ascii h
  simp only [uod, isAsciiUpper, isAsciiDigit, Bool.or_eq_true, Bool.and_eq_true, decide_eq_true_eq] at h
  simp only [isLower, ha, if_true, isAsciiLower]
  simp only [Bool.and_eq_false_iff, decide_eq_false_iff_not]
  omega

theorem uod_ne_sigma {c : Char} (h : uod c = true) : (c == 'Σ') = false := by
  have ha := uod_ascii h
  cases hc : c == 'Σ'
  · rfl
  · have : c = 'Σ' := by simpa using hc
    subst this
    exact absurd ha (by decide)

theorem uod_lowerChar {c : Char} (h : uod c = true) : lowerChar c = [lowA c] := by
  have ha := uod_ascii h
  simp only [lowerChar, ha, if_true, lowA]
  split <;> rfl

theorem lod_lowA {c : Char} (h : lod c = true) : lowA c = c := by
  have hu := lod_not_upper h
  have ha := lod_ascii h
  simp only [isUpper, ha, if_true] at hu
  simp [lowA, hu]

theorem nextMode_uod {c : Char} {m : Mode} (h : uod c = true) (hm : m ≠ .lower) :
    nextMode m c ≠ .lower := by
  simp only [nextMode, uod_not_lower h, Bool.false_eq_true, if_false]
  split
  · simp
  · exact hm

/-- a word of upper-case letters and digits is one segment -/
theorem wordSegs_uod (w : List Char) (hw : ∀ c ∈ w, uod c = true) :
    ∀ (cur : List Char) (m : Mode), m ≠ .lower → w ≠ [] → wordSegs w cur m = [cur ++ w] := by
  induction w with
  | nil => intro _ _ _ h; exact absurd rfl h
  | cons c cs ih =>
    intro cur m hm _
    cases cs with
    | nil => simp [wordSegs]
    | cons n rest =>
      have hc := hw c (by simp)
      have hn := hw n (by simp)
      have hnl : isLower n = false := uod_not_lower hn
      have hnm : nextMode m c ≠ .lower := nextMode_uod hc hm
      have h1 : (nextMode m c == Mode.lower) = false := by
        cases hx : nextMode m c <;> simp_all
      have := ih (fun x hx => hw x (by simp [hx])) (cur ++ [c]) (nextMode m c) hnm (by simp)
      simp [wordSegs, h1, hnl, this]

/-- `lowercase(seg)` on an ASCII alphanumeric segment is per-character ASCII lower-casing -/
theorem lowerSeg_ascii (w : List Char) (hw : ∀ c ∈ w, lod c = true ∨ uod c = true) :
    lowerSeg w = w.map lowA := by
  induction w with
  | nil => rfl
  | cons c cs ih =>
    have hc := hw c (by simp)
    have hlc : lowerChar c = [lowA c] := by
      rcases hc with h | h
      · rw [lod_lowerChar h, lod_lowA h]
      · exact uod_lowerChar h
    have hs : (c == 'Σ') = false := by
      rcases hc with h | h
      · exact lod_ne_sigma h
      · exact uod_ne_sigma h
    cases cs with
    | nil => simp [lowerSeg, hs, hlc]
    | cons n rest =>
      have := ih (fun x hx => hw x (by simp [hx]))
      simp only [lowerSeg, hlc, this]
      simp

theorem joinU_map_cons_head (f : Char → Char) (c : Char) (w : List Char) (ws : List (List Char)) :
    joinU ((f c :: w) :: ws) = f c :: joinU (w :: ws) := by
  cases ws <;> simp [joinU]

/-- joining the per-character images of the words puts `_` where the separators were -/
theorem joinU_map_splitWords (f : Char → Char) (s : List Char) :
    joinU ((splitWords s).map (List.map f)) = s.map (fun c => if isAlnum c then f c else '_') := by
  induction s with
  | nil => rfl
  | cons c cs ih =>
    have hne := splitWords_ne_nil cs
    cases hs : splitWords cs with
    | nil => exact absurd hs hne
    | cons w ws =>
      rw [hs] at ih
      by_cases hc : isAlnum c = true
      · simp only [splitWords, hc, if_true, hs, List.map_cons]
        rw [joinU_map_cons_head]
        simp only [List.map_cons] at ih
        rw [ih]
      · have hc' : isAlnum c = false := by simpa using hc
        simp only [splitWords, hc', Bool.false_eq_true, if_false, hs, List.map_cons, List.map_nil]
        simp only [List.map_cons] at ih
        simp [joinU, ih]

/-! ### WIT identifiers -/

theorem wordOk_chars {w : List Char} (h : wordOk w = true) :
    w ≠ [] ∧ ((∀ c ∈ w, lod c = true) ∨ (∀ c ∈ w, uod c = true)) := by
  simp only [wordOk, Bool.and_eq_true, bne_iff_ne, ne_eq, Bool.or_eq_true, List.all_eq_true] at h
  refine ⟨h.1, ?_⟩
  rcases h.2 with h2 | h2
  · left; intro c hc
    rcases h2 c hc with h | h
    · exact lod_of_lowerAz h
    · exact lod_of_digit09 h
  · right; intro c hc
    rcases h2 c hc with h | h
    · simp only [isUpperAz] at h; simp [uod, isAsciiUpper, h]
    · simp only [isDigit09] at h; simp [uod, isAsciiDigit, h]

theorem mem_splitOn (sep : Char) (s : List Char) (c : Char) (hc : c ∈ s) :
    c = sep ∨ ∃ w ∈ splitOn sep s, c ∈ w := by
  induction s with
  | nil => simp at hc
  | cons x xs ih =>
    simp only [splitOn]
    by_cases hx : x = sep
    · simp only [hx, if_true]
      rcases List.mem_cons.mp hc with rfl | hc
      · exact Or.inl hx
      · rcases ih hc with h | ⟨w, hw, hcw⟩
        · exact Or.inl h
        · exact Or.inr ⟨w, List.mem_cons_of_mem _ hw, hcw⟩
    · simp only [hx, if_false]
      cases hs : splitOn sep xs with
      | nil =>
        rcases List.mem_cons.mp hc with rfl | hc
        · exact Or.inr ⟨[c], by simp, by simp⟩
        · rcases ih hc with h | ⟨w, hw, _⟩
          · exact Or.inl h
          · rw [hs] at hw; simp at hw
      | cons w ws =>
        rcases List.mem_cons.mp hc with rfl | hc
        · exact Or.inr ⟨c :: w, by simp, by simp⟩
        · rcases ih hc with h | ⟨w', hw', hcw⟩
          · exact Or.inl h
          · rw [hs] at hw'
            rcases List.mem_cons.mp hw' with rfl | hw'
            · exact Or.inr ⟨x :: w', by simp, by simp [hcw]⟩
            · exact Or.inr ⟨w', by simp [hw'], hcw⟩

/-- with `-` as the only non-alphanumeric character, heck's word split is the split at `-` -/
theorem splitWords_eq_splitOn (s : List Char) (h : ∀ c ∈ s, c = '-' ∨ isAlnum c = true) :
    splitWords s = splitOn '-' s := by
  induction s with
  | nil => rfl
  | cons c cs ih =>
    have ih' := ih (fun x hx => h x (by simp [hx]))
    rcases h c (by simp) with rfl | hc
    · simp [splitWords, splitOn, dash_not_alnum, ih']
    · have hne : c ≠ '-' := by intro e; subst e; revert hc; decide
      simp only [splitWords, splitOn, hc, hne, if_true, if_false, ih']
      cases splitOn '-' cs <;> rfl

theorem validName_facts {s : List Char} (h : validName s = true) :
    (∀ w ∈ splitOn '-' s, wordOk w = true) ∧ (∀ c ∈ s, c = '-' ∨ lod c = true ∨ uod c = true) := by
  simp only [validName, Bool.and_eq_true, List.all_eq_true] at h
  refine ⟨h.2, ?_⟩
  intro c hc
  rcases mem_splitOn '-' s c hc with h1 | ⟨w, hw, hcw⟩
  · exact Or.inl h1
  · rcases (wordOk_chars (h.2 w hw)).2 with h2 | h2
    · exact Or.inr (Or.inl (h2 c hcw))
    · exact Or.inr (Or.inr (h2 c hcw))

/-- **heck on WIT identifiers**: `to_snake_case` lower-cases every letter and turns `-` into `_`;
nothing else happens (no camel-case splitting inside a word, because a word is single-cased). -/
theorem snake_valid (s : List Char) (h : validName s = true) : snake s = s.map lowSep := by
  obtain ⟨hw, hc⟩ := validName_facts h
  have hsplit : splitWords s = splitOn '-' s := splitWords_eq_splitOn s (fun c hcs => by
    rcases hc c hcs with h1 | h1 | h1
    · exact Or.inl h1
    · exact Or.inr (lod_alnum h1)
    · exact Or.inr (uod_alnum h1))
  have hall : ∀ w ∈ splitWords s, w ≠ [] ∧ ((∀ c ∈ w, lod c = true) ∨ (∀ c ∈ w, uod c = true)) := by
    intro w hws; rw [hsplit] at hws; exact wordOk_chars (hw w hws)
  have h1 : (splitWords s).flatMap (fun w => wordSegs w [] .boundary) = splitWords s :=
    flatMap_singleton _ _ (fun w hws => by
      obtain ⟨hne, hk⟩ := hall w hws
      rcases hk with hk | hk
      · simpa using wordSegs_lod w hk [] .boundary hne
      · simpa using wordSegs_uod w hk [] .boundary (by simp) hne)
  have h2 : (splitWords s).map lowerSeg = (splitWords s).map (List.map lowA) := by
    apply List.map_congr_left
    intro w hws
    apply lowerSeg_ascii
    intro c hcw
    rcases (hall w hws).2 with hk | hk
    · exact Or.inl (hk c hcw)
    · exact Or.inr (hk c hcw)
  simp only [snake, segments, h1, h2, joinU_map_splitWords]
  apply List.map_congr_left
  intro c hcs
  rcases hc c hcs with h1 | h1 | h1
  · subst h1; simp [lowSep, dash_not_alnum]
  · have : c ≠ '-' := (lod_ne h1).2.2.1
    simp [lowSep, lod_alnum h1, this]
  · have : c ≠ '-' := by intro e; subst e; revert h1; decide
    simp [lowSep, uod_alnum h1, this]

/-- characters of a WIT identifier, lower-cased, are never `_` -/
theorem lowSep_eq_us {c : Char} (h : c = '-' ∨ lod c = true ∨ uod c = true) :
    lowSep c = '_' ↔ c = '-' := by
  constructor
  · intro e
    rcases h with h | h | h
    · exact h
    · rw [lowSep] at e
      split at e
      · assumption
      · rw [lod_lowA h] at e; exact absurd e (lod_ne h).1
    · exfalso
      have hne : c ≠ '-' := by intro e; subst e; revert h; decide
      simp only [lowSep, hne, if_false, lowA] at e
      simp only [uod, isAsciiUpper, isAsciiDigit, Bool.or_eq_true, Bool.and_eq_true, decide_eq_true_eq] at h
      split at e
      · rename_i hu
        simp only [isAsciiUpper, Bool.and_eq_true, decide_eq_true_eq] at hu
        have : (Char.ofNat (c.toNat + 32)).toNat = c.toNat + 32 :=
          toNat_ofNat_small _ (by omega)
        have e2 := congrArg Char.toNat e
        rw [this] at e2
        simp at e2; omega
      · subst e; simp at h
  · intro e; subst e; simp [lowSep]

end Witverif.Text.Ident

namespace Witverif.Text.Ident
open Witverif.Text.Heck Witverif.Text.PkgSpec Witverif.Text.PkgPath

/-! ### the escape function, generically in the (generated) table and the (spec) keyword list -/

theorem lookupT_some {t : List (List Char × List Char)} {n v : List Char} (h : lookupT t n = some v) :
    (n, v) ∈ t := by
  simp only [lookupT, Option.map_eq_some_iff] at h
  obtain ⟨e, he, rfl⟩ := h
  have hm := List.mem_of_find?_eq_some he
  have hp := List.find?_some he
  have : e.1 = n := by simpa using hp
  rw [← this]; exact hm

theorem valid_char_ne_us {s : List Char} (h : validName s = true) : ∀ c ∈ s, c ≠ '_' := by
  intro c hc
  rcases (validName_facts h).2 c hc with h1 | h1 | h1
  · subst h1; decide
  · exact (lod_ne h1).1
  · intro e; subst e; revert h1; decide

/-- When does the emitted identifier hit a keyword?  Exactly when the name is not an arm of the
table and its lower-cased, `_`-separated spelling is a keyword. -/
theorem escape_keyword_iff (t : List (List Char × List Char)) (kws : List (List Char))
    (hv : ∀ e ∈ t, e.2 ∉ kws) (n : List Char) (h : validName n = true) :
    escapeIdent t n ∈ kws ↔ lookupT t n = none ∧ n.map lowSep ∈ kws := by
  unfold escapeIdent
  cases hl : lookupT t n with
  | some v =>
    simp only [reduceCtorEq, false_and, iff_false]
    exact hv _ (lookupT_some hl)
  | none => simp [snake_valid n h]

theorem map_lowSep_id {n : List Char} (hl : ∀ c ∈ n, isAsciiUpper c = false) (hd : '-' ∉ n) :
    n.map lowSep = n := by
  rw [List.map_congr_left (g := id)]
  · simp
  · intro c hc
    have : c ≠ '-' := fun e => hd (e ▸ hc)
    simp [lowSep, this, lowA, hl c hc]

/-- lower-case, dash-free names outside `exc`: never a keyword, provided the table covers every
lower-case `_`-free keyword outside `exc` (a decidable fact about table and keyword list). -/
theorem escape_not_keyword_lower (t : List (List Char × List Char)) (kws exc : List (List Char))
    (hv : ∀ e ∈ t, e.2 ∉ kws)
    (hcov : ∀ k ∈ kws, (lookupT t k).isSome = true ∨ k ∈ exc ∨ (∃ c ∈ k, isAsciiUpper c = true ∨ c = '_'))
    (n : List Char) (h : validName n = true) (hl : ∀ c ∈ n, isAsciiUpper c = false) (hd : '-' ∉ n)
    (hx : n ∉ exc) : escapeIdent t n ∉ kws := by
  intro hk
  obtain ⟨hnone, hmem⟩ := (escape_keyword_iff t kws hv n h).mp hk
  rw [map_lowSep_id hl hd] at hmem
  rcases hcov n hmem with h1 | h1 | ⟨c, hc, h1 | h1⟩
  · rw [hnone] at h1; simp at h1
  · exact hx h1
  · rw [hl c hc] at h1; simp at h1
  · exact valid_char_ne_us h c hc h1

/-- a name containing `-` becomes an identifier containing `_` -/
theorem us_mem_map_lowSep {n : List Char} (hd : '-' ∈ n) : '_' ∈ n.map lowSep :=
  List.mem_map.mpr ⟨'-', hd, by simp [lowSep]⟩

theorem splitOn_ne_nil (sep : Char) (s : List Char) : splitOn sep s ≠ [] := by
  cases s with
  | nil => simp [splitOn]
  | cons c cs =>
    simp only [splitOn]
    split
    · simp
    · split <;> simp

theorem splitOn_append_sep (sep : Char) (pre : List Char) :
    splitOn sep (pre ++ [sep]) = splitOn sep pre ++ [[]] := by
  induction pre with
  | nil => simp [splitOn]
  | cons c cs ih =>
    simp only [List.cons_append, splitOn, ih]
    split
    · simp
    · have := splitOn_ne_nil sep cs
      cases hs : splitOn sep cs with
      | nil => exact absurd hs this
      | cons w ws => simp

/-- a WIT identifier does not end in `-` -/
theorem valid_not_end_dash {s : List Char} (h : validName s = true) (pre : List Char) :
    s ≠ pre ++ ['-'] := by
  intro e
  have := (validName_facts h).1 [] (by rw [e, splitOn_append_sep]; simp)
  simp [wordOk] at this

theorem map_eq_map_of_imp {α β γ} (f : α → β) (g : α → γ) :
    ∀ (a b : List α), (∀ x ∈ a, ∀ y ∈ b, f x = f y → g x = g y) → a.map f = b.map f → a.map g = b.map g := by
  intro a
  induction a with
  | nil => intro b _ h; cases b <;> simp_all
  | cons x xs ih =>
    intro b hi h
    cases b with
    | nil => simp at h
    | cons y ys =>
      simp only [List.map_cons, List.cons.injEq] at h ⊢
      exact ⟨hi x (by simp) y (by simp) h.1,
        ih ys (fun x' hx' y' hy' => hi x' (by simp [hx']) y' (by simp [hy'])) h.2⟩

theorem lowSep_imp_lowA {x y : Char} (hx : x = '-' ∨ lod x = true ∨ uod x = true)
    (hy : y = '-' ∨ lod y = true ∨ uod y = true) (h : lowSep x = lowSep y) : lowA x = lowA y := by
  by_cases ex : x = '-'
  · have : lowSep y = '_' := by rw [← h, ex]; simp [lowSep]
    have := (lowSep_eq_us hy).mp this
    rw [ex, this]
  · have ey : y ≠ '-' := by
      intro e
      have : lowSep x = '_' := by rw [h, e]; simp [lowSep]
      exact ex ((lowSep_eq_us hx).mp this)
    simpa [lowSep, ex, ey] using h

/-- **Injectivity modulo case.**  Two WIT identifiers with the same emitted identifier are equal up
to the case of their letters — provided (decidable facts about the generated table) the table's
values are pairwise different and all end in `_`. -/
theorem escape_injective_mod_case (t : List (List Char × List Char))
    (hinj : ∀ e1 ∈ t, ∀ e2 ∈ t, e1.2 = e2.2 → e1.1 = e2.1)
    (hus : ∀ e ∈ t, e.2.getLast? = some '_')
    (a b : List Char) (ha : validName a = true) (hb : validName b = true)
    (h : escapeIdent t a = escapeIdent t b) : a.map lowA = b.map lowA := by
  have key : ∀ (x y v : List Char), validName y = true → (x, v) ∈ t → v = y.map lowSep → False := by
    intro x y v hy hm hv
    have hlast := hus _ hm
    simp only at hlast
    rw [hv, List.getLast?_map] at hlast
    cases hyl : y.getLast? with
    | none => rw [hyl] at hlast; simp at hlast
    | some c =>
      rw [hyl] at hlast
      simp only [Option.map_some, Option.some.injEq] at hlast
      have hcy : c ∈ y := List.mem_of_getLast? hyl
      have hc := (lowSep_eq_us ((validName_facts hy).2 c hcy)).mp hlast
      subst hc
      obtain ⟨pre, hpre⟩ : ∃ pre, y = pre ++ ['-'] := List.getLast?_eq_some_iff.mp hyl
      exact valid_not_end_dash hy pre hpre
  unfold escapeIdent at h
  cases hla : lookupT t a with
  | some va =>
    cases hlb : lookupT t b with
    | some vb =>
      simp only [hla, hlb] at h
      have := hinj _ (lookupT_some hla) _ (lookupT_some hlb) h
      simp only at this
      rw [this]
    | none =>
      simp only [hla, hlb, snake_valid b hb] at h
      exact absurd (key a b va hb (lookupT_some hla) h) id
  | none =>
    cases hlb : lookupT t b with
    | some vb =>
      simp only [hla, hlb, snake_valid a ha] at h
      exact absurd (key b a vb ha (lookupT_some hlb) h.symm) id
    | none =>
      simp only [hla, hlb, snake_valid a ha, snake_valid b hb] at h
      exact map_eq_map_of_imp lowSep lowA a b
        (fun x hx y hy => lowSep_imp_lowA ((validName_facts ha).2 x hx) ((validName_facts hb).2 y hy)) h

/-- on lower-case names "equal modulo case" is equality -/
theorem map_lowA_id {n : List Char} (hl : ∀ c ∈ n, isAsciiUpper c = false) : n.map lowA = n := by
  rw [List.map_congr_left (g := id)]
  · simp
  · intro c hc; simp [lowA, hl c hc]

/-! ### the recogniser of generator temporaries is complete -/

theorem allDigits_ne_us {ds : List Char} (h : allDigits ds = true) : ∀ c ∈ ds, (c != '_') = true := by
  intro c hc
  simp only [allDigits, Bool.and_eq_true, List.all_eq_true] at h
  have := h.2 c hc
  simp only [bne_iff_ne, ne_eq]
  intro e; subst e; revert this; decide

theorem isTempOf_digits (base ds : List Char) (h : allDigits ds = true) :
    isTempOf base (base ++ ds) = true := by
  simp [isTempOf, h]

theorem takeWhile_append_stop {α} (p : α → Bool) (l : List α) (x : α) (r : List α)
    (hl : ∀ a ∈ l, p a = true) (hx : p x = false) :
    (l ++ x :: r).takeWhile p = l ∧ (l ++ x :: r).dropWhile p = x :: r := by
  induction l with
  | nil => simp [hx]
  | cons a as ih =>
    have ha := hl a (by simp)
    have := ih (fun b hb => hl b (by simp [hb]))
    simp [ha, this]

theorem isTempOf_digits2 (base ds ds2 : List Char) (h : allDigits ds = true) (h2 : allDigits ds2 = true) :
    isTempOf base (base ++ ds ++ '_' :: ds2) = true := by
  have := takeWhile_append_stop (fun c : Char => c != '_') ds '_' ds2 (allDigits_ne_us h) (by simp)
  have hp : base.isPrefixOf (base ++ (ds ++ '_' :: ds2)) = true := by simp
  simp only [isTempOf, List.append_assoc, hp, List.drop_left', Bool.true_and]
  simp [this.1, this.2, h, h2]

theorem isTemp_complete (bases : List (List Char)) (x : List Char) (h : isTemp bases x = false) :
    ∀ base ∈ bases, ∀ ds, allDigits ds = true →
      x ≠ base ++ ds ∧ ∀ ds2, allDigits ds2 = true → x ≠ base ++ ds ++ '_' :: ds2 := by
  intro base hb ds hds
  simp only [isTemp, List.any_eq_false] at h
  have hb' := h base hb
  constructor
  · intro e; rw [e, isTempOf_digits base ds hds] at hb'; simp at hb'
  · intro ds2 hds2 e; rw [e, isTempOf_digits2 base ds ds2 hds hds2] at hb'; simp at hb'

end Witverif.Text.Ident

namespace Witverif.Text.Ident
open Witverif.Text.Heck Witverif.Text.PkgSpec Witverif.Text.PkgPath

/-! ### identifiers that are already snake case (package module names fed to `to_c_ident`) -/

/-- lower-case letters / digits in non-empty words separated by single `_` -/
def usSimple (s : List Char) : Bool := simpleTail true s && s.all (fun c => lod c || c == '_')

theorem simpleTail_last : ∀ (s : List Char) (b : Bool), simpleTail b s = true →
    ∀ c, s.getLast? = some c → isAlnum c = true := by
  intro s
  induction s with
  | nil => intro b _ c h; simp at h
  | cons x xs ih =>
    intro b h c hc
    cases xs with
    | nil =>
      simp only [List.getLast?_singleton, Option.some.injEq] at hc
      subst hc
      by_cases hx : isAlnum x = true
      · exact hx
      · have hx' : isAlnum x = false := by simpa using hx
        simp [simpleTail, hx'] at h
    | cons y ys =>
      have hc' : (y :: ys).getLast? = some c := by simpa [List.getLast?_cons_cons] using hc
      by_cases hx : isAlnum x = true
      · simp only [simpleTail, hx, if_true, Bool.and_eq_true] at h
        exact ih false h.2 c hc'
      · have hx' : isAlnum x = false := by simpa using hx
        simp only [simpleTail, hx', Bool.false_eq_true, if_false, Bool.and_eq_true] at h
        exact ih true h.2 c hc'

theorem snake_usSimple (s : List Char) (h : usSimple s = true) : snake s = s := by
  simp only [usSimple, Bool.and_eq_true, List.all_eq_true, Bool.or_eq_true, beq_iff_eq] at h
  rw [snake_simple s h.1, List.map_congr_left (g := id)]
  · simp
  · intro c hc
    rcases h.2 c hc with h1 | h1
    · simp [sepU, lod_alnum h1]
    · subst h1; decide

/-- `to_c_ident` is injective on snake-case module names (table values pairwise different, all ending in `_`) -/
theorem escape_injective_usSimple (t : List (List Char × List Char))
    (hinj : ∀ e1 ∈ t, ∀ e2 ∈ t, e1.2 = e2.2 → e1.1 = e2.1)
    (hus : ∀ e ∈ t, e.2.getLast? = some '_')
    (x y : List Char) (hx : usSimple x = true) (hy : usSimple y = true)
    (h : escapeIdent t x = escapeIdent t y) : x = y := by
  have key : ∀ (k z v : List Char), usSimple z = true → (k, v) ∈ t → v = z → False := by
    intro k z v hz hm hv
    have hl := hus _ hm
    simp only at hl
    rw [hv] at hl
    simp only [usSimple, Bool.and_eq_true] at hz
    have := simpleTail_last z true hz.1 '_' hl
    exact absurd this (by decide)
  unfold escapeIdent at h
  cases hla : lookupT t x with
  | some vx =>
    cases hlb : lookupT t y with
    | some vy =>
      simp only [hla, hlb] at h
      exact hinj _ (lookupT_some hla) _ (lookupT_some hlb) h
    | none =>
      simp only [hla, hlb, snake_usSimple y hy] at h
      exact absurd (key x y vx hy (lookupT_some hla) h) id
  | none =>
    cases hlb : lookupT t y with
    | some vy =>
      simp only [hla, hlb, snake_usSimple x hx] at h
      exact absurd (key y x vy hx (lookupT_some hlb) h.symm) id
    | none =>
      simpa [hla, hlb, snake_usSimple x hx, snake_usSimple y hy] using h

end Witverif.Text.Ident

namespace Witverif.Text.Ident
open Witverif.Text.Heck Witverif.Text.PkgSpec Witverif.Text.PkgPath

/-! ### the escape function with the table looked up on the snake-cased name (`escapeIdentS`) -/

theorem lowSep_not_upper {c : Char} (h : c = '-' ∨ lod c = true ∨ uod c = true) :
    isAsciiUpper (lowSep c) = false := by
  rcases h with h | h | h
  · subst h; decide
  · have hne : c ≠ '-' := (lod_ne h).2.2.1
    have hu := lod_not_upper h
    have ha := lod_ascii h
    simp only [isUpper, ha, if_true] at hu
    simp [lowSep, hne, lod_lowA h, hu]
  · have hne : c ≠ '-' := by intro e; subst e; revert h; decide
    simp only [lowSep, hne, if_false, lowA]
    split
    · rename_i hu
      simp only [isAsciiUpper, Bool.and_eq_true, decide_eq_true_eq] at hu
      have : (Char.ofNat (c.toNat + 32)).toNat = c.toNat + 32 := toNat_ofNat_small _ (by omega)
      simp only [isAsciiUpper, this, Bool.and_eq_false_iff, decide_eq_false_iff_not]
      omega
    · rename_i hu; simpa using hu

theorem snake_valid_not_upper (n : List Char) (h : validName n = true) :
    ∀ c ∈ snake n, isAsciiUpper c = false := by
  rw [snake_valid n h]
  intro c hc
  obtain ⟨x, hx, rfl⟩ := List.mem_map.mp hc
  exact lowSep_not_upper ((validName_facts h).2 x hx)

theorem snake_usSimple_not_upper (x : List Char) (h : usSimple x = true) :
    ∀ c ∈ snake x, isAsciiUpper c = false := by
  rw [snake_usSimple x h]
  simp only [usSimple, Bool.and_eq_true, List.all_eq_true, Bool.or_eq_true, beq_iff_eq] at h
  intro c hc
  rcases h.2 c hc with h1 | h1
  · have hu := lod_not_upper h1
    have ha := lod_ascii h1
    simpa [isUpper, ha] using hu
  · subst h1; decide

/-- **No keyword, for any input whose snake case has no upper-case letter** — provided (decidable
facts about table and keyword list) no table value is a keyword and every keyword without an
upper-case letter is an arm of the table. -/
theorem escapeS_not_keyword (t : List (List Char × List Char)) (kws : List (List Char))
    (hv : ∀ e ∈ t, e.2 ∉ kws)
    (hcov : ∀ k ∈ kws, (lookupT t k).isSome = true ∨ ∃ c ∈ k, isAsciiUpper c = true)
    (x : List Char) (hx : ∀ c ∈ snake x, isAsciiUpper c = false) : escapeIdentS t x ∉ kws := by
  unfold escapeIdentS
  cases hl : lookupT t (snake x) with
  | some v => exact hv _ (lookupT_some hl)
  | none =>
    intro hk
    rcases hcov _ hk with h1 | ⟨c, hc, h1⟩
    · rw [hl] at h1; simp at h1
    · rw [hx c hc] at h1; simp at h1

theorem valid_snake_last (y : List Char) (hy : validName y = true) :
    (snake y).getLast? ≠ some '_' := by
  rw [snake_valid y hy, List.getLast?_map]
  intro hlast
  cases hyl : y.getLast? with
  | none => rw [hyl] at hlast; simp at hlast
  | some c =>
    rw [hyl] at hlast
    simp only [Option.map_some, Option.some.injEq] at hlast
    have hcy : c ∈ y := List.mem_of_getLast? hyl
    have hc := (lowSep_eq_us ((validName_facts hy).2 c hcy)).mp hlast
    subst hc
    obtain ⟨pre, hpre⟩ : ∃ pre, y = pre ++ ['-'] := List.getLast?_eq_some_iff.mp hyl
    exact valid_not_end_dash hy pre hpre

theorem usSimple_snake_last (x : List Char) (hx : usSimple x = true) :
    (snake x).getLast? ≠ some '_' := by
  rw [snake_usSimple x hx]
  intro h
  simp only [usSimple, Bool.and_eq_true] at hx
  exact absurd (simpleTail_last x true hx.1 '_' h) (by decide)

/-- equal emitted identifiers come from equal snake cases (table values pairwise different, all
ending in `_`; snake cases not ending in `_`) -/
theorem escapeS_snake_eq (t : List (List Char × List Char))
    (hinj : ∀ e1 ∈ t, ∀ e2 ∈ t, e1.2 = e2.2 → e1.1 = e2.1)
    (hus : ∀ e ∈ t, e.2.getLast? = some '_')
    (a b : List Char) (ha : (snake a).getLast? ≠ some '_') (hb : (snake b).getLast? ≠ some '_')
    (h : escapeIdentS t a = escapeIdentS t b) : snake a = snake b := by
  unfold escapeIdentS at h
  cases hla : lookupT t (snake a) with
  | some va =>
    cases hlb : lookupT t (snake b) with
    | some vb =>
      simp only [hla, hlb] at h
      exact hinj _ (lookupT_some hla) _ (lookupT_some hlb) h
    | none =>
      simp only [hla, hlb] at h
      have := hus _ (lookupT_some hla)
      simp only at this
      rw [h] at this
      exact absurd this hb
  | none =>
    cases hlb : lookupT t (snake b) with
    | some vb =>
      simp only [hla, hlb] at h
      have := hus _ (lookupT_some hlb)
      simp only at this
      rw [← h] at this
      exact absurd this ha
    | none => simpa [hla, hlb] using h

theorem escapeS_injective_mod_case (t : List (List Char × List Char))
    (hinj : ∀ e1 ∈ t, ∀ e2 ∈ t, e1.2 = e2.2 → e1.1 = e2.1)
    (hus : ∀ e ∈ t, e.2.getLast? = some '_')
    (a b : List Char) (ha : validName a = true) (hb : validName b = true)
    (h : escapeIdentS t a = escapeIdentS t b) : a.map lowA = b.map lowA := by
  have := escapeS_snake_eq t hinj hus a b (valid_snake_last a ha) (valid_snake_last b hb) h
  rw [snake_valid a ha, snake_valid b hb] at this
  exact map_eq_map_of_imp lowSep lowA a b
    (fun x hx y hy => lowSep_imp_lowA ((validName_facts ha).2 x hx) ((validName_facts hb).2 y hy)) this

theorem escapeS_injective_usSimple (t : List (List Char × List Char))
    (hinj : ∀ e1 ∈ t, ∀ e2 ∈ t, e1.2 = e2.2 → e1.1 = e2.1)
    (hus : ∀ e ∈ t, e.2.getLast? = some '_')
    (x y : List Char) (hx : usSimple x = true) (hy : usSimple y = true)
    (h : escapeIdentS t x = escapeIdentS t y) : x = y := by
  have := escapeS_snake_eq t hinj hus x y (usSimple_snake_last x hx) (usSimple_snake_last y hy) h
  rwa [snake_usSimple x hx, snake_usSimple y hy] at this

end Witverif.Text.Ident
