import Witverif.Proofs.AbiSpecWf2
/-!
The canonical ABI's own flat round trip on memory-free types (spec side only):
`Spec.liftFlat p m t (Spec.lowerFlat p t v st).1 = some v` for every value `v` of every type `t` that
does not use linear memory (any nesting of records, tuples, flags, enums, variants / options /
results with every slot join, fixed-length lists, scalars, handles), any memory `m`, any pointer
width.  Used by C05 (what the host lifts from the guest's flat lowering is the value the guest
passed); importable by C01/C10.
-/
namespace Witverif.Abi
open Spec

/-! ### scalars -/

theorem signed_wrap32 (w : Nat) (n : Int) (hw : w = 8 ∨ w = 16 ∨ w = 32)
    (hlo : -(2 ^ (w - 1) : Nat) ≤ n) (hhi : n < (2 ^ (w - 1) : Nat)) : signed w (wrap 32 n) = n := by
  rcases hw with rfl | rfl | rfl <;> simp only [signed, wrap, Nat.reducePow, Nat.reduceSub] at * <;> omega

theorem signed_wrap64 (n : Int) (hlo : -9223372036854775808 ≤ n) (hhi : n ≤ 9223372036854775807) :
    signed 64 (wrap 64 n) = n := by
  simp only [signed, wrap, Nat.reducePow, Nat.reduceSub] at *; omega

theorem mod_wrap32 (w : Nat) (n : Int) (hw : w = 8 ∨ w = 16 ∨ w = 32) (hlo : 0 ≤ n) (hhi : n < (2 ^ w : Nat)) :
    ((wrap 32 n % 2 ^ w : Nat) : Int) = n := by
  rcases hw with rfl | rfl | rfl <;> simp only [wrap, Nat.reducePow] at * <;> omega

theorem mod_wrap64 (n : Int) (hlo : 0 ≤ n) (hhi : n ≤ 18446744073709551615) :
    ((wrap 64 n % 2 ^ 64 : Nat) : Int) = n := by
  simp only [wrap, Nat.reducePow] at *; omega


/-! ### joined slots -/

/-- coercing a payload into the joined slots and back is the identity -/
theorem coerceBack_coercePayload : ∀ (vs : List CVal) (tp ws : List FT),
    WfFlat vs tp → WidthLe tp ws → coerceBack (coercePayload vs ws) tp = vs := by
  intro vs
  induction vs with
  | nil =>
    intro tp ws hwf _
    have : tp = [] := by have := hwf.1; simpa using this.symm
    subst this
    cases h : coercePayload [] ws <;> simp [coerceBack]
  | cons v vs ih =>
    intro tp ws hwf hle
    cases tp with
    | nil => simp [WfFlat] at hwf
    | cons t tp =>
      cases ws with
      | nil => have ⟨h', _⟩ := hle 0 (by simp); simp at h'
      | cons w ws =>
        have hv : v.ty = t := by have := hwf.1; simp at this; exact this.1
        have hvb : v.bits < 2 ^ v.ty.width := hwf.2 v (by simp)
        have ⟨_, hw0⟩ := hle 0 (by simp)
        simp at hw0
        have hrest := ih tp ws ⟨by have := hwf.1; simp at this; exact this.2,
            fun x hx => hwf.2 x (by simp [hx])⟩
          (by intro k h; have ⟨h', hl⟩ := hle (k + 1) (by simpa using h); exact ⟨by simpa using h', by simpa using hl⟩)
        simp only [coercePayload, coerceBack, hrest, List.cons.injEq, and_true]
        obtain ⟨vt, vb⟩ := v
        simp only at hv hvb
        subst hv
        simp only [coerceSlot, CVal.mk.injEq, true_and]
        cases vt <;> cases w <;> simp [FT.width] at hw0 hvb ⊢ <;> omega

/-! ### flags -/

def bitSum (f : Nat → Bool) (n : Nat) : Nat := ((List.range n).map fun i => if f i then 2 ^ i else 0).sum

theorem bitSum_succ (f : Nat → Bool) (n : Nat) : bitSum f (n + 1) = bitSum f n + (if f n then 2 ^ n else 0) := by
  simp [bitSum, List.range_succ]

theorem bitSum_lt (f : Nat → Bool) (n : Nat) : bitSum f n < 2 ^ n :=
  sum_pow_lt (fun i => if f i then 2 ^ i else 0) (by intro i; split <;> simp) n

theorem bitSum_testBit (f : Nat → Bool) : ∀ n k, (bitSum f n).testBit k = (decide (k < n) && f k)
  | 0, k => by simp [bitSum]
  | n + 1, k => by
      have ih := bitSum_testBit f n k
      have hlt := bitSum_lt f n
      rw [bitSum_succ]
      by_cases hf : f n = true
      · simp only [hf, ↓reduceIte]
        rw [Nat.add_comm]
        rcases Nat.lt_trichotomy k n with h | h | h
        · rw [Nat.testBit_two_pow_add_gt h, ih]; simp [h, Nat.lt_succ_of_lt h]
        · subst h
          rw [Nat.testBit_two_pow_add_eq, Nat.testBit_lt_two_pow hlt]; simp [hf]
        · have : 2 ^ n + bitSum f n < 2 ^ k := by
            have : 2 ^ (n + 1) ≤ 2 ^ k := Nat.pow_le_pow_right (by decide) h
            rw [Nat.pow_succ] at this; omega
          rw [Nat.testBit_lt_two_pow this]
          have : ¬ k < n + 1 := by omega
          simp [this]
      · simp only [hf, Bool.false_eq_true, ↓reduceIte, Nat.add_zero, ih]
        by_cases hk : k = n
        · subst hk; simp [hf]
        · have : (k < n + 1) = (k < n) := by apply propext; omega
          simp [this]

theorem flagsWord_eq_bitSum (bs : List Bool) (w : Nat) :
    flagsWord bs w = bitSum (fun i => bs.getD (32 * w + i) false) 32 := rfl

theorem flags_roundtrip (n : Nat) (bs : List Bool) (hl : bs.length = n) :
    flagsOfWords n (((List.range (flagsRepr n).count).map fun w => ci32 (flagsWord bs w)).map (·.bits)) = bs := by
  apply List.ext_getElem
  · simp [flagsOfWords, hl]
  · intro i h1 h2
    have hi : i < n := by simpa [flagsOfWords] using h1
    have hc : i / 32 < (flagsRepr n).count := by
      simp only [flagsRepr]
      split
      · omega
      · split
        · simp [FlagsRepr.count]; omega
        · split
          · simp [FlagsRepr.count]; omega
          · simp [FlagsRepr.count]; omega
    simp only [flagsOfWords, List.getElem_map, List.getElem_range, List.map_map]
    have hget : (List.map ((fun x => x.bits) ∘ fun w => ci32 (flagsWord bs w)) (List.range (flagsRepr n).count)).getD (i / 32) 0
        = flagsWord bs (i / 32) := by
      simp [List.getD, hc, ci32]
    rw [hget]
    have ht := bitSum_testBit (fun j => bs.getD (32 * (i / 32) + j) false) 32 (i % 32)
    rw [← flagsWord_eq_bitSum, Nat.testBit_eq_decide_div_mod_eq] at ht
    have hm : i % 32 < 32 := Nat.mod_lt _ (by decide)
    have hidx : 32 * (i / 32) + i % 32 = i := by omega
    simp only [hm, decide_true, Bool.true_and, hidx] at ht
    have hb : bs.getD i false = bs[i] := by simp [List.getD, h2]
    rw [hb] at ht
    cases hv : bs[i] <;> simp_all

/-! ### the round trip -/

theorem liftCase_get (p : Nat) (m : Mem) : ∀ (cs : List (Option Ty)) (i : Nat) (c : Option Ty) (vs : List CVal),
    cs[i]? = some c → Spec.liftCase p m cs i vs = Spec.liftOpt p m c vs
  | [], i, c, vs, h => by simp at h
  | d :: ds, 0, c, vs, h => by simp at h; subst h; simp [Spec.liftCase]
  | d :: ds, i + 1, c, vs, h => by simpa [Spec.liftCase] using liftCase_get p m ds i c vs (by simpa using h)

theorem wf_length {cs : List CVal} {ts : List FT} (h : WfFlat cs ts) : cs.length = ts.length := by
  have := congrArg List.length h.1; simpa using this

mutual
/-- **The spec's flat round trip on memory-free types**: lifting what `lower_flat` produced yields the
value, from any memory, for any pointer width. -/
theorem liftFlat_lowerFlat (p : Nat) (m : Mem) : ∀ (v : Val) (t : Ty) (st : St), memFree t = true → hasTy t v = true →
    Spec.liftFlat p m t (Spec.lowerFlat p t v st).1 = some v
  | .bool b, t, st, _, ht => by
      cases t <;> simp [hasTy] at ht
      cases b <;> simp [Spec.lowerFlat, Spec.liftFlat, ci32]
  | .int n, t, st, _, ht => by
      cases t <;> simp [hasTy] at ht
      · simp only [Spec.lowerFlat, Spec.liftFlat, ci32, Option.some.injEq, Val.int.injEq]
        exact signed_wrap32 8 n (by simp) (by simp; omega) (by simp; omega)
      · simp only [Spec.lowerFlat, Spec.liftFlat, ci32, Option.some.injEq, Val.int.injEq]
        exact mod_wrap32 8 n (by simp) ht.1 (by simp; omega)
      · simp only [Spec.lowerFlat, Spec.liftFlat, ci32, Option.some.injEq, Val.int.injEq]
        exact signed_wrap32 16 n (by simp) (by simp; omega) (by simp; omega)
      · simp only [Spec.lowerFlat, Spec.liftFlat, ci32, Option.some.injEq, Val.int.injEq]
        exact mod_wrap32 16 n (by simp) ht.1 (by simp; omega)
      · simp only [Spec.lowerFlat, Spec.liftFlat, ci32, Option.some.injEq, Val.int.injEq]
        exact signed_wrap32 32 n (by simp) (by simp; omega) (by simp; omega)
      · simp only [Spec.lowerFlat, Spec.liftFlat, ci32, Option.some.injEq, Val.int.injEq]
        exact mod_wrap32 32 n (by simp) ht.1 (by simp; omega)
      · simp only [Spec.lowerFlat, Spec.liftFlat, Option.some.injEq, Val.int.injEq]
        exact signed_wrap64 n ht.1 ht.2
      · simp only [Spec.lowerFlat, Spec.liftFlat, Option.some.injEq, Val.int.injEq]
        exact mod_wrap64 n ht.1 ht.2
  | .f32 b, t, st, _, ht => by
      cases t <;> simp [hasTy] at ht
      simp [Spec.lowerFlat, Spec.liftFlat]
  | .f64 b, t, st, _, ht => by
      cases t <;> simp [hasTy] at ht
      simp [Spec.lowerFlat, Spec.liftFlat]
  | .char c, t, st, _, ht => by
      cases t <;> simp [hasTy] at ht
      simp [Spec.lowerFlat, Spec.liftFlat, ci32, ht]
  | .str bs, t, st, hm, ht => by
      cases t <;> simp [hasTy] at ht
      simp [memFree] at hm
  | .handle h, t, st, _, ht => by
      cases t <;> simp [hasTy] at ht <;> simp [Spec.lowerFlat, Spec.liftFlat, ci32]
  | .enum i, t, st, _, ht => by
      cases t <;> simp [hasTy] at ht
      simp [Spec.lowerFlat, Spec.liftFlat, ci32, ht]
  | .flags bs, t, st, _, ht => by
      cases t <;> simp [hasTy] at ht
      rename_i n _
      simp only [Spec.lowerFlat, Spec.liftFlat, Option.some.injEq, Val.flags.injEq]
      exact flags_roundtrip n bs ht
  | .list vs, t, st, hm, ht => by
      cases t <;> simp [hasTy] at ht
      · simp [memFree] at hm
      · rename_i e k
        simp only [memFree] at hm
        obtain ⟨hk, hall⟩ := ht
        have := liftMany_lowerAll p m vs e st hm hall
        simp only [Spec.lowerFlat, Spec.liftFlat]
        rw [← hk, this]; rfl
      · simp [memFree] at hm
  | .record vs, t, st, hm, ht => by
      cases t <;> simp [hasTy] at ht
      · rename_i fs
        simp only [memFree] at hm
        simp [Spec.lowerFlat, Spec.liftFlat, liftFields_lowerFields p m vs fs st hm ht]
      · rename_i fs
        simp only [memFree] at hm
        simp [Spec.lowerFlat, Spec.liftFlat, liftFields_lowerFields p m vs fs st hm ht]
  | .variant i pv, t, st, hm, ht => by
      cases t <;> try (simp [hasTy] at ht; done)
      · -- variant
        rename_i cs
        simp [memFree] at hm
        simp only [hasTy] at ht
        cases hc : cs[i]? with
        | none => simp [hc] at ht
        | some c =>
          simp only [hc] at ht
          have hmc := memFreeCases_get cs i c hm.2 hc
          have hi : i < cs.length := by
            have := List.getElem?_eq_some_iff.mp hc; exact this.1
          simp only [Spec.lowerFlat, hc, Spec.liftFlat, ci32, hi, ↓reduceIte]
          rw [liftCase_get p m cs i c _ hc,
            liftOpt_lowerOpt p m pv c st hmc ht _ (specFlattenCases_widthLe p cs i c hc)]
          rfl
      · -- option
        rename_i t'
        simp [memFree] at hm
        cases pv with
        | none =>
          cases i with
          | zero => simp [Spec.lowerFlat, Spec.liftFlat, ci32]
          | succ i => simp [hasTy] at ht
        | some v =>
          cases i with
          | zero => simp [hasTy] at ht
          | succ i =>
            cases i with
            | succ i => simp [hasTy] at ht
            | zero =>
              simp [hasTy] at ht
              have ⟨_, h2⟩ := lowerFlat_wf p v t' st hm ht
              have ih := liftFlat_lowerFlat p m v t' st hm ht
              simp only [Spec.lowerFlat, Spec.liftFlat, ci32]
              rw [coerceBack_coercePayload _ _ _ h2 (WidthLe.refl _), ih]
              rfl
      · -- result
        rename_i a b
        simp [memFree] at hm
        cases i with
        | zero =>
          simp [hasTy] at ht
          simp only [Spec.lowerFlat, Spec.liftFlat, ci32, ↓reduceIte]
          rw [liftOpt_lowerOpt p m pv a st hm.1 ht _ (specJoinFlat_widthLe_left _ _)]
          rfl
        | succ i =>
          cases i with
          | succ i => simp [hasTy] at ht
          | zero =>
            simp [hasTy] at ht
            simp only [Spec.lowerFlat, Spec.liftFlat, ci32]
            simp only [Nat.add_eq_zero_iff, Nat.succ_ne_self, and_false, ↓reduceIte, Nat.reduceAdd, Nat.reduceEqDiff]
            rw [liftOpt_lowerOpt p m pv b st hm.2 ht _ (specJoinFlat_widthLe_right _ _)]
            rfl
theorem liftMany_lowerAll (p : Nat) (m : Mem) : ∀ (vs : List Val) (t : Ty) (st : St), memFree t = true →
    hasTyAll t vs = true →
    Spec.liftMany (Spec.liftFlat p m t) (Spec.flatten p t).length vs.length (Spec.lowerAll p t vs st).1 = some vs
  | [], t, st, _, _ => by simp [Spec.lowerAll, Spec.liftMany]
  | v :: vs, t, st, hm, ht => by
      simp [hasTyAll] at ht
      have ⟨h1, h2⟩ := lowerFlat_wf p v t st hm ht.1
      have ih1 := liftFlat_lowerFlat p m v t st hm ht.1
      have ih2 := liftMany_lowerAll p m vs t st hm ht.2
      simp only [Spec.lowerAll, List.length_cons, Spec.liftMany, h1]
      rw [List.take_left' (wf_length h2), List.drop_left' (wf_length h2), ih1, ih2]
      rfl
theorem liftFields_lowerFields (p : Nat) (m : Mem) : ∀ (vs : List Val) (ts : List Ty) (st : St), memFreeAll ts = true →
    hasTys ts vs = true → Spec.liftFields p m ts (Spec.lowerFields p ts vs st).1 = some vs
  | [], ts, st, _, ht => by
      cases ts <;> simp [hasTys] at ht
      simp [Spec.lowerFields, Spec.liftFields]
  | v :: vs, ts, st, hm, ht => by
      cases ts with
      | nil => simp [hasTys] at ht
      | cons t ts =>
        simp [hasTys] at ht
        simp [memFreeAll] at hm
        have ⟨h1, h2⟩ := lowerFlat_wf p v t st hm.1 ht.1
        have ih1 := liftFlat_lowerFlat p m v t st hm.1 ht.1
        have ih2 := liftFields_lowerFields p m vs ts st hm.2 ht.2
        simp only [Spec.lowerFields, Spec.liftFields, h1]
        rw [List.take_left' (wf_length h2), List.drop_left' (wf_length h2), ih1, ih2]
        rfl
theorem liftOpt_lowerOpt (p : Nat) (m : Mem) : ∀ (pv : Option Val) (o : Option Ty) (st : St), memFreeOpt o = true →
    hasTyOpt o pv = true → ∀ ws, WidthLe (Spec.flattenOpt p o) ws →
    Spec.liftOpt p m o (coercePayload (Spec.lowerOpt p o pv st).1 ws) = some pv
  | none, o, st, _, ht, ws, _ => by
      cases o <;> simp [hasTyOpt] at ht
      simp [Spec.liftOpt]
  | some v, o, st, hm, ht, ws, hw => by
      cases o with
      | none => simp [hasTyOpt] at ht
      | some t =>
        simp [hasTyOpt] at ht
        simp [memFreeOpt] at hm
        have ⟨_, h2⟩ := lowerFlat_wf p v t st hm ht
        have ih := liftFlat_lowerFlat p m v t st hm ht
        simp only [Spec.lowerOpt, Spec.liftOpt]
        rw [coerceBack_coercePayload _ _ _ h2 (by simpa [Spec.flattenOpt] using hw), ih]
        rfl
end
/-! ### strings (a type that uses linear memory) -/

theorem read_write_ne (m : Mem) (a b x : Nat) (h : b ≠ a) : (m.write b x).read a = m.read a := by
  simp [Mem.write, Mem.read, h]

theorem read_write_eq (m : Mem) (a x : Nat) : (m.write a x).read a = x % 256 := by
  simp [Mem.write, Mem.read]

theorem read_storeBytes_lt : ∀ (bs : List Nat) (m : Mem) (a b : Nat), a < b → (storeBytes m b bs).read a = m.read a
  | [], _, _, _, _ => rfl
  | x :: bs, m, a, b, h => by
      simp only [storeBytes]
      rw [read_storeBytes_lt bs _ a (b + 1) (by omega), read_write_ne _ _ _ _ (by omega)]

theorem loadBytes_storeBytes : ∀ (bs : List Nat) (m : Mem) (a : Nat), (∀ b ∈ bs, b < 256) →
    loadBytes (storeBytes m a bs) a bs.length = bs
  | [], _, _, _ => rfl
  | x :: bs, m, a, h => by
      simp only [storeBytes, List.length_cons, loadBytes]
      rw [read_storeBytes_lt bs _ a (a + 1) (by omega), read_write_eq,
        loadBytes_storeBytes bs _ (a + 1) (fun b hb => h b (List.mem_cons_of_mem _ hb)),
        Nat.mod_eq_of_lt (h x (by simp))]

/-- the spec's flat round trip for strings (a type that uses linear memory) -/
theorem liftFlat_lowerFlat_string (p : Nat) (bs : List Nat) (st : St) (h : hasTy .string (.str bs) = true) :
    Spec.liftFlat p (Spec.lowerFlat p .string (.str bs) st).2.mem .string (Spec.lowerFlat p .string (.str bs) st).1
      = some (.str bs) := by
  simp only [hasTy, List.all_eq_true, decide_eq_true_eq] at h
  simp [Spec.lowerFlat, Spec.liftFlat, pcv, loadBytes_storeBytes bs _ _ h]

end Witverif.Abi
