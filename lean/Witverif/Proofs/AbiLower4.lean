import Witverif.Proofs.AbiLower3
/-! C01: main theorem — flat lowering of memory-free types is the spec's `lower_flat`. -/
namespace Witverif.Abi
open Spec

theorem flattenCases_get_bounds (cs : List (Option Ty)) (i : Nat) (c : Option Ty) (h : cs[i]? = some c) :
    ∀ (k : Nat) (hk : k < (flattenOpt c).length),
      ∃ h' : k < (flattenCases cs).length, le ((flattenOpt c)[k]) ((flattenCases cs)[k]) = true :=
  flattenCases_bounds cs c (List.mem_of_getElem? h)

theorem joinFlat_nil_right (as : List CoreTy) : joinFlat as [] = as := by
  cases as <;> simp [joinFlat]

/-- the arm of a case without payload -/
theorem arm_none_sound (p : Nat) (c : Cfg) : ArmSound p c none none := by
  intro lvl results i env m st arm hp _ _ harm
  simp [lowerArm, armOfLower, pure, Except.pure] at harm
  subst harm
  simp only [evalList_cons, eval, Option.bind_some]
  rw [evalList_zeros, enter_p, hp]
  simp [Spec.lowerOpt, coercePayload, ci32, Function.comp_def]

theorem list_map_c_injective {a b : List CVal} (h : a.map MV.c = b.map MV.c) : a = b := by
  induction a generalizing b with
  | nil => cases b <;> simp at h ⊢
  | cons x xs ih =>
    cases b with
    | nil => simp at h
    | cons y ys => simp at h; simp [h.1, ih h.2]

/-- the arm of a case with payload, given soundness of the payload's lowering -/
theorem arm_some_sound (p : Nat) (hp4 : p = 4 ∨ p = 8) (c : Cfg) (t : Ty) (v : Val)
    (hm : memFree t = true) (ht : hasTy t v = true) (ih : LowerSound p c t v) :
    ArmSound p c (some t) (some v) := by
  intro lvl results i env m st arm hp hlvl hb harm
  simp only [lowerArm, bind_ok] at harm
  obtain ⟨⟨sts, rs⟩, hlw, temp, htemp, harm⟩ := harm
  have htemp' := flatU_ok htemp
  subst htemp'
  simp only [armOfLower, bind_ok] at harm
  obtain ⟨casts, hcasts, harm⟩ := harm
  simp [pure, Except.pure] at harm
  subst harm
  have hsh := lower_shape c t _ _ _ _ hlw
  have hclen := castsFor_length _ _ _ hcasts
  have hb' : ∀ (k : Nat) (h : k < (flatten t).length),
      ∃ h' : k < (results.drop 1).length, le ((flatten t)[k]) ((results.drop 1)[k]) = true := by
    simpa [flattenOpt] using hb
  have hle : (flatten t).length ≤ (results.drop 1).length := by
    by_cases h0 : (flatten t).length = 0
    · omega
    · have ⟨h', _⟩ := hb' ((flatten t).length - 1) (by omega); omega
  -- payload operands
  have henv' : (env.enter (lvl + 1) { payload := some (MV.v v) }).frames.length = (lvl + 1) + 1 :=
    enter_frames_length env (lvl + 1) _ hlvl
  have hpl : eval (env.enter (lvl + 1) { payload := some (MV.v v) }) m (.pl (lvl + 1)) = some (.v v) := by
    simpa using eval_pl_enter env m (lvl + 1) { payload := some (MV.v v) } hlvl
  have hrs := ih (lvl + 1) (.pl (lvl + 1)) _ m st sts rs (by rw [enter_p]; exact hp) henv' hpl hlw
  have ⟨_, hwf⟩ := lowerFlat_wf p v t st hm ht
  have hwf' : WfFlat (Spec.lowerFlat p t v st).1 ((flatten t).map (CoreTy.erase p)) := by
    rw [flatten_erase p hp4 t]; exact hwf
  have hplen : (Spec.lowerFlat p t v st).1.length = rs.length := by
    have := congrArg List.length hwf'.1
    simp at this
    omega
  have hcl : casts.length = rs.length := by rw [hclen, hsh.2]; omega
  have hcasted := evalList_applyCasts _ m casts rs _ hcl hrs hplen
    (by rw [enter_p, hp]; exact castsFor_typed p hp4 _ _ casts _ hcasts hwf'.1)
  rw [enter_p, hp] at hcasted
  have hz := evalList_zeros (env.enter (lvl + 1) { payload := some (MV.v v) }) m
    (results.drop (1 + (flatten t).length))
  rw [enter_p, hp] at hz
  have happ := evalList_append _ m _ _ _ _ hcasted hz
  simp only [Option.map_some, evalList_cons, eval, Option.bind_some, happ]
  have hcc := casts_coerce p hp4 (flatten t) (results.drop 1) casts (Spec.lowerFlat p t v st).1 hcasts hb' hwf'
  simp only [Spec.lowerOpt]
  rw [← hcc]
  simp [ci32, Nat.add_comm, Function.comp_def]

end Witverif.Abi
