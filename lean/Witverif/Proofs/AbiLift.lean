import Witverif.Proofs.AbiLower6
/-! C01, flat lifting of memory-free types: the generator's tree evaluates to `Spec.liftFlat`
(including agreement on traps). -/
namespace Witverif.Abi
open Spec

/-- same environment with other block frames (flat lifting of memory-free types never looks at frames) -/
def Env.withFrames (env : Env) (fr : List Frame) : Env := { env with frames := fr }

@[simp] theorem withFrames_p (env : Env) (fr : List Frame) : (env.withFrames fr).p = env.p := rfl
@[simp] theorem withFrames_withFrames (env : Env) (a b : List Frame) :
    (env.withFrames a).withFrames b = env.withFrames b := rfl
theorem enter_eq_withFrames (env : Env) (lvl : Nat) (f : Frame) :
    env.enter lvl f = env.withFrames (env.frames.take lvl ++ [f]) := rfl

/-- `xs` denote the core values `cs` whatever the block frames are -/
def Denotes (env : Env) (m : Mem) (xs : List Expr) (cs : List CVal) : Prop :=
  ∀ fr, evalList (env.withFrames fr) m xs = some (cs.map MV.c)

theorem Denotes.length {env : Env} {m : Mem} {xs : List Expr} {cs : List CVal} (h : Denotes env m xs cs) :
    xs.length = cs.length := by
  have := h []
  clear h
  induction xs generalizing cs with
  | nil => simp at this; cases cs <;> simp_all
  | cons x xs ih =>
    simp only [evalList_cons] at this
    cases hx : eval (env.withFrames []) m x with
    | none => simp [hx] at this
    | some xv =>
      cases hxs : evalList (env.withFrames []) m xs with
      | none => simp [hx, hxs] at this
      | some xvs =>
        simp [hx, hxs] at this
        cases cs with
        | nil => simp at this
        | cons c cs =>
          simp at this
          have := ih (cs := cs) (by rw [hxs, this.2])
          simp [this]

theorem evalList_take (env : Env) (m : Mem) : ∀ (xs : List Expr) (vs : List MV) (n : Nat),
    evalList env m xs = some vs → evalList env m (xs.take n) = some (vs.take n) := by
  intro xs
  induction xs with
  | nil => intro vs n h; simp at h; subst h; simp
  | cons x xs ih =>
    intro vs n h
    simp only [evalList_cons] at h
    cases hx : eval env m x with
    | none => simp [hx] at h
    | some xv =>
      cases hxs : evalList env m xs with
      | none => simp [hx, hxs] at h
      | some xvs =>
        simp [hx, hxs] at h
        subst h
        cases n with
        | zero => simp
        | succ n => simp [hx, ih xvs n hxs]

theorem evalList_drop (env : Env) (m : Mem) : ∀ (xs : List Expr) (vs : List MV) (n : Nat),
    evalList env m xs = some vs → evalList env m (xs.drop n) = some (vs.drop n) := by
  intro xs
  induction xs with
  | nil => intro vs n h; simp at h; subst h; simp
  | cons x xs ih =>
    intro vs n h
    simp only [evalList_cons] at h
    cases hx : eval env m x with
    | none => simp [hx] at h
    | some xv =>
      cases hxs : evalList env m xs with
      | none => simp [hx, hxs] at h
      | some xvs =>
        simp [hx, hxs] at h
        subst h
        cases n with
        | zero => simp [hx, hxs]
        | succ n => simp [ih xvs n hxs]

theorem Denotes.take {env : Env} {m : Mem} {xs : List Expr} {cs : List CVal} (h : Denotes env m xs cs) (n : Nat) :
    Denotes env m (xs.take n) (cs.take n) := by
  intro fr; simpa [List.map_take] using evalList_take _ m xs _ n (h fr)

theorem Denotes.drop {env : Env} {m : Mem} {xs : List Expr} {cs : List CVal} (h : Denotes env m xs cs) (n : Nat) :
    Denotes env m (xs.drop n) (cs.drop n) := by
  intro fr; simpa [List.map_drop] using evalList_drop _ m xs _ n (h fr)

theorem Denotes.head {env : Env} {m : Mem} {xs : List Expr} {c : CVal} {cs : List CVal}
    (h : Denotes env m xs (c :: cs)) (fr : List Frame) : eval (env.withFrames fr) m (hd xs) = some (.c c) := by
  have := h fr
  cases xs with
  | nil => simp at this
  | cons x xs =>
    simp only [evalList_cons] at this
    cases hx : eval (env.withFrames fr) m x with
    | none => simp [hx] at this
    | some xv =>
      cases hxs : evalList (env.withFrames fr) m xs with
      | none => simp [hx, hxs] at this
      | some xvs => simp [hx, hxs] at this; simp [hd, hx, this.1]

end Witverif.Abi

namespace Witverif.Abi
open Spec

theorem WfFlat.split {cs : List CVal} {ta tb : List FT} (h : WfFlat cs (ta ++ tb)) :
    WfFlat (cs.take ta.length) ta ∧ WfFlat (cs.drop ta.length) tb := by
  have h1 := h.1
  refine ⟨⟨?_, fun x hx => h.2 x (List.mem_of_mem_take hx)⟩, ⟨?_, fun x hx => h.2 x (List.mem_of_mem_drop hx)⟩⟩
  · rw [List.map_take, h1]; simp
  · rw [List.map_drop, h1]; simp

theorem WfFlat.cons_inv {c : CVal} {cs : List CVal} {t : FT} {ts : List FT} (h : WfFlat (c :: cs) (t :: ts)) :
    c.ty = t ∧ c.bits < 2 ^ c.ty.width ∧ WfFlat cs ts := by
  have h1 := h.1
  simp at h1
  exact ⟨h1.1, h.2 c (by simp), ⟨h1.2, fun x hx => h.2 x (by simp [hx])⟩⟩

theorem WfFlat.length {cs : List CVal} {ts : List FT} (h : WfFlat cs ts) : cs.length = ts.length := by
  have := congrArg List.length h.1; simpa using this

/-- the casts chosen for lifting an arm are the spec's `CoerceValueIter` on the arm's slots -/
theorem casts_coerceBack (p : Nat) (hp : p = 4 ∨ p = 8) : ∀ (temp joined : List CoreTy) (casts : List Bitcast)
    (vs : List CVal),
    castsFor joined temp = .ok casts →
    (∀ (k : Nat) (h : k < temp.length), ∃ h' : k < joined.length, le (temp[k]) (joined[k]) = true) →
    WfFlat vs (joined.map (CoreTy.erase p)) →
    List.zipWith (castSem p) (casts.take temp.length) (vs.take temp.length)
        = coerceBack vs (temp.map (CoreTy.erase p)) ∧
    WfFlat (coerceBack vs (temp.map (CoreTy.erase p))) (temp.map (CoreTy.erase p)) := by
  intro temp
  induction temp with
  | nil => intro joined casts vs _ _ _; cases vs <;> simp [coerceBack, WfFlat.nil]
  | cons a temp ih =>
    intro joined casts vs hc hb hwf
    cases joined with
    | nil => have ⟨h', _⟩ := hb 0 (by simp); simp at h'
    | cons j joined =>
      simp only [castsFor] at hc
      split at hc <;> simp at hc
      rename_i c cs hcast hcs
      subst hc
      cases vs with
      | nil => have := hwf.1; simp at this
      | cons v vs =>
        have hwfc : WfFlat (v :: vs) (CoreTy.erase p j :: joined.map (CoreTy.erase p)) := by simpa using hwf
        have ⟨hty, hvb, hwf'⟩ := WfFlat.cons_inv hwfc
        have ⟨_, hle0⟩ := hb 0 (by simp)
        simp at hle0
        have ⟨hz, hw⟩ := ih joined cs vs hcs
          (by intro k h; have ⟨h', hl⟩ := hb (k + 1) (by simpa using h); exact ⟨by simpa using h', by simpa using hl⟩)
          hwf'
        have hdown := cast_down_is_spec p hp a j hle0 c hcast v hty hvb
        refine ⟨?_, ?_⟩
        · simp only [List.length_cons, List.take_succ_cons, List.zipWith_cons_cons, List.map_cons, coerceBack]
          rw [hz, hdown, hty]
        · simp only [List.map_cons, coerceBack]
          refine ⟨by simp [hw.1], ?_⟩
          intro x hx
          simp only [List.mem_cons] at hx
          rcases hx with rfl | hx
          · simp only
            split
            · rename_i hcond
              rw [hcond.2]
              exact Nat.mod_lt _ (by decide)
            · rename_i hcond
              have hvb' : v.bits < 2 ^ (CoreTy.erase p j).width := hty ▸ hvb
              rw [hty] at hcond
              clear hvb hdown hz hw hwfc hwf hwf' hcs ih hb
              rcases hp with rfl | rfl <;> cases a <;> cases j <;>
                simp [le, join, CoreTy.erase, ptrFT, FT.width] at hle0 hcond hvb' ⊢ <;> omega
          · exact hw.2 x hx

theorem liftCase_get (p : Nat) (m : Mem) : ∀ (cs : List (Option Ty)) (i : Nat) (c : Option Ty) (vs : List CVal),
    cs[i]? = some c → Spec.liftCase p m cs i vs = Spec.liftOpt p m c vs := by
  intro cs
  induction cs with
  | nil => intro i c vs h; simp at h
  | cons d ds ih =>
    intro i c vs h
    cases i with
    | zero => simp at h; subst h; simp [Spec.liftCase]
    | succ i => simp at h; simp [Spec.liftCase, ih i c vs h]

theorem liftCase_none (p : Nat) (m : Mem) : ∀ (cs : List (Option Ty)) (i : Nat) (vs : List CVal),
    cs.length ≤ i → Spec.liftCase p m cs i vs = none := by
  intro cs
  induction cs with
  | nil => intro i vs _; simp [Spec.liftCase]
  | cons d ds ih =>
    intro i vs h
    cases i with
    | zero => simp at h
    | succ i => simp [Spec.liftCase]; exact ih i vs (by simpa using h)

theorem liftArms_get (c : Cfg) (lvl : Nat) (params1 : List CoreTy) (inputs : List Expr) :
    ∀ (cs : List (Option Ty)) (arms : List (List Expr)), liftArms c lvl cs params1 inputs = .ok arms →
    arms.length = cs.length ∧
    ∀ (j : Nat) (cj : Option Ty), cs[j]? = some cj →
      ∃ arm, arms[j]? = some arm ∧ liftArm c lvl cj params1 inputs = .ok arm := by
  intro cs
  induction cs with
  | nil =>
    intro arms h
    simp [liftArms, pure, Except.pure] at h
    subst h
    exact ⟨rfl, fun j cj hj => by simp at hj⟩
  | cons o cs ih =>
    intro arms h
    simp only [liftArms, bind_ok] at h
    obtain ⟨arm, harm, rest, hrest, hp⟩ := h
    simp [pure, Except.pure] at hp
    subst hp
    have ⟨hl, hg⟩ := ih rest hrest
    refine ⟨by simp [hl], ?_⟩
    intro j cj hj
    cases j with
    | zero => simp at hj; subst hj; exact ⟨arm, by simp, harm⟩
    | succ j =>
      have ⟨a, ha, hla⟩ := hg j cj (by simpa using hj)
      exact ⟨a, by simpa using ha, hla⟩

end Witverif.Abi
