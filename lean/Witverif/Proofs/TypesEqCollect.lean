import Witverif.Proofs.TypesEqEq
/-! Helper lemmas for C28, part 4: `collect_equal_types` — the two nested loops keep the
union-find sound, merge what must be merged, and the info merge computes the union per class. -/
namespace Witverif.Text.TypesEq
open Witverif.Text.TypesEqSpec

/-- parents ≤ children and every identified pair is structurally equal -/
def Good (T : Table) (u : UF) : Prop := u.ParLe ∧ Sound T u

theorem good_empty (T : Table) : Good T {} := by
  refine ⟨UF.parLe_empty, ?_⟩
  intro x y _ _ h
  rw [UF.root_empty, UF.root_empty] at h
  subst h; exact StructEq.refl _ _

theorem Good.of_inv {T : Table} {u u' : UF} (h : Good T u) (hi : Inv u u') : Good T u' := by
  refine ⟨hi.1, ?_⟩
  intro x y hx hy hr
  rw [hi.2, hi.2] at hr
  exact h.2 x y hx hy hr

theorem isStructurallyEqual_spec {T : Table} (hwf : WF T) {u : UF} (hg : Good T u) {a b : Nat}
    (ha : a < T.length) (hb : b < T.length) :
    ∃ u', isStructurallyEqual T u a b = some (decide (StructEq T (.id a) (.id b)), u') ∧ Inv u u' := by
  unfold isStructurallyEqual eqFuel
  exact eqF_correct T hwf u hg.2 _ (.se a b) ⟨ha, hb⟩ (by simp only [Call.measure]; omega) u
    (Inv.refl hg.1)

/-- effect of linking two classes on "same root" -/
theorem link_rel {r r' : Nat → Nat} {rt re : Nat}
    (h : ∀ y, r' y = if r y = max rt re then min rt re else r y) (x y : Nat) :
    r' x = r' y ↔ (r x = r y ∨ ((r x = rt ∨ r x = re) ∧ (r y = rt ∨ r y = re))) := by
  have hx := h x
  have hy := h y
  generalize r x = p at *
  generalize r y = q at *
  generalize r' x = p' at *
  generalize r' y = q' at *
  rcases Nat.le_total rt re with hle | hle
  · rw [Nat.max_eq_right hle, Nat.min_eq_left hle] at hx hy
    split at hx <;> split at hy <;> omega
  · rw [Nat.max_eq_left hle, Nat.min_eq_right hle] at hx hy
    split at hx <;> split at hy <;> omega

/-- outcome of the inner loop for one `ty` -/
inductive InnerOutcome (T : Table) (u u' : UF) (ty : Nat) (es : List Nat) : Prop
  | unchanged (hi : Inv u u')
      (hall : ∀ e ∈ es, u.root ty = u.root e ∨ ¬ StructEq T (.id ty) (.id e))
  | merged (e : Nat) (he : e ∈ es) (heq : StructEq T (.id ty) (.id e)) (hp : u'.ParLe)
      (hr : ∀ x y, u'.root x = u'.root y ↔
        (u.root x = u.root y ∨ ((u.root x = u.root ty ∨ u.root x = u.root e) ∧
                                (u.root y = u.root ty ∨ u.root y = u.root e))))

theorem collectInner_spec {T : Table} (hwf : WF T) (ty : Nat) (hty : ty < T.length) :
    ∀ (es : List Nat) (u : UF), Good T u → (∀ e ∈ es, e < T.length) →
      ∃ u', collectInner T ty u es = some u' ∧ InnerOutcome T u u' ty es := by
  intro es
  induction es with
  | nil =>
    intro u hg _
    exact ⟨u, rfl, .unchanged (Inv.refl hg.1) (by simp)⟩
  | cons e es ih =>
    intro u hg hes
    have he : e < T.length := hes e (by simp)
    obtain ⟨u1, h1, hp1, hr1⟩ := findT_spec u ty hg.1
    obtain ⟨u2, h2, hp2, hr2⟩ := findT_spec u1 e hp1
    have hi2 : Inv u u2 := ⟨hp2, fun y => by rw [hr2, hr1]⟩
    have hg2 : Good T u2 := hg.of_inv hi2
    simp only [collectInner, h1, h2]
    by_cases hsame : u.root ty = u1.root e
    · simp only [hsame, if_true]
      obtain ⟨u3, h3, ho⟩ := ih u2 hg2 (fun x hx => hes x (by simp [hx]))
      refine ⟨u3, h3, ?_⟩
      rw [hr1] at hsame
      cases ho with
      | unchanged hi hall =>
        refine .unchanged (hi2.trans hi) ?_
        intro x hx
        rcases List.mem_cons.mp hx with rfl | hx
        · exact Or.inl hsame
        · have := hall x hx
          rwa [hi2.2, hi2.2] at this
      | merged e' he' heq hp hr =>
        refine .merged e' (by simp [he']) heq hp ?_
        intro x y
        rw [hr x y]; simp only [hi2.2]
    · simp only [hsame, if_false]
      rw [hr1] at hsame
      obtain ⟨u3, h3, hi3⟩ := isStructurallyEqual_spec hwf hg2 hty he
      rw [h3]
      have hi3' : Inv u u3 := hi2.trans hi3
      have hg3 : Good T u3 := hg.of_inv hi3'
      by_cases heq : StructEq T (.id ty) (.id e)
      · simp only [heq, decide_true]
        obtain ⟨u4, h4, hp4, hr4⟩ := union_spec u3 ty e hg3.1
        refine ⟨u4, h4, .merged e (by simp) heq hp4 ?_⟩
        intro x y
        have := link_rel (r := u3.root) (r' := u4.root) hr4 x y
        rw [this]; simp only [hi3'.2]
      · simp only [heq, decide_false]
        obtain ⟨u4, h4, ho⟩ := ih u3 hg3 (fun x hx => hes x (by simp [hx]))
        refine ⟨u4, h4, ?_⟩
        cases ho with
        | unchanged hi hall =>
          refine .unchanged (hi3'.trans hi) ?_
          intro x hx
          rcases List.mem_cons.mp hx with rfl | hx
          · exact Or.inr heq
          · have := hall x hx
            rwa [hi3'.2, hi3'.2] at this
        | merged e' he' heq' hp hr =>
          refine .merged e' (by simp [he']) heq' hp ?_
          intro x y
          rw [hr x y]; simp only [hi3'.2]


theorem InnerOutcome.mono {T : Table} {u u' : UF} {ty : Nat} {es : List Nat}
    (h : InnerOutcome T u u' ty es) {x y : Nat} (hxy : u.root x = u.root y) :
    u'.root x = u'.root y := by
  cases h with
  | unchanged hi _ => rw [hi.2, hi.2]; exact hxy
  | merged e he heq hp hr => exact (hr x y).mpr (Or.inl hxy)

theorem InnerOutcome.good {T : Table} {u u' : UF} {ty : Nat} {es : List Nat}
    (h : InnerOutcome T u u' ty es) (hg : Good T u) (hty : ty < T.length)
    (hes : ∀ e ∈ es, e < T.length) : Good T u' := by
  cases h with
  | unchanged hi _ => exact hg.of_inv hi
  | merged e he heq hp hr =>
    refine ⟨hp, ?_⟩
    intro x y hx hy hxy
    have hen := hes e he
    rcases (hr x y).mp hxy with h | ⟨h1, h2⟩
    · exact hg.2 x y hx hy h
    · have hxt : StructEq T (.id x) (.id ty) := by
        rcases h1 with h1 | h1
        · exact hg.2 x ty hx hty h1
        · exact (hg.2 x e hx hen h1).trans heq.symm
      have hty' : StructEq T (.id ty) (.id y) := by
        rcases h2 with h2 | h2
        · exact (hg.2 y ty hy hty h2).symm
        · exact heq.trans (hg.2 y e hy hen h2).symm
      exact hxt.trans hty'

/-- Invariant of the outer loop after the types in `before` have been processed. -/
structure OuterInv (T : Table) (mayAlias : Nat → Bool) (before : List Nat) (u : UF) : Prop where
  good : Good T u
  /-- only processed types are ever merged -/
  local_ : ∀ x y, u.root x = u.root y → x = y ∨ (x ∈ before ∧ y ∈ before)
  /-- an admitted type with an earlier structurally equal type shares a class with an earlier type -/
  merged : ∀ pre t post, before = pre ++ t :: post → mayAlias t = true →
    (∃ e ∈ pre, StructEq T (.id t) (.id e)) → ∃ e' ∈ pre, u.root t = u.root e'

theorem outerInv_empty (T : Table) (mayAlias : Nat → Bool) : OuterInv T mayAlias [] {} := by
  refine ⟨good_empty T, ?_, ?_⟩
  · intro x y h
    rw [UF.root_empty, UF.root_empty] at h
    exact Or.inl h
  · intro pre t post h; simp at h

theorem split_snoc {α : Type} {before pre post : List α} {ty t : α}
    (h : before ++ [ty] = pre ++ t :: post) :
    (post = [] ∧ t = ty ∧ pre = before) ∨ ∃ post', post = post' ++ [ty] ∧ before = pre ++ t :: post' := by
  rcases List.eq_nil_or_concat post with rfl | ⟨post', z, rfl⟩
  · left
    have h' : before ++ [ty] = pre ++ [t] := h
    have := List.append_inj' h' rfl
    simp at this
    exact ⟨rfl, this.2.symm, this.1.symm⟩
  · right
    have h' : before ++ [ty] = (pre ++ t :: post') ++ [z] := by simpa using h
    have := List.append_inj' h' rfl
    simp at this
    exact ⟨post', by simp [this.2], by simpa using this.1⟩

theorem collectOuter_spec {T : Table} (hwf : WF T) (mayAlias : Nat → Bool) :
    ∀ (rest before : List Nat) (u : UF), OuterInv T mayAlias before u →
      (∀ x ∈ before, x < T.length) → (∀ x ∈ rest, x < T.length) →
      ∃ u', collectOuter T mayAlias u before rest = some u' ∧ OuterInv T mayAlias (before ++ rest) u' := by
  intro rest
  induction rest with
  | nil => intro before u h _ _; exact ⟨u, rfl, by simpa using h⟩
  | cons ty rest ih =>
    intro before u hinv hbef hrest
    have hty : ty < T.length := hrest ty (by simp)
    have hbef' : ∀ x ∈ before ++ [ty], x < T.length := by
      intro x hx
      rcases List.mem_append.mp hx with hx | hx
      · exact hbef x hx
      · simp at hx; subst hx; exact hty
    have hrest' : ∀ x ∈ rest, x < T.length := fun x hx => hrest x (by simp [hx])
    simp only [collectOuter]
    by_cases hm : mayAlias ty = true
    · simp only [hm, Bool.not_true, Bool.false_eq_true, if_false]
      obtain ⟨u1, h1, ho⟩ := collectInner_spec hwf ty hty before u hinv.good hbef
      simp only [h1]
      have hinv1 : OuterInv T mayAlias (before ++ [ty]) u1 := by
        refine ⟨ho.good hinv.good hty hbef, ?_, ?_⟩
        · intro x y hxy
          cases ho with
          | unchanged hi _ =>
            rw [hi.2, hi.2] at hxy
            rcases hinv.local_ x y hxy with h | ⟨h1, h2⟩
            · exact Or.inl h
            · exact Or.inr ⟨by simp [h1], by simp [h2]⟩
          | merged e he heq hp hr =>
            rcases (hr x y).mp hxy with h | ⟨h1, h2⟩
            · rcases hinv.local_ x y h with h | ⟨h1, h2⟩
              · exact Or.inl h
              · exact Or.inr ⟨by simp [h1], by simp [h2]⟩
            · have mem : ∀ z, (u.root z = u.root ty ∨ u.root z = u.root e) → z ∈ before ++ [ty] := by
                intro z hz
                rcases hz with hz | hz
                · rcases hinv.local_ z ty hz with h | ⟨h, _⟩
                  · simp [h]
                  · simp [h]
                · rcases hinv.local_ z e hz with h | ⟨h, _⟩
                  · simp [h, he]
                  · simp [h]
              exact Or.inr ⟨mem x h1, mem y h2⟩
        · intro pre t post hsplit hmt hex
          rcases split_snoc hsplit with ⟨_, rfl, rfl⟩ | ⟨post', _, hb⟩
          · -- the type just processed
            obtain ⟨e, he, hse⟩ := hex
            cases ho with
            | unchanged hi hall =>
              rcases hall e he with h | h
              · exact ⟨e, he, by rw [hi.2, hi.2]; exact h⟩
              · exact absurd hse h
            | merged e' he' heq hp hr =>
              exact ⟨e', he', (hr t e').mpr (Or.inr ⟨Or.inl rfl, Or.inr rfl⟩)⟩
          · obtain ⟨e', he', hr'⟩ := hinv.merged pre t post' hb hmt hex
            exact ⟨e', he', ho.mono hr'⟩
      obtain ⟨u2, h2, hinv2⟩ := ih (before ++ [ty]) u1 hinv1 hbef' hrest'
      exact ⟨u2, h2, by simpa using hinv2⟩
    · have hm' : mayAlias ty = false := by simpa using hm
      simp only [hm', Bool.not_false, if_true]
      have hinv1 : OuterInv T mayAlias (before ++ [ty]) u := by
        refine ⟨hinv.good, ?_, ?_⟩
        · intro x y hxy
          rcases hinv.local_ x y hxy with h | ⟨h1, h2⟩
          · exact Or.inl h
          · exact Or.inr ⟨by simp [h1], by simp [h2]⟩
        · intro pre t post hsplit hmt hex
          rcases split_snoc hsplit with ⟨_, rfl, rfl⟩ | ⟨post', _, hb⟩
          · rw [hm'] at hmt; exact absurd hmt (by simp)
          · exact hinv.merged pre t post' hb hmt hex
      obtain ⟨u2, h2, hinv2⟩ := ih (before ++ [ty]) u hinv1 hbef' hrest'
      exact ⟨u2, h2, by simpa using hinv2⟩


/-- With every live type admitted, structurally equal live types end up in one class. -/
theorem OuterInv.exact_prefix {T : Table} {mayAlias : Nat → Bool} {live : List Nat} {u : UF}
    (hinv : OuterInv T mayAlias live u) (hlive : ∀ x ∈ live, x < T.length)
    (hall : ∀ x ∈ live, mayAlias x = true) :
    ∀ (k : Nat) (pre : List Nat) (t : Nat) (post : List Nat), pre.length = k →
      live = pre ++ t :: post → ∀ e ∈ pre, StructEq T (.id t) (.id e) → u.root t = u.root e := by
  intro k
  induction k using Nat.strongRecOn with
  | _ k ih =>
    intro pre t post hk hsplit e he hse
    have htl : t ∈ live := by rw [hsplit]; simp
    have hpl : ∀ x ∈ pre, x ∈ live := fun x hx => by rw [hsplit]; simp [hx]
    obtain ⟨e', he', hr⟩ := hinv.merged pre t post hsplit (hall t htl) ⟨e, he, hse⟩
    have hse' : StructEq T (.id t) (.id e') :=
      hinv.good.2 t e' (hlive t htl) (hlive e' (hpl e' he')) hr
    have hee : StructEq T (.id e') (.id e) := hse'.symm.trans hse
    by_cases heq : e' = e
    · rw [hr, heq]
    · obtain ⟨s, r, hpre⟩ := List.append_of_mem he'
      have hmem : e ∈ s ∨ e ∈ r := by
        have : e ∈ s ++ e' :: r := hpre ▸ he
        simp at this
        rcases this with h | h | h
        · exact Or.inl h
        · exact absurd h.symm heq
        · exact Or.inr h
      rcases hmem with h | h
      · have := ih s.length (by rw [← hk, hpre]; simp) s e' (r ++ t :: post) rfl
          (by rw [hsplit, hpre]; simp) e h hee
        rw [hr, this]
      · obtain ⟨s2, r2, hr2⟩ := List.append_of_mem h
        have := ih (s ++ e' :: s2).length (by rw [← hk, hpre, hr2]; simp) (s ++ e' :: s2) e
          (r2 ++ t :: post) rfl (by rw [hsplit, hpre, hr2]; simp) e' (by simp) hee.symm
        rw [hr, this]

theorem OuterInv.exact {T : Table} {mayAlias : Nat → Bool} {live : List Nat} {u : UF}
    (hinv : OuterInv T mayAlias live u) (hlive : ∀ x ∈ live, x < T.length)
    (hall : ∀ x ∈ live, mayAlias x = true) :
    ∀ x ∈ live, ∀ y ∈ live, StructEq T (.id x) (.id y) → u.root x = u.root y := by
  intro x hx y hy hse
  by_cases hxy : x = y
  · rw [hxy]
  · obtain ⟨s, r, hs⟩ := List.append_of_mem hx
    have hmem : y ∈ s ∨ y ∈ r := by
      have : y ∈ s ++ x :: r := hs ▸ hy
      simp at this
      rcases this with h | h | h
      · exact Or.inl h
      · exact absurd h.symm hxy
      · exact Or.inr h
    rcases hmem with h | h
    · exact hinv.exact_prefix hlive hall s.length s x r rfl hs y h hse
    · obtain ⟨s2, r2, hr2⟩ := List.append_of_mem h
      have := hinv.exact_prefix hlive hall (s ++ x :: s2).length (s ++ x :: s2) y r2 rfl
        (by rw [hs, hr2]; simp) x (by simp) hse.symm
      exact this.symm


/-! ### the info merge -/

theorem TypeInfo.or_get (a b : TypeInfo) (f : Flag) : (a.or b).get f = (a.get f || b.get f) := by
  cases f <;> rfl

theorem TypeInfo.default_get (f : Flag) : ({} : TypeInfo).get f = false := by
  cases f <;> rfl

theorem TypeInfo.ext_get {a b : TypeInfo} (h : ∀ f, a.get f = b.get f) : a = b := by
  cases a; cases b
  have h1 := h .borrowed; have h2 := h .owned; have h3 := h .error; have h4 := h .hasList
  have h5 := h .hasTuple; have h6 := h .hasResource; have h7 := h .hasBorrowHandle
  have h8 := h .hasOwnHandle
  simp only [TypeInfo.get] at h1 h2 h3 h4 h5 h6 h7 h8
  simp [h1, h2, h3, h4, h5, h6, h7, h8]

theorem mergedGet_or (m : List (Nat × TypeInfo)) (k : Nat) (v : TypeInfo) (x : Nat) :
    mergedGet (mergedOr m k v) x =
      if x = k then some (((mergedGet m k).getD {}).or v) else mergedGet m x := by
  induction m with
  | nil =>
    simp only [mergedOr, mergedGet]
    by_cases h : k = x
    · simp [h]
    · have : ¬ x = k := fun e => h e.symm
      simp [h, this]
  | cons p rest ih =>
    obtain ⟨k', v'⟩ := p
    simp only [mergedOr]
    by_cases h : k' = k
    · subst h
      simp only [if_true, mergedGet]
      by_cases hx : k' = x
      · simp [hx]
      · have : ¬ x = k' := fun e => hx e.symm
        simp [hx, this]
    · simp only [h, if_false, mergedGet, ih]
      by_cases hx : k' = x
      · subst hx; simp [h]
      · simp [hx]

/-- first merge loop: `merged[rep]` accumulates the union of the infos of the class -/
theorem mergeLoop1_spec (infos : List TypeInfo) (u0 : UF) :
    ∀ (ids : List Nat) (u : UF) (m : List (Nat × TypeInfo)), Inv u0 u →
      (∀ i ∈ ids, i < infos.length) →
      ∃ u' m', mergeLoop1 infos u m ids = some (u', m') ∧ Inv u0 u' ∧
        ∀ r, ((mergedGet m' r).isSome = ((mergedGet m r).isSome || ids.any (fun i => u0.root i == r))) ∧
          ∀ f, ((mergedGet m' r).getD {}).get f =
            (((mergedGet m r).getD {}).get f ||
              ids.any (fun i => u0.root i == r && (infos.getD i {}).get f)) := by
  intro ids
  induction ids with
  | nil => intro u m hu _; exact ⟨u, m, rfl, hu, fun r => ⟨by simp, fun f => by simp⟩⟩
  | cons id ids ih =>
    intro u m hu hids
    have hid : id < infos.length := hids id (by simp)
    have hget : infos[id]? = some infos[id] := by simp [hid]
    obtain ⟨u1, h1, hp1, hr1⟩ := findT_spec u id hu.1
    have hu1 : Inv u0 u1 := ⟨hp1, fun y => by rw [hr1, hu.2]⟩
    obtain ⟨u2, m2, h2, hu2, hm2⟩ := ih u1 (mergedOr m (u.root id) infos[id]) hu1
      (fun i hi => hids i (by simp [hi]))
    refine ⟨u2, m2, ?_, hu2, ?_⟩
    · simp only [mergeLoop1, hget, h1, h2]
    · intro r
      obtain ⟨hs, hf⟩ := hm2 r
      have hroot : u.root id = u0.root id := hu.2 id
      have hd : infos.getD id {} = infos[id] := by simp [List.getD_eq_getElem?_getD, hget]
      by_cases hr : r = u0.root id
      · subst hr
        have hb : (u0.root id == u0.root id) = true := by simp
        constructor
        · rw [hs, mergedGet_or, hroot]; simp
        · intro f
          rw [hf f, mergedGet_or, hroot]
          simp only [if_true, Option.getD_some, TypeInfo.or_get, List.any_cons, hb, Bool.true_and, hd,
            Bool.or_assoc]
      · have hb : (u0.root id == r) = false := by
          simp only [beq_eq_false_iff_ne, ne_eq]; exact fun e => hr e.symm
        constructor
        · rw [hs, mergedGet_or, hroot]
          simp only [hr, if_false, List.any_cons, hb, Bool.false_or]
        · intro f
          rw [hf f, mergedGet_or, hroot]
          simp only [hr, if_false, List.any_cons, hb, Bool.false_and, Bool.false_or]

/-- second merge loop: every listed id whose class has an entry receives it -/
theorem mergeLoop2_spec (m : List (Nat × TypeInfo)) (u0 : UF) (L : Nat) :
    ∀ (ids : List Nat) (u : UF) (infos : List TypeInfo), Inv u0 u → infos.length = L →
      (∀ i ∈ ids, i < L) →
      ∃ u' out, mergeLoop2 m u infos ids = some (u', out) ∧ Inv u0 u' ∧ out.length = L ∧
        ∀ a, a < L → out[a]? =
          if a ∈ ids ∧ (mergedGet m (u0.root a)).isSome = true then mergedGet m (u0.root a)
          else infos[a]? := by
  intro ids
  induction ids with
  | nil => intro u infos hu hl _; exact ⟨u, infos, rfl, hu, hl, fun a _ => by simp⟩
  | cons id ids ih =>
    intro u infos hu hl hids
    have hid : id < L := hids id (by simp)
    obtain ⟨u1, h1, hp1, hr1⟩ := findT_spec u id hu.1
    have hu1 : Inv u0 u1 := ⟨hp1, fun y => by rw [hr1, hu.2]⟩
    have hroot : u.root id = u0.root id := hu.2 id
    simp only [mergeLoop2, h1, hroot]
    cases hm : mergedGet m (u0.root id) with
    | none =>
      obtain ⟨u2, out, h2, hu2, hl2, ho⟩ := ih u1 infos hu1 hl (fun i hi => hids i (by simp [hi]))
      refine ⟨u2, out, h2, hu2, hl2, ?_⟩
      intro a ha
      rw [ho a ha]
      by_cases hai : a = id
      · subst hai; simp [hm]
      · simp [hai]
    | some mi =>
      have hget : infos[id]? = some infos[id] := by simp [hl, hid]
      simp only [modifyAt, hget]
      obtain ⟨u2, out, h2, hu2, hl2, ho⟩ := ih u1 (infos.set id mi) hu1 (by simp [hl])
        (fun i hi => hids i (by simp [hi]))
      refine ⟨u2, out, h2, hu2, hl2, ?_⟩
      intro a ha
      rw [ho a ha]
      by_cases hai : a = id
      · subst hai
        by_cases hin : a ∈ ids
        · simp [hin, hm]
        · simp [hin, hm, hl, ha]
      · have : ¬ id = a := fun e => hai e.symm
        simp [hai, this]


/-! ### `collect_equal_types` as a whole -/

theorem OuterInv.of_inv {T : Table} {mayAlias : Nat → Bool} {live : List Nat} {u u' : UF}
    (h : OuterInv T mayAlias live u) (hi : Inv u u') : OuterInv T mayAlias live u' := by
  refine ⟨h.good.of_inv hi, ?_, ?_⟩
  · intro x y hxy; rw [hi.2, hi.2] at hxy; exact h.local_ x y hxy
  · intro pre t post hs hm hex
    obtain ⟨e, he, hr⟩ := h.merged pre t post hs hm hex
    exact ⟨e, he, by rw [hi.2, hi.2]; exact hr⟩

/-- `collect_equal_types` on a fresh union-find: total, and the resulting state satisfies the loop
invariant; the infos are the per-class unions. -/
theorem collectEqualTypes_spec {T : Table} (hwf : WF T) (mayAlias : Nat → Bool)
    (infos : List TypeInfo) (hlen : infos.length = T.length)
    (live : List Nat) (hlive : ∀ x ∈ live, x < T.length)
    (order : List Nat) (hord1 : ∀ i ∈ order, i < T.length) (hord2 : ∀ i, i < T.length → i ∈ order) :
    ∃ s', collectEqualTypes T { typeInfo := infos, equalTypes := {} } live mayAlias order = some s' ∧
      OuterInv T mayAlias live s'.equalTypes ∧ s'.typeInfo.length = T.length ∧
      ∀ a, a < T.length → ∀ f, ((s'.typeInfo.getD a {}).get f = true ↔
        ∃ b, b < T.length ∧ s'.equalTypes.root b = s'.equalTypes.root a ∧
          (infos.getD b {}).get f = true) := by
  obtain ⟨u1, h1, hinv1⟩ := collectOuter_spec hwf mayAlias live [] {} (outerInv_empty T mayAlias)
    (by simp) hlive
  simp only [List.nil_append] at hinv1
  obtain ⟨u2, m, h2, hi2, hm⟩ := mergeLoop1_spec infos u1 order u1 [] (Inv.refl hinv1.good.1)
    (fun i hi => by rw [hlen]; exact hord1 i hi)
  obtain ⟨u3, out, h3, hi3, hl3, ho⟩ := mergeLoop2_spec m u1 T.length order u2 infos hi2 hlen hord1
  refine ⟨{ typeInfo := out, equalTypes := u3 }, ?_, hinv1.of_inv hi3, hl3, ?_⟩
  · simp only [collectEqualTypes, h1, h2, h3]
  · intro a ha f
    have hao := hord2 a ha
    obtain ⟨hs, hf⟩ := hm (u1.root a)
    have hsome : (mergedGet m (u1.root a)).isSome = true := by
      rw [hs]
      simp only [mergedGet, Option.isSome_none, Bool.false_or, List.any_eq_true]
      exact ⟨a, hao, by simp⟩
    have hout : out[a]? = mergedGet m (u1.root a) := by
      rw [ho a ha]; simp [hao, hsome]
    have hgetD : out.getD a {} = (mergedGet m (u1.root a)).getD {} := by
      simp [List.getD_eq_getElem?_getD, hout]
    simp only [hgetD, hf f, mergedGet, Option.getD_none, TypeInfo.default_get, Bool.false_or,
      List.any_eq_true, Bool.and_eq_true, beq_iff_eq, hi3.2]
    constructor
    · rintro ⟨b, hb, hr, hfb⟩
      exact ⟨b, hord1 b hb, hr, hfb⟩
    · rintro ⟨b, hb, hr, hfb⟩
      exact ⟨b, hord2 b hb, hr, hfb⟩

theorem getRepresentativeType_spec (s : Types) (a : Nat) (hp : s.equalTypes.ParLe) :
    ∃ s', getRepresentativeType s a = some (s.equalTypes.root a, s') ∧
      s'.typeInfo = s.typeInfo ∧ Inv s.equalTypes s'.equalTypes := by
  obtain ⟨u1, h1, hp1, hr1⟩ := findT_spec s.equalTypes a hp
  exact ⟨{ s with equalTypes := u1 }, by simp [getRepresentativeType, h1], rfl, hp1, hr1⟩


end Witverif.Text.TypesEq
