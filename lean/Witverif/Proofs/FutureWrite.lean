import Witverif.Proofs.Chan
import Witverif.Async.ChanSpec
/-! C20, guest-writer future channel (typed API: `FutureWriter` / `FutureWrite`, default value on drop
through `write_and_forget` = `DeferredWrite`): the states reachable by legal labels (`FWShape`), the
invariant tying them to the specification monitor `ChanSpec`, and the proof that every legal step is
panic-free, trap-free, accepted by the monitor and re-establishes the invariant (`fw_step_safe`).
Exhaustive over shape × label × host answer × task ABI version; leaves closed by evaluation. -/
namespace Witverif.Async
open Witverif.Generated
open Witverif.Async.ChanSpec (CSpec CMon)
open Witverif.Async.Host (CopySt)

structure FWP where
  c : Nat
  hd : Nat
  kind : PKind
  tp : Nat
  v : Nat

def FWP.k (p : FWP) : CSpec := ⟨p.c, true, true, true, p.kind == .lists⟩
def FWP.t (p : FWP) : CurTask := ⟨p.tp, p.v⟩
def FWP.g0 (p : FWP) : GChan := { c := p.c, fut := true, gw := true, kind := p.kind, adapter := false }
def FWP.task (p : FWP) (reg : Option Nat) : Option CabiTask := if p.v = 2 then some ⟨p.tp, reg⟩ else none

/-- what the peer did to a write in flight -/
inductive WEv | nothing | sent | dropped
deriving DecidableEq

def WEv.pending : WEv → Option Nat
  | .nothing => none | .sent => some Host.COMPLETED | .dropped => some Host.DROPPED
def WEv.progress : WEv → Nat
  | .sent => 1 | _ => 0

/-- `n` = next fresh value id, `d` = number of default values made, `win` = what the host last saw in
the write buffer (stale between writes) -/
inductive FWShape
  | closed
  | idle (n d : Nat) (win : List Nat)
  | unpolled (n d x : Nat) (win : List Nat)
  | waiting (n d x : Nat) (ev : WEv)
  | queued (n d x : Nat) (sent : Bool)
  | deferPending (n d : Nat) (win : List Nat) (tail : Bool)
  | dwaiting (n d x : Nat) (ev : WEv)
  | gone (n d : Nat) (win rcv : List Nat)

def fwHost (p : FWP) (st : CopySt) (n progress : Nat) (pending : Option Nat) (win rcv : List Nat) (gone : Bool) : HChan :=
  { e := { fut := true, writer := true, st := st, n := n, progress := progress, pending := pending },
    handle := p.hd, window := win, received := rcv, gone := gone }

def fwSys (p : FWP) : FWShape → ChanSys
  | .closed => ⟨p.g0, { e := { fut := true, writer := true } }, ⟨some p.t, []⟩⟩
  | .idle n d win =>
    ⟨{ p.g0 with opened := true, nextId := n, defaults := d, fw := some p.hd }, fwHost p .idle 0 0 none win [] false, ⟨some p.t, []⟩⟩
  | .unpolled n d x win =>
    ⟨{ p.g0 with opened := true, nextId := n, defaults := d, act := .fwrite (WOp.new ⟨p.c, p.hd, x⟩) },
     fwHost p .idle 0 0 none win [] false, ⟨some p.t, []⟩⟩
  | .waiting n d x ev =>
    ⟨{ p.g0 with opened := true, nextId := n, defaults := d,
                 act := .fwrite ⟨.inProgress ⟨p.c, p.hd, x⟩, none, true, p.task (some p.hd)⟩ },
     fwHost p .copying 1 ev.progress ev.pending [x] (if ev = .sent then [x] else []) false, ⟨some p.t, [(p.tp, p.hd)]⟩⟩
  | .queued n d x sent =>
    ⟨{ p.g0 with opened := true, nextId := n, defaults := d,
                 act := .fwrite ⟨.inProgress ⟨p.c, p.hd, x⟩, some (if sent then Host.COMPLETED else Host.DROPPED), false, p.task (some p.hd)⟩ },
     fwHost p .done 0 0 none [x] (if sent then [x] else []) false, ⟨some p.t, []⟩⟩
  | .deferPending n d win tail =>
    ⟨{ p.g0 with opened := true, nextId := n, defaults := d, defer := some (p.hd, if tail then [Ev.tdrop p.tp] else []) },
     fwHost p .idle 0 0 none win [] false, ⟨some p.t, []⟩⟩
  | .dwaiting n d x ev =>
    ⟨{ p.g0 with opened := true, nextId := n, defaults := d,
                 deferred := some ⟨.inProgress ⟨p.c, p.hd, x⟩, none, true, p.task (some p.hd)⟩ },
     fwHost p .copying 1 ev.progress ev.pending [x] (if ev = .sent then [x] else []) false, ⟨some p.t, [(p.tp, p.hd)]⟩⟩
  | .gone n d win rcv =>
    ⟨{ p.g0 with opened := true, nextId := n, defaults := d }, fwHost p .done 0 0 none win rcv true, ⟨some p.t, []⟩⟩

/-- monitor facts common to the states in which no value is in flight -/
def fwQuiet (p : FWP) (m : CMon) : Prop :=
  m.handle = p.hd ∧ m.rust = [] ∧ m.win = [] ∧ m.back = [] ∧ m.sent = [] ∧ m.slab = false ∧ m.received = [] ∧
  m.endDrops = 0 ∧ m.valueSent = false ∧ m.doneSeen = false ∧ m.inbuf = []

def fwFlight (p : FWP) (m : CMon) (x : Nat) (ev : WEv) : Prop :=
  m.handle = p.hd ∧ m.rust = [] ∧ m.win = (if ev = .sent then [] else [x]) ∧ m.back = [] ∧
  m.sent = (if ev = .sent then [x] else []) ∧ m.slab = true ∧ m.received = (if ev = .sent then [x] else []) ∧
  m.endDrops = 0 ∧ m.valueSent = false ∧ m.doneSeen = false ∧ m.started = true ∧ m.lastCode = none ∧ m.inbuf = []

def fwMon (p : FWP) (m : CMon) : FWShape → Prop
  | .closed => m = {}
  | .idle _ _ _ => fwQuiet p m
  | .unpolled _ _ x _ =>
    m.handle = p.hd ∧ m.rust = [x] ∧ m.toLower = [x] ∧ m.win = [] ∧ m.back = [] ∧ m.sent = [] ∧ m.slab = false ∧ m.received = [] ∧
    m.endDrops = 0 ∧ m.valueSent = false ∧ m.doneSeen = false ∧ m.started = false ∧ m.lastCode = none ∧ m.inbuf = []
  | .waiting _ _ x ev => fwFlight p m x ev
  | .queued _ _ x sent =>
    m.handle = p.hd ∧ m.rust = [] ∧ m.win = (if sent then [] else [x]) ∧ m.back = [] ∧
    m.sent = (if sent then [x] else []) ∧ m.slab = true ∧ m.received = (if sent then [x] else []) ∧
    m.endDrops = 0 ∧ m.valueSent = sent ∧ m.doneSeen = !sent ∧ m.started = true ∧
    m.lastCode = some (if sent then Host.COMPLETED else Host.DROPPED) ∧ m.inbuf = []
  | .deferPending _ _ _ _ => fwQuiet p m
  | .dwaiting _ _ x ev => fwFlight p m x ev
  | .gone _ _ _ rcv => m.handle = p.hd ∧ m.endDrops = 1 ∧ ChanSpec.complete p.k m = .ok () ∧ rcv.length ≤ 1

def FWInvAt (p : FWP) (s : ChanSys) (m : CMon) (sh : FWShape) : Prop := s = fwSys p sh ∧ fwMon p m sh

def FWInv (p : FWP) (s : ChanSys) (m : CMon) : Prop :=
  p.hd ≠ 0 ∧ (p.v = 1 ∨ p.v = 2) ∧ ∃ sh, FWInvAt p s m sh

def FWGood (p : FWP) (m : CMon) : Step ChanSys → Prop
  | .ok s' evs => s'.h.trapped = false ∧ match ChanSpec.run p.k m evs with
    | .ok m' => FWInv p s' m'
    | .error _ => False
  | .panic _ _ => False

def FWLegal (p : FWP) (s : ChanSys) (l : CLabel) : Prop :=
  CLegal s l ∧ (∀ h1 h2, l = .opn h1 h2 → h1 = p.hd)

macro "fw_eval" : tactic => `(tactic|
  simp (config := { decide := true }) [FWGood, FWInv, fwSys, fwHost, FWP.g0, FWP.t, FWP.k, FWP.task, WEv.pending, WEv.progress,
    ChanSys.step, ChanSys.absorb, ChanSys.syncCopy, ChanSys.syncCancel, GChan.starting, wopStarting, WOp.new, copyMoves, cancelMoves,
    GChan.poll, GChan.cancelOp, GChan.dropAct, GChan.close, GChan.skip, GChan.put, GChan.wake, GChan.keptDrop, GChan.deferStart, GChan.fresh,
    Act.isNone, Act.window, evSkip, evP, evXf, evVd, evLi, evLo, evDli, evFdw, evFdr,
    futureWritePoll, futureWriteCancel, pollComplete, pollCompleteWithCode, cancel, cancelPrepare, cabiWake, dropOpC, taskDropEvs,
    futureWriteOps, futureWriteUpdate, Step.bind, Step.emit, registerWaker, unregisterWaker, CabiTask.dropEvs,
    hostApplyAll, hostApply, hostCopy, hostCancel, hostDrop, HChan.moveIds, HChan.moved, HChan.trap,
    Host.End.copyTrap, Host.End.afterCopy, Host.End.cancelTrap, Host.End.afterCancel, Host.End.dropTrap, Host.End.takeEvent,
    Host.End.afterXfer, Host.End.afterPeerDrop, Host.End.stAfter,
    Host.BLOCKED, Host.COMPLETED, Host.DROPPED, Host.CANCELLED, Host.codeBase, Host.codeCount, Host.packCode,
    ChanSpec.run, ChanSpec.step, ChanSpec.told, ChanSpec.handedBack, *])

macro "fw_chk" : tactic => `(tactic|
  simp (config := { decide := true }) [FWInvAt, fwSys, fwHost, fwMon, fwQuiet, fwFlight, FWP.g0, FWP.t, FWP.k, FWP.task, WOp.new,
    WEv.pending, WEv.progress, ChanSpec.complete, Host.COMPLETED, Host.DROPPED, *])

macro "fw_legal" : tactic => `(tactic|
  simp (config := { decide := true }) [CLegal, fwSys, fwHost, FWP.g0, FWP.t, FWP.task, GChan.offer, GChan.cancels, WOp.cancelAsks, WOp.new,
    WEv.pending, WEv.progress,
    Host.End.legalXfer, Host.End.legalPeerDrop, Host.End.legalImmediate, Host.End.legalCancelRet, Host.End.copyTrap, Host.End.cancelTrap,
    Host.BLOCKED, Host.COMPLETED, Host.DROPPED, Host.CANCELLED, Host.codeBase] at *)

macro "fw_try" t:term : tactic => `(tactic| (refine ⟨$t, ?_⟩; fw_chk; done))

syntax "fw_go" "[" term,+ "]" : tactic
macro_rules
  | `(tactic| fw_go [$a]) => `(tactic| (fw_eval; all_goals (first | fw_try $a | skip)))
  | `(tactic| fw_go [$a, $b]) => `(tactic| (fw_eval; all_goals (first | fw_try $a | fw_try $b | skip)))
  | `(tactic| fw_go [$a, $b, $c]) => `(tactic| (fw_eval; all_goals (first | fw_try $a | fw_try $b | fw_try $c | skip)))
  | `(tactic| fw_go [$a, $b, $c, $d]) =>
    `(tactic| (fw_eval; all_goals (first | fw_try $a | fw_try $b | fw_try $c | fw_try $d | skip)))
  | `(tactic| fw_go [$a, $b, $c, $d, $e]) =>
    `(tactic| (fw_eval; all_goals (first | fw_try $a | fw_try $b | fw_try $c | fw_try $d | fw_try $e | skip)))

theorem fw_closed (p : FWP) (m : CMon) (hh : p.hd ≠ 0) (hv : p.v = 1 ∨ p.v = 2) (hm : fwMon p m .closed) (l : CLabel)
    (hl : FWLegal p (fwSys p .closed) l) : FWGood p m ((fwSys p .closed).step l) := by
  simp only [fwMon] at hm
  subst hm
  obtain ⟨hl, hopn⟩ := hl
  cases l with
  | opn h1 h2 =>
    have := hopn h1 h2 rfl
    subst this
    clear hopn hl
    fw_go [.idle 1 0 []]
  | peerXfer k => fw_legal
  | deliver => fw_legal
  | deferStart ans => fw_legal
  | close ex ans => clear hopn hl; cases ex <;> fw_go [.closed]
  | _ => clear hopn hl; fw_go [.closed]

theorem fw_idle (p : FWP) (m : CMon) (n d : Nat) (win : List Nat) (hh : p.hd ≠ 0) (hv : p.v = 1 ∨ p.v = 2)
    (hm : fwMon p m (.idle n d win)) (l : CLabel)
    (hl : FWLegal p (fwSys p (.idle n d win)) l) : FWGood p m ((fwSys p (.idle n d win)).step l) := by
  simp only [fwMon, fwQuiet] at hm
  obtain ⟨hl, hopn⟩ := hl
  clear hopn
  cases l with
  | peerXfer k => fw_legal
  | deliver => fw_legal
  | deferStart ans => fw_legal
  | close ex ans => clear hl; cases ex <;> fw_go [.idle n d win, .deferPending n d win false]
  | _ => clear hl; fw_go [.idle n d win, .unpolled (n + 1) d n win]

theorem fw_unpolled (p : FWP) (m : CMon) (n d x : Nat) (win : List Nat) (hh : p.hd ≠ 0) (hv : p.v = 1 ∨ p.v = 2)
    (hm : fwMon p m (.unpolled n d x win)) (l : CLabel)
    (hl : FWLegal p (fwSys p (.unpolled n d x win)) l) : FWGood p m ((fwSys p (.unpolled n d x win)).step l) := by
  simp only [fwMon] at hm
  obtain ⟨hl, hopn⟩ := hl
  clear hopn
  cases l with
  | peerXfer k => fw_legal
  | deliver => fw_legal
  | deferStart ans => fw_legal
  | poll ans =>
    have : (ans = Host.BLOCKED ∨ ans = Host.COMPLETED) ∨ ans = Host.DROPPED := by fw_legal; exact hl
    clear hl
    rcases hv with hv | hv <;> rcases this with (rfl | rfl) | rfl <;>
      fw_go [.waiting n d x .nothing, .gone n d [x] [x], .gone n d [x] []]
  | close ex ans => clear hl; cases ex <;> fw_go [.deferPending n d win false]
  | _ => clear hl; fw_go [.unpolled n d x win, .idle n d win, .deferPending n d win false]

theorem fw_waiting (p : FWP) (m : CMon) (n d x : Nat) (ev : WEv) (hh : p.hd ≠ 0) (hv : p.v = 1 ∨ p.v = 2)
    (hm : fwMon p m (.waiting n d x ev)) (l : CLabel)
    (hl : FWLegal p (fwSys p (.waiting n d x ev)) l) : FWGood p m ((fwSys p (.waiting n d x ev)).step l) := by
  simp only [fwMon, fwFlight] at hm
  obtain ⟨hl, hopn⟩ := hl
  clear hopn
  cases l with
  | deferStart ans => fw_legal
  | peerDrop =>
    cases ev
    · clear hl; rcases hv with hv | hv <;> fw_go [.waiting n d x .dropped]
    · clear hl; rcases hv with hv | hv <;> fw_go [.waiting n d x .sent]
    · fw_legal
  | peerXfer k =>
    cases ev
    · have : k = 1 := by fw_legal; omega
      subst this; clear hl
      rcases hv with hv | hv <;> fw_go [.waiting n d x .sent]
    · fw_legal; omega
    · fw_legal
  | deliver =>
    cases ev
    · fw_legal
    · clear hl; rcases hv with hv | hv <;> fw_go [.queued n d x true]
    · clear hl; rcases hv with hv | hv <;> fw_go [.queued n d x false]
  | poll ans => clear hl; cases ev <;> rcases hv with hv | hv <;> fw_go [.waiting n d x .nothing, .waiting n d x .sent, .waiting n d x .dropped]
  | cancel ans =>
    cases ev
    · have : (ans = Host.CANCELLED ∨ ans = Host.COMPLETED) ∨ ans = Host.DROPPED := by fw_legal; exact hl
      clear hl
      rcases hv with hv | hv <;> rcases this with (rfl | rfl) | rfl <;> fw_go [.idle n d [x], .gone n d [x] [x], .gone n d [x] []]
    · have : ans = Host.COMPLETED := by fw_legal; exact hl
      subst this; clear hl
      rcases hv with hv | hv <;> fw_go [.gone n d [x] [x]]
    · have : ans = Host.DROPPED := by fw_legal; exact hl
      subst this; clear hl
      rcases hv with hv | hv <;> fw_go [.gone n d [x] []]
  | dropOp ans =>
    cases ev
    · have : (ans = Host.CANCELLED ∨ ans = Host.COMPLETED) ∨ ans = Host.DROPPED := by fw_legal; exact hl
      clear hl
      rcases hv with hv | hv <;> rcases this with (rfl | rfl) | rfl <;>
        fw_go [.deferPending n d [x] false, .deferPending n d [x] true, .gone n d [x] [x], .gone n d [x] []]
    · have : ans = Host.COMPLETED := by fw_legal; exact hl
      subst this; clear hl
      rcases hv with hv | hv <;> fw_go [.gone n d [x] [x]]
    · have : ans = Host.DROPPED := by fw_legal; exact hl
      subst this; clear hl
      rcases hv with hv | hv <;> fw_go [.gone n d [x] []]
  | close ex ans =>
    cases ev
    · have : (ans = Host.CANCELLED ∨ ans = Host.COMPLETED) ∨ ans = Host.DROPPED := by fw_legal; exact hl
      clear hl
      cases ex <;> rcases hv with hv | hv <;> rcases this with (rfl | rfl) | rfl <;>
        fw_go [.deferPending n d [x] false, .deferPending n d [x] true, .gone n d [x] [x], .gone n d [x] []]
    · have : ans = Host.COMPLETED := by fw_legal; exact hl
      subst this; clear hl
      cases ex <;> rcases hv with hv | hv <;> fw_go [.gone n d [x] [x]]
    · have : ans = Host.DROPPED := by fw_legal; exact hl
      subst this; clear hl
      cases ex <;> rcases hv with hv | hv <;> fw_go [.gone n d [x] []]
  | _ => clear hl; cases ev <;> rcases hv with hv | hv <;> fw_go [.waiting n d x .nothing, .waiting n d x .sent, .waiting n d x .dropped]

theorem fw_queued (p : FWP) (m : CMon) (n d x : Nat) (sent : Bool) (hh : p.hd ≠ 0) (hv : p.v = 1 ∨ p.v = 2)
    (hm : fwMon p m (.queued n d x sent)) (l : CLabel)
    (hl : FWLegal p (fwSys p (.queued n d x sent)) l) : FWGood p m ((fwSys p (.queued n d x sent)).step l) := by
  simp only [fwMon] at hm
  obtain ⟨hl, hopn⟩ := hl
  clear hopn
  cases l with
  | deferStart ans => fw_legal
  | peerXfer k => fw_legal
  | deliver => fw_legal
  | close ex ans =>
    clear hl; cases ex <;> cases sent <;> rcases hv with hv | hv <;> fw_go [.gone n d [x] [x], .gone n d [x] []]
  | _ =>
    clear hl; cases sent <;> rcases hv with hv | hv <;>
      fw_go [.gone n d [x] [x], .gone n d [x] [], .queued n d x true, .queued n d x false]

theorem fw_deferPending (p : FWP) (m : CMon) (n d : Nat) (win : List Nat) (tail : Bool) (hh : p.hd ≠ 0) (hv : p.v = 1 ∨ p.v = 2)
    (hm : fwMon p m (.deferPending n d win tail)) (l : CLabel)
    (hl : FWLegal p (fwSys p (.deferPending n d win tail)) l) :
    FWGood p m ((fwSys p (.deferPending n d win tail)).step l) := by
  simp only [fwMon, fwQuiet] at hm
  obtain ⟨hl, hopn⟩ := hl
  clear hopn
  cases l with
  | deferStart ans =>
    have : (ans = Host.BLOCKED ∨ ans = Host.COMPLETED) ∨ ans = Host.DROPPED := by fw_legal; exact hl
    clear hl
    cases tail <;> rcases hv with hv | hv <;> rcases this with (rfl | rfl) | rfl <;>
      fw_go [.dwaiting n (d + 1) (900 + d) .nothing, .gone n (d + 1) [900 + d] [900 + d], .gone n (d + 1) [900 + d] []]
  | _ => fw_legal

theorem fw_dwaiting (p : FWP) (m : CMon) (n d x : Nat) (ev : WEv) (hh : p.hd ≠ 0) (hv : p.v = 1 ∨ p.v = 2)
    (hm : fwMon p m (.dwaiting n d x ev)) (l : CLabel)
    (hl : FWLegal p (fwSys p (.dwaiting n d x ev)) l) : FWGood p m ((fwSys p (.dwaiting n d x ev)).step l) := by
  simp only [fwMon, fwFlight] at hm
  obtain ⟨hl, hopn⟩ := hl
  clear hopn
  cases l with
  | deferStart ans => fw_legal
  | peerDrop =>
    cases ev
    · clear hl; rcases hv with hv | hv <;> fw_go [.dwaiting n d x .dropped]
    · clear hl; rcases hv with hv | hv <;> fw_go [.dwaiting n d x .sent]
    · fw_legal
  | peerXfer k =>
    cases ev
    · have : k = 1 := by fw_legal; omega
      subst this; clear hl
      rcases hv with hv | hv <;> fw_go [.dwaiting n d x .sent]
    · fw_legal; omega
    · fw_legal
  | deliver =>
    cases ev
    · fw_legal
    · clear hl; rcases hv with hv | hv <;> fw_go [.gone n d [x] [x]]
    · clear hl; rcases hv with hv | hv <;> fw_go [.gone n d [x] []]
  | close ex ans =>
    clear hl; cases ex <;> cases ev <;> rcases hv with hv | hv <;>
      fw_go [.dwaiting n d x .nothing, .dwaiting n d x .sent, .dwaiting n d x .dropped]
  | _ =>
    clear hl; cases ev <;> rcases hv with hv | hv <;>
      fw_go [.dwaiting n d x .nothing, .dwaiting n d x .sent, .dwaiting n d x .dropped]

theorem fw_gone (p : FWP) (m : CMon) (n d : Nat) (win rcv : List Nat) (hh : p.hd ≠ 0) (hv : p.v = 1 ∨ p.v = 2)
    (hm : fwMon p m (.gone n d win rcv)) (l : CLabel)
    (hl : FWLegal p (fwSys p (.gone n d win rcv)) l) : FWGood p m ((fwSys p (.gone n d win rcv)).step l) := by
  simp only [fwMon] at hm
  obtain ⟨hmh, hmd, hmc, hrl⟩ := hm
  obtain ⟨hl, hopn⟩ := hl
  clear hopn
  cases l with
  | deferStart ans => fw_legal
  | peerXfer k => fw_legal
  | deliver => fw_legal
  | close ex ans =>
    clear hl
    cases ex <;> fw_eval <;> exact ⟨.gone n d win rcv, by simp [FWInvAt, fwSys, fwHost, fwMon, FWP.g0, FWP.t, hmh, hmd, hmc, hrl]⟩
  | _ =>
    clear hl
    fw_eval <;> exact ⟨.gone n d win rcv, by simp [FWInvAt, fwSys, fwHost, fwMon, FWP.g0, FWP.t, hmh, hmd, hmc, hrl]⟩

/-- Every legal step from a state satisfying the invariant is good. -/
theorem fw_step_safe (p : FWP) (s : ChanSys) (m : CMon) (l : CLabel) (hI : FWInv p s m) (hl : FWLegal p s l) :
    FWGood p m (s.step l) := by
  obtain ⟨hh, hv, sh, rfl, hm⟩ := hI
  cases sh with
  | closed => exact fw_closed p m hh hv hm l hl
  | idle n d win => exact fw_idle p m n d win hh hv hm l hl
  | unpolled n d x win => exact fw_unpolled p m n d x win hh hv hm l hl
  | waiting n d x ev => exact fw_waiting p m n d x ev hh hv hm l hl
  | queued n d x sent => exact fw_queued p m n d x sent hh hv hm l hl
  | deferPending n d win tail => exact fw_deferPending p m n d win tail hh hv hm l hl
  | dwaiting n d x ev => exact fw_dwaiting p m n d x ev hh hv hm l hl
  | gone n d win rcv => exact fw_gone p m n d win rcv hh hv hm l hl

end Witverif.Async
