import Witverif.Abi.RustAsync
import Witverif.Proofs.AbiCall2
import Witverif.Proofs.AbiStore4
import Witverif.Proofs.AbiLoad
/-! C08: the pieces of the async import binding (`params_lower`, `results_lift`) evaluated in the
reference machine are the canonical ABI's lowering / lifting — by instantiating the C01/C02 lemmas at
the compositions `generate_guest_import_body_async` performs. -/
namespace Witverif.Abi.RustAsync
open Witverif.Abi Witverif.Abi.Spec

/-- **≤ 4 flat parameters**: the fields of `ParamsLower` are the spec's flat lowering of the argument
tuple (memory-free parameter types), nothing is emitted besides. -/
theorem paramsLower_flat_sound (p : Nat) (hp : p = 4 ∨ p = 8) (canon : Ty → Bool) (f : Func) (vals : List Val)
    (hi : indirect f = false) (hm : memFreeAll f.params = true) (ht : hasTys f.params vals = true)
    (extra : List MV) (m : Mem) (st : St) (ss : List Stmt) (es : List Expr)
    (h : paramsLower canon f = .ok (ss, es)) :
    ss = [] ∧
    evalList { p, args := vals.map MV.v ++ extra } m es = some ((specLowerAll p f.params vals st).1.map MV.c) := by
  simp only [paramsLower, hi, Bool.false_eq_true, if_false] at h
  have hlen : vals.length = f.params.length := by
    have : ∀ (ts : List Ty) (vs : List Val), hasTys ts vs = true → vs.length = ts.length := by
      intro ts
      induction ts with
      | nil => intro vs h; cases vs <;> simp_all [hasTys]
      | cons t ts ih => intro vs h; cases vs with
        | nil => simp [hasTys] at h
        | cons v vs => simp [hasTys] at h; simp [ih vs h.2]
    exact this _ _ ht
  have := lowerParams_sound p hp ⟨canon, true⟩ { p, args := vals.map MV.v ++ extra } m st rfl rfl f.params vals 0 ss es hm ht
    (by intro j hj; simp [List.getElem?_append_left, hj]) h
  exact ⟨this.1, this.2.1⟩

/-- parameters stored one after the other at the field offsets of their record: the bytes of
`Spec.storeFields` (the `store` of the parameter tuple) -/
theorem storeParams_sound (p : Nat) (hp : p = 4 ∨ p = 8) (c : Cfg) : ∀ (vs : List Val) (ts : List Ty),
    memFreeAll ts = true → hasTys ts vs = true →
    ∀ (nth c4 c8 : Nat) (ptr : Expr) (ss : List Stmt),
      storeParams c ts (List.zipWith Off.mk (fieldOffsets 4 c4 ts) (fieldOffsets 8 c8 ts)) nth ptr = .ok ss →
      ∀ (env : Env) (s : MSt) (addr : Nat), env.p = p → env.frames.length = 1 →
        (∀ j (hj : j < vs.length), ValStable env (.arg (nth + j)) vs[j]) → AddrStableM env ptr addr →
        ∃ ls m', execStmts env s ss = some (env.withLets ls, s.setMem m') ∧
          StEq ⟨m', s.st.heap⟩ (Spec.storeFields p ts vs addr (curOf p c4 c8) s.st)
  | [], ts, _, ht, nth, c4, c8, ptr, ss, h, env, s, addr, _, _, _, _ => by
      cases ts <;> simp [hasTys] at ht
      simp [storeParams, pure, Except.pure] at h
      subst h
      exact ⟨env.lets, s.st.mem, by simp [execStmts, withLets_self, MSt.setMem], by simp [Spec.storeFields]; exact StEq.refl _⟩
  | v :: vs, ts, hm, ht, nth, c4, c8, ptr, ss, h, env, s, addr, hpe, hfr, hargs, hptr => by
      cases ts with
      | nil => simp [hasTys] at ht
      | cons t ts =>
        simp [hasTys] at ht
        simp [memFreeAll] at hm
        simp only [fieldOffsets, List.zipWith_cons_cons, storeParams, bind_ok] at h
        obtain ⟨s1, h1, s2, h2, hp'⟩ := h
        simp [pure, Except.pure] at hp'
        subst hp'
        have w1 := store_sound p hp c v t hm.1 ht.1 0 (.arg nth) ptr _ s1 h1
        have hx0 : ValStable env (.arg nth) v := by
          have := hargs 0 (by simp)
          simpa [List.getElem_cons_zero] using this
        obtain ⟨l1, m1, e1, q1⟩ := w1 env s addr hpe (by simpa using hfr) hx0 hptr
        have ih := storeParams_sound p hp c vs ts hm.2 ht.2 (nth + 1) _ _ ptr s2 h2 (env.withLets l1) (s.setMem m1) addr
          (by simpa using hpe) (by simpa using hfr)
          (by intro j hj
              have := hargs (j + 1) (by simpa using hj)
              have h' : nth + (j + 1) = nth + 1 + j := by omega
              rw [h'] at this
              simpa [List.getElem_cons_succ] using this.withLets l1)
          (hptr.withLets l1)
        obtain ⟨l2, m2, e2, q2⟩ := ih
        refine ⟨l2, m2, ?_, ?_⟩
        · rw [execStmts_append, e1]
          simp only [Option.bind_some, e2, withLets_withLets, setMem_setMem]
        · simp only [setMem_st] at q2
          have hq := storeFields_congr p vs ts addr (curOf p (alignTo c4 (alignment 4 t) + elemSize 4 t) (alignTo c8 (alignment 8 t) + elemSize 8 t))
            _ _ hm.2 ht.2 q1
          have := q2.trans hq
          rcases hp with rfl | rfl <;>
            simpa [Spec.storeFields, curOf, Off.at, Nat.add_assoc] using this

/-- **more than 4 flat parameters**: `params_lower` writes, at the pointer it is handed, exactly the
bytes of the canonical `store` of the parameter TUPLE (memory-free parameter types), allocates
nothing, and `ParamsLower` holds that pointer. -/
theorem paramsLower_indirect_sound (p : Nat) (hp : p = 4 ∨ p = 8) (canon : Ty → Bool) (f : Func) (vals : List Val)
    (hi : indirect f = true) (hm : memFreeAll f.params = true) (ht : hasTys f.params vals = true)
    (addr : Nat) (s : MSt) (ss : List Stmt) (es : List Expr)
    (h : paramsLower canon f = .ok (ss, es)) :
    es = [.arg f.params.length] ∧
    ∃ ls m', execStmts { p, args := vals.map MV.v ++ [.c ⟨ptrFT p, addr⟩] } s ss
        = some (({ p, args := vals.map MV.v ++ [.c ⟨ptrFT p, addr⟩] } : Env).withLets ls, s.setMem m') ∧
      StEq ⟨m', s.st.heap⟩ (Spec.store p (.tuple f.params) (.record vals) addr s.st) := by
  simp only [paramsLower, hi, if_true, bind, Except.bind] at h
  cases hs : storeParams ⟨canon, true⟩ f.params (fieldOffs f.params) 0 (Expr.arg f.params.length) with
  | error e => simp [hs] at h
  | ok ss' =>
    simp [hs, pure, Except.pure] at h
    obtain ⟨rfl, rfl⟩ := h
    refine ⟨rfl, ?_⟩
    have hlen : vals.length = f.params.length := by
      have : ∀ (ts : List Ty) (vs : List Val), hasTys ts vs = true → vs.length = ts.length := by
        intro ts
        induction ts with
        | nil => intro vs h; cases vs <;> simp_all [hasTys]
        | cons t ts ih => intro vs h; cases vs with
          | nil => simp [hasTys] at h
          | cons v vs => simp [hasTys] at h; simp [ih vs h.2]
      exact this _ _ ht
    have := storeParams_sound p hp ⟨canon, true⟩ vals f.params hm ht 0 0 0 (.arg f.params.length) ss' (by simpa [fieldOffs] using hs)
      { p, args := vals.map MV.v ++ [.c ⟨ptrFT p, addr⟩] } s addr rfl rfl
      (by intro j hj fs ls m
          simp [eval, Env.extend, Env.withLets, List.getElem?_append_left, hj])
      (by intro fs ls m
          simp [eval, Env.extend, Env.withLets, ← hlen])
    obtain ⟨ls, m', e, q⟩ := this
    refine ⟨ls, m', e, ?_⟩
    simpa [Spec.store, curOf] using q

/-- **`results_lift` is the spec's `load`, for every result type** (strings, lists, anything): in any
memory the host left, at the result pointer it is handed, it evaluates to exactly what the canonical
ABI `load`s there, and is stuck exactly when the spec traps. -/
theorem resultsLift_sound (p : Nat) (hp : p = 4 ∨ p = 8) (canon : Ty → Bool) (f : Func) (t : Ty)
    (hr : f.result = some t) (addr : Nat) (m : Mem) (e : Expr)
    (h : resultsLift canon f = .ok (some e)) :
    eval { p, args := [.c ⟨ptrFT p, addr⟩] } m e = (Spec.load p m t addr).map MV.v := by
  simp only [resultsLift, hr, bind, Except.bind] at h
  cases hl : load ⟨canon, true⟩ 0 t (.arg 0) Off.zero with
  | error e' => simp [hl] at h
  | ok e' =>
    simp [hl, pure, Except.pure] at h
    subst h
    have hst : AddrStable { p, args := [.c ⟨ptrFT p, addr⟩] } m (.arg 0) addr :=
      addrStable_arg _ m 0 addr (by simp)
    have := load_sound p hp ⟨canon, true⟩ t 0 (.arg 0) Off.zero { p, args := [.c ⟨ptrFT p, addr⟩] } m addr e' rfl rfl hst hl
    have h0 := this ({ p, args := [.c ⟨ptrFT p, addr⟩] } : Env).lets
    rw [withLets_self] at h0
    simpa [Off.zero_at] using h0

end Witverif.Abi.RustAsync
