import Witverif.Proofs.AbiStoreSpec
/-! `Spec.store` respects read-equivalence of memories for ALL types (it only writes and allocates). -/
namespace Witverif.Abi
open Spec

theorem MemEq.write {a b : Mem} (h : MemEq a b) (addr v : Nat) : MemEq (a.write addr v) (b.write addr v) := by
  intro x
  simp only [Mem.read_write]
  split
  · rfl
  · exact h x

theorem storeBytes_congr : ∀ (bs : List Nat) (m1 m2 : Mem) (a : Nat), MemEq m1 m2 →
    MemEq (storeBytes m1 a bs) (storeBytes m2 a bs)
  | [], m1, m2, a, h => by simpa [storeBytes] using h
  | b :: bs, m1, m2, a, h => by
      simp only [storeBytes]
      exact storeBytes_congr bs _ _ _ (h.write a b)

theorem StEq.withHeap {a b : St} (h : StEq a b) (hp : Heap) : StEq { a with heap := hp } { b with heap := hp } :=
  ⟨h.1, rfl⟩

set_option maxHeartbeats 800000 in
mutual
theorem store_congrA (p : Nat) : ∀ (v : Val) (t : Ty) (a : Nat) (s1 s2 : St), hasTy t v = true →
    StEq s1 s2 → StEq (Spec.store p t v a s1) (Spec.store p t v a s2)
  | .bool b, t, a, s1, s2, ht, h => by
      cases t <;> simp [hasTy] at ht; simp only [Spec.store]; exact h.storeLE _ _ _
  | .int n, t, a, s1, s2, ht, h => by
      cases t <;> simp [hasTy] at ht <;> (simp only [Spec.store]; exact h.storeLE _ _ _)
  | .f32 b, t, a, s1, s2, ht, h => by
      cases t <;> simp [hasTy] at ht; simp only [Spec.store]; exact h.storeLE _ _ _
  | .f64 b, t, a, s1, s2, ht, h => by
      cases t <;> simp [hasTy] at ht; simp only [Spec.store]; exact h.storeLE _ _ _
  | .char c, t, a, s1, s2, ht, h => by
      cases t <;> simp [hasTy] at ht; simp only [Spec.store]; exact h.storeLE _ _ _
  | .str bs, t, a, s1, s2, ht, h => by
      cases t <;> simp [hasTy] at ht
      simp only [Spec.store, h.2]
      exact ⟨((storeBytes_congr bs _ _ _ h.1).storeLE _ _ _).storeLE _ _ _, rfl⟩
  | .handle hd, t, a, s1, s2, ht, h => by
      cases t <;> simp [hasTy] at ht <;> (simp only [Spec.store]; exact h.storeLE _ _ _)
  | .enum i, t, a, s1, s2, ht, h => by
      cases t <;> simp [hasTy] at ht; simp only [Spec.store]; exact h.storeLE _ _ _
  | .flags bs, t, a, s1, s2, ht, h => by
      cases t <;> simp [hasTy] at ht
      simp only [Spec.store]
      split
      · exact h.storeLE _ _ _
      · exact h.storeLE _ _ _
      · exact ⟨foldl_storeLE_congr (fun w => (a + 4 * w, flagsWord bs w)) 4 _ _ _ h.1, h.2⟩
  | .list vs, t, a, s1, s2, ht, h => by
      cases t <;> (try (simp [hasTy] at ht; done))
      · -- list
        rename_i e
        simp only [hasTy] at ht
        simp only [Spec.store, h.2]
        have := storeElems_congrA p vs e (s2.heap.alloc (vs.length * elemSize p e) (alignment p e)).1
          { s1 with heap := (s2.heap.alloc (vs.length * elemSize p e) (alignment p e)).2 }
          { s2 with heap := (s2.heap.alloc (vs.length * elemSize p e) (alignment p e)).2 } ht (h.withHeap _)
        exact (this.storeLE _ _ _).storeLE _ _ _
      · -- flist
        rename_i e n
        simp [hasTy] at ht
        simp only [Spec.store]
        exact storeElems_congrA p vs e a s1 s2 ht.2 h
      · -- map
        rename_i k v
        simp only [hasTy] at ht
        simp only [Spec.store, h.2]
        have := storeEntries_congrA p vs k v (s2.heap.alloc (vs.length * elemSize p (.tuple [k, v])) (alignment p (.tuple [k, v]))).1
          { s1 with heap := (s2.heap.alloc (vs.length * elemSize p (.tuple [k, v])) (alignment p (.tuple [k, v]))).2 }
          { s2 with heap := (s2.heap.alloc (vs.length * elemSize p (.tuple [k, v])) (alignment p (.tuple [k, v]))).2 } ht (h.withHeap _)
        exact (this.storeLE _ _ _).storeLE _ _ _
  | .record vs, t, a, s1, s2, ht, h => by
      cases t <;> simp [hasTy] at ht
      · simp only [Spec.store]; exact storeFields_congrA p vs _ a 0 s1 s2 ht h
      · simp only [Spec.store]; exact storeFields_congrA p vs _ a 0 s1 s2 ht h
  | .variant i pv, t, a, s1, s2, ht, h => by
      cases t <;> (try (simp [hasTy] at ht; done))
      · rename_i cs
        simp only [hasTy] at ht
        simp only [Spec.store]
        cases hci : cs[i]? with
        | none => simp [hci] at ht
        | some c =>
          simp only [hci] at ht ⊢
          exact storeOpt_congrA p pv c _ _ _ ht (h.storeLE _ _ _)
      · rename_i t'
        cases pv with
        | none => simp only [Spec.store]; exact h.storeLE _ _ _
        | some v =>
          have ht' : hasTy t' v = true := by
            rcases i with _ | _ | i <;> simp [hasTy] at ht
            exact ht
          simp only [Spec.store]
          exact store_congrA p v t' _ _ _ ht' (h.storeLE _ _ _)
      · rename_i ok err
        simp only [Spec.store]
        rcases i with _ | _ | i
        · simp [hasTy] at ht
          simpa using storeOpt_congrA p pv ok _ _ _ ht (h.storeLE _ _ _)
        · simp [hasTy] at ht
          simpa using storeOpt_congrA p pv err _ _ _ ht (h.storeLE _ _ _)
        · simp [hasTy] at ht
theorem storeElems_congrA (p : Nat) : ∀ (vs : List Val) (t : Ty) (a : Nat) (s1 s2 : St),
    hasTyAll t vs = true → StEq s1 s2 → StEq (Spec.storeElems p t vs a s1) (Spec.storeElems p t vs a s2)
  | [], t, a, s1, s2, _, h => by simpa [Spec.storeElems] using h
  | v :: vs, t, a, s1, s2, ht, h => by
      simp [hasTyAll] at ht
      simp only [Spec.storeElems]
      exact storeElems_congrA p vs t _ _ _ ht.2 (store_congrA p v t a s1 s2 ht.1 h)
theorem storeEntries_congrA (p : Nat) : ∀ (vs : List Val) (k v : Ty) (a : Nat) (s1 s2 : St),
    hasTyEntries k v vs = true → StEq s1 s2 →
    StEq (Spec.storeEntries p k v vs a s1) (Spec.storeEntries p k v vs a s2)
  | [], k, v, a, s1, s2, _, h => by simpa [Spec.storeEntries] using h
  | .record [x, y] :: vs, k, v, a, s1, s2, ht, h => by
      simp [hasTyEntries] at ht
      simp only [Spec.storeEntries]
      exact storeEntries_congrA p vs k v _ _ _ ht.2
        (store_congrA p y v _ _ _ ht.1.2 (store_congrA p x k a s1 s2 ht.1.1 h))
  | .record [] :: vs, k, v, a, s1, s2, ht, _ => by simp [hasTyEntries] at ht
  | .record [_] :: vs, k, v, a, s1, s2, ht, _ => by simp [hasTyEntries] at ht
  | .record (_ :: _ :: _ :: _) :: vs, k, v, a, s1, s2, ht, _ => by simp [hasTyEntries] at ht
  | .bool _ :: vs, k, v, a, s1, s2, ht, _ | .int _ :: vs, k, v, a, s1, s2, ht, _
  | .f32 _ :: vs, k, v, a, s1, s2, ht, _ | .f64 _ :: vs, k, v, a, s1, s2, ht, _
  | .char _ :: vs, k, v, a, s1, s2, ht, _ | .str _ :: vs, k, v, a, s1, s2, ht, _
  | .handle _ :: vs, k, v, a, s1, s2, ht, _ | .enum _ :: vs, k, v, a, s1, s2, ht, _
  | .flags _ :: vs, k, v, a, s1, s2, ht, _ | .list _ :: vs, k, v, a, s1, s2, ht, _
  | .variant _ _ :: vs, k, v, a, s1, s2, ht, _ => by simp [hasTyEntries] at ht
theorem storeFields_congrA (p : Nat) : ∀ (vs : List Val) (ts : List Ty) (a cur : Nat) (s1 s2 : St),
    hasTys ts vs = true → StEq s1 s2 →
    StEq (Spec.storeFields p ts vs a cur s1) (Spec.storeFields p ts vs a cur s2)
  | [], ts, a, cur, s1, s2, ht, h => by
      cases ts <;> simp [hasTys] at ht
      simpa [Spec.storeFields] using h
  | v :: vs, ts, a, cur, s1, s2, ht, h => by
      cases ts with
      | nil => simp [hasTys] at ht
      | cons t ts =>
        simp [hasTys] at ht
        simp only [Spec.storeFields]
        exact storeFields_congrA p vs ts a _ _ _ ht.2 (store_congrA p v t _ s1 s2 ht.1 h)
theorem storeOpt_congrA (p : Nat) : ∀ (pv : Option Val) (o : Option Ty) (a : Nat) (s1 s2 : St),
    hasTyOpt o pv = true → StEq s1 s2 →
    StEq (Spec.storeOpt p o pv a s1) (Spec.storeOpt p o pv a s2)
  | none, o, a, s1, s2, _, h => by cases o <;> simpa [Spec.storeOpt] using h
  | some v, o, a, s1, s2, ht, h => by
      cases o with
      | none => simp [hasTyOpt] at ht
      | some t =>
        simp [hasTyOpt] at ht
        simpa [Spec.storeOpt] using store_congrA p v t a s1 s2 ht h
end

end Witverif.Abi
