import Witverif.Proofs.AbiCall
import Witverif.Proofs.AbiLoad
/-! C02, export glue with parameters passed through a caller-allocated record (more than 16 flat
parameters): the arguments are `Spec.loadFields` of the record (ANY parameter types), the user
function is called once, the record is freed exactly once with the record's canonical size and
alignment, the result is lowered canonically. -/
namespace Witverif.Abi
open Spec

theorem gd_toList : "GuestDeallocate ".toList = ['G','u','e','s','t','D','e','a','l','l','o','c','a','t','e',' '] := by decide
theorem ci_toList : "CallInterface ".toList = ['C','a','l','l','I','n','t','e','r','f','a','c','e',' '] := by decide
theorem opstr_dealloc (s a : Off) : (Op.dealloc s a).str = "GuestDeallocate " ++ s.str ++ " " ++ a.str := rfl
theorem opstr_ci (np nr : Nat) (b : Bool) : (Op.callInterface np nr b).str =
    "CallInterface " ++ toString np ++ " " ++ toString nr ++ " " ++ (if b then "async" else "sync") := rfl

theorem key_dealloc_head (s a : Off) (xs : List Expr) : (keyOf (.dealloc s a) xs).toList.head? = some 'G' := by
  unfold keyOf
  rw [opstr_dealloc]
  simp only [String.toList_append]
  rw [gd_toList]
  simp

theorem key_ci_head (np nr : Nat) (b : Bool) (xs : List Expr) :
    (keyOf (.callInterface np nr b) xs).toList.head? = some 'C' := by
  unfold keyOf
  rw [opstr_ci]
  simp only [String.toList_append]
  rw [ci_toList]
  simp

/-- the ledger key of the record's deallocation never shadows the key of the `CallInterface` result -/
theorem keyOf_dealloc_ne_ci (s a : Off) (xs ys : List Expr) (np nr : Nat) (b : Bool) :
    (keyOf (.dealloc s a) xs == keyOf (.callInterface np nr b) ys) = false := by
  have : keyOf (.dealloc s a) xs ≠ keyOf (.callInterface np nr b) ys := by
    intro e
    have h1 := key_dealloc_head s a xs
    rw [e, key_ci_head] at h1
    exact absurd h1 (by decide)
  exact beq_eq_false_iff_ne.mpr this

theorem addrStable_arg (env : Env) (m : Mem) (n addr : Nat)
    (h : env.args[n]? = some (.c ⟨ptrFT env.p, addr⟩)) : AddrStable env m (.arg n) addr := by
  intro fs ls
  simp [eval, Env.extend, Env.withLets, h]

theorem call_export_indirect_shape (canon : Ty → Bool) (f : Func)
    (hind : (flattenList f.params).length > 16) (hrflat : (flattenOpt f.result).length ≤ 1)
    (ss : List Stmt) (h : call canon .guestExport false false f = .ok ss) :
    ∃ (args : List Expr), loadFields ⟨canon, true⟩ 0 f.params (fieldOffs f.params) (.arg 0) Off.zero = .ok args ∧
      (match f.result with
       | none => ss = [Stmt.eff (.callInterface f.params.length 0 false) args [],
           Stmt.eff (.dealloc (recordSizeOff f.params) (recordAlignOff f.params)) [.arg 0] [],
           Stmt.eff (.ret 0) [] []]
       | some t => ∃ s2 rs, lower ⟨canon, true⟩ 0 t (.res 0 (.callInterface f.params.length 1 false) args) = .ok (s2, rs) ∧
           ss = [Stmt.eff (.callInterface f.params.length 1 false) args [],
             Stmt.eff (.dealloc (recordSizeOff f.params) (recordAlignOff f.params)) [.arg 0] []] ++ s2
             ++ [Stmt.eff (.ret (flatten t).length) rs []]) := by
  have hsig : wasmSignature .guestExport f = ⟨[.ptr], flattenOpt f.result, true, false⟩ := by
    have h2 : ¬ (flattenOpt f.result).length > 1 := by omega
    simp [wasmSignature, maxFlatParams, maxFlatResults, hind, h2]
  cases hlp : loadFields ⟨canon, true⟩ 0 f.params (fieldOffs f.params) (.arg 0) Off.zero with
  | error e => simp [call, hsig, hlp, Variant.isExport, maxFlatParams, bind, Except.bind] at h
  | ok args =>
    refine ⟨args, rfl, ?_⟩
    cases hres : f.result with
    | none =>
      simp [call, hsig, hlp, hres, Variant.isExport, maxFlatParams, bind, Except.bind, pure, Except.pure, flattenOpt, resN] at h
      simp [← h]
    | some t =>
      simp [call, hsig, hlp, hres, Variant.isExport, maxFlatParams, bind, Except.bind, pure, Except.pure, flattenOpt, resN, hd] at h
      cases hl : lower { canon := canon, realloc := true } 0 t
          (Expr.res 0 (Op.callInterface f.params.length 1 false) args) with
      | error e => simp [hl] at h
      | ok r =>
        obtain ⟨s2, rs⟩ := r
        have hlen := (lower_shape _ t 0 _ s2 rs hl).2
        simp [hl, hlen] at h
        exact ⟨s2, rs, hl, by simp [← h]⟩

/-- **Export glue, parameters through memory.**  For an exported function whose parameters (of ANY
types: strings, lists, variants, …) flatten to more than 16 core values and are therefore passed
as a pointer to a caller-allocated record, and whose result is memory-free and flat: for any memory
and any record address, the user function is called exactly once with exactly the values the
canonical ABI reads from the record (the glue traps exactly when the spec's `load` traps, before
calling anything), the record is then freed exactly once — with the canonical size and alignment
of the parameter record — and the glue returns the canonical flat lowering of the result. -/
theorem call_export_indirect_correct (p : Nat) (hp4 : p = 4 ∨ p = 8) (canon : Ty → Bool) (f : Func)
    (recPtr : Nat) (s0 : MSt) (rv : Option Val)
    (hind : (flattenList f.params).length > 16)
    (hmr : memFreeOpt f.result = true) (hrflat : (flattenOpt f.result).length ≤ 1)
    (hrv : hasTyOpt f.result rv = true)
    (ss : List Stmt) (h : call canon .guestExport false false f = .ok ss) :
    let env : Env := { p, args := [.c ⟨ptrFT p, recPtr⟩], ifaceResult := rv.toList.map MV.v }
    (execStmts env s0 ss).map (fun r => (r.2.calls, r.2.freed, r.2.st)) =
      (Spec.loadFields p s0.st.mem f.params recPtr 0).map fun vals =>
        (("Return", (Spec.lowerOpt p f.result rv {}).1.map MV.c) :: ("CallInterface", vals.map MV.v) :: s0.calls,
         (recPtr, elemSize p (.record f.params), alignment p (.record f.params)) :: s0.freed, s0.st) := by
  obtain ⟨im, ps, res⟩ := f
  simp only at hind hmr hrflat hrv
  intro env
  have ⟨args, hlp, hshape⟩ := call_export_indirect_shape canon ⟨im, ps, res⟩ hind hrflat ss h
  simp only at hlp hshape
  have hst : AddrStable env s0.st.mem (.arg 0) recPtr := addrStable_arg env _ 0 recPtr (by simp [env])
  have hargs := loadFields_sound p hp4 ⟨canon, true⟩ ps 0 (.arg 0) Off.zero 0 0 env s0.st.mem recPtr args rfl rfl hst
    (by simpa [fieldOffs] using hlp) env.lets
  simp only [withLets_self, Off.zero_at, Nat.add_zero, curOf, ite_self] at hargs
  have hsz : (recordSizeOff ps).at p = elemSize p (.record ps) := by
    rcases hp4 with rfl | rfl <;> simp [recordSizeOff, sizeOff, Off.at]
  have hal : (recordAlignOff ps).at p = alignment p (.record ps) := by
    rcases hp4 with rfl | rfl <;> simp [recordAlignOff, alignOff, Off.at]
  cases hla : Spec.loadFields p s0.st.mem ps recPtr 0 with
  | none =>
    rw [hla] at hargs
    cases res with
    | none => simp only at hshape; subst hshape; simp [execStmts, exec, hargs]
    | some t =>
      simp only at hshape
      obtain ⟨s2, rs, _, hss⟩ := hshape
      subst hss
      simp [execStmts, exec, hargs]
  | some vals =>
    rw [hla] at hargs
    simp at hargs
    cases res with
    | none =>
      simp only at hshape
      subst hshape
      cases rv with
      | some v => simp [hasTyOpt] at hrv
      | none =>
        simp [env] at hargs
        simp [execStmts, exec, hargs, execOp, Spec.lowerOpt, env, eval, Env.bind, hsz, hal]
    | some t =>
      simp only at hshape
      obtain ⟨s2, rs, hlow, hss⟩ := hshape
      subst hss
      cases rv with
      | none => simp [hasTyOpt] at hrv
      | some v =>
        simp [hasTyOpt] at hrv
        simp [memFreeOpt] at hmr
        have hs2 := (lower_shape _ t 0 _ s2 rs hlow).1 hmr
        subst hs2
        have hci : exec env s0 (Stmt.eff (.callInterface ps.length 1 false) args []) =
            some (env.bind (.callInterface ps.length 1 false) args [MV.v v], { s0 with calls := ("CallInterface", vals.map MV.v) :: s0.calls }) := by
          simp [env] at hargs
          simp [exec, hargs, execOp, env]
        have hde : exec (env.bind (.callInterface ps.length 1 false) args [MV.v v]) { s0 with calls := ("CallInterface", vals.map MV.v) :: s0.calls }
            (Stmt.eff (.dealloc (recordSizeOff ps) (recordAlignOff ps)) [.arg 0] []) =
            some ((env.bind (.callInterface ps.length 1 false) args [MV.v v]).bind (.dealloc (recordSizeOff ps) (recordAlignOff ps)) [.arg 0] [],
              { s0 with calls := ("CallInterface", vals.map MV.v) :: s0.calls,
                        freed := (recPtr, elemSize p (.record ps), alignment p (.record ps)) :: s0.freed }) := by
          simp [exec, execOp, env, eval, Env.bind, hsz, hal]
        have hx : eval ((env.bind (.callInterface ps.length 1 false) args [MV.v v]).bind (.dealloc (recordSizeOff ps) (recordAlignOff ps)) [.arg 0] []) s0.st.mem (.res 0 (.callInterface ps.length 1 false) args) = some (.v v) := by
          simp [eval, Env.bind, keyOf_dealloc_ne_ci]
        have hrs := lower_sound p hp4 ⟨canon, true⟩ v t hmr hrv 0 _
          ((env.bind (.callInterface ps.length 1 false) args [MV.v v]).bind (.dealloc (recordSizeOff ps) (recordAlignOff ps)) [.arg 0] []) s0.st.mem {} [] rs rfl rfl hx hlow
        simp only [List.append_nil, List.cons_append, List.nil_append, execStmts, hci, hde, Option.bind_some]
        simp [exec, hrs, execOp, Spec.lowerOpt]

theorem addrStable_rp (env : Env) (m : Mem) (n addr : Nat) (sz al : Off)
    (h : env.rps[n]? = some addr) : AddrStable env m (.rp n sz al) addr := by
  intro fs ls
  simp [eval, Env.extend, Env.withLets, h]

/-- shape of the import glue: flat parameters, result through the return area -/
theorem call_import_retptr_shape (canon : Ty → Bool) (f : Func) (t : Ty) (hres : f.result = some t)
    (hflat : (flattenList f.params).length ≤ 16) (hrflat : (flatten t).length > 1)
    (ss : List Stmt) (h : call canon .guestImport true false f = .ok ss) :
    let retArea := Expr.rp 0 (recordSizeOff [t]) (recordAlignOff [t])
    let cw := Op.callWasm (flattenList f.params ++ [.ptr]) []
    ∃ (s0 : List Stmt) (stack0 : List Expr) (r : Expr),
      lowerParams ⟨canon, false⟩ f.params 0 = .ok (s0, stack0) ∧
      load ⟨canon, false⟩ 0 t retArea (Off.zero + Off.mk 0 0) = .ok r ∧
      ss = s0 ++ [Stmt.eff cw (stack0 ++ [retArea]) []] ++ [Stmt.eff (.flush 1) [r] []]
        ++ [Stmt.eff (.ret 1) [.res 0 (.flush 1) [r]] []] := by
  intro retArea cw
  have hsig : wasmSignature .guestImport f = ⟨flattenList f.params ++ [.ptr], [], false, true⟩ := by
    have h1 : ¬ (flattenList f.params).length > 16 := by omega
    simp [wasmSignature, maxFlatParams, maxFlatResults, h1, hres, flattenOpt, hrflat, Variant.isExport]
  cases hlp : lowerParams ⟨canon, false⟩ f.params 0 with
  | error e => simp [call, hsig, hlp, Variant.isExport, bind, Except.bind] at h
  | ok r0 =>
    obtain ⟨s0, stack0⟩ := r0
    have hlen := lowerParams_length _ _ _ _ _ hlp
    cases hl : load ⟨canon, false⟩ 0 t retArea (Off.zero + Off.mk 0 0) with
    | error e =>
      simp [call, hsig, hlp, hres, hlen, Variant.isExport, bind, Except.bind, pure, Except.pure, optTys, loadFields,
        fieldOffs, fieldOffsets, alignTo_zero, retArea, hl] at h
    | ok r =>
      refine ⟨s0, stack0, r, rfl, rfl, ?_⟩
      simp [call, hsig, hlp, hres, hlen, Variant.isExport, bind, Except.bind, pure, Except.pure, optTys, loadFields,
        fieldOffs, fieldOffsets, alignTo_zero, retArea, hl, resN] at h
      simp [← h, cw, retArea]

/-- **Import glue, result through the return area.**  For an imported function whose parameters are
memory-free and passed flat and whose result (of ANY type) needs more than one flat slot: the glue
performs exactly one core call whose operands are the canonical flat lowering of the arguments
followed by the return-area pointer, and returns exactly the value the canonical ABI `load`s from
the return area in the memory the callee left (stuck exactly when the spec traps). -/
theorem call_import_retptr_correct (p : Nat) (hp4 : p = 4 ∨ p = 8) (canon : Ty → Bool) (f : Func) (t : Ty)
    (hres : f.result = some t) (vals : List Val) (retAddr : Nat) (s0 : MSt)
    (hm : memFreeAll f.params = true) (ht : hasTys f.params vals = true)
    (hflat : (flattenList f.params).length ≤ 16) (hrflat : (flatten t).length > 1)
    (ss : List Stmt) (h : call canon .guestImport true false f = .ok ss) :
    let env : Env := { p, args := vals.map MV.v, rps := [retAddr] }
    let args := (specLowerAll p f.params vals {}).1.map MV.c ++ [MV.c ⟨ptrFT p, retAddr⟩]
    (execStmts env s0 ss).map (fun r => (r.2.calls, r.2.freed, r.2.st)) =
      (Spec.load p s0.st.mem t retAddr).map fun rv =>
        (("Return", [MV.v rv]) :: ("CallWasm", args) :: s0.calls, s0.freed, s0.st) := by
  intro env args
  have ⟨st0, stack0, r, hlp, hl, hss⟩ := call_import_retptr_shape canon f t hres hflat hrflat ss h
  have ⟨hs0, hargs, _⟩ := lowerParams_sound p hp4 ⟨canon, false⟩ env s0.st.mem {} rfl rfl f.params vals 0 st0 stack0 hm ht
    (by intro j hj; simp [env, hj]) hlp
  subst hs0
  subst hss
  have hrp : eval env s0.st.mem (Expr.rp 0 (recordSizeOff [t]) (recordAlignOff [t])) = some (.c ⟨ptrFT p, retAddr⟩) := by
    simp [eval, env]
  have hcall : exec env s0 (Stmt.eff (Op.callWasm (flattenList f.params ++ [.ptr]) [])
        (stack0 ++ [Expr.rp 0 (recordSizeOff [t]) (recordAlignOff [t])]) []) =
      some (env.bind (Op.callWasm (flattenList f.params ++ [.ptr]) [])
          (stack0 ++ [Expr.rp 0 (recordSizeOff [t]) (recordAlignOff [t])]) [],
        { s0 with calls := ("CallWasm", args) :: s0.calls }) := by
    have := evalList_append env s0.st.mem stack0 [Expr.rp 0 (recordSizeOff [t]) (recordAlignOff [t])] _ [.c ⟨ptrFT p, retAddr⟩]
      hargs (by simp [hrp])
    simp [exec, this, execOp, env, args]
  have hst : AddrStable env s0.st.mem (Expr.rp 0 (recordSizeOff [t]) (recordAlignOff [t])) retAddr :=
    addrStable_rp env _ 0 retAddr _ _ (by simp [env])
  have hr := load_sound p hp4 ⟨canon, false⟩ t 0 _ _ env s0.st.mem retAddr r rfl rfl hst hl
  simp only [Off.at_add, Off.zero_at, Nat.zero_add] at hr
  have h00 : (Off.mk 0 0).at p = 0 := by simp [Off.at]
  rw [h00, Nat.add_zero] at hr
  simp only [List.nil_append, List.singleton_append, List.cons_append, List.append_assoc, execStmts, hcall, Option.bind_some]
  have hr' := hr ((env.bind (Op.callWasm (flattenList f.params ++ [.ptr]) [])
          (stack0 ++ [Expr.rp 0 (recordSizeOff [t]) (recordAlignOff [t])]) []).lets)
  cases hld : Spec.load p s0.st.mem t retAddr with
  | none =>
    rw [hld] at hr'
    simp [exec, Env.withLets, Env.bind] at hr' ⊢
    simp [hr']
  | some rv =>
    rw [hld] at hr'
    simp [exec, Env.withLets, Env.bind] at hr' ⊢
    simp [hr', execOp, eval, Env.bind]

theorem call_export_async_flat_shape (canon : Ty → Bool) (f : Func) (hnm : f.isMethod = false)
    (hflat : (flattenList f.params).length ≤ 16) (hrflat : (flattenOpt f.result).length ≤ 16)
    (ss : List Stmt) (h : call canon .guestExportAsync false true f = .ok ss) :
    ∃ (args : List Expr), liftParams ⟨canon, false⟩ 16 f.params 0 = .ok args ∧
      (match f.result with
       | none => ss = [Stmt.eff (.callInterface f.params.length 0 true) args [], Stmt.eff (.asyncTaskReturn []) [] []]
       | some t => ∃ s2 rs, lower ⟨canon, false⟩ 0 t (.res 0 (.callInterface f.params.length 1 true) args) = .ok (s2, rs) ∧
           ss = [Stmt.eff (.callInterface f.params.length 1 true) args []] ++ s2 ++
             [Stmt.eff (.asyncTaskReturn (flatten t)) rs []]) := by
  have hsig : wasmSignature .guestExportAsync f = ⟨flattenList f.params, [.i32], false, false⟩ := by
    have h1 : ¬ (flattenList f.params).length > 16 := by omega
    simp [wasmSignature, maxFlatParams, h1, hnm]
  cases hlp : liftParams ⟨canon, false⟩ 16 f.params 0 with
  | error e => simp [call, hsig, hlp, Variant.isExport, maxFlatParams, bind, Except.bind] at h
  | ok args =>
    refine ⟨args, rfl, ?_⟩
    cases hres : f.result with
    | none =>
      simp [call, hsig, hlp, hres, Variant.isExport, maxFlatParams, bind, Except.bind, pure, Except.pure, flattenOpt, resN] at h
      simp [← h]
    | some t =>
      have hft : (flatten t).length ≤ 16 := by simpa [hres, flattenOpt] using hrflat
      simp [call, hsig, hlp, hres, Variant.isExport, maxFlatParams, bind, Except.bind, pure, Except.pure, flattenOpt, resN, hd,
        flatTypes, hft] at h
      cases hl : lower { canon := canon, realloc := false } 0 t
          (Expr.res 0 (Op.callInterface f.params.length 1 true) args) with
      | error e => simp [hl] at h
      | ok r =>
        obtain ⟨s2, rs⟩ := r
        have hlen := (lower_shape _ t 0 _ s2 rs hl).2
        simp [hl, hlen] at h
        exact ⟨s2, rs, hl, by simp [← h]⟩

/-- **Async export glue, everything flat.**  For an async-lifted export (callback ABI) whose
parameters and result are memory-free, with at most 16 flat parameters and at most 16 flat result
values: the user function is called exactly once with the values the canonical ABI assigns to the
incoming core values (stuck iff the spec traps), and the result is reported through **exactly one**
`task.return` whose operands are the canonical flat lowering of the result; nothing is freed. -/
theorem call_export_async_flat_correct (p : Nat) (hp4 : p = 4 ∨ p = 8) (canon : Ty → Bool) (f : Func)
    (hnm : f.isMethod = false)
    (incoming : List CVal) (rv : Option Val)
    (hm : memFreeAll f.params = true) (hflat : (flattenList f.params).length ≤ 16)
    (hwf : WfFlat incoming (Spec.flattenList p f.params))
    (hmr : memFreeOpt f.result = true) (hrflat : (flattenOpt f.result).length ≤ 16)
    (hrv : hasTyOpt f.result rv = true)
    (ss : List Stmt) (h : call canon .guestExportAsync false true f = .ok ss) :
    let env : Env := { p, args := incoming.map MV.c, ifaceResult := rv.toList.map MV.v }
    (execStmts env {} ss).map (fun r => (r.2.calls, r.2.freed)) =
      (specLiftAll p [] f.params incoming).map fun vals =>
        ([("AsyncTaskReturn", (Spec.lowerOpt p f.result rv {}).1.map MV.c), ("CallInterface", vals.map MV.v)], []) := by
  obtain ⟨im, ps, res⟩ := f
  simp only at hnm hm hflat hwf hmr hrflat hrv
  intro env
  have ⟨args, hlp, hshape⟩ := call_export_async_flat_shape canon ⟨im, ps, res⟩ hnm hflat hrflat ss h
  simp only at hlp hshape
  have hargs := liftParams_sound p hp4 ⟨canon, false⟩ env [] rfl ps incoming 0 args hm hflat hwf
    (by intro i hi; simp [env, hi]) hlp
  cases hla : specLiftAll p [] ps incoming with
  | none =>
    rw [hla] at hargs
    cases res with
    | none => simp only at hshape; subst hshape; simp [execStmts, exec, hargs]
    | some t =>
      simp only at hshape
      obtain ⟨s2, rs, _, hss⟩ := hshape
      subst hss
      simp [execStmts, exec, hargs]
  | some vals =>
    rw [hla] at hargs
    simp at hargs
    cases res with
    | none =>
      simp only at hshape
      subst hshape
      cases rv with
      | some v => simp [hasTyOpt] at hrv
      | none =>
        simp [env] at hargs
        simp [execStmts, exec, hargs, execOp, Spec.lowerOpt, env]
    | some t =>
      simp only at hshape
      obtain ⟨s2, rs, hlow, hss⟩ := hshape
      subst hss
      cases rv with
      | none => simp [hasTyOpt] at hrv
      | some v =>
        simp [hasTyOpt] at hrv
        simp [memFreeOpt] at hmr
        have hs2 := (lower_shape _ t 0 _ s2 rs hlow).1 hmr
        subst hs2
        have hci : exec env {} (Stmt.eff (.callInterface ps.length 1 true) args []) =
            some (env.bind (.callInterface ps.length 1 true) args [MV.v v],
              { calls := [("CallInterface", vals.map MV.v)] }) := by
          simp [env] at hargs
          simp [exec, hargs, execOp, env]
        have hx : eval (env.bind (.callInterface ps.length 1 true) args [MV.v v]) []
            (.res 0 (.callInterface ps.length 1 true) args) = some (.v v) := by
          simp [eval, Env.bind]
        have hrs := lower_sound p hp4 ⟨canon, false⟩ v t hmr hrv 0 _
          (env.bind (.callInterface ps.length 1 true) args [MV.v v]) [] {} [] rs rfl rfl hx hlow
        simp only [List.singleton_append, List.append_nil, List.cons_append, List.nil_append, execStmts, hci,
          Option.bind_some]
        simp [exec, hrs, execOp, Spec.lowerOpt]

end Witverif.Abi
