import Witverif.Proofs.AbiLift
/-! C01: `lift_sound` — flat lifting of memory-free types is the spec's `lift_flat`. -/
namespace Witverif.Abi
open Spec

def LiftSound (p : Nat) (c : Cfg) (t : Ty) : Prop :=
  ∀ (lvl : Nat) (xs : List Expr) (env : Env) (m : Mem) (cs : List CVal) (e : Expr),
    env.p = p → WfFlat cs (Spec.flatten p t) → Denotes env m xs cs → lift c lvl t xs = .ok e →
    ∀ fr, eval (env.withFrames fr) m e = (Spec.liftFlat p m t cs).map MV.v

theorem single_of_wf {cs : List CVal} {t : FT} (h : WfFlat cs [t]) :
    ∃ v, cs = [v] ∧ v.ty = t ∧ v.bits < 2 ^ v.ty.width := by
  cases cs with
  | nil => have := h.1; simp at this
  | cons v vs =>
    cases vs with
    | nil => exact ⟨v, rfl, by have := h.1; simpa using this, h.2 v (by simp)⟩
    | cons w ws => have := h.1; simp at this

theorem lift_leaf (p : Nat) (c : Cfg) (t : Ty) (s : ScalarOp) (ft : FT)
    (hl : ∀ lvl xs, lift c lvl t xs = .ok (sc s (hd xs)))
    (hflat : Spec.flatten p t = [ft])
    (hsem : ∀ (m : Mem) (v : CVal), scalarSem s (.c v) = (Spec.liftFlat p m t [v]).map MV.v) :
    LiftSound p c t := by
  intro lvl xs env m cs e _ hwf hden hlift fr
  rw [hl] at hlift
  simp at hlift
  subst hlift
  rw [hflat] at hwf
  obtain ⟨v, rfl, _, _⟩ := single_of_wf hwf
  rw [eval_sc, hden.head fr]
  simp [hsem m v]

theorem lift_handle (p : Nat) (c : Cfg) (t : Ty) (o : Op)
    (hl : ∀ lvl xs, lift c lvl t xs = .ok (pure1 o xs))
    (hflat : Spec.flatten p t = [.i32])
    (hsem : ∀ pp m bev (v : CVal), opSem pp m bev o [.c v] = some [.v (.handle (v.bits % 2 ^ 32))])
    (hspec : ∀ (m : Mem) (v : CVal), Spec.liftFlat p m t [v] = some (.handle v.bits)) :
    LiftSound p c t := by
  intro lvl xs env m cs e _ hwf hden hlift fr
  rw [hl] at hlift
  simp at hlift
  subst hlift
  rw [hflat] at hwf
  obtain ⟨v, rfl, hty, hb⟩ := single_of_wf hwf
  have hx := hden fr
  simp only [pure1, eval, hx, List.map_cons, List.map_nil, Option.bind_some, hsem, hspec]
  rw [hty] at hb
  simp [FT.width] at hb
  simp [Nat.mod_eq_of_lt hb]

end Witverif.Abi

namespace Witverif.Abi
open Spec

def optVals (ov : Option Val) : List MV := ov.toList.map MV.v

def ArmLiftSound (p : Nat) (c : Cfg) (o : Option Ty) : Prop :=
  ∀ (lvl : Nat) (params1 : List CoreTy) (inputs : List Expr) (env : Env) (m : Mem) (vs : List CVal) (arm : List Expr),
    env.p = p → WfFlat vs (params1.map (CoreTy.erase p)) →
    (∀ (k : Nat) (h : k < (flattenOpt o).length), ∃ h' : k < params1.length, le ((flattenOpt o)[k]) (params1[k]) = true) →
    Denotes env m inputs vs → liftArm c lvl o params1 inputs = .ok arm →
    ∀ fr, evalList (env.withFrames fr) m arm = (Spec.liftOpt p m o vs).map optVals

theorem armLift_none (p : Nat) (c : Cfg) : ArmLiftSound p c none := by
  intro lvl params1 inputs env m vs arm _ _ _ _ h fr
  simp [liftArm, pure, Except.pure] at h
  subst h
  simp [Spec.liftOpt, optVals]

theorem armLift_some (p : Nat) (hp : p = 4 ∨ p = 8) (c : Cfg) (t : Ty) (ih : LiftSound p c t) :
    ArmLiftSound p c (some t) := by
  intro lvl params1 inputs env m vs arm hpe hwf hb hden h fr
  simp only [liftArm, bind_ok] at h
  obtain ⟨temp, htemp, ins, hins, r, hr, hp'⟩ := h
  have ht := flatU_ok htemp
  subst ht
  simp only [armInputs, bind_ok] at hins
  obtain ⟨casts, hcasts, hins⟩ := hins
  simp [pure, Except.pure] at hins hp'
  subst hins; subst hp'
  have hb' : ∀ (k : Nat) (h : k < (flatten t).length), ∃ h' : k < params1.length, le ((flatten t)[k]) (params1[k]) = true := by
    simpa [flattenOpt] using hb
  have ⟨hz, hwfc⟩ := casts_coerceBack p hp (flatten t) params1 casts vs hcasts hb' hwf
  have hle : (flatten t).length ≤ params1.length := by
    by_cases h0 : (flatten t).length = 0
    · omega
    · have ⟨h', _⟩ := hb' ((flatten t).length - 1) (by omega); omega
  have hvl : vs.length = params1.length := by simpa using hwf.length
  have hil : inputs.length = vs.length := hden.length
  have hcl := castsFor_length _ _ _ hcasts
  have hden' : Denotes env m (applyCasts (casts.take (flatten t).length) (inputs.take (flatten t).length))
      (coerceBack vs ((flatten t).map (CoreTy.erase p))) := by
    intro fr'
    have h1 := (hden.take (flatten t).length) fr'
    have := evalList_applyCasts (env.withFrames fr') m (casts.take (flatten t).length)
      (inputs.take (flatten t).length) (vs.take (flatten t).length)
      (by simp [hcl]; omega) h1 (by simp; omega)
      (by rw [withFrames_p, hpe]; exact (castsFor_typed p hp _ _ casts vs hcasts hwf.1).take _)
    rw [this, withFrames_p, hpe, hz]
  rw [flatten_erase p hp t] at hwfc hden'
  have := ih (lvl + 1) _ env m _ r hpe hwfc hden' hr fr
  simp only [evalList_cons, evalList_nil, this, Spec.liftOpt]
  cases Spec.liftFlat p m t (coerceBack vs (Spec.flatten p t)) <;> simp [optVals]

/-- fixed-length lists: `n` chunks lifted one after the other -/
theorem liftMany_sound (p : Nat) (hp : p = 4 ∨ p = 8) (c : Cfg) (e : Ty) (ih : LiftSound p c e) (lvl : Nat)
    (env : Env) (m : Mem) (hpe : env.p = p) :
    ∀ (n : Nat) (xs : List Expr) (cs : List CVal) (elems : List Expr),
      WfFlat cs (Spec.rep (Spec.flatten p e) n) → Denotes env m xs cs →
      (chunks xs (List.replicate n (flatten e).length)).mapM (lift c lvl e) = .ok elems →
      ∀ fr, evalList (env.withFrames fr) m elems
        = (liftMany (Spec.liftFlat p m e) (Spec.flatten p e).length n cs).map (·.map MV.v) := by
  intro n
  induction n with
  | zero =>
    intro xs cs elems _ _ h fr
    simp [chunks, pure, Except.pure] at h
    subst h
    simp [liftMany]
  | succ n ihn =>
    intro xs cs elems hwf hden h fr
    simp only [List.replicate_succ, chunks, List.mapM_cons, bind_ok] at h
    obtain ⟨r, hr, rest, hrest, hp'⟩ := h
    simp [pure, Except.pure] at hp'
    subst hp'
    have hk : (flatten e).length = (Spec.flatten p e).length := by
      rw [← flatten_erase p hp e]; simp
    have hwf' : WfFlat cs (Spec.flatten p e ++ Spec.rep (Spec.flatten p e) n) := by simpa [Spec.rep] using hwf
    have ⟨hw1, hw2⟩ := WfFlat.split hwf'
    rw [hk] at hr hrest
    have e1 := ih lvl _ env m _ r hpe hw1 (hden.take _) hr fr
    have e2 := ihn _ _ rest hw2 (hden.drop _) (by rw [hk]; exact hrest) fr
    simp only [evalList_cons, e1, e2, liftMany]
    cases Spec.liftFlat p m e (List.take (Spec.flatten p e).length cs) <;> simp
    cases liftMany (Spec.liftFlat p m e) (Spec.flatten p e).length n (List.drop (Spec.flatten p e).length cs) <;> simp

end Witverif.Abi
