import Witverif.Proofs.AbiLower4
/-! C01: main mutual induction — flat lowering of memory-free types. -/
namespace Witverif.Abi
open Spec

theorem armOpt_sound (p : Nat) (hp4 : p = 4 ∨ p = 8) (c : Cfg) (o : Option Ty) (pv : Option Val)
    (hm : memFreeOpt o = true) (ht : hasTyOpt o pv = true)
    (ih : ∀ t v, o = some t → pv = some v → LowerSound p c t v) : ArmSound p c o pv := by
  cases o with
  | none =>
    cases pv with
    | none => exact arm_none_sound p c
    | some v => simp [hasTyOpt] at ht
  | some t =>
    cases pv with
    | none => simp [hasTyOpt] at ht
    | some v =>
      simp [hasTyOpt] at ht
      simp [memFreeOpt] at hm
      exact arm_some_sound p hp4 c t v hm ht (ih t v rfl rfl)

theorem lowerFlat_length (p : Nat) (hp4 : p = 4 ∨ p = 8) (v : Val) (t : Ty) (st : St)
    (hm : memFree t = true) (ht : hasTy t v = true) :
    (Spec.lowerFlat p t v st).1.length = (flatten t).length := by
  have ⟨_, hwf⟩ := lowerFlat_wf p v t st hm ht
  have := congrArg List.length hwf.1
  rw [← flatten_erase p hp4 t] at this
  simpa using this

/-- leaves: one scalar instruction -/
theorem leaf_sound (p : Nat) (c : Cfg) (t : Ty) (v : Val) (s : ScalarOp) (cv : CVal)
    (hl : ∀ lvl x, lower c lvl t x = .ok ([], [sc s x]))
    (hs : scalarSem s (.v v) = some (.c cv))
    (hspec : ∀ st, (Spec.lowerFlat p t v st).1 = [cv]) : LowerSound p c t v := by
  intro lvl x env m st ss es _ _ hx h
  rw [hl] at h
  simp at h
  obtain ⟨rfl, rfl⟩ := h
  simp [eval_sc, hx, hs, hspec]

/-- handle-like leaves -/
theorem handle_sound (p : Nat) (c : Cfg) (t : Ty) (h : Nat) (o : Op)
    (hl : ∀ lvl x, lower c lvl t x = .ok ([], [pure1 o [x]]))
    (hsem : ∀ pp m bev, opSem pp m bev o [.v (.handle h)] = some [.c ⟨.i32, h⟩])
    (hspec : ∀ st, (Spec.lowerFlat p t (.handle h) st).1 = [ci32 h]) : LowerSound p c t (.handle h) := by
  intro lvl x env m st ss es _ _ hx hlow
  rw [hl] at hlow
  simp at hlow
  obtain ⟨rfl, rfl⟩ := hlow
  simp [pure1, eval, hx, hsem, hspec, ci32]

end Witverif.Abi
